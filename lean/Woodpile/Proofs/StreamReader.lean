/-
Helper lemmas for C06: the incremental decoder as the reader drives it, the
segment scanner, one `step` of `next_record_bytes`, whole calls and sequences
of calls.
-/
import Woodpile.Proofs.Stream

namespace Woodpile.Stream
open Woodpile.Arena Woodpile.ReadN Woodpile.Hcobs Woodpile.Pipe

/-! ### The decoder, piece by piece -/

/-- the pieces as `decode_anchored` feeds them (`Method.borrow`) -/
def borrowed (ds : List (List UInt8)) : List (Method × List UInt8) := ds.map (fun d => (Method.borrow, d))

theorem borrowed_append (a b : List (List UInt8)) : borrowed (a ++ b) = borrowed a ++ borrowed b := by
  simp [borrowed]

/-- The incremental decoder `Dec` (production parameters `p`) run over the given
pieces and finished: the decoded bytes, or `none` if it reports an error. -/
def decodePieces (p : Params) (ds : List (List UInt8)) : Option (List UInt8) :=
  match Dec.output p (borrowed ds) with
  | .ok d => some d
  | .error _ => none

theorem runPieces_nil (p : Params) (s : DecState) (acc : List Emit) :
    Dec.runPieces p [] s acc = (match Dec.finish s with | .ok () => .ok acc | .error e => .error e) := by
  rfl

theorem runPieces_cons (p : Params) (m : Method) (d : List UInt8) (rest : List (Method × List UInt8))
    (s : DecState) (acc : List Emit) :
    Dec.runPieces p ((m, d) :: rest) s acc =
      (match Dec.feedAll p m s d with
       | .error (e, _) => .error e
       | .ok (s', es) => Dec.runPieces p rest s' (acc ++ es)) := by
  rfl

/-- `After p ds rc`: the decoder inside `rc` is where feeding the pieces `ds`
from the initial state leaves it. -/
def After (p : Params) (ds : List (List UInt8)) (rc : Rec) : Prop :=
  ∀ more, Dec.runPieces p (borrowed ds ++ more) .initial [] = Dec.runPieces p more rc.dec rc.emits

theorem after_nil (p : Params) (rc : Rec) (h1 : rc.dec = .initial) (h2 : rc.emits = []) : After p [] rc := by
  intro more; simp [borrowed, h1, h2]

theorem after_step_ok (p : Params) (ds : List (List UInt8)) (rc : Rec) (bs : List UInt8) (d' : DecState)
    (es : List Emit) (h : After p ds rc) (hf : Dec.feedAll p .borrow rc.dec bs = .ok (d', es)) :
    After p (ds ++ [bs]) { rc with dec := d', emits := rc.emits ++ es } := by
  intro more
  have : borrowed (ds ++ [bs]) ++ more = borrowed ds ++ ((Method.borrow, bs) :: more) := by
    simp [borrowed]
  rw [this, h, runPieces_cons, hf]

theorem after_step_err (p : Params) (ds : List (List UInt8)) (rc : Rec) (bs : List UInt8) (e : DecErr)
    (es : List Emit) (h : After p ds rc) (hf : Dec.feedAll p .borrow rc.dec bs = .error (e, es))
    (more : List (List UInt8)) : decodePieces p (ds ++ bs :: more) = none := by
  have : borrowed (ds ++ bs :: more) = borrowed ds ++ ((Method.borrow, bs) :: borrowed more) := by
    simp [borrowed]
  simp only [decodePieces, Dec.output, this]
  rw [h, runPieces_cons, hf]

theorem after_finish (p : Params) (ds : List (List UInt8)) (rc : Rec) (h : After p ds rc) :
    decodePieces p ds = (match Dec.finish rc.dec with | .ok () => some rc.bytes | .error _ => none) := by
  have := h []
  simp only [List.append_nil] at this
  simp only [decodePieces, Dec.output, this, runPieces_nil]
  cases Dec.finish rc.dec with
  | ok u => cases u; rfl
  | error e => rfl

/-! ### The decoder only ever appends -/

def appended : List Emit → List UInt8
  | [] => []
  | ⟨.append bs, _⟩ :: t => bs ++ appended t
  | ⟨.register _, _⟩ :: t => appended t
  | ⟨.fill _ _, _⟩ :: t => appended t

def AllAppend (es : List Emit) : Prop := ∀ e ∈ es, ∃ bs, e.op = Op.append bs

theorem allAppend_nil : AllAppend [] := by intro e h; simp at h

theorem allAppend_append {a b : List Emit} (ha : AllAppend a) (hb : AllAppend b) : AllAppend (a ++ b) := by
  intro e h
  rcases List.mem_append.mp h with h | h
  · exact ha e h
  · exact hb e h

theorem allAppend_left {a b : List Emit} (h : AllAppend (a ++ b)) : AllAppend a :=
  fun e he => h e (List.mem_append.mpr (Or.inl he))

theorem appended_append (a b : List Emit) : appended (a ++ b) = appended a ++ appended b := by
  induction a with
  | nil => rfl
  | cons e t ih =>
    obtain ⟨op, m⟩ := e
    cases op <;> simp [appended, ih]

theorem run_appends (es : List Emit) (h : AllAppend es) : ∀ q : Pipe,
    Pipe.run q (es.map (·.op)) = q.append (appended es) := by
  induction es with
  | nil => intro q; simp [Pipe.run, appended, Pipe.append]
  | cons e t ih =>
    intro q
    obtain ⟨bs, hb⟩ := h e (by simp)
    obtain ⟨op, m⟩ := e
    simp only at hb
    subst hb
    have ht : AllAppend t := fun x hx => h x (by simp [hx])
    have := ih ht (q.append bs)
    simp only [Pipe.run, List.map_cons, List.foldl_cons, Pipe.apply] at this ⊢
    rw [this]
    simp [Pipe.append, appended, List.append_assoc]

theorem cellBytes_map_byte (l : List UInt8) : cellBytes (l.map Cell.byte) = l := by
  induction l with
  | nil => rfl
  | cons a t ih => simp [cellBytes, ih]

theorem rec_size_eq (rc : Rec) (h : AllAppend rc.emits) : rc.size = (appended rc.emits).length := by
  simp [Rec.size, run_appends _ h, Pipe.append, Pipe.size, Pipe.empty]

theorem rec_bytes_eq (rc : Rec) (h : AllAppend rc.emits) : rc.bytes = appended rc.emits := by
  simp [Rec.bytes, run_appends _ h, Pipe.append, Pipe.bytes, Pipe.empty, cellBytes_map_byte]

theorem once_allAppend (p : Params) (m : Method) (s : DecState) (b : UInt8) (rest : List UInt8) :
    (∀ o, Dec.once p m s b rest = .ok o → AllAppend o.emits) ∧
    (∀ e es, Dec.once p m s b rest = .error (e, es) → AllAppend es) := by
  have single : ∀ bs mm, AllAppend [(⟨.append bs, mm⟩ : Emit)] := by
    intro bs mm e he; simp at he; subst he; exact ⟨bs, rfl⟩
  have ite_ok : ∀ (c : Bool) bs mm, AllAppend (if c then [(⟨.append bs, mm⟩ : Emit)] else []) := by
    intro c bs mm; cases c
    · exact allAppend_nil
    · exact single bs mm
  cases s with
  | initial =>
    simp only [Dec.once]
    constructor
    · intro o h; split at h
      · simp at h
      · split at h <;> (simp at h; subst h; exact allAppend_nil)
    · intro e es h; split at h
      · simp at h; obtain ⟨-, rfl⟩ := h; exact allAppend_nil
      · split at h <;> simp at h
  | beforeChunk ins =>
    simp only [Dec.once]
    constructor
    · intro o h; split at h
      · simp at h
      · simp at h; subst h; exact ite_ok ins _ _
    · intro e es h; split at h
      · simp at h; obtain ⟨-, rfl⟩ := h; exact ite_ok ins _ _
      · simp at h
  | midHeader b0 =>
    simp only [Dec.once]
    constructor
    · intro o h; split at h
      · simp at h
      · split at h
        · simp at h
        · split at h <;> (simp at h; subst h; exact allAppend_nil)
    · intro e es h; split at h
      · simp at h; obtain ⟨-, rfl⟩ := h; exact allAppend_nil
      · split at h
        · simp at h; obtain ⟨-, rfl⟩ := h; exact allAppend_nil
        · split at h <;> simp at h
  | inChunk rem term =>
    simp only [Dec.once]
    constructor
    · intro o h; simp at h; subst h; exact single _ _
    · intro e es h; simp at h

theorem feed_allAppend (p : Params) (m : Method) : ∀ (fuel : Nat) (s : DecState) (input : List UInt8),
    (∀ s' es, Dec.feed p m fuel s input = .ok (s', es) → AllAppend es) ∧
    (∀ e es, Dec.feed p m fuel s input = .error (e, es) → AllAppend es) := by
  intro fuel
  induction fuel with
  | zero =>
    intro s input
    simp only [Dec.feed]
    exact ⟨fun s' es h => by simp at h; obtain ⟨-, rfl⟩ := h; exact allAppend_nil, fun e es h => by simp at h⟩
  | succ fuel ih =>
    intro s input
    cases input with
    | nil =>
      simp only [Dec.feed]
      exact ⟨fun s' es h => by simp at h; obtain ⟨-, rfl⟩ := h; exact allAppend_nil, fun e es h => by simp at h⟩
    | cons b rest =>
      simp only [Dec.feed]
      cases ho : Dec.once p m s b rest with
      | error ee =>
        obtain ⟨e0, es0⟩ := ee
        simp only
        refine ⟨fun s' es h => by simp at h, fun e es h => ?_⟩
        simp at h
        rw [← h.2]
        exact (once_allAppend p m s b rest).2 e0 es0 ho
      | ok o =>
        simp only
        have ho' := (once_allAppend p m s b rest).1 o ho
        cases hf : Dec.feed p m fuel o.st ((b :: rest).drop o.consumed) with
        | error ee =>
          obtain ⟨e1, es1⟩ := ee
          simp only
          refine ⟨fun s' es h => by simp at h, fun e es h => ?_⟩
          simp at h
          rw [← h.2]
          exact allAppend_append ho' ((ih o.st _).2 e1 es1 hf)
        | ok pr =>
          obtain ⟨s1, es1⟩ := pr
          simp only
          refine ⟨fun s' es h => ?_, fun e es h => by simp at h⟩
          simp at h
          rw [← h.2]
          exact allAppend_append ho' ((ih o.st _).1 s1 es1 hf)

/-- `runPieces` only extends its accumulator, by appends. -/
theorem runPieces_prefix (p : Params) : ∀ (more : List (Method × List UInt8)) (s : DecState) (acc es : List Emit),
    Dec.runPieces p more s acc = .ok es → ∃ extra, es = acc ++ extra ∧ AllAppend extra := by
  intro more
  induction more with
  | nil =>
    intro s acc es h
    rw [runPieces_nil] at h
    cases hf : Dec.finish s with
    | ok u => rw [hf] at h; simp at h; exact ⟨[], by simp [h], allAppend_nil⟩
    | error e => rw [hf] at h; simp at h
  | cons md rest ih =>
    intro s acc es h
    obtain ⟨m, d⟩ := md
    rw [runPieces_cons] at h
    cases hf : Dec.feedAll p m s d with
    | error ee => obtain ⟨e, es0⟩ := ee; rw [hf] at h; simp at h
    | ok pr =>
      obtain ⟨s', es1⟩ := pr
      rw [hf] at h
      simp only at h
      obtain ⟨extra, h1, h2⟩ := ih s' (acc ++ es1) es h
      refine ⟨es1 ++ extra, by rw [h1]; simp, allAppend_append ?_ h2⟩
      exact (feed_allAppend p m _ s d).1 s' es1 hf

/-! ### Judges with a start-offset limit and a monotone size threshold -/

/-- `Stop` at or after `limit`, `SkipRecord` when the decoded size is `tooBig`,
else `KeepGoing`.  Both `keepGoingJudge` and `chunk_judge` are of this form. -/
def threshJudge (limit : Option Nat) (tooBig : Nat → Bool) : Judge := fun _ c =>
  if atLimit limit c.start then .stop else if tooBig c.size then .skipRecord else .keepGoing

theorem keepGoingJudge_eq : keepGoingJudge = threshJudge none (fun _ => false) := by
  funext h c; simp [keepGoingJudge, threshJudge, atLimit]

theorem chunkJudge_eq (maxSize : Nat) (limit : Option Nat) :
    chunkJudge maxSize limit = threshJudge limit (fun n => decide (maxSize < n)) := by
  funext h c; simp [chunkJudge, threshJudge]

theorem atLimit_mono (limit : Option Nat) (a b : Nat) (hab : a ≤ b) (h : atLimit limit a = true) :
    atLimit limit b = true := by
  cases limit with
  | none => simp [atLimit] at h
  | some l => simp [atLimit] at h ⊢; omega

/-- A returned record: decoded bytes and the byte range of its encoding. -/
abbrev Rcd := List UInt8 × Nat × Nat

/-- What a segment contributes to the output: nothing if it is empty, does not
decode, or decodes to something too big. -/
def contrib (p : Params) (tooBig : Nat → Bool) (sg : Seg) : List Rcd :=
  if sg.bytes = [] then []
  else match decodePieces p [sg.bytes] with
    | some d => if tooBig d.length then [] else [(d, sg.start, sg.stop)]
    | none => []

/-- The records a reader with `threshJudge limit tooBig` must return for a list
of segments: those that contribute, cut at the first segment (empty or not)
that starts at or after the limit. -/
def recordsT (p : Params) (limit : Option Nat) (tooBig : Nat → Bool) : List Seg → List Rcd
  | [] => []
  | sg :: rest => if atLimit limit sg.start then [] else contrib p tooBig sg ++ recordsT p limit tooBig rest

/-- The incremental decoder does not care how a record is cut into pieces.
(Consequence of `Dec` = `Spec.decode`, proved for C01/C07; see `splitIndep_of_spec`.) -/
def SplitIndep (p : Params) : Prop :=
  ∀ ds : List (List UInt8), (∀ d ∈ ds, d ≠ []) → ds ≠ [] → decodePieces p ds = decodePieces p [ds.flatten]

theorem splitIndep_of_spec (p : Params)
    (hdec : ∀ pieces d, Dec.output p pieces = .ok d ↔ Spec.decode p (pieces.map (·.2)).flatten = some d) :
    SplitIndep p := by
  intro ds _ _
  have key : ∀ xs : List (List UInt8), ∀ d, decodePieces p xs = some d ↔ Spec.decode p xs.flatten = some d := by
    intro xs d
    have hm : (borrowed xs).map (·.2) = xs := by
      simp only [borrowed, List.map_map]
      induction xs with
      | nil => rfl
      | cons x t ih => simp only [List.map_cons, ih]; rfl
    have := hdec (borrowed xs) d
    rw [hm] at this
    rw [← this]
    simp only [decodePieces]
    cases Dec.output p (borrowed xs) with
    | ok x => simp
    | error e => simp
  apply Option.ext
  intro d
  rw [key, key]; simp

def tailPieces (tail : List UInt8) : List (List UInt8) := if tail = [] then [] else [tail]

theorem splitIndep_tail (p : Params) (hs : SplitIndep p) (ds : List (List UInt8)) (tail : List UInt8)
    (hne : ∀ d ∈ ds, d ≠ []) (hds : ds ≠ []) :
    decodePieces p [ds.flatten ++ tail] = decodePieces p (ds ++ tailPieces tail) := by
  have h1 : (ds ++ tailPieces tail).flatten = ds.flatten ++ tail := by
    unfold tailPieces; split <;> simp [*]
  rw [hs (ds ++ tailPieces tail) ?_ (by simp [hds]), h1]
  intro d hd
  rcases List.mem_append.mp hd with h | h
  · exact hne d h
  · unfold tailPieces at h
    split at h
    · simp at h
    · simp at h; subst h; assumption

/-! ### The segment scanner -/

theorem segScan_nil (start : Nat) (cur : List UInt8) : segScan start cur [] = [⟨cur, start, start + cur.length⟩] := by
  simp [segScan]

theorem segScan_head (l : List UInt8) : ∀ (start : Nat) (cur : List UInt8),
    ∃ sg rest, segScan start cur l = sg :: rest ∧ sg.start = start := by
  induction l with
  | nil => intro start cur; exact ⟨_, [], segScan_nil start cur, rfl⟩
  | cons a t ih =>
    intro start cur
    cases t with
    | nil => exact ⟨⟨cur ++ [a], start, start + cur.length + 1⟩, [], by simp [segScan], rfl⟩
    | cons b t' =>
      by_cases h : a = FE ∧ b = FD
      · exact ⟨_, _, by simp only [segScan, h, and_self, if_true]; rfl, rfl⟩
      · obtain ⟨sg, rest, h1, h2⟩ := ih start (cur ++ [a])
        exact ⟨sg, rest, by simp only [segScan, h, if_false]; exact h1, h2⟩

theorem recordsT_at_limit (p : Params) (limit : Option Nat) (tooBig : Nat → Bool) (start : Nat)
    (cur l : List UInt8) (h : atLimit limit start = true) :
    recordsT p limit tooBig (segScan start cur l) = [] := by
  obtain ⟨sg, rest, h1, h2⟩ := segScan_head l start cur
  rw [h1]; simp [recordsT, h2, h]

/-! ### One chunk of `next_record_bytes` under a threshold judge -/

section Thresh
variable (p : Params) (limit : Option Nat) (tooBig : Nat → Bool)

/-- What `next_record_bytes`' locals mean, relative to the chunker's offset
`off`; `cur` is the part of the current segment consumed so far. -/
structure RInv (off : Nat) (rc : Rec) (cur : List UInt8) : Prop where
  idle : rc.st = .skipSentinel → rc.start = rc.stop ∧ cur = [] ∧ rc.emits = [] ∧ rc.dec = .initial
  busy : rc.st ≠ .skipSentinel →
    rc.start + cur.length = off ∧ rc.stop = off ∧ cur ≠ [] ∧ atLimit limit rc.start = false
  dec : rc.st = .decodeRecord →
    (∃ ds, ds.flatten = cur ∧ (∀ d ∈ ds, d ≠ []) ∧ After p ds rc) ∧ tooBig rc.size = false
  skip : rc.st = .skipRecord → ∀ tail a b, contrib p tooBig ⟨cur ++ tail, a, b⟩ = []
  apps : AllAppend rc.emits

/-- the segments still to be accounted for: the current one (with `cur` already
consumed) and everything after -/
def segsOf (off : Nat) (rc : Rec) (cur s : List UInt8) : List Seg :=
  if rc.st = .skipSentinel then segScan off [] s else segScan rc.start cur s

theorem rinv_fresh (off : Nat) : RInv p limit tooBig off Rec.fresh [] where
  idle := fun _ => ⟨rfl, rfl, rfl, rfl⟩
  busy := fun h => absurd rfl h
  dec := fun h => by simp [Rec.fresh] at h
  skip := fun h => by simp [Rec.fresh] at h
  apps := allAppend_nil

theorem consult_thresh (s : RdState) (r : Reader) (rc : Rec) :
    consult (threshJudge limit tooBig) s r rc =
      if atLimit limit rc.start then
        .done .none { s with hist := s.hist ++ [⟨rc.start, rc.stop, rc.size⟩] } r
      else if tooBig rc.size then
        .continue { s with hist := s.hist ++ [⟨rc.start, rc.stop, rc.size⟩] } r { rc with st := .skipRecord }
      else .continue { s with hist := s.hist ++ [⟨rc.start, rc.stop, rc.size⟩] } r rc := by
  unfold consult threshJudge
  by_cases h1 : atLimit limit rc.start = true
  · simp [h1]
  · by_cases h2 : tooBig rc.size = true
    · simp [h1, h2]
    · simp [h1, h2]

/-- A decode error on the next piece rejects every completion of the segment. -/
theorem reject_of_error (hs : SplitIndep p) (ds : List (List UInt8)) (rc : Rec) (bs : List UInt8)
    (e : DecErr) (es : List Emit) (hne : ∀ d ∈ ds, d ≠ []) (hbs : bs ≠ []) (hafter : After p ds rc)
    (hf : Dec.feedAll p .borrow rc.dec bs = .error (e, es)) (tail : List UInt8) (a b : Nat) :
    contrib p tooBig ⟨(ds.flatten ++ bs) ++ tail, a, b⟩ = [] := by
  have h1 : ds.flatten ++ bs = (ds ++ [bs]).flatten := by simp
  have h2 := splitIndep_tail p hs (ds ++ [bs]) tail
    (by intro d hd; rcases List.mem_append.mp hd with h | h
        · exact hne d h
        · simp at h; subst h; exact hbs) (by simp)
  have h3 : decodePieces p ((ds ++ [bs]) ++ tailPieces tail) = none := by
    have := after_step_err p ds rc bs e es hafter hf (tailPieces tail)
    simpa using this
  simp only [contrib]
  rw [h1, h2, h3]
  split <;> rfl

/-- Once the decoded size is too big, every completion of the segment is
rejected: the decoder only appends. -/
theorem reject_of_size (hs : SplitIndep p) (hmono : ∀ a b, a ≤ b → tooBig a = true → tooBig b = true)
    (ds : List (List UInt8)) (rc : Rec) (hne : ∀ d ∈ ds, d ≠ []) (hds : ds ≠ []) (hafter : After p ds rc)
    (happs : AllAppend rc.emits) (hbig : tooBig rc.size = true) (tail : List UInt8) (a b : Nat) :
    contrib p tooBig ⟨ds.flatten ++ tail, a, b⟩ = [] := by
  have h2 := splitIndep_tail p hs ds tail hne hds
  simp only [contrib]
  rw [h2]
  split
  · rfl
  · have h3 : Dec.runPieces p (borrowed (ds ++ tailPieces tail)) .initial [] =
        Dec.runPieces p (borrowed (tailPieces tail)) rc.dec rc.emits := by
      rw [borrowed_append]; exact hafter _
    simp only [decodePieces, Dec.output, h3]
    cases hr : Dec.runPieces p (borrowed (tailPieces tail)) rc.dec rc.emits with
    | error e => rfl
    | ok es =>
      simp only
      obtain ⟨extra, he, hx⟩ := runPieces_prefix p _ _ _ _ hr
      have hall : AllAppend es := by rw [he]; exact allAppend_append happs hx
      have hlen : rc.size ≤ (Pipe.run Pipe.empty (es.map (·.op))).bytes.length := by
        rw [rec_size_eq rc happs]
        have := rec_bytes_eq ⟨rc.st, rc.start, rc.stop, rc.dec, es⟩ hall
        simp only [Rec.bytes] at this
        rw [this, he, appended_append]; simp
      rw [hmono _ _ hlen hbig]; rfl

/-- The code after the inner loop: the finished segment is returned iff it
contributes; otherwise the call retries with fresh locals. -/
theorem afterBreak_spec (hs : SplitIndep p) (off : Nat) (rc : Rec) (cur : List UInt8)
    (hinv : RInv p limit tooBig off rc cur) (hbusy : rc.st ≠ .skipSentinel) (s2 : RdState) (r : Reader) :
    (afterBreak s2 r rc = .done (.some rc.bytes rc.start off) s2 r ∧
      contrib p tooBig ⟨cur, rc.start, off⟩ = [(rc.bytes, rc.start, off)]) ∨
    (afterBreak s2 r rc = .continue s2 r Rec.fresh ∧ contrib p tooBig ⟨cur, rc.start, off⟩ = []) := by
  obtain ⟨h1, h2, h3, h4⟩ := hinv.busy hbusy
  have hne : rc.start ≠ rc.stop := by
    have : 0 < cur.length := List.length_pos_iff.mpr h3
    omega
  unfold afterBreak
  simp only [hne, if_false]
  cases hst : rc.st with
  | skipSentinel => exact absurd hst hbusy
  | skipRecord =>
    right
    simp only [if_true]
    have := hinv.skip hst [] rc.start off
    simpa using this
  | decodeRecord =>
    obtain ⟨⟨ds, hd1, hd2, hd3⟩, hsz⟩ := hinv.dec hst
    have hds : ds ≠ [] := by rintro rfl; exact h3 (by simpa using hd1.symm)
    have hdp : decodePieces p [cur] = decodePieces p ds := by rw [hs ds hd2 hds, hd1]
    have hfin := after_finish p ds rc hd3
    simp only [reduceCtorEq, if_false]
    cases hf : Dec.finish rc.dec with
    | error e =>
      right
      rw [hf] at hfin
      refine ⟨rfl, ?_⟩
      simp only [contrib, h3, if_false, hdp, hfin]
    | ok u =>
      left
      cases u
      rw [hf] at hfin
      refine ⟨by rw [h2], ?_⟩
      have hb : tooBig rc.bytes.length = false := by
        rw [rec_bytes_eq rc hinv.apps, ← rec_size_eq rc hinv.apps]; exact hsz
      simp only [contrib, h3, if_false, hdp, hfin, hb]
      rfl

/-- What a finished call must have returned, given the records still expected,
and what is expected of the calls after it. -/
def DonePost (expected : List Rcd) (res : NextRes) (off' : Nat) (after : List UInt8) : Prop :=
  match expected with
  | [] => res = .none ∧ recordsT p limit tooBig (segScan off' [] after) = []
  | (d, a, b) :: rest => res = .some d a b ∧ recordsT p limit tooBig (segScan off' [] after) = rest

/-- What handling one chunk does: either the call is over (`DonePost`), or the
locals again satisfy `RInv` one chunk further with the same records expected. -/
def StepSpec (s1 : RdState) (r : Reader) (rc : Rec) (expected : List Rcd) (off' : Nat)
    (after : List UInt8) (progress : Prop) : StepOut → Prop
  | .done res s' r' => r' = r ∧ s'.chunker = s1.chunker ∧ s'.mem = s1.mem ∧ DonePost p limit tooBig expected res off' after
  | .continue s' r' rc' => r' = r ∧ s'.chunker = s1.chunker ∧ s'.mem = s1.mem ∧
      (∃ cur', RInv p limit tooBig off' rc' cur' ∧
        recordsT p limit tooBig (segsOf off' rc' cur' after) = expected) ∧
      (progress ∨ (rc.st ≠ .skipSentinel ∧ rc'.st = .skipSentinel))

theorem size_of_no_emits (rc : Rec) (h : rc.emits = []) : rc.size = 0 := by
  simp [Rec.size, h, Pipe.run, Pipe.size, Pipe.empty]

theorem sentinel_busy (hs : SplitIndep p) (s2 s1 : RdState) (hc : s2.chunker = s1.chunker) (hm : s2.mem = s1.mem)
    (r : Reader) (rc : Rec)
    (cur after : List UInt8) (off : Nat) (hinv : RInv p limit tooBig off rc cur) (hst : rc.st ≠ .skipSentinel) :
    StepSpec p limit tooBig s1 r rc (recordsT p limit tooBig (segsOf off rc cur (FE :: FD :: after)))
      (off + 2) after True (afterBreak s2 r rc) := by
  obtain ⟨b1, b2, b3, b4⟩ := hinv.busy hst
  have hE : recordsT p limit tooBig (segsOf off rc cur (FE :: FD :: after)) =
      contrib p tooBig ⟨cur, rc.start, off⟩ ++ recordsT p limit tooBig (segScan (off + 2) [] after) := by
    simp only [segsOf, hst, if_false]
    rw [segScan_sentinel, b1]
    simp [recordsT, b4]
  rw [hE]
  rcases afterBreak_spec p limit tooBig hs off rc cur hinv hst s2 r with ⟨he, hcn⟩ | ⟨he, hcn⟩
  · rw [he, hcn]
    exact ⟨rfl, hc, hm, rfl, rfl⟩
  · rw [he, hcn]
    refine ⟨rfl, hc, hm, ⟨[], rinv_fresh p limit tooBig _, ?_⟩, Or.inl trivial⟩
    simp [segsOf, Rec.fresh]

theorem onChunk_sentinel (hs : SplitIndep p) (h0 : tooBig 0 = false) (s1 : RdState) (r : Reader) (rc : Rec)
    (cur after : List UInt8) (off : Nat) (hinv : RInv p limit tooBig off rc cur) :
    StepSpec p limit tooBig s1 r rc (recordsT p limit tooBig (segsOf off rc cur (FE :: FD :: after)))
      (off + 2) after True (onChunk p (threshJudge limit tooBig) s1 r rc (.sentinel (off + 2))) := by
  unfold onChunk
  have hlt : ¬ off + 2 < 2 := by omega
  simp only [hlt, if_false]
  cases hst : rc.st with
  | decodeRecord =>
    simp only
    exact sentinel_busy p limit tooBig hs { s1 with lastSentinel := off + 2 - 2 } s1 rfl rfl r rc cur after off hinv (by simp [hst])
  | skipRecord =>
    simp only
    exact sentinel_busy p limit tooBig hs { s1 with lastSentinel := off + 2 - 2 } s1 rfl rfl r rc cur after off hinv (by simp [hst])
  | skipSentinel =>
    -- a delimiter while looking for the start of a record
    obtain ⟨i1, i2, i3, i4⟩ := hinv.idle hst
    simp only [segsOf, hst, if_true]
    rw [consult_thresh, segScan_sentinel]
    simp only [List.length_nil, Nat.add_zero]
    have hsz : ∀ st a b, ({ st := st, start := a, stop := b, dec := rc.dec, emits := rc.emits } : Rec).size = 0 :=
      fun st a b => size_of_no_emits _ i3
    by_cases hl : atLimit limit (off + 2) = true
    · simp only [hl, if_true]
      have hrest := recordsT_at_limit p limit tooBig (off + 2) [] after hl
      have : recordsT p limit tooBig (⟨[], off, off⟩ :: segScan (off + 2) [] after) = [] := by
        simp only [recordsT, hrest]
        split <;> simp [contrib]
      rw [this]
      exact ⟨rfl, rfl, rfl, rfl, hrest⟩
    · simp only [hl, hsz, h0]
      simp only [Bool.false_eq_true, if_false]
      refine ⟨rfl, rfl, rfl, ⟨[], ?_, ?_⟩, Or.inl trivial⟩
      · exact { idle := fun _ => ⟨rfl, rfl, i3, i4⟩, busy := fun h => absurd rfl h,
                dec := fun h => by simp at h, skip := fun h => by simp at h,
                apps := hinv.apps }
      · have hoff : atLimit limit off = false := by
          cases h : atLimit limit off with
          | false => rfl
          | true => exact absurd (atLimit_mono limit off (off + 2) (by omega) h) hl
        simp [segsOf, recordsT, hoff, contrib]

theorem onChunk_eof (hs : SplitIndep p) (s1 : RdState) (r : Reader) (rc : Rec)
    (cur : List UInt8) (off : Nat) (hinv : RInv p limit tooBig off rc cur) :
    StepSpec p limit tooBig s1 r rc (recordsT p limit tooBig (segsOf off rc cur []))
      off [] False (onChunk p (threshJudge limit tooBig) s1 r rc .eof) := by
  unfold onChunk
  have hempty : recordsT p limit tooBig (segScan off [] []) = [] := by
    rw [segScan_nil]; simp only [recordsT]; split <;> simp [contrib]
  by_cases hst : rc.st = .skipSentinel
  · obtain ⟨i1, i2, i3, i4⟩ := hinv.idle hst
    simp only [i1, if_true, segsOf, hst, hempty]
    exact ⟨rfl, rfl, rfl, rfl, hempty⟩
  · obtain ⟨b1, b2, b3, b4⟩ := hinv.busy hst
    have hne : rc.start ≠ rc.stop := by
      have : 0 < cur.length := List.length_pos_iff.mpr b3
      omega
    simp only [hne, if_false]
    have hE : recordsT p limit tooBig (segsOf off rc cur []) = contrib p tooBig ⟨cur, rc.start, off⟩ := by
      simp only [segsOf, hst, if_false]
      rw [segScan_nil, b1]
      simp [recordsT, b4]
    rw [hE]
    rcases afterBreak_spec p limit tooBig hs off rc cur hinv hst s1 r with ⟨he, hc⟩ | ⟨he, hc⟩
    · rw [he, hc]
      exact ⟨rfl, rfl, rfl, rfl, hempty⟩
    · rw [he, hc]
      refine ⟨rfl, rfl, rfl, ⟨[], rinv_fresh p limit tooBig _, ?_⟩, Or.inr ⟨hst, rfl⟩⟩
      simp only [segsOf, Rec.fresh, if_true]
      exact hempty

theorem donePost_none (E : List Rcd) (off' : Nat) (after : List UInt8) (hE : E = [])
    (h : recordsT p limit tooBig (segScan off' [] after) = []) : DonePost p limit tooBig E .none off' after := by
  subst hE; exact ⟨rfl, h⟩

theorem stepSpec_ite (s1 : RdState) (r : Reader) (rc : Rec) (E : List Rcd) (off' : Nat) (after : List UInt8)
    (pr : Prop) (c : Prop) [Decidable c] (a b : StepOut)
    (ha : c → StepSpec p limit tooBig s1 r rc E off' after pr a)
    (hb : ¬ c → StepSpec p limit tooBig s1 r rc E off' after pr b) :
    StepSpec p limit tooBig s1 r rc E off' after pr (if c then a else b) := by
  split
  · exact ha ‹_›
  · exact hb ‹_›

theorem size_emits_eq (rc rc' : Rec) (h : rc.emits = rc'.emits) : rc.size = rc'.size := by
  simp [Rec.size, h]

/-- A data chunk fed to the decoder (states `SkipSentinel` → `DecodeRecord` and
`DecodeRecord`), then the judge. -/
theorem data_decode (hs : SplitIndep p) (hmono : ∀ a b, a ≤ b → tooBig a = true → tooBig b = true)
    (s1 : RdState) (r : Reader) (rc base : Rec) (ds : List (List UInt8)) (cur after bs : List UInt8)
    (off' : Nat) (hst : base.st = .decodeRecord) (hstart : base.start + (cur ++ bs).length = off')
    (hds : ds.flatten = cur) (hne : ∀ d ∈ ds, d ≠ []) (hafter : After p ds base)
    (happs : AllAppend base.emits) (hbs : bs ≠ []) :
    StepSpec p limit tooBig s1 r rc (recordsT p limit tooBig (segScan base.start (cur ++ bs) after))
      off' after True
      (consult (threshJudge limit tooBig) s1 r { decodeChunk p base bs with stop := off' }) := by
  rw [consult_thresh]
  have hstart' : ({ decodeChunk p base bs with stop := off' } : Rec).start = base.start := by
    simp only [decodeChunk]; split <;> rfl
  rw [hstart']
  apply stepSpec_ite
  · intro hl
    refine ⟨rfl, rfl, rfl, ?_⟩
    exact donePost_none p limit tooBig _ _ _ (recordsT_at_limit p limit tooBig base.start _ _ hl)
      (recordsT_at_limit p limit tooBig off' [] after (atLimit_mono limit base.start off' (by omega) hl))
  · intro hl
    have hl' : atLimit limit base.start = false := by simpa using hl
    have hne' : ∀ d ∈ ds ++ [bs], d ≠ [] := by
      intro d hd
      rcases List.mem_append.mp hd with h | h
      · exact hne d h
      · simp at h; subst h; exact hbs
    have hflat : (ds ++ [bs]).flatten = cur ++ bs := by simp [hds]
    have hcne : cur ++ bs ≠ [] := by simp [hbs]
    cases hf : Dec.feedAll p .borrow base.dec bs with
    | error ee =>
      obtain ⟨e, es⟩ := ee
      have hrej : ∀ tail a b, contrib p tooBig ⟨(cur ++ bs) ++ tail, a, b⟩ = [] := by
        intro tail a b
        rw [← hds]
        exact reject_of_error p tooBig hs ds base bs e es hne hbs hafter hf tail a b
      have happs' : AllAppend (base.emits ++ es) :=
        allAppend_append happs ((feed_allAppend p .borrow _ base.dec bs).2 e es hf)
      have hinv' : ∀ (rc' : Rec), rc'.st = .skipRecord → rc'.start = base.start → rc'.stop = off' →
          rc'.emits = base.emits ++ es → RInv p limit tooBig off' rc' (cur ++ bs) := by
        intro rc' h1 h2 h3 h4
        exact { idle := fun h => by simp [h1] at h,
                busy := fun _ => ⟨by rw [h2]; exact hstart, h3, hcne, by rw [h2]; exact hl'⟩,
                dec := fun h => by simp [h1] at h,
                skip := fun _ => hrej,
                apps := by rw [h4]; exact happs' }
      simp only [decodeChunk, hf]
      apply stepSpec_ite
      · intro _
        exact ⟨rfl, rfl, rfl, ⟨cur ++ bs, hinv' _ rfl rfl rfl rfl, by simp [segsOf]⟩, Or.inl trivial⟩
      · intro _
        exact ⟨rfl, rfl, rfl, ⟨cur ++ bs, hinv' _ rfl rfl rfl rfl, by simp [segsOf]⟩, Or.inl trivial⟩
    | ok pr =>
      obtain ⟨d', es⟩ := pr
      have hafter' := after_step_ok p ds base bs d' es hafter hf
      have happs' : AllAppend (base.emits ++ es) :=
        allAppend_append happs ((feed_allAppend p .borrow _ base.dec bs).1 d' es hf)
      simp only [decodeChunk, hf]
      apply stepSpec_ite
      · -- the judge skips the record: too big already
        intro hbig
        have hbig' : tooBig ({ base with dec := d', emits := base.emits ++ es } : Rec).size = true := by
          rw [← hbig]; exact congrArg tooBig (size_emits_eq _ _ rfl)
        have hrej : ∀ tail a b, contrib p tooBig ⟨(cur ++ bs) ++ tail, a, b⟩ = [] := by
          intro tail a b
          rw [← hflat]
          exact reject_of_size p tooBig hs hmono (ds ++ [bs]) _ hne' (by simp) hafter' happs' hbig' tail a b
        refine ⟨rfl, rfl, rfl, ⟨cur ++ bs, ?_, by simp [segsOf]⟩, Or.inl trivial⟩
        exact { idle := fun h => by simp at h,
                busy := fun _ => ⟨hstart, rfl, hcne, hl'⟩,
                dec := fun h => by simp at h,
                skip := fun _ => hrej,
                apps := happs' }
      · intro hbig
        have hbig' : tooBig ({ base with stop := off', dec := d', emits := base.emits ++ es } : Rec).size = false := by
          simpa using hbig
        refine ⟨rfl, rfl, rfl, ⟨cur ++ bs, ?_, by simp [segsOf, hst]⟩, Or.inl trivial⟩
        exact { idle := fun h => by simp [hst] at h,
                busy := fun _ => ⟨hstart, rfl, hcne, hl'⟩,
                dec := fun _ => ⟨⟨ds ++ [bs], hflat, hne', by
                  intro more; exact hafter' more⟩, hbig'⟩,
                skip := fun h => by simp [hst] at h,
                apps := happs' }

theorem onChunk_data (hs : SplitIndep p) (hmono : ∀ a b, a ≤ b → tooBig a = true → tooBig b = true)
    (s1 : RdState) (r : Reader) (rc : Rec) (cur after bs : List UInt8) (off : Nat)
    (hinv : RInv p limit tooBig off rc cur) (hbs : bs ≠ [])
    (hfs : findStuff (bs ++ after.take 1) = none) :
    StepSpec p limit tooBig s1 r rc (recordsT p limit tooBig (segsOf off rc cur (bs ++ after)))
      (off + bs.length) after True
      (onChunk p (threshJudge limit tooBig) s1 r rc (.data (off + bs.length) bs)) := by
  unfold onChunk
  have hemp : bs.isEmpty = false := by cases bs with
    | nil => exact absurd rfl hbs
    | cons _ _ => rfl
  simp only [hemp, Bool.false_eq_true, if_false]
  cases hst : rc.st with
  | skipSentinel =>
    obtain ⟨i1, i2, i3, i4⟩ := hinv.idle hst
    subst i2
    simp only [if_true]
    have hE : segsOf off rc [] (bs ++ after) = segScan off ([] ++ bs) after := by
      simp only [segsOf, hst, if_true]
      exact segScan_data bs off [] after hfs
    rw [hE]
    have hsub : off + bs.length - bs.length = off := by omega
    have := data_decode p limit tooBig hs hmono s1 r rc
      { rc with start := off, stop := off, st := .decodeRecord } [] [] after bs (off + bs.length)
      rfl (by simp) rfl (by simp) (after_nil p _ i4 i3) hinv.apps hbs
    simpa [hsub] using this
  | decodeRecord =>
    obtain ⟨b1, b2, b3, b4⟩ := hinv.busy (by simp [hst])
    obtain ⟨⟨ds, hd1, hd2, hd3⟩, _⟩ := hinv.dec hst
    simp only [hst, if_true]
    have hE : segsOf off rc cur (bs ++ after) = segScan rc.start (cur ++ bs) after := by
      simp only [segsOf, hst, reduceCtorEq, if_false]
      exact segScan_data bs rc.start cur after hfs
    rw [hE]
    exact data_decode p limit tooBig hs hmono s1 r rc rc ds cur after bs (off + bs.length)
      hst (by simp; omega) hd1 hd2 hd3 hinv.apps hbs
  | skipRecord =>
    obtain ⟨b1, b2, b3, b4⟩ := hinv.busy (by simp [hst])
    simp only [hst, reduceCtorEq, if_false]
    have hE : segsOf off rc cur (bs ++ after) = segScan rc.start (cur ++ bs) after := by
      simp only [segsOf, hst, reduceCtorEq, if_false]
      exact segScan_data bs rc.start cur after hfs
    rw [hE, consult_thresh]
    simp only [b4, Bool.false_eq_true, if_false]
    have hrej : ∀ tail a b, contrib p tooBig ⟨(cur ++ bs) ++ tail, a, b⟩ = [] := by
      intro tail a b
      have := hinv.skip hst (bs ++ tail) a b
      simpa [List.append_assoc] using this
    have hinv' : ∀ (rc' : Rec), rc'.st = .skipRecord → rc'.start = rc.start → rc'.stop = off + bs.length →
        rc'.emits = rc.emits → RInv p limit tooBig (off + bs.length) rc' (cur ++ bs) := by
      intro rc' h1 h2 h3 h4
      exact { idle := fun h => by simp [h1] at h,
              busy := fun _ => ⟨by rw [h2]; simp; omega, h3, by simp [hbs], by rw [h2]; exact b4⟩,
              dec := fun h => by simp [h1] at h,
              skip := fun _ => hrej,
              apps := by rw [h4]; exact hinv.apps }
    apply stepSpec_ite
    · intro _
      exact ⟨rfl, rfl, rfl, ⟨cur ++ bs, hinv' _ rfl rfl rfl rfl, by simp [segsOf]⟩, Or.inl trivial⟩
    · intro _
      exact ⟨rfl, rfl, rfl, ⟨cur ++ bs, hinv' _ rfl rfl rfl rfl, by simp [segsOf]⟩, Or.inl trivial⟩

end Thresh

end Woodpile.Stream

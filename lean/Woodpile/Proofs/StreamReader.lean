/-
Helper lemmas for C06: the incremental decoder as the reader drives it, the
segment scanner, one `step` of `next_record_bytes`, whole calls and sequences
of calls.
-/
import Woodpile.Proofs.Stream

namespace Woodpile.Stream
open Woodpile.Arena Woodpile.ReadN Woodpile.Hcobs Woodpile.Pipe

/-! ### The decoder, piece by piece -/

theorem borrowed_append (a b : List (List UInt8)) : borrowed (a ++ b) = borrowed a ++ borrowed b := by
  simp [borrowed]

theorem runPieces_nil (p : Params) (s : DecState) (acc : List Emit) :
    Dec.runPieces p [] s acc = (match Dec.finish s with | .ok () => .ok acc | .error e => .error e) := by
  rfl

theorem runPieces_cons (p : Params) (m : Method) (d : List UInt8) (rest : List (Method × List UInt8))
    (s : DecState) (acc : List Emit) :
    Dec.runPieces p ((m, d) :: rest) s acc =
      (match Dec.feedAll p m s d with
       | .error (e, _) => .error e
       | .ok (s', es) => Dec.runPieces p rest s' (acc ++ es)) := by
  rfl

/-- `After p ds rc`: the decoder inside `rc` is where feeding the pieces `ds`
from the initial state leaves it. -/
def After (p : Params) (ds : List (List UInt8)) (rc : Rec) : Prop :=
  ∀ more, Dec.runPieces p (borrowed ds ++ more) .initial [] = Dec.runPieces p more rc.dec rc.emits

theorem after_nil (p : Params) (rc : Rec) (h1 : rc.dec = .initial) (h2 : rc.emits = []) : After p [] rc := by
  intro more; simp [borrowed, h1, h2]

theorem after_step_ok (p : Params) (ds : List (List UInt8)) (rc : Rec) (bs : List UInt8) (d' : DecState)
    (es : List Emit) (h : After p ds rc) (hf : Dec.feedAll p .borrow rc.dec bs = .ok (d', es)) :
    After p (ds ++ [bs]) { rc with dec := d', emits := rc.emits ++ es } := by
  intro more
  have : borrowed (ds ++ [bs]) ++ more = borrowed ds ++ ((Method.borrow, bs) :: more) := by
    simp [borrowed]
  rw [this, h, runPieces_cons, hf]

theorem after_step_err (p : Params) (ds : List (List UInt8)) (rc : Rec) (bs : List UInt8) (e : DecErr)
    (es : List Emit) (h : After p ds rc) (hf : Dec.feedAll p .borrow rc.dec bs = .error (e, es))
    (more : List (List UInt8)) : decodePieces p (ds ++ bs :: more) = none := by
  have : borrowed (ds ++ bs :: more) = borrowed ds ++ ((Method.borrow, bs) :: borrowed more) := by
    simp [borrowed]
  simp only [decodePieces, Dec.output, this]
  rw [h, runPieces_cons, hf]

theorem after_finish (p : Params) (ds : List (List UInt8)) (rc : Rec) (h : After p ds rc) :
    decodePieces p ds = (match Dec.finish rc.dec with | .ok () => some rc.bytes | .error _ => none) := by
  have := h []
  simp only [List.append_nil] at this
  simp only [decodePieces, Dec.output, this, runPieces_nil]
  cases Dec.finish rc.dec with
  | ok u => cases u; rfl
  | error e => rfl

/-! ### The decoder only ever appends -/

def appended : List Emit → List UInt8
  | [] => []
  | ⟨.append bs, _⟩ :: t => bs ++ appended t
  | ⟨.register _, _⟩ :: t => appended t
  | ⟨.fill _ _, _⟩ :: t => appended t

def AllAppend (es : List Emit) : Prop := ∀ e ∈ es, ∃ bs, e.op = Op.append bs

theorem allAppend_nil : AllAppend [] := by intro e h; simp at h

theorem allAppend_append {a b : List Emit} (ha : AllAppend a) (hb : AllAppend b) : AllAppend (a ++ b) := by
  intro e h
  rcases List.mem_append.mp h with h | h
  · exact ha e h
  · exact hb e h

theorem allAppend_left {a b : List Emit} (h : AllAppend (a ++ b)) : AllAppend a :=
  fun e he => h e (List.mem_append.mpr (Or.inl he))

theorem appended_append (a b : List Emit) : appended (a ++ b) = appended a ++ appended b := by
  induction a with
  | nil => rfl
  | cons e t ih =>
    obtain ⟨op, m⟩ := e
    cases op <;> simp [appended, ih]

theorem run_appends (es : List Emit) (h : AllAppend es) : ∀ q : Pipe,
    Pipe.run q (es.map (·.op)) = q.append (appended es) := by
  induction es with
  | nil => intro q; simp [Pipe.run, appended, Pipe.append]
  | cons e t ih =>
    intro q
    obtain ⟨bs, hb⟩ := h e (by simp)
    obtain ⟨op, m⟩ := e
    simp only at hb
    subst hb
    have ht : AllAppend t := fun x hx => h x (by simp [hx])
    have := ih ht (q.append bs)
    simp only [Pipe.run, List.map_cons, List.foldl_cons, Pipe.apply] at this ⊢
    rw [this]
    simp [Pipe.append, appended, List.append_assoc]

theorem cellBytes_map_byte (l : List UInt8) : cellBytes (l.map Cell.byte) = l := by
  induction l with
  | nil => rfl
  | cons a t ih => simp [cellBytes, ih]

theorem foldl_opSize (es : List Emit) : ∀ acc : Nat,
    es.foldl (fun acc e => acc + opSize e.op) acc = acc + es.foldl (fun acc e => acc + opSize e.op) 0 := by
  induction es with
  | nil => intro acc; simp
  | cons e t ih => intro acc; simp only [List.foldl_cons, Nat.zero_add]; rw [ih (acc + _), ih (opSize _)]; omega

theorem fillCells_length (id : Nat) (cells : List Cell) (bs : List UInt8) :
    (fillCells id cells bs).length = cells.length := by
  fun_induction fillCells id cells bs <;> simp_all

theorem pipe_size_run (ops : List Op) : ∀ q : Pipe,
    (Pipe.run q ops).size = q.size + ops.foldl (fun acc o => acc + opSize o) 0 := by
  induction ops with
  | nil => intro q; simp [Pipe.run]
  | cons o t ih =>
    intro q
    have hfold : ∀ (l : List Op) (acc : Nat), l.foldl (fun acc o => acc + opSize o) acc
        = acc + l.foldl (fun acc o => acc + opSize o) 0 := by
      intro l
      induction l with
      | nil => intro acc; simp
      | cons x xs ihx => intro acc; simp only [List.foldl_cons, Nat.zero_add]; rw [ihx (acc + _), ihx (opSize _)]; omega
    have := ih (q.apply o)
    simp only [Pipe.run, List.foldl_cons, Nat.zero_add] at this ⊢
    rw [this, hfold t (opSize o)]
    have hq : (q.apply o).size = q.size + opSize o := by
      cases o with
      | append bs => simp [Pipe.apply, Pipe.append, Pipe.size, opSize]
      | register n => simp [Pipe.apply, Pipe.register, Pipe.size, opSize]
      | fill id bs => simp [Pipe.apply, Pipe.fill, Pipe.size, opSize, fillCells_length]
    rw [hq]; omega

/-- `Rec.size` is `total_size()` of the pipe the decoder's emits build. -/
theorem rec_size_is_pipe_size (rc : Rec) : rc.size = (Pipe.run Pipe.empty (rc.emits.map (·.op))).size := by
  rw [pipe_size_run]
  simp only [Rec.size, Pipe.size, Pipe.empty, List.length_nil, Nat.zero_add, List.foldl_map]

theorem rec_size_eq (rc : Rec) (h : AllAppend rc.emits) : rc.size = (appended rc.emits).length := by
  rw [rec_size_is_pipe_size]
  simp [run_appends _ h, Pipe.append, Pipe.size, Pipe.empty]

theorem rec_bytes_eq (rc : Rec) (h : AllAppend rc.emits) : rc.bytes = appended rc.emits := by
  simp [Rec.bytes, run_appends _ h, Pipe.append, Pipe.bytes, Pipe.empty, cellBytes_map_byte]

theorem once_allAppend (p : Params) (m : Method) (s : DecState) (b : UInt8) (rest : List UInt8) :
    (∀ o, Dec.once p m s b rest = .ok o → AllAppend o.emits) ∧
    (∀ e es, Dec.once p m s b rest = .error (e, es) → AllAppend es) := by
  have single : ∀ bs mm, AllAppend [(⟨.append bs, mm⟩ : Emit)] := by
    intro bs mm e he; simp at he; subst he; exact ⟨bs, rfl⟩
  have ite_ok : ∀ (c : Bool) bs mm, AllAppend (if c then [(⟨.append bs, mm⟩ : Emit)] else []) := by
    intro c bs mm; cases c
    · exact allAppend_nil
    · exact single bs mm
  cases s with
  | initial =>
    simp only [Dec.once]
    constructor
    · intro o h; split at h
      · simp at h
      · split at h <;> (simp at h; subst h; exact allAppend_nil)
    · intro e es h; split at h
      · simp at h; obtain ⟨-, rfl⟩ := h; exact allAppend_nil
      · split at h <;> simp at h
  | beforeChunk ins =>
    simp only [Dec.once]
    constructor
    · intro o h; split at h
      · simp at h
      · simp at h; subst h; exact ite_ok ins _ _
    · intro e es h; split at h
      · simp at h; obtain ⟨-, rfl⟩ := h; exact ite_ok ins _ _
      · simp at h
  | midHeader b0 =>
    simp only [Dec.once]
    constructor
    · intro o h; split at h
      · simp at h
      · split at h
        · simp at h
        · split at h <;> (simp at h; subst h; exact allAppend_nil)
    · intro e es h; split at h
      · simp at h; obtain ⟨-, rfl⟩ := h; exact allAppend_nil
      · split at h
        · simp at h; obtain ⟨-, rfl⟩ := h; exact allAppend_nil
        · split at h <;> simp at h
  | inChunk rem term =>
    simp only [Dec.once]
    constructor
    · intro o h; simp at h; subst h; exact single _ _
    · intro e es h; simp at h

theorem feed_allAppend (p : Params) (m : Method) : ∀ (fuel : Nat) (s : DecState) (input : List UInt8),
    (∀ s' es, Dec.feed p m fuel s input = .ok (s', es) → AllAppend es) ∧
    (∀ e es, Dec.feed p m fuel s input = .error (e, es) → AllAppend es) := by
  intro fuel
  induction fuel with
  | zero =>
    intro s input
    simp only [Dec.feed]
    exact ⟨fun s' es h => by simp at h; obtain ⟨-, rfl⟩ := h; exact allAppend_nil, fun e es h => by simp at h⟩
  | succ fuel ih =>
    intro s input
    cases input with
    | nil =>
      simp only [Dec.feed]
      exact ⟨fun s' es h => by simp at h; obtain ⟨-, rfl⟩ := h; exact allAppend_nil, fun e es h => by simp at h⟩
    | cons b rest =>
      simp only [Dec.feed]
      cases ho : Dec.once p m s b rest with
      | error ee =>
        obtain ⟨e0, es0⟩ := ee
        simp only
        refine ⟨fun s' es h => by simp at h, fun e es h => ?_⟩
        simp at h
        rw [← h.2]
        exact (once_allAppend p m s b rest).2 e0 es0 ho
      | ok o =>
        simp only
        have ho' := (once_allAppend p m s b rest).1 o ho
        cases hf : Dec.feed p m fuel o.st ((b :: rest).drop o.consumed) with
        | error ee =>
          obtain ⟨e1, es1⟩ := ee
          simp only
          refine ⟨fun s' es h => by simp at h, fun e es h => ?_⟩
          simp at h
          rw [← h.2]
          exact allAppend_append ho' ((ih o.st _).2 e1 es1 hf)
        | ok pr =>
          obtain ⟨s1, es1⟩ := pr
          simp only
          refine ⟨fun s' es h => ?_, fun e es h => by simp at h⟩
          simp at h
          rw [← h.2]
          exact allAppend_append ho' ((ih o.st _).1 s1 es1 hf)

/-- `runPieces` only extends its accumulator, by appends. -/
theorem runPieces_prefix (p : Params) : ∀ (more : List (Method × List UInt8)) (s : DecState) (acc es : List Emit),
    Dec.runPieces p more s acc = .ok es → ∃ extra, es = acc ++ extra ∧ AllAppend extra := by
  intro more
  induction more with
  | nil =>
    intro s acc es h
    rw [runPieces_nil] at h
    cases hf : Dec.finish s with
    | ok u => rw [hf] at h; simp at h; exact ⟨[], by simp [h], allAppend_nil⟩
    | error e => rw [hf] at h; simp at h
  | cons md rest ih =>
    intro s acc es h
    obtain ⟨m, d⟩ := md
    rw [runPieces_cons] at h
    cases hf : Dec.feedAll p m s d with
    | error ee => obtain ⟨e, es0⟩ := ee; rw [hf] at h; simp at h
    | ok pr =>
      obtain ⟨s', es1⟩ := pr
      rw [hf] at h
      simp only at h
      obtain ⟨extra, h1, h2⟩ := ih s' (acc ++ es1) es h
      refine ⟨es1 ++ extra, by rw [h1]; simp, allAppend_append ?_ h2⟩
      exact (feed_allAppend p m _ s d).1 s' es1 hf

/-! ### Judges with a start-offset limit and a monotone size threshold -/

theorem keepGoingJudge_eq : keepGoingJudge = threshJudge none (fun _ => false) := by
  funext h c; simp [keepGoingJudge, threshJudge, atLimit]

theorem chunkJudge_eq (maxSize : Nat) (limit : Option Nat) :
    chunkJudge maxSize limit = threshJudge limit (fun n => decide (maxSize < n)) := by
  funext h c; simp [chunkJudge, threshJudge]

theorem atLimit_mono (limit : Option Nat) (a b : Nat) (hab : a ≤ b) (h : atLimit limit a = true) :
    atLimit limit b = true := by
  cases limit with
  | none => simp [atLimit] at h
  | some l => simp [atLimit] at h ⊢; omega

/-- The incremental decoder does not care how a record is cut into pieces.
(Consequence of `Dec` = `Spec.decode`, proved for C01/C07; see `splitIndep_of_spec`.) -/
def SplitIndep (p : Params) : Prop :=
  ∀ ds : List (List UInt8), (∀ d ∈ ds, d ≠ []) → ds ≠ [] → decodePieces p ds = decodePieces p [ds.flatten]

theorem splitIndep_of_spec (p : Params)
    (hdec : ∀ pieces d, Dec.output p pieces = .ok d ↔ Spec.decode p (pieces.map (·.2)).flatten = some d) :
    SplitIndep p := by
  intro ds _ _
  have key : ∀ xs : List (List UInt8), ∀ d, decodePieces p xs = some d ↔ Spec.decode p xs.flatten = some d := by
    intro xs d
    have hm : (borrowed xs).map (·.2) = xs := by
      simp only [borrowed, List.map_map]
      induction xs with
      | nil => rfl
      | cons x t ih => simp only [List.map_cons, ih]; rfl
    have := hdec (borrowed xs) d
    rw [hm] at this
    rw [← this]
    simp only [decodePieces]
    cases Dec.output p (borrowed xs) with
    | ok x => simp
    | error e => simp
  apply Option.ext
  intro d
  rw [key, key]; simp

def tailPieces (tail : List UInt8) : List (List UInt8) := if tail = [] then [] else [tail]

theorem splitIndep_tail (p : Params) (hs : SplitIndep p) (ds : List (List UInt8)) (tail : List UInt8)
    (hne : ∀ d ∈ ds, d ≠ []) (hds : ds ≠ []) :
    decodePieces p [ds.flatten ++ tail] = decodePieces p (ds ++ tailPieces tail) := by
  have h1 : (ds ++ tailPieces tail).flatten = ds.flatten ++ tail := by
    unfold tailPieces; split <;> simp [*]
  rw [hs (ds ++ tailPieces tail) ?_ (by simp [hds]), h1]
  intro d hd
  rcases List.mem_append.mp hd with h | h
  · exact hne d h
  · unfold tailPieces at h
    split at h
    · simp at h
    · simp at h; subst h; assumption

/-! ### The segment scanner -/

theorem segScan_nil (start : Nat) (cur : List UInt8) : segScan start cur [] = [⟨cur, start, start + cur.length⟩] := by
  simp [segScan]

theorem segScan_head (l : List UInt8) : ∀ (start : Nat) (cur : List UInt8),
    ∃ sg rest, segScan start cur l = sg :: rest ∧ sg.start = start := by
  induction l with
  | nil => intro start cur; exact ⟨_, [], segScan_nil start cur, rfl⟩
  | cons a t ih =>
    intro start cur
    cases t with
    | nil => exact ⟨⟨cur ++ [a], start, start + cur.length + 1⟩, [], by simp [segScan], rfl⟩
    | cons b t' =>
      by_cases h : a = FE ∧ b = FD
      · exact ⟨_, _, by simp only [segScan, h, and_self, if_true]; rfl, rfl⟩
      · obtain ⟨sg, rest, h1, h2⟩ := ih start (cur ++ [a])
        exact ⟨sg, rest, by simp only [segScan, h, if_false]; exact h1, h2⟩

theorem recordsT_at_limit (p : Params) (limit : Option Nat) (tooBig : Nat → Bool) (start : Nat)
    (cur l : List UInt8) (h : atLimit limit start = true) :
    recordsT p limit tooBig (segScan start cur l) = [] := by
  obtain ⟨sg, rest, h1, h2⟩ := segScan_head l start cur
  rw [h1]; simp [recordsT, h2, h]

/-! ### One chunk of `next_record_bytes` under a threshold judge -/

section Thresh
variable (p : Params) (limit : Option Nat) (tooBig : Nat → Bool)

/-- What `next_record_bytes`' locals mean, relative to the chunker's offset
`off`; `cur` is the part of the current segment consumed so far. -/
structure RInv (off : Nat) (rc : Rec) (cur : List UInt8) : Prop where
  idle : rc.st = .skipSentinel → rc.start = rc.stop ∧ cur = [] ∧ rc.emits = [] ∧ rc.dec = .initial
  busy : rc.st ≠ .skipSentinel →
    rc.start + cur.length = off ∧ rc.stop = off ∧ cur ≠ [] ∧ atLimit limit rc.start = false
  dec : rc.st = .decodeRecord →
    (∃ ds, ds.flatten = cur ∧ (∀ d ∈ ds, d ≠ []) ∧ After p ds rc) ∧ tooBig rc.size = false
  skip : rc.st = .skipRecord → ∀ tail a b, contrib p tooBig ⟨cur ++ tail, a, b⟩ = []
  apps : AllAppend rc.emits

/-- the segments still to be accounted for: the current one (with `cur` already
consumed) and everything after -/
def segsOf (off : Nat) (rc : Rec) (cur s : List UInt8) : List Seg :=
  if rc.st = .skipSentinel then segScan off [] s else segScan rc.start cur s

theorem rinv_fresh (off : Nat) : RInv p limit tooBig off Rec.fresh [] where
  idle := fun _ => ⟨rfl, rfl, rfl, rfl⟩
  busy := fun h => absurd rfl h
  dec := fun h => by simp [Rec.fresh] at h
  skip := fun h => by simp [Rec.fresh] at h
  apps := allAppend_nil

theorem consult_thresh (s : RdState) (r : Reader) (rc : Rec) :
    consult (threshJudge limit tooBig) s r rc =
      if atLimit limit rc.start then
        .done .none { s with hist := s.hist ++ [⟨rc.start, rc.stop, rc.size⟩] } r
      else if tooBig rc.size then
        .continue { s with hist := s.hist ++ [⟨rc.start, rc.stop, rc.size⟩] } r { rc with st := .skipRecord }
      else .continue { s with hist := s.hist ++ [⟨rc.start, rc.stop, rc.size⟩] } r rc := by
  unfold consult threshJudge
  by_cases h1 : atLimit limit rc.start = true
  · simp [h1]
  · by_cases h2 : tooBig rc.size = true
    · simp [h1, h2]
    · simp [h1, h2]

/-- A decode error on the next piece rejects every completion of the segment. -/
theorem reject_of_error (hs : SplitIndep p) (ds : List (List UInt8)) (rc : Rec) (bs : List UInt8)
    (e : DecErr) (es : List Emit) (hne : ∀ d ∈ ds, d ≠ []) (hbs : bs ≠ []) (hafter : After p ds rc)
    (hf : Dec.feedAll p .borrow rc.dec bs = .error (e, es)) (tail : List UInt8) (a b : Nat) :
    contrib p tooBig ⟨(ds.flatten ++ bs) ++ tail, a, b⟩ = [] := by
  have h1 : ds.flatten ++ bs = (ds ++ [bs]).flatten := by simp
  have h2 := splitIndep_tail p hs (ds ++ [bs]) tail
    (by intro d hd; rcases List.mem_append.mp hd with h | h
        · exact hne d h
        · simp at h; subst h; exact hbs) (by simp)
  have h3 : decodePieces p ((ds ++ [bs]) ++ tailPieces tail) = none := by
    have := after_step_err p ds rc bs e es hafter hf (tailPieces tail)
    simpa using this
  simp only [contrib]
  rw [h1, h2, h3]
  split <;> rfl

/-- Once the decoded size is too big, every completion of the segment is
rejected: the decoder only appends. -/
theorem reject_of_size (hs : SplitIndep p) (hmono : ∀ a b, a ≤ b → tooBig a = true → tooBig b = true)
    (ds : List (List UInt8)) (rc : Rec) (hne : ∀ d ∈ ds, d ≠ []) (hds : ds ≠ []) (hafter : After p ds rc)
    (happs : AllAppend rc.emits) (hbig : tooBig rc.size = true) (tail : List UInt8) (a b : Nat) :
    contrib p tooBig ⟨ds.flatten ++ tail, a, b⟩ = [] := by
  have h2 := splitIndep_tail p hs ds tail hne hds
  simp only [contrib]
  rw [h2]
  split
  · rfl
  · have h3 : Dec.runPieces p (borrowed (ds ++ tailPieces tail)) .initial [] =
        Dec.runPieces p (borrowed (tailPieces tail)) rc.dec rc.emits := by
      rw [borrowed_append]; exact hafter _
    simp only [decodePieces, Dec.output, h3]
    cases hr : Dec.runPieces p (borrowed (tailPieces tail)) rc.dec rc.emits with
    | error e => rfl
    | ok es =>
      simp only
      obtain ⟨extra, he, hx⟩ := runPieces_prefix p _ _ _ _ hr
      have hall : AllAppend es := by rw [he]; exact allAppend_append happs hx
      have hlen : rc.size ≤ (Pipe.run Pipe.empty (es.map (·.op))).bytes.length := by
        rw [rec_size_eq rc happs]
        have := rec_bytes_eq ⟨rc.st, rc.start, rc.stop, rc.dec, es⟩ hall
        simp only [Rec.bytes] at this
        rw [this, he, appended_append]; simp
      rw [hmono _ _ hlen hbig]; rfl

/-- The code after the inner loop: the finished segment is returned iff it
contributes; otherwise the call retries with fresh locals. -/
theorem afterBreak_spec (hs : SplitIndep p) (off : Nat) (rc : Rec) (cur : List UInt8)
    (hinv : RInv p limit tooBig off rc cur) (hbusy : rc.st ≠ .skipSentinel) (s2 : RdState) (r : Reader) :
    (afterBreak s2 r rc = .done (.some rc.bytes rc.start off) s2 r ∧
      contrib p tooBig ⟨cur, rc.start, off⟩ = [(rc.bytes, rc.start, off)]) ∨
    (afterBreak s2 r rc = .continue s2 r Rec.fresh ∧ contrib p tooBig ⟨cur, rc.start, off⟩ = []) := by
  obtain ⟨h1, h2, h3, h4⟩ := hinv.busy hbusy
  have hne : rc.start ≠ rc.stop := by
    have : 0 < cur.length := List.length_pos_iff.mpr h3
    omega
  unfold afterBreak
  simp only [hne, if_false]
  cases hst : rc.st with
  | skipSentinel => exact absurd hst hbusy
  | skipRecord =>
    right
    simp only [if_true]
    have := hinv.skip hst [] rc.start off
    simpa using this
  | decodeRecord =>
    obtain ⟨⟨ds, hd1, hd2, hd3⟩, hsz⟩ := hinv.dec hst
    have hds : ds ≠ [] := by rintro rfl; exact h3 (by simpa using hd1.symm)
    have hdp : decodePieces p [cur] = decodePieces p ds := by rw [hs ds hd2 hds, hd1]
    have hfin := after_finish p ds rc hd3
    simp only [reduceCtorEq, if_false]
    cases hf : Dec.finish rc.dec with
    | error e =>
      right
      rw [hf] at hfin
      refine ⟨rfl, ?_⟩
      simp only [contrib, h3, if_false, hdp, hfin]
    | ok u =>
      left
      cases u
      rw [hf] at hfin
      refine ⟨by rw [h2], ?_⟩
      have hb : tooBig rc.bytes.length = false := by
        rw [rec_bytes_eq rc hinv.apps, ← rec_size_eq rc hinv.apps]; exact hsz
      simp only [contrib, h3, if_false, hdp, hfin, hb]
      rfl

/-- What a finished call must have returned, given the records still expected,
and what is expected of the calls after it. -/
def DonePost (expected : List Rcd) (res : NextRes) (off' : Nat) (after : List UInt8) : Prop :=
  match expected with
  | [] => res = .none ∧ recordsT p limit tooBig (segScan off' [] after) = []
  | (d, a, b) :: rest => res = .some d a b ∧ recordsT p limit tooBig (segScan off' [] after) = rest

/-- What handling one chunk does: either the call is over (`DonePost`), or the
locals again satisfy `RInv` one chunk further with the same records expected. -/
def StepSpec (s1 : RdState) (r : Reader) (rc : Rec) (expected : List Rcd) (off' : Nat)
    (after : List UInt8) (progress : Prop) : StepOut → Prop
  | .done res s' r' => r' = r ∧ s'.chunker = s1.chunker ∧ s'.mem = s1.mem ∧ DonePost p limit tooBig expected res off' after
  | .continue s' r' rc' => r' = r ∧ s'.chunker = s1.chunker ∧ s'.mem = s1.mem ∧
      (∃ cur', RInv p limit tooBig off' rc' cur' ∧
        recordsT p limit tooBig (segsOf off' rc' cur' after) = expected) ∧
      (progress ∨ (rc.st ≠ .skipSentinel ∧ rc'.st = .skipSentinel))

theorem size_of_no_emits (rc : Rec) (h : rc.emits = []) : rc.size = 0 := by
  simp [Rec.size, h]

theorem sentinel_busy (hs : SplitIndep p) (s2 s1 : RdState) (hc : s2.chunker = s1.chunker) (hm : s2.mem = s1.mem)
    (r : Reader) (rc : Rec)
    (cur after : List UInt8) (off : Nat) (hinv : RInv p limit tooBig off rc cur) (hst : rc.st ≠ .skipSentinel) :
    StepSpec p limit tooBig s1 r rc (recordsT p limit tooBig (segsOf off rc cur (FE :: FD :: after)))
      (off + 2) after True (afterBreak s2 r rc) := by
  obtain ⟨b1, b2, b3, b4⟩ := hinv.busy hst
  have hE : recordsT p limit tooBig (segsOf off rc cur (FE :: FD :: after)) =
      contrib p tooBig ⟨cur, rc.start, off⟩ ++ recordsT p limit tooBig (segScan (off + 2) [] after) := by
    simp only [segsOf, hst, if_false]
    rw [segScan_sentinel, b1]
    simp [recordsT, b4]
  rw [hE]
  rcases afterBreak_spec p limit tooBig hs off rc cur hinv hst s2 r with ⟨he, hcn⟩ | ⟨he, hcn⟩
  · rw [he, hcn]
    exact ⟨rfl, hc, hm, rfl, rfl⟩
  · rw [he, hcn]
    refine ⟨rfl, hc, hm, ⟨[], rinv_fresh p limit tooBig _, ?_⟩, Or.inl trivial⟩
    simp [segsOf, Rec.fresh]

theorem onChunk_sentinel (hs : SplitIndep p) (h0 : tooBig 0 = false) (s1 : RdState) (r : Reader) (rc : Rec)
    (cur after : List UInt8) (off : Nat) (hinv : RInv p limit tooBig off rc cur) :
    StepSpec p limit tooBig s1 r rc (recordsT p limit tooBig (segsOf off rc cur (FE :: FD :: after)))
      (off + 2) after True (onChunk p (threshJudge limit tooBig) s1 r rc (.sentinel (off + 2))) := by
  unfold onChunk
  have hlt : ¬ off + 2 < 2 := by omega
  simp only [hlt, if_false]
  cases hst : rc.st with
  | decodeRecord =>
    simp only
    exact sentinel_busy p limit tooBig hs { s1 with lastSentinel := off + 2 - 2 } s1 rfl rfl r rc cur after off hinv (by simp [hst])
  | skipRecord =>
    simp only
    exact sentinel_busy p limit tooBig hs { s1 with lastSentinel := off + 2 - 2 } s1 rfl rfl r rc cur after off hinv (by simp [hst])
  | skipSentinel =>
    -- a delimiter while looking for the start of a record
    obtain ⟨i1, i2, i3, i4⟩ := hinv.idle hst
    simp only [segsOf, hst, if_true]
    rw [consult_thresh, segScan_sentinel]
    simp only [List.length_nil, Nat.add_zero]
    have hsz : ∀ st a b, ({ st := st, start := a, stop := b, dec := rc.dec, emits := rc.emits } : Rec).size = 0 :=
      fun st a b => size_of_no_emits _ i3
    by_cases hl : atLimit limit (off + 2) = true
    · simp only [hl, if_true]
      have hrest := recordsT_at_limit p limit tooBig (off + 2) [] after hl
      have : recordsT p limit tooBig (⟨[], off, off⟩ :: segScan (off + 2) [] after) = [] := by
        simp only [recordsT, hrest]
        split <;> simp [contrib]
      rw [this]
      exact ⟨rfl, rfl, rfl, rfl, hrest⟩
    · simp only [hl, hsz, h0]
      simp only [Bool.false_eq_true, if_false]
      refine ⟨rfl, rfl, rfl, ⟨[], ?_, ?_⟩, Or.inl trivial⟩
      · exact { idle := fun _ => ⟨rfl, rfl, i3, i4⟩, busy := fun h => absurd rfl h,
                dec := fun h => by simp at h, skip := fun h => by simp at h,
                apps := hinv.apps }
      · have hoff : atLimit limit off = false := by
          cases h : atLimit limit off with
          | false => rfl
          | true => exact absurd (atLimit_mono limit off (off + 2) (by omega) h) hl
        simp [segsOf, recordsT, hoff, contrib]

theorem onChunk_eof (hs : SplitIndep p) (s1 : RdState) (r : Reader) (rc : Rec)
    (cur : List UInt8) (off : Nat) (hinv : RInv p limit tooBig off rc cur) :
    StepSpec p limit tooBig s1 r rc (recordsT p limit tooBig (segsOf off rc cur []))
      off [] False (onChunk p (threshJudge limit tooBig) s1 r rc .eof) := by
  unfold onChunk
  have hempty : recordsT p limit tooBig (segScan off [] []) = [] := by
    rw [segScan_nil]; simp only [recordsT]; split <;> simp [contrib]
  by_cases hst : rc.st = .skipSentinel
  · obtain ⟨i1, i2, i3, i4⟩ := hinv.idle hst
    simp only [i1, if_true, segsOf, hst, hempty]
    exact ⟨rfl, rfl, rfl, rfl, hempty⟩
  · obtain ⟨b1, b2, b3, b4⟩ := hinv.busy hst
    have hne : rc.start ≠ rc.stop := by
      have : 0 < cur.length := List.length_pos_iff.mpr b3
      omega
    simp only [hne, if_false]
    have hE : recordsT p limit tooBig (segsOf off rc cur []) = contrib p tooBig ⟨cur, rc.start, off⟩ := by
      simp only [segsOf, hst, if_false]
      rw [segScan_nil, b1]
      simp [recordsT, b4]
    rw [hE]
    rcases afterBreak_spec p limit tooBig hs off rc cur hinv hst s1 r with ⟨he, hc⟩ | ⟨he, hc⟩
    · rw [he, hc]
      exact ⟨rfl, rfl, rfl, rfl, hempty⟩
    · rw [he, hc]
      refine ⟨rfl, rfl, rfl, ⟨[], rinv_fresh p limit tooBig _, ?_⟩, Or.inr ⟨hst, rfl⟩⟩
      simp only [segsOf, Rec.fresh, if_true]
      exact hempty

theorem donePost_none (E : List Rcd) (off' : Nat) (after : List UInt8) (hE : E = [])
    (h : recordsT p limit tooBig (segScan off' [] after) = []) : DonePost p limit tooBig E .none off' after := by
  subst hE; exact ⟨rfl, h⟩

theorem stepSpec_ite (s1 : RdState) (r : Reader) (rc : Rec) (E : List Rcd) (off' : Nat) (after : List UInt8)
    (pr : Prop) (c : Prop) [Decidable c] (a b : StepOut)
    (ha : c → StepSpec p limit tooBig s1 r rc E off' after pr a)
    (hb : ¬ c → StepSpec p limit tooBig s1 r rc E off' after pr b) :
    StepSpec p limit tooBig s1 r rc E off' after pr (if c then a else b) := by
  split
  · exact ha ‹_›
  · exact hb ‹_›

theorem size_emits_eq (rc rc' : Rec) (h : rc.emits = rc'.emits) : rc.size = rc'.size := by
  simp [Rec.size, h]

/-- A data chunk fed to the decoder (states `SkipSentinel` → `DecodeRecord` and
`DecodeRecord`), then the judge. -/
theorem data_decode (hs : SplitIndep p) (hmono : ∀ a b, a ≤ b → tooBig a = true → tooBig b = true)
    (s1 : RdState) (r : Reader) (rc base : Rec) (ds : List (List UInt8)) (cur after bs : List UInt8)
    (off' : Nat) (hst : base.st = .decodeRecord) (hstart : base.start + (cur ++ bs).length = off')
    (hds : ds.flatten = cur) (hne : ∀ d ∈ ds, d ≠ []) (hafter : After p ds base)
    (happs : AllAppend base.emits) (hbs : bs ≠ []) :
    StepSpec p limit tooBig s1 r rc (recordsT p limit tooBig (segScan base.start (cur ++ bs) after))
      off' after True
      (consult (threshJudge limit tooBig) s1 r { decodeChunk p base bs with stop := off' }) := by
  rw [consult_thresh]
  have hstart' : ({ decodeChunk p base bs with stop := off' } : Rec).start = base.start := by
    simp only [decodeChunk]; split <;> rfl
  rw [hstart']
  apply stepSpec_ite
  · intro hl
    refine ⟨rfl, rfl, rfl, ?_⟩
    exact donePost_none p limit tooBig _ _ _ (recordsT_at_limit p limit tooBig base.start _ _ hl)
      (recordsT_at_limit p limit tooBig off' [] after (atLimit_mono limit base.start off' (by omega) hl))
  · intro hl
    have hl' : atLimit limit base.start = false := by simpa using hl
    have hne' : ∀ d ∈ ds ++ [bs], d ≠ [] := by
      intro d hd
      rcases List.mem_append.mp hd with h | h
      · exact hne d h
      · simp at h; subst h; exact hbs
    have hflat : (ds ++ [bs]).flatten = cur ++ bs := by simp [hds]
    have hcne : cur ++ bs ≠ [] := by simp [hbs]
    cases hf : Dec.feedAll p .borrow base.dec bs with
    | error ee =>
      obtain ⟨e, es⟩ := ee
      have hrej : ∀ tail a b, contrib p tooBig ⟨(cur ++ bs) ++ tail, a, b⟩ = [] := by
        intro tail a b
        rw [← hds]
        exact reject_of_error p tooBig hs ds base bs e es hne hbs hafter hf tail a b
      have happs' : AllAppend (base.emits ++ es) :=
        allAppend_append happs ((feed_allAppend p .borrow _ base.dec bs).2 e es hf)
      have hinv' : ∀ (rc' : Rec), rc'.st = .skipRecord → rc'.start = base.start → rc'.stop = off' →
          rc'.emits = base.emits ++ es → RInv p limit tooBig off' rc' (cur ++ bs) := by
        intro rc' h1 h2 h3 h4
        exact { idle := fun h => by simp [h1] at h,
                busy := fun _ => ⟨by rw [h2]; exact hstart, h3, hcne, by rw [h2]; exact hl'⟩,
                dec := fun h => by simp [h1] at h,
                skip := fun _ => hrej,
                apps := by rw [h4]; exact happs' }
      simp only [decodeChunk, hf]
      apply stepSpec_ite
      · intro _
        exact ⟨rfl, rfl, rfl, ⟨cur ++ bs, hinv' _ rfl rfl rfl rfl, by simp [segsOf]⟩, Or.inl trivial⟩
      · intro _
        exact ⟨rfl, rfl, rfl, ⟨cur ++ bs, hinv' _ rfl rfl rfl rfl, by simp [segsOf]⟩, Or.inl trivial⟩
    | ok pr =>
      obtain ⟨d', es⟩ := pr
      have hafter' := after_step_ok p ds base bs d' es hafter hf
      have happs' : AllAppend (base.emits ++ es) :=
        allAppend_append happs ((feed_allAppend p .borrow _ base.dec bs).1 d' es hf)
      simp only [decodeChunk, hf]
      apply stepSpec_ite
      · -- the judge skips the record: too big already
        intro hbig
        have hbig' : tooBig ({ base with dec := d', emits := base.emits ++ es } : Rec).size = true := by
          rw [← hbig]; exact congrArg tooBig (size_emits_eq _ _ rfl)
        have hrej : ∀ tail a b, contrib p tooBig ⟨(cur ++ bs) ++ tail, a, b⟩ = [] := by
          intro tail a b
          rw [← hflat]
          exact reject_of_size p tooBig hs hmono (ds ++ [bs]) _ hne' (by simp) hafter' happs' hbig' tail a b
        refine ⟨rfl, rfl, rfl, ⟨cur ++ bs, ?_, by simp [segsOf]⟩, Or.inl trivial⟩
        exact { idle := fun h => by simp at h,
                busy := fun _ => ⟨hstart, rfl, hcne, hl'⟩,
                dec := fun h => by simp at h,
                skip := fun _ => hrej,
                apps := happs' }
      · intro hbig
        have hbig' : tooBig ({ base with stop := off', dec := d', emits := base.emits ++ es } : Rec).size = false := by
          simpa using hbig
        refine ⟨rfl, rfl, rfl, ⟨cur ++ bs, ?_, by simp [segsOf, hst]⟩, Or.inl trivial⟩
        exact { idle := fun h => by simp [hst] at h,
                busy := fun _ => ⟨hstart, rfl, hcne, hl'⟩,
                dec := fun _ => ⟨⟨ds ++ [bs], hflat, hne', by
                  intro more; exact hafter' more⟩, hbig'⟩,
                skip := fun h => by simp [hst] at h,
                apps := happs' }

theorem onChunk_data (hs : SplitIndep p) (hmono : ∀ a b, a ≤ b → tooBig a = true → tooBig b = true)
    (s1 : RdState) (r : Reader) (rc : Rec) (cur after bs : List UInt8) (off : Nat)
    (hinv : RInv p limit tooBig off rc cur) (hbs : bs ≠ [])
    (hfs : findStuff (bs ++ after.take 1) = none) :
    StepSpec p limit tooBig s1 r rc (recordsT p limit tooBig (segsOf off rc cur (bs ++ after)))
      (off + bs.length) after True
      (onChunk p (threshJudge limit tooBig) s1 r rc (.data (off + bs.length) bs)) := by
  unfold onChunk
  have hemp : bs.isEmpty = false := by cases bs with
    | nil => exact absurd rfl hbs
    | cons _ _ => rfl
  simp only [hemp, Bool.false_eq_true, if_false]
  cases hst : rc.st with
  | skipSentinel =>
    obtain ⟨i1, i2, i3, i4⟩ := hinv.idle hst
    subst i2
    simp only [if_true]
    have hE : segsOf off rc [] (bs ++ after) = segScan off ([] ++ bs) after := by
      simp only [segsOf, hst, if_true]
      exact segScan_data bs off [] after hfs
    rw [hE]
    have hsub : off + bs.length - bs.length = off := by omega
    have := data_decode p limit tooBig hs hmono s1 r rc
      { rc with start := off, stop := off, st := .decodeRecord } [] [] after bs (off + bs.length)
      rfl (by simp) rfl (by simp) (after_nil p _ i4 i3) hinv.apps hbs
    simpa [hsub] using this
  | decodeRecord =>
    obtain ⟨b1, b2, b3, b4⟩ := hinv.busy (by simp [hst])
    obtain ⟨⟨ds, hd1, hd2, hd3⟩, _⟩ := hinv.dec hst
    simp only [hst, if_true]
    have hE : segsOf off rc cur (bs ++ after) = segScan rc.start (cur ++ bs) after := by
      simp only [segsOf, hst, reduceCtorEq, if_false]
      exact segScan_data bs rc.start cur after hfs
    rw [hE]
    exact data_decode p limit tooBig hs hmono s1 r rc rc ds cur after bs (off + bs.length)
      hst (by simp; omega) hd1 hd2 hd3 hinv.apps hbs
  | skipRecord =>
    obtain ⟨b1, b2, b3, b4⟩ := hinv.busy (by simp [hst])
    simp only [hst, reduceCtorEq, if_false]
    have hE : segsOf off rc cur (bs ++ after) = segScan rc.start (cur ++ bs) after := by
      simp only [segsOf, hst, reduceCtorEq, if_false]
      exact segScan_data bs rc.start cur after hfs
    rw [hE, consult_thresh]
    simp only [b4, Bool.false_eq_true, if_false]
    have hrej : ∀ tail a b, contrib p tooBig ⟨(cur ++ bs) ++ tail, a, b⟩ = [] := by
      intro tail a b
      have := hinv.skip hst (bs ++ tail) a b
      simpa [List.append_assoc] using this
    have hinv' : ∀ (rc' : Rec), rc'.st = .skipRecord → rc'.start = rc.start → rc'.stop = off + bs.length →
        rc'.emits = rc.emits → RInv p limit tooBig (off + bs.length) rc' (cur ++ bs) := by
      intro rc' h1 h2 h3 h4
      exact { idle := fun h => by simp [h1] at h,
              busy := fun _ => ⟨by rw [h2]; simp; omega, h3, by simp [hbs], by rw [h2]; exact b4⟩,
              dec := fun h => by simp [h1] at h,
              skip := fun _ => hrej,
              apps := by rw [h4]; exact hinv.apps }
    apply stepSpec_ite
    · intro _
      exact ⟨rfl, rfl, rfl, ⟨cur ++ bs, hinv' _ rfl rfl rfl rfl, by simp [segsOf]⟩, Or.inl trivial⟩
    · intro _
      exact ⟨rfl, rfl, rfl, ⟨cur ++ bs, hinv' _ rfl rfl rfl rfl, by simp [segsOf]⟩, Or.inl trivial⟩

theorem stepSpec_mono (s1 : RdState) (r : Reader) (rc : Rec) (E : List Rcd) (off' : Nat) (after : List UInt8)
    (pr pr' : Prop) (h : pr → pr') (so : StepOut)
    (hso : StepSpec p limit tooBig s1 r rc E off' after pr so) :
    StepSpec p limit tooBig s1 r rc E off' after pr' so := by
  cases so with
  | done res s' r' => exact hso
  | «continue» s' r' rc' =>
    obtain ⟨h1, h2, h3, h4, h5⟩ := hso
    exact ⟨h1, h2, h3, h4, h5.imp h id⟩

/-- Handling any chunk `pump` can return. -/
theorem onChunk_spec (hs : SplitIndep p) (hmono : ∀ a b, a ≤ b → tooBig a = true → tooBig b = true)
    (h0 : tooBig 0 = false) (s1 : RdState) (r : Reader) (rc : Rec) (cur after : List UInt8) (off : Nat)
    (ch : Chunk) (hinv : RInv p limit tooBig off rc cur) (hok : ChunkOK ch (off + ch.bytes.length) after) :
    StepSpec p limit tooBig s1 r rc (recordsT p limit tooBig (segsOf off rc cur (ch.bytes ++ after)))
      (off + ch.bytes.length) after (ch.bytes ≠ []) (onChunk p (threshJudge limit tooBig) s1 r rc ch) := by
  cases ch with
  | sentinel o =>
    simp only [ChunkOK, Chunk.bytes] at hok
    subst hok
    have := onChunk_sentinel p limit tooBig hs h0 s1 r rc cur after off hinv
    exact stepSpec_mono p limit tooBig _ _ _ _ _ _ _ _ (fun _ => by simp [Chunk.bytes]) _ this
  | eof =>
    simp only [ChunkOK] at hok
    subst hok
    have := onChunk_eof p limit tooBig hs s1 r rc cur off hinv
    exact stepSpec_mono p limit tooBig _ _ _ _ _ _ _ _ (fun h => absurd h id) _ this
  | data o bs =>
    simp only [ChunkOK, Chunk.bytes] at hok
    obtain ⟨ho, hbs, hfs⟩ := hok
    subst ho
    have := onChunk_data p limit tooBig hs hmono s1 r rc cur after bs off hinv hbs hfs
    exact stepSpec_mono p limit tooBig _ _ _ _ _ _ _ _ (fun _ => by simpa [Chunk.bytes] using hbs) _ this

/-- **One call of `next_record_bytes`** (from any point inside it): on a
well-behaved reader it never panics or fails; it returns the first record still
expected — `recordsT` of the segments not yet accounted for — or `None` if there
is none, and leaves the reader so that the calls after it are expected to return
the rest. -/
theorem run_spec (clamp : Nat) (hclamp : 2 ≤ clamp) (t : Tuning) (block : Nat) (hs : SplitIndep p)
    (hmono : ∀ a b, a ≤ b → tooBig a = true → tooBig b = true) (h0 : tooBig 0 = false) :
    ∀ (fuel : Nat) (s : RdState) (r : Reader) (rc : Rec) (cur : List UInt8),
    WellBehaved r → RInv p limit tooBig s.chunker.offset rc cur →
    2 * (s.chunker.buf ++ r.src).length + (if rc.st = .skipSentinel then 1 else 2) ≤ fuel →
    WellBehaved (run clamp t p (threshJudge limit tooBig) block fuel s r rc).2.2 ∧
    DonePost p limit tooBig
      (recordsT p limit tooBig (segsOf s.chunker.offset rc cur (s.chunker.buf ++ r.src)))
      (run clamp t p (threshJudge limit tooBig) block fuel s r rc).1
      (run clamp t p (threshJudge limit tooBig) block fuel s r rc).2.1.chunker.offset
      ((run clamp t p (threshJudge limit tooBig) block fuel s r rc).2.1.chunker.buf ++
        (run clamp t p (threshJudge limit tooBig) block fuel s r rc).2.2.src) := by
  intro fuel
  induction fuel with
  | zero =>
    intro s r rc cur _ _ hf
    exfalso; split at hf <;> omega
  | succ fuel ih =>
    intro s r rc cur hwb hinv hf
    have hassert : decide (rc.start = rc.stop) = decide (rc.st = .skipSentinel) := by
      by_cases hst : rc.st = .skipSentinel
      · simp [hst, (hinv.idle hst).1]
      · obtain ⟨b1, b2, b3, _⟩ := hinv.busy hst
        have : 0 < cur.length := List.length_pos_iff.mpr b3
        have : rc.start ≠ rc.stop := by omega
        simp [hst, this]
    have hp := pump_spec clamp hclamp t block s.chunker s.mem r hwb
    obtain ⟨ch, hres, hsplit, hoff, hok⟩ := hp.ex
    rw [hoff] at hok
    have hspec := onChunk_spec p limit tooBig hs hmono h0
      { s with chunker := (pump clamp t block s.chunker s.mem r).chunker,
               mem := (pump clamp t block s.chunker s.mem r).mem }
      (pump clamp t block s.chunker s.mem r).reader rc cur
      ((pump clamp t block s.chunker s.mem r).chunker.buf ++ (pump clamp t block s.chunker s.mem r).reader.src)
      s.chunker.offset ch hinv hok
    rw [← hsplit] at hspec
    have hstep : step clamp t p (threshJudge limit tooBig) block s r rc =
        onChunk p (threshJudge limit tooBig)
          { s with chunker := (pump clamp t block s.chunker s.mem r).chunker,
                   mem := (pump clamp t block s.chunker s.mem r).mem }
          (pump clamp t block s.chunker s.mem r).reader rc ch := by
      unfold step
      simp only [hassert, ne_eq, not_true_eq_false, if_false, hres]
    unfold run
    rw [hstep]
    generalize onChunk p (threshJudge limit tooBig)
          { s with chunker := (pump clamp t block s.chunker s.mem r).chunker,
                   mem := (pump clamp t block s.chunker s.mem r).mem }
          (pump clamp t block s.chunker s.mem r).reader rc ch = so at hspec ⊢
    cases so with
    | done res s' r' =>
      obtain ⟨h1, h2, h3, h4⟩ := hspec
      simp only
      subst h1
      rw [h2]
      simp only
      rw [hoff]
      exact ⟨hp.wb, h4⟩
    | «continue» s' r' rc' =>
      obtain ⟨h1, h2, h3, ⟨cur', hinv', hE⟩, hprog⟩ := hspec
      simp only
      subst h1
      have hoff' : s'.chunker.offset = s.chunker.offset + ch.bytes.length := by rw [h2]; exact hoff
      have hbuf' : s'.chunker.buf = (pump clamp t block s.chunker s.mem r).chunker.buf := by rw [h2]
      have hfuel : 2 * (s'.chunker.buf ++ (pump clamp t block s.chunker s.mem r).reader.src).length
          + (if rc'.st = .skipSentinel then 1 else 2) ≤ fuel := by
        have hl := congrArg List.length hsplit
        rw [hbuf']
        simp only [List.length_append] at hl hf ⊢
        rcases hprog with hb | ⟨hb1, hb2⟩
        · have : 0 < ch.bytes.length := List.length_pos_iff.mpr hb
          split at hf <;> split <;> omega
        · simp only [hb1, hb2, if_true, if_false] at hf ⊢
          omega
      rw [← hoff'] at hinv' hE
      rw [← hbuf'] at hE
      have := ih s' _ rc' cur' hp.wb hinv' hfuel
      rw [hE] at this
      exact this

/-- One whole `next_record_bytes` call. -/
theorem next_spec (clamp : Nat) (hclamp : 2 ≤ clamp) (t : Tuning) (block : Option Nat) (hs : SplitIndep p)
    (hmono : ∀ a b, a ≤ b → tooBig a = true → tooBig b = true) (h0 : tooBig 0 = false)
    (s : RdState) (r : Reader) (hwb : WellBehaved r) :
    WellBehaved (next clamp t p (threshJudge limit tooBig) block s r).2.2 ∧
    DonePost p limit tooBig
      (recordsT p limit tooBig (segScan s.chunker.offset [] (s.chunker.buf ++ r.src)))
      (next clamp t p (threshJudge limit tooBig) block s r).1
      (next clamp t p (threshJudge limit tooBig) block s r).2.1.chunker.offset
      ((next clamp t p (threshJudge limit tooBig) block s r).2.1.chunker.buf ++
        (next clamp t p (threshJudge limit tooBig) block s r).2.2.src) := by
  have := run_spec p limit tooBig clamp hclamp t (block.getD Woodpile.Gen.defaultBlockSize) hs hmono h0
    (runFuel s r) s r Rec.fresh [] hwb (rinv_fresh p limit tooBig _)
    (by simp only [runFuel, Rec.fresh, List.length_append, if_true]; omega)
  simpa [next, segsOf, Rec.fresh] using this

/-- Successive calls return the expected records in order, then `None` forever. -/
theorem nextSeq_spec (clamp : Nat) (hclamp : 2 ≤ clamp) (t : Tuning) (block : Option Nat) (hs : SplitIndep p)
    (hmono : ∀ a b, a ≤ b → tooBig a = true → tooBig b = true) (h0 : tooBig 0 = false) :
    ∀ (n : Nat) (s : RdState) (r : Reader), WellBehaved r →
    (nextSeq clamp t p (threshJudge limit tooBig) block n s r).1 =
      expectedSeq (recordsT p limit tooBig (segScan s.chunker.offset [] (s.chunker.buf ++ r.src))) n := by
  intro n
  induction n with
  | zero => intro s r _; cases recordsT p limit tooBig _ <;> rfl
  | succ n ih =>
    intro s r hwb
    obtain ⟨hwb', hd⟩ := next_spec p limit tooBig clamp hclamp t block hs hmono h0 s r hwb
    have hi := ih (next clamp t p (threshJudge limit tooBig) block s r).2.1
      (next clamp t p (threshJudge limit tooBig) block s r).2.2 hwb'
    simp only [nextSeq]
    rw [hi]
    generalize recordsT p limit tooBig (segScan s.chunker.offset [] (s.chunker.buf ++ r.src)) = E at hd ⊢
    cases E with
    | nil =>
      obtain ⟨h1, h2⟩ := hd
      rw [h1, h2]; rfl
    | cons x rest =>
      obtain ⟨d, a, b⟩ := x
      obtain ⟨h1, h2⟩ := hd
      rw [h1, h2]; rfl

end Thresh

/-! ### Resynchronisation: delimiters cut the stream into independent parts -/

theorem segScan_no_stuff (start : Nat) (cur l : List UInt8) (h : findStuff l = none) :
    segScan start cur l = [⟨cur ++ l, start, start + (cur ++ l).length⟩] := by
  have := segScan_data l start cur [] (by simpa using h)
  simp only [List.append_nil] at this
  rw [this, segScan_nil]

theorem segScan_cons_cons_ne (start : Nat) (cur : List UInt8) (a b : UInt8) (t : List UInt8)
    (h : ¬ (a = FE ∧ b = FD)) : segScan start cur (a :: b :: t) = segScan start (cur ++ [a]) (b :: t) := by
  simp only [segScan, h, if_false]

theorem segScan_single (start : Nat) (cur : List UInt8) (a : UInt8) :
    segScan start cur [a] = [⟨cur ++ [a], start, start + cur.length + 1⟩] := by
  simp only [segScan]

theorem segScan_append_stuff_aux : ∀ (n : Nat) (a : List UInt8), a.length ≤ n →
    ∀ (start : Nat) (cur rest : List UInt8),
    segScan start cur (a ++ FE :: FD :: rest) =
      segScan start cur a ++ segScan (start + cur.length + a.length + 2) [] rest := by
  intro n
  induction n with
  | zero =>
    intro a ha start cur rest
    have : a = [] := List.length_eq_zero_iff.mp (by omega)
    subst this
    simp [segScan_sentinel, segScan_nil]
  | succ n ih =>
    intro a ha start cur rest
    cases a with
    | nil => simp [segScan_sentinel, segScan_nil]
    | cons x t =>
      cases t with
      | nil =>
        have hx : ¬ (x = FE ∧ FE = FD) := by rintro ⟨_, h⟩; exact FE_ne_FD h
        rw [show [x] ++ FE :: FD :: rest = x :: FE :: FD :: rest from rfl,
          segScan_cons_cons_ne _ _ _ _ _ hx, segScan_sentinel, segScan_single]
        simp [Nat.add_assoc]
      | cons y t' =>
        simp only [List.length_cons] at ha
        by_cases hp : x = FE ∧ y = FD
        · obtain ⟨rfl, rfl⟩ := hp
          rw [show (FE :: FD :: t') ++ FE :: FD :: rest = FE :: FD :: (t' ++ FE :: FD :: rest) from rfl,
            segScan_sentinel, segScan_sentinel, ih t' (by omega)]
          simp only [List.length_nil, List.length_cons, Nat.add_zero, List.cons_append]
          have e : start + cur.length + 2 + t'.length + 2 = start + cur.length + (t'.length + 1 + 1) + 2 := by
            omega
          rw [e]
        · rw [show (x :: y :: t') ++ FE :: FD :: rest = x :: y :: (t' ++ FE :: FD :: rest) from rfl,
            segScan_cons_cons_ne _ _ _ _ _ hp, segScan_cons_cons_ne _ _ _ _ _ hp,
            show y :: (t' ++ FE :: FD :: rest) = (y :: t') ++ FE :: FD :: rest from rfl,
            ih (y :: t') (by simp; omega)]
          simp only [List.length_append, List.length_cons, List.length_nil]
          congr 2
          omega

/-- Whatever precedes a delimiter is scanned on its own, and the scan restarts
afresh after the delimiter. -/
theorem segScan_append_stuff (a : List UInt8) (start : Nat) (cur rest : List UInt8) :
    segScan start cur (a ++ FE :: FD :: rest) =
      segScan start cur a ++ segScan (start + cur.length + a.length + 2) [] rest :=
  segScan_append_stuff_aux a.length a (Nat.le_refl _) start cur rest

theorem mem_recordsT_of_mem (p : Params) (limit : Option Nat) (tooBig : Nat → Bool) (segs : List Seg)
    (sg : Seg) (d : List UInt8) (hmem : sg ∈ segs) (hne : sg.bytes ≠ [])
    (hdec : decodePieces p [sg.bytes] = some d) (hsz : tooBig d.length = false)
    (hlim : ∀ x ∈ segs, atLimit limit x.start = false) :
    (d, sg.start, sg.stop) ∈ recordsT p limit tooBig segs := by
  induction segs with
  | nil => simp at hmem
  | cons x rest ih =>
    simp only [recordsT, hlim x (by simp), Bool.false_eq_true, if_false]
    rcases List.mem_cons.mp hmem with rfl | h
    · apply List.mem_append.mpr; left
      simp [contrib, hne, hdec, hsz]
    · apply List.mem_append.mpr; right
      exact ih h (fun y hy => hlim y (by simp [hy]))

theorem recordsT_length_le (p : Params) (limit : Option Nat) (tooBig : Nat → Bool) (segs : List Seg) :
    (recordsT p limit tooBig segs).length ≤ segs.length := by
  induction segs with
  | nil => simp [recordsT]
  | cons x rest ih =>
    simp only [recordsT]
    split
    · simp
    · have : (contrib p tooBig x).length ≤ 1 := by
        simp only [contrib]; split
        · simp
        · split
          · split <;> simp
          · simp
      simp only [List.length_append, List.length_cons]; omega

theorem mem_expectedSeq (E : List Rcd) : ∀ (n : Nat) (d : List UInt8) (a b : Nat), E.length ≤ n →
    (d, a, b) ∈ E → NextRes.some d a b ∈ expectedSeq E n := by
  induction E with
  | nil => intro n d a b _ h; simp at h
  | cons x rest ih =>
    intro n d a b hn h
    obtain ⟨d', a', b'⟩ := x
    cases n with
    | zero => simp at hn
    | succ n =>
      simp only [expectedSeq]
      rcases List.mem_cons.mp h with h | h
      · simp only [Prod.mk.injEq] at h
        obtain ⟨rfl, rfl, rfl⟩ := h
        simp
      · exact List.mem_cons_of_mem _ (ih n d a b (by simp at hn; omega) h)

theorem expectedSeq_eq (E : List Rcd) : ∀ n : Nat,
    expectedSeq E n = (E.take n).map (fun x => NextRes.some x.1 x.2.1 x.2.2)
      ++ List.replicate (n - E.length) NextRes.none := by
  induction E with
  | nil =>
    intro n
    induction n with
    | zero => rfl
    | succ n ih => simp only [expectedSeq, ih]; simp [List.replicate_succ]
  | cons x rest ih =>
    intro n
    obtain ⟨d, a, b⟩ := x
    cases n with
    | zero => simp [expectedSeq]
    | succ n => simp only [expectedSeq, ih n]; simp

/-! ### Arbitrary judges -/

section Generic
variable (p : Params)

/-- A judge never answers `SkipRecord` for an empty range (a delimiter seen while
looking for the start of a record; nothing has been decoded then).  `chunk_judge` satisfies it; a judge that
does not makes `next_record_bytes` fail its first assertion (see the example in
`Props/C06.lean`). -/
def JudgeOK (judge : Judge) : Prop := ∀ h c, c.start = c.stop → c.size = 0 → judge h c ≠ .skipRecord

/-- `RInv` without the parts that depend on the judge. -/
structure GInv (off : Nat) (rc : Rec) (cur : List UInt8) : Prop where
  idle : rc.st = .skipSentinel → rc.start = rc.stop ∧ cur = [] ∧ rc.emits = [] ∧ rc.dec = .initial
  busy : rc.st ≠ .skipSentinel → rc.start + cur.length = off ∧ rc.stop = off ∧ cur ≠ []
  dec : rc.st = .decodeRecord → ∃ ds, ds.flatten = cur ∧ (∀ d ∈ ds, d ≠ []) ∧ After p ds rc

theorem ginv_fresh (off : Nat) : GInv p off Rec.fresh [] where
  idle := fun _ => ⟨rfl, rfl, rfl, rfl⟩
  busy := fun h => absurd rfl h
  dec := fun h => by simp [Rec.fresh] at h

/-- A finished call: `None`, or one of the records still expected, with what
follows it expected of the later calls. -/
def GDone (E : List Rcd) (res : NextRes) (off' : Nat) (after : List UInt8) : Prop :=
  res = .none ∨ ∃ pre d a b, E = pre ++ (d, a, b) :: recordsAll p (segScan off' [] after) ∧ res = .some d a b

def GStep (s1 : RdState) (r : Reader) (rc : Rec) (E : List Rcd) (off' : Nat) (after : List UInt8)
    (progress : Prop) : StepOut → Prop
  | .done res s' r' => r' = r ∧ s'.chunker = s1.chunker ∧ s'.mem = s1.mem ∧ GDone p E res off' after
  | .continue s' r' rc' => r' = r ∧ s'.chunker = s1.chunker ∧ s'.mem = s1.mem ∧
      (∃ cur', GInv p off' rc' cur' ∧ ∃ pre, E = pre ++ recordsAll p (segsOf off' rc' cur' after)) ∧
      (progress ∨ (rc.st ≠ .skipSentinel ∧ rc'.st = .skipSentinel))

theorem consult_cases (judge : Judge) (s : RdState) (r : Reader) (rc : Rec) :
    consult judge s r rc = .done .none { s with hist := s.hist ++ [⟨rc.start, rc.stop, rc.size⟩] } r ∨
    consult judge s r rc = .continue { s with hist := s.hist ++ [⟨rc.start, rc.stop, rc.size⟩] } r rc ∨
    (consult judge s r rc = .continue { s with hist := s.hist ++ [⟨rc.start, rc.stop, rc.size⟩] } r
        { rc with st := .skipRecord } ∧ judge s.hist ⟨rc.start, rc.stop, rc.size⟩ = .skipRecord) := by
  unfold consult
  simp only
  cases h : judge s.hist ⟨rc.start, rc.stop, rc.size⟩ with
  | keepGoing => right; left; rfl
  | skipRecord => right; right; exact ⟨rfl, rfl⟩
  | stop => left; rfl

theorem recordsAll_cons (sg : Seg) (rest : List Seg) :
    recordsAll p (sg :: rest) = contrib p (fun _ => false) sg ++ recordsAll p rest := by
  simp [recordsAll, recordsT, atLimit]

theorem g_afterBreak (hs : SplitIndep p) (off : Nat) (rc : Rec) (cur : List UInt8)
    (hinv : GInv p off rc cur) (hbusy : rc.st ≠ .skipSentinel) (s2 : RdState) (r : Reader) :
    (afterBreak s2 r rc = .done (.some rc.bytes rc.start off) s2 r ∧
      contrib p (fun _ => false) ⟨cur, rc.start, off⟩ = [(rc.bytes, rc.start, off)]) ∨
    (afterBreak s2 r rc = .continue s2 r Rec.fresh) := by
  obtain ⟨h1, h2, h3⟩ := hinv.busy hbusy
  have hne : rc.start ≠ rc.stop := by
    have : 0 < cur.length := List.length_pos_iff.mpr h3
    omega
  unfold afterBreak
  simp only [hne, if_false]
  cases hst : rc.st with
  | skipSentinel => exact absurd hst hbusy
  | skipRecord => right; simp
  | decodeRecord =>
    obtain ⟨ds, hd1, hd2, hd3⟩ := hinv.dec hst
    have hds : ds ≠ [] := by rintro rfl; exact h3 (by simpa using hd1.symm)
    have hdp : decodePieces p [cur] = decodePieces p ds := by rw [hs ds hd2 hds, hd1]
    have hfin := after_finish p ds rc hd3
    simp only [reduceCtorEq, if_false]
    cases hf : Dec.finish rc.dec with
    | error e => right; rfl
    | ok u =>
      left
      cases u
      rw [hf] at hfin
      refine ⟨by rw [h2], ?_⟩
      simp only [contrib, h3, if_false, hdp, hfin]
      rfl

/-- The segment just closed (by a delimiter or the end of the stream), then
whatever `rest` the remaining stream is expected to yield. -/
theorem g_break (hs : SplitIndep p) (s2 s1 : RdState) (hc : s2.chunker = s1.chunker) (hm : s2.mem = s1.mem)
    (r : Reader) (rc : Rec) (cur after : List UInt8) (off off' : Nat) (pr : Prop) (hpr : pr ∨ after = [] ∧ off' = off)
    (hinv : GInv p off rc cur) (hst : rc.st ≠ .skipSentinel) (E : List Rcd)
    (hE : E = contrib p (fun _ => false) ⟨cur, rc.start, off⟩ ++ recordsAll p (segScan off' [] after)) :
    GStep p s1 r rc E off' after pr (afterBreak s2 r rc) := by
  rcases g_afterBreak p hs off rc cur hinv hst s2 r with ⟨he, hcn⟩ | he
  · rw [he]
    refine ⟨rfl, hc, hm, Or.inr ⟨[], _, _, _, ?_, rfl⟩⟩
    rw [hE, hcn]; rfl
  · rw [he]
    refine ⟨rfl, hc, hm, ⟨[], ginv_fresh p _, ⟨contrib p (fun _ => false) ⟨cur, rc.start, off⟩, ?_⟩⟩, ?_⟩
    · rw [hE]; simp [segsOf, Rec.fresh]
    · rcases hpr with h | h
      · exact Or.inl h
      · exact Or.inr ⟨hst, rfl⟩

theorem g_onChunk (hs : SplitIndep p) (judge : Judge) (hj : JudgeOK judge) (s1 : RdState) (r : Reader)
    (rc : Rec) (cur after : List UInt8) (off : Nat) (ch : Chunk) (hinv : GInv p off rc cur)
    (hok : ChunkOK ch (off + ch.bytes.length) after) :
    GStep p s1 r rc (recordsAll p (segsOf off rc cur (ch.bytes ++ after)))
      (off + ch.bytes.length) after (ch.bytes ≠ []) (onChunk p judge s1 r rc ch) := by
  cases ch with
  | sentinel o =>
    simp only [ChunkOK, Chunk.bytes] at hok
    subst hok
    have hb : ([FE, FD] : List UInt8) ≠ [] := by simp
    unfold onChunk
    have hlt : ¬ off + [FE, FD].length < 2 := by simp
    simp only [hlt, if_false, Chunk.bytes]
    cases hst : rc.st with
    | decodeRecord =>
      simp only
      have hst' : rc.st ≠ .skipSentinel := by simp [hst]
      obtain ⟨b1, b2, b3⟩ := hinv.busy hst'
      refine g_break p hs { s1 with lastSentinel := off + [FE, FD].length - 2 } s1 rfl rfl r rc cur after off _ _
        (Or.inl hb) hinv hst' _ ?_
      simp only [segsOf, hst', if_false, List.cons_append, List.nil_append]
      rw [segScan_sentinel, recordsAll_cons, b1]
      rfl
    | skipRecord =>
      simp only
      have hst' : rc.st ≠ .skipSentinel := by simp [hst]
      obtain ⟨b1, b2, b3⟩ := hinv.busy hst'
      refine g_break p hs { s1 with lastSentinel := off + [FE, FD].length - 2 } s1 rfl rfl r rc cur after off _ _
        (Or.inl hb) hinv hst' _ ?_
      simp only [segsOf, hst', if_false, List.cons_append, List.nil_append]
      rw [segScan_sentinel, recordsAll_cons, b1]
      rfl
    | skipSentinel =>
      obtain ⟨i1, i2, i3, i4⟩ := hinv.idle hst
      simp only
      have hE : recordsAll p (segsOf off rc cur ([FE, FD] ++ after)) =
          recordsAll p (segScan (off + 2) [] after) := by
        simp only [segsOf, hst, if_true, List.cons_append, List.nil_append]
        rw [segScan_sentinel, recordsAll_cons]
        simp [contrib]
      rw [hE]
      have hinv' : GInv p (off + 2)
          ⟨.skipSentinel, off + [FE, FD].length, off + [FE, FD].length, rc.dec, rc.emits⟩ [] :=
        { idle := fun _ => ⟨rfl, rfl, i3, i4⟩, busy := fun h => absurd rfl h,
          dec := fun h => by simp at h }
      rcases consult_cases judge { s1 with lastSentinel := off + [FE, FD].length - 2 } r
        ⟨.skipSentinel, off + [FE, FD].length, off + [FE, FD].length, rc.dec, rc.emits⟩ with h | h | ⟨_, h⟩
      · rw [h]; exact ⟨rfl, rfl, rfl, Or.inl rfl⟩
      · rw [h]
        exact ⟨rfl, rfl, rfl, ⟨[], hinv', [], by simp [segsOf]⟩, Or.inl hb⟩
      · exact absurd h (hj _ _ rfl (size_of_no_emits _ i3))
  | eof =>
    simp only [ChunkOK] at hok
    subst hok
    unfold onChunk
    simp only [Chunk.bytes, List.length_nil, Nat.add_zero, List.nil_append]
    by_cases hst : rc.st = .skipSentinel
    · obtain ⟨i1, _, _, _⟩ := hinv.idle hst
      simp only [i1, if_true]
      exact ⟨rfl, rfl, rfl, Or.inl rfl⟩
    · obtain ⟨b1, b2, b3⟩ := hinv.busy hst
      have hne : rc.start ≠ rc.stop := by
        have : 0 < cur.length := List.length_pos_iff.mpr b3
        omega
      simp only [hne, if_false]
      refine g_break p hs _ s1 rfl rfl r rc cur [] off off _ (Or.inr ⟨rfl, rfl⟩) hinv hst _ ?_
      simp only [segsOf, hst, if_false]
      rw [segScan_nil, segScan_nil, recordsAll_cons, recordsAll_cons, b1]
      simp [contrib, recordsAll, recordsT]
  | data o bs =>
    simp only [ChunkOK, Chunk.bytes] at hok
    obtain ⟨ho, hbs, hfs⟩ := hok
    subst ho
    unfold onChunk
    have hemp : bs.isEmpty = false := by cases bs with
      | nil => exact absurd rfl hbs
      | cons _ _ => rfl
    simp only [hemp, Bool.false_eq_true, if_false, Chunk.bytes]
    -- after the chunk the locals are `rc3`; whatever the judge says the invariant holds
    have finish : ∀ (rc3 : Rec) (start : Nat), rc3.st ≠ .skipSentinel → rc3.start = start →
        rc3.stop = off + bs.length → start + (cur ++ bs).length = off + bs.length →
        (rc3.st = .decodeRecord → ∃ ds, ds.flatten = cur ++ bs ∧ (∀ d ∈ ds, d ≠ []) ∧ After p ds rc3) →
        (∀ rc4 : Rec, rc4.st = .skipRecord → rc4.start = rc3.start → rc4.stop = rc3.stop →
          GInv p (off + bs.length) rc4 (cur ++ bs)) →
        GStep p s1 r rc (recordsAll p (segScan start (cur ++ bs) after)) (off + bs.length) after (bs ≠ [])
          (consult judge s1 r rc3) := by
      intro rc3 start h1 h2 h3 h4 h5 h6
      have hg3 : GInv p (off + bs.length) rc3 (cur ++ bs) :=
        { idle := fun h => absurd h h1, busy := fun _ => ⟨by rw [h2]; exact h4, h3, by simp [hbs]⟩, dec := h5 }
      rcases consult_cases judge s1 r rc3 with h | h | ⟨h, _⟩
      · rw [h]; exact ⟨rfl, rfl, rfl, Or.inl rfl⟩
      · rw [h]
        exact ⟨rfl, rfl, rfl, ⟨cur ++ bs, hg3, [], by simp [segsOf, h1, h2]⟩, Or.inl hbs⟩
      · rw [h]
        exact ⟨rfl, rfl, rfl, ⟨cur ++ bs, h6 _ rfl rfl rfl, [], by simp [segsOf, h2]⟩, Or.inl hbs⟩
    have skipInv : ∀ (rc4 : Rec) (start : Nat), rc4.st = .skipRecord → rc4.start = start →
        rc4.stop = off + bs.length → start + (cur ++ bs).length = off + bs.length →
        GInv p (off + bs.length) rc4 (cur ++ bs) := by
      intro rc4 start h1 h2 h3 h4
      exact { idle := fun h => by simp [h1] at h, busy := fun _ => ⟨by rw [h2]; exact h4, h3, by simp [hbs]⟩,
              dec := fun h => by simp [h1] at h }
    -- feeding the decoder from a `DecodeRecord` state `base`
    have decode : ∀ (base : Rec) (ds : List (List UInt8)), base.st = .decodeRecord →
        base.start + (cur ++ bs).length = off + bs.length → ds.flatten = cur → (∀ d ∈ ds, d ≠ []) →
        After p ds base →
        GStep p s1 r rc (recordsAll p (segScan base.start (cur ++ bs) after)) (off + bs.length) after (bs ≠ [])
          (consult judge s1 r { decodeChunk p base bs with stop := off + bs.length }) := by
      intro base ds hb1 hb2 hb3 hb4 hb5
      have hst3 : ({ decodeChunk p base bs with stop := off + bs.length } : Rec).start = base.start := by
        simp only [decodeChunk]; split <;> rfl
      cases hf : Dec.feedAll p .borrow base.dec bs with
      | error ee =>
        obtain ⟨e, es⟩ := ee
        have e3 : ({ decodeChunk p base bs with stop := off + bs.length } : Rec) =
            { base with st := .skipRecord, emits := base.emits ++ es, stop := off + bs.length } := by
          simp only [decodeChunk, hf]
        rw [e3]
        exact finish _ base.start (by simp) rfl rfl hb2 (fun h => by simp at h)
          (fun rc4 h1 h2 h3 => skipInv rc4 base.start h1 h2 h3 hb2)
      | ok pr =>
        obtain ⟨d', es⟩ := pr
        have e3 : ({ decodeChunk p base bs with stop := off + bs.length } : Rec) =
            { base with dec := d', emits := base.emits ++ es, stop := off + bs.length } := by
          simp only [decodeChunk, hf]
        rw [e3]
        have hafter' := after_step_ok p ds base bs d' es hb5 hf
        exact finish _ base.start (by simp [hb1]) rfl rfl hb2
          (fun _ => ⟨ds ++ [bs], by simp [hb3], by
            intro d hd
            rcases List.mem_append.mp hd with h | h
            · exact hb4 d h
            · simp at h; subst h; exact hbs, fun more => hafter' more⟩)
          (fun rc4 h1 h2 h3 => skipInv rc4 base.start h1 h2 h3 hb2)
    cases hst : rc.st with
    | skipSentinel =>
      obtain ⟨i1, i2, i3, i4⟩ := hinv.idle hst
      subst i2
      simp only [if_true]
      have hE : segsOf off rc [] (bs ++ after) = segScan off ([] ++ bs) after := by
        simp only [segsOf, hst, if_true]
        exact segScan_data bs off [] after hfs
      rw [hE]
      have hsub : off + bs.length - bs.length = off := by omega
      have := decode { rc with start := off, stop := off, st := .decodeRecord } [] rfl (by simp) rfl (by simp)
        (after_nil p _ i4 i3)
      simpa [hsub] using this
    | decodeRecord =>
      obtain ⟨b1, b2, b3⟩ := hinv.busy (by simp [hst])
      obtain ⟨ds, hd1, hd2, hd3⟩ := hinv.dec hst
      simp only [hst, if_true]
      have hE : segsOf off rc cur (bs ++ after) = segScan rc.start (cur ++ bs) after := by
        simp only [segsOf, hst, reduceCtorEq, if_false]
        exact segScan_data bs rc.start cur after hfs
      rw [hE]
      exact decode rc ds hst (by simp; omega) hd1 hd2 hd3
    | skipRecord =>
      obtain ⟨b1, b2, b3⟩ := hinv.busy (by simp [hst])
      simp only [hst, reduceCtorEq, if_false]
      have hE : segsOf off rc cur (bs ++ after) = segScan rc.start (cur ++ bs) after := by
        simp only [segsOf, hst, reduceCtorEq, if_false]
        exact segScan_data bs rc.start cur after hfs
      rw [hE]
      exact finish _ rc.start (by simp) rfl rfl (by simp; omega) (fun h => by simp at h)
        (fun rc4 h1 h2 h3 => skipInv rc4 rc.start h1 h2 h3 (by simp; omega))

theorem g_run_spec (clamp : Nat) (hclamp : 2 ≤ clamp) (t : Tuning) (block : Nat) (hs : SplitIndep p)
    (judge : Judge) (hj : JudgeOK judge) :
    ∀ (fuel : Nat) (s : RdState) (r : Reader) (rc : Rec) (cur : List UInt8),
    WellBehaved r → GInv p s.chunker.offset rc cur →
    2 * (s.chunker.buf ++ r.src).length + (if rc.st = .skipSentinel then 1 else 2) ≤ fuel →
    WellBehaved (run clamp t p judge block fuel s r rc).2.2 ∧
    GDone p (recordsAll p (segsOf s.chunker.offset rc cur (s.chunker.buf ++ r.src)))
      (run clamp t p judge block fuel s r rc).1
      (run clamp t p judge block fuel s r rc).2.1.chunker.offset
      ((run clamp t p judge block fuel s r rc).2.1.chunker.buf ++
        (run clamp t p judge block fuel s r rc).2.2.src) := by
  intro fuel
  induction fuel with
  | zero =>
    intro s r rc cur _ _ hf
    exfalso; split at hf <;> omega
  | succ fuel ih =>
    intro s r rc cur hwb hinv hf
    have hassert : decide (rc.start = rc.stop) = decide (rc.st = .skipSentinel) := by
      by_cases hst : rc.st = .skipSentinel
      · simp [hst, (hinv.idle hst).1]
      · obtain ⟨b1, b2, b3⟩ := hinv.busy hst
        have : 0 < cur.length := List.length_pos_iff.mpr b3
        have : rc.start ≠ rc.stop := by omega
        simp [hst, this]
    have hp := pump_spec clamp hclamp t block s.chunker s.mem r hwb
    obtain ⟨ch, hres, hsplit, hoff, hok⟩ := hp.ex
    rw [hoff] at hok
    have hspec := g_onChunk p hs judge hj
      { s with chunker := (pump clamp t block s.chunker s.mem r).chunker,
               mem := (pump clamp t block s.chunker s.mem r).mem }
      (pump clamp t block s.chunker s.mem r).reader rc cur
      ((pump clamp t block s.chunker s.mem r).chunker.buf ++ (pump clamp t block s.chunker s.mem r).reader.src)
      s.chunker.offset ch hinv hok
    rw [← hsplit] at hspec
    have hstep : step clamp t p judge block s r rc =
        onChunk p judge
          { s with chunker := (pump clamp t block s.chunker s.mem r).chunker,
                   mem := (pump clamp t block s.chunker s.mem r).mem }
          (pump clamp t block s.chunker s.mem r).reader rc ch := by
      unfold step
      simp only [hassert, ne_eq, not_true_eq_false, if_false, hres]
    unfold run
    rw [hstep]
    generalize onChunk p judge
          { s with chunker := (pump clamp t block s.chunker s.mem r).chunker,
                   mem := (pump clamp t block s.chunker s.mem r).mem }
          (pump clamp t block s.chunker s.mem r).reader rc ch = so at hspec ⊢
    cases so with
    | done res s' r' =>
      obtain ⟨h1, h2, h3, h4⟩ := hspec
      simp only
      subst h1
      rw [h2]
      simp only
      rw [hoff]
      exact ⟨hp.wb, h4⟩
    | «continue» s' r' rc' =>
      obtain ⟨h1, h2, h3, ⟨cur', hinv', pre, hE⟩, hprog⟩ := hspec
      simp only
      subst h1
      have hoff' : s'.chunker.offset = s.chunker.offset + ch.bytes.length := by rw [h2]; exact hoff
      have hbuf' : s'.chunker.buf = (pump clamp t block s.chunker s.mem r).chunker.buf := by rw [h2]
      have hfuel : 2 * (s'.chunker.buf ++ (pump clamp t block s.chunker s.mem r).reader.src).length
          + (if rc'.st = .skipSentinel then 1 else 2) ≤ fuel := by
        have hl := congrArg List.length hsplit
        rw [hbuf']
        simp only [List.length_append] at hl hf ⊢
        rcases hprog with hb | ⟨hb1, hb2⟩
        · have : 0 < ch.bytes.length := List.length_pos_iff.mpr hb
          split at hf <;> split <;> omega
        · simp only [hb1, hb2, if_true, if_false] at hf ⊢
          omega
      rw [← hoff'] at hinv' hE
      rw [← hbuf'] at hE
      obtain ⟨hw, hd⟩ := ih s' _ rc' cur' hp.wb hinv' hfuel
      refine ⟨hw, ?_⟩
      rw [hE]
      rcases hd with hn | ⟨pre', d, a, b, he, hr⟩
      · exact Or.inl hn
      · exact Or.inr ⟨pre ++ pre', d, a, b, by rw [he]; simp, hr⟩

/-- Any judge: the records returned before the first `None` are, in order, some
of the records the always-KeepGoing judge would have returned; and no call ever
panics or fails. -/
theorem g_nextSeq_spec (clamp : Nat) (hclamp : 2 ≤ clamp) (t : Tuning) (block : Option Nat)
    (hs : SplitIndep p) (judge : Judge) (hj : JudgeOK judge) :
    ∀ (n : Nat) (s : RdState) (r : Reader), WellBehaved r →
    (leading (nextSeq clamp t p judge block n s r).1).Sublist
      (recordsAll p (segScan s.chunker.offset [] (s.chunker.buf ++ r.src))) ∧
    ∀ res ∈ (nextSeq clamp t p judge block n s r).1, res = .none ∨ ∃ d a b, res = .some d a b := by
  intro n
  induction n with
  | zero => intro s r _; simp [nextSeq, leading]
  | succ n ih =>
    intro s r hwb
    obtain ⟨hw, hd⟩ := g_run_spec p clamp hclamp t (block.getD Woodpile.Gen.defaultBlockSize) hs judge hj
      (runFuel s r) s r Rec.fresh [] hwb (ginv_fresh p _)
      (by simp only [runFuel, Rec.fresh, List.length_append, if_true]; omega)
    have hi := ih (next clamp t p judge block s r).2.1 (next clamp t p judge block s r).2.2 hw
    have hE : segsOf s.chunker.offset Rec.fresh [] (s.chunker.buf ++ r.src) =
        segScan s.chunker.offset [] (s.chunker.buf ++ r.src) := by simp [segsOf, Rec.fresh]
    rw [hE] at hd
    simp only [nextSeq]
    have hnext : next clamp t p judge block s r =
        run clamp t p judge (block.getD Woodpile.Gen.defaultBlockSize) (runFuel s r) s r Rec.fresh := rfl
    rw [← hnext] at hd
    constructor
    · rcases hd with hn | ⟨pre, d, a, b, he, hr⟩
      · rw [hn]; simp [leading]
      · rw [hr, he]
        simp only [leading]
        exact List.Sublist.trans (List.Sublist.cons_cons _ hi.1) (List.sublist_append_right _ _)
    · intro res hres
      rcases List.mem_cons.mp hres with h | h
      · rcases hd with hn | ⟨_, d, a, b, _, hr⟩
        · exact Or.inl (h.trans hn)
        · exact Or.inr ⟨d, a, b, h.trans hr⟩
      · exact hi.2 res h

end Generic

/-! ### `last_sentinel_offset` -/

section LastSentinel
variable (p : Params)

/-- `pos` is the start of the stream or the position right after a delimiter,
and `ls` is where that delimiter starts (0 if there is none yet). -/
def AtBoundary (pos ls : Nat) : Prop := (pos = 0 ∧ ls = 0) ∨ (2 ≤ pos ∧ ls + 2 = pos)

structure LInv (off : Nat) (rest : List UInt8) (ls : Nat) (rc : Rec) : Prop where
  idle : rc.st = .skipSentinel → rc.start = rc.stop ∧ (rest = [] ∨ AtBoundary off ls)
  busy : rc.st ≠ .skipSentinel → AtBoundary rc.start ls ∧ rc.stop = off

/-- What a finished call guarantees about `last_sentinel_offset`. -/
def LDone (res : NextRes) (ls' off' : Nat) (after : List UInt8) : Prop :=
  (match res with
   | .some _ a b => (ls' = b ∧ off' = b + 2) ∨ (after = [] ∧ AtBoundary a ls')
   | _ => True) ∧
  ((res = .none ∨ ∃ d a b, res = .some d a b) → after = [] ∨ AtBoundary off' ls')

def LStep (off' : Nat) (after : List UInt8) : StepOut → Prop
  | .done res s' _ => LDone res s'.lastSentinel off' after
  | .continue s' _ rc' => LInv off' after s'.lastSentinel rc'

theorem l_consult (judge : Judge) (hns : ∀ h c, judge h c ≠ .stop) (s : RdState) (r : Reader) (rc : Rec)
    (off' : Nat) (after : List UInt8)
    (h1 : LInv off' after s.lastSentinel rc)
    (h2 : LInv off' after s.lastSentinel { rc with st := .skipRecord }) :
    LStep off' after (consult judge s r rc) := by
  rcases consult_cases judge s r rc with h | h | ⟨h, _⟩
  · exfalso
    unfold consult at h
    simp only at h
    cases hj : judge s.hist ⟨rc.start, rc.stop, rc.size⟩ with
    | stop => exact hns _ _ hj
    | keepGoing => rw [hj] at h; simp at h
    | skipRecord => rw [hj] at h; simp at h
  · rw [h]; exact h1
  · rw [h]; exact h2

theorem l_afterBreak (s2 : RdState) (r : Reader) (rc : Rec) (off off' : Nat) (after : List UInt8)
    (hstop : rc.stop = off)
    (hcase : (s2.lastSentinel = off ∧ off' = off + 2) ∨
      (after = [] ∧ off' = off ∧ AtBoundary rc.start s2.lastSentinel)) :
    LStep off' after (afterBreak s2 r rc) := by
  have hpost : after = [] ∨ AtBoundary off' s2.lastSentinel := by
    rcases hcase with ⟨h1, h2⟩ | ⟨h1, _⟩
    · right; right; omega
    · left; exact h1
  have hfresh : LInv off' after s2.lastSentinel Rec.fresh :=
    { idle := fun _ => ⟨rfl, hpost⟩, busy := fun h => absurd rfl h }
  unfold afterBreak
  split
  · exact ⟨trivial, fun h => by rcases h with h | ⟨_, _, _, h⟩ <;> simp at h⟩
  · split
    · exact hfresh
    · split
      · exact hfresh
      · refine ⟨?_, fun _ => hpost⟩
        rcases hcase with ⟨h1, h2⟩ | ⟨h1, _, h3⟩
        · left; rw [hstop]; exact ⟨h1, h2⟩
        · right; exact ⟨h1, h3⟩

theorem l_onChunk (judge : Judge) (hns : ∀ h c, judge h c ≠ .stop) (s1 : RdState) (r : Reader) (rc : Rec)
    (after : List UInt8) (off : Nat) (ch : Chunk) (hinv : LInv off (ch.bytes ++ after) s1.lastSentinel rc)
    (hok : ChunkOK ch (off + ch.bytes.length) after) :
    LStep (off + ch.bytes.length) after (onChunk p judge s1 r rc ch) := by
  cases ch with
  | sentinel o =>
    simp only [ChunkOK, Chunk.bytes] at hok
    subst hok
    unfold onChunk
    have hlt : ¬ off + [FE, FD].length < 2 := by simp
    simp only [hlt, if_false, Chunk.bytes]
    have hls : off + [FE, FD].length - 2 = off := by simp
    have hb : AtBoundary (off + [FE, FD].length) (off + [FE, FD].length - 2) := by
      right; simp
    cases hst : rc.st with
    | skipSentinel =>
      simp only
      apply l_consult judge hns
      · exact { idle := fun _ => ⟨rfl, Or.inr hb⟩, busy := fun h => absurd rfl h }
      · exact { idle := fun h => by simp at h, busy := fun _ => ⟨hb, rfl⟩ }
    | decodeRecord =>
      simp only
      have hbz := hinv.busy (by simp [hst])
      exact l_afterBreak { s1 with lastSentinel := off + [FE, FD].length - 2 } r rc off _ after hbz.2
        (Or.inl ⟨by simp, by simp⟩)
    | skipRecord =>
      simp only
      have hbz := hinv.busy (by simp [hst])
      exact l_afterBreak { s1 with lastSentinel := off + [FE, FD].length - 2 } r rc off _ after hbz.2
        (Or.inl ⟨by simp, by simp⟩)
  | eof =>
    simp only [ChunkOK] at hok
    subst hok
    unfold onChunk
    simp only [Chunk.bytes, List.length_nil, Nat.add_zero]
    split
    · exact ⟨trivial, fun _ => Or.inl rfl⟩
    · rename_i hne
      by_cases hst : rc.st = .skipSentinel
      · exact absurd (hinv.idle hst).1 hne
      · exact l_afterBreak s1 r rc off off [] (hinv.busy hst).2 (Or.inr ⟨rfl, rfl, (hinv.busy hst).1⟩)
  | data o bs =>
    simp only [ChunkOK, Chunk.bytes] at hok
    obtain ⟨ho, hbs, _⟩ := hok
    subst ho
    unfold onChunk
    have hemp : bs.isEmpty = false := by cases bs with
      | nil => exact absurd rfl hbs
      | cons _ _ => rfl
    simp only [hemp, Bool.false_eq_true, if_false, Chunk.bytes]
    · have hsub : off + bs.length - bs.length = off := by omega
      have key : ∀ rc3 : Rec, rc3.st ≠ .skipSentinel → AtBoundary rc3.start s1.lastSentinel →
          rc3.stop = off + bs.length → LStep (off + bs.length) after (consult judge s1 r rc3) := by
        intro rc3 h1 h2 h3
        apply l_consult judge hns
        · exact { idle := fun h => absurd h h1, busy := fun _ => ⟨h2, h3⟩ }
        · exact { idle := fun h => by simp at h, busy := fun _ => ⟨h2, h3⟩ }
      have dstart : ∀ base : Rec, (decodeChunk p base bs).start = base.start ∧
          ((decodeChunk p base bs).st = base.st ∨ (decodeChunk p base bs).st = .skipRecord) := by
        intro base; simp only [decodeChunk]; split <;> simp
      cases hst : rc.st with
      | skipSentinel =>
        obtain ⟨_, hb⟩ := hinv.idle hst
        have hbd : AtBoundary off s1.lastSentinel := by
          rcases hb with h | h
          · exfalso; simp [Chunk.bytes] at h; exact hbs h.1
          · exact h
        simp only [if_true, hsub]
        obtain ⟨d1, d2⟩ := dstart { rc with start := off, stop := off, st := .decodeRecord }
        apply key
        · simp only; rcases d2 with h | h <;> simp [h]
        · simp only [d1]; exact hbd
        · rfl
      | decodeRecord =>
        obtain ⟨hb1, hb2⟩ := hinv.busy (by simp [hst])
        simp only [hst, if_true]
        obtain ⟨d1, d2⟩ := dstart rc
        apply key
        · simp only; rcases d2 with h | h <;> simp [h, hst]
        · simp only [d1]; exact hb1
        · rfl
      | skipRecord =>
        obtain ⟨hb1, hb2⟩ := hinv.busy (by simp [hst])
        simp only [hst, reduceCtorEq, if_false]
        apply key
        · simp [hst]
        · exact hb1
        · rfl

/-- `onChunk` leaves the chunker and the reader alone. -/
def Frame (s1 : RdState) (r : Reader) : StepOut → Prop
  | .done _ s' r' => r' = r ∧ s'.chunker = s1.chunker
  | .continue s' r' _ => r' = r ∧ s'.chunker = s1.chunker

theorem consult_frame (judge : Judge) (s s1 : RdState) (hc : s.chunker = s1.chunker) (r : Reader) (rc : Rec) :
    Frame s1 r (consult judge s r rc) := by
  rcases consult_cases judge s r rc with h | h | ⟨h, _⟩ <;> rw [h] <;> exact ⟨rfl, hc⟩

theorem afterBreak_frame (s s1 : RdState) (hc : s.chunker = s1.chunker) (r : Reader) (rc : Rec) :
    Frame s1 r (afterBreak s r rc) := by
  unfold afterBreak
  split
  · exact ⟨rfl, hc⟩
  · split
    · exact ⟨rfl, hc⟩
    · split <;> exact ⟨rfl, hc⟩

theorem frame_ite (s1 : RdState) (r : Reader) (c : Prop) [Decidable c] (a b : StepOut)
    (ha : Frame s1 r a) (hb : Frame s1 r b) : Frame s1 r (if c then a else b) := by
  split <;> assumption

theorem onChunk_frame (judge : Judge) (s1 : RdState) (r : Reader) (rc : Rec) (ch : Chunk) :
    Frame s1 r (onChunk p judge s1 r rc ch) := by
  cases ch with
  | sentinel o =>
    simp only [onChunk]
    apply frame_ite
    · exact ⟨rfl, rfl⟩
    · cases rc.st with
      | skipSentinel => exact consult_frame judge { s1 with lastSentinel := o - 2 } s1 rfl r _
      | decodeRecord => exact afterBreak_frame { s1 with lastSentinel := o - 2 } s1 rfl r rc
      | skipRecord => exact afterBreak_frame { s1 with lastSentinel := o - 2 } s1 rfl r rc
  | eof =>
    simp only [onChunk]
    apply frame_ite
    · exact ⟨rfl, rfl⟩
    · exact afterBreak_frame _ s1 rfl r rc
  | data o bs =>
    simp only [onChunk]
    apply frame_ite
    · exact ⟨rfl, rfl⟩
    · exact consult_frame judge _ s1 rfl r _

theorem l_run_spec (clamp : Nat) (hclamp : 2 ≤ clamp) (t : Tuning) (block : Nat) (judge : Judge)
    (hns : ∀ h c, judge h c ≠ .stop) :
    ∀ (fuel : Nat) (s : RdState) (r : Reader) (rc : Rec), WellBehaved r →
    LInv s.chunker.offset (s.chunker.buf ++ r.src) s.lastSentinel rc →
    WellBehaved (run clamp t p judge block fuel s r rc).2.2 ∧
    LDone (run clamp t p judge block fuel s r rc).1
      (run clamp t p judge block fuel s r rc).2.1.lastSentinel
      (run clamp t p judge block fuel s r rc).2.1.chunker.offset
      ((run clamp t p judge block fuel s r rc).2.1.chunker.buf ++
        (run clamp t p judge block fuel s r rc).2.2.src) := by
  have hpanic : ∀ (ls off : Nat) (after : List UInt8), LDone .panic ls off after :=
    fun _ _ _ => ⟨trivial, fun h => by rcases h with h | ⟨_, _, _, h⟩ <;> simp at h⟩
  intro fuel
  induction fuel with
  | zero => intro s r rc hwb _; exact ⟨hwb, hpanic _ _ _⟩
  | succ fuel ih =>
    intro s r rc hwb hinv
    unfold run
    by_cases hassert : decide (rc.start = rc.stop) ≠ decide (rc.st = .skipSentinel)
    · have : step clamp t p judge block s r rc = .done .panic s r := by
        unfold step; rw [if_pos hassert]
      rw [this]
      exact ⟨hwb, hpanic _ _ _⟩
    · have hp := pump_spec clamp hclamp t block s.chunker s.mem r hwb
      obtain ⟨ch, hres, hsplit, hoff, hok⟩ := hp.ex
      rw [hoff] at hok
      have hstep : step clamp t p judge block s r rc =
          onChunk p judge
            { s with chunker := (pump clamp t block s.chunker s.mem r).chunker,
                     mem := (pump clamp t block s.chunker s.mem r).mem }
            (pump clamp t block s.chunker s.mem r).reader rc ch := by
        unfold step
        rw [if_neg hassert]
        simp only [hres]
      rw [hstep]
      have hfr := onChunk_frame p judge
        { s with chunker := (pump clamp t block s.chunker s.mem r).chunker,
                 mem := (pump clamp t block s.chunker s.mem r).mem }
        (pump clamp t block s.chunker s.mem r).reader rc ch
      have hl := l_onChunk p judge hns
        { s with chunker := (pump clamp t block s.chunker s.mem r).chunker,
                 mem := (pump clamp t block s.chunker s.mem r).mem }
        (pump clamp t block s.chunker s.mem r).reader rc
        ((pump clamp t block s.chunker s.mem r).chunker.buf ++ (pump clamp t block s.chunker s.mem r).reader.src)
        s.chunker.offset ch (by rw [← hsplit]; exact hinv) hok
      generalize onChunk p judge
        { s with chunker := (pump clamp t block s.chunker s.mem r).chunker,
                 mem := (pump clamp t block s.chunker s.mem r).mem }
        (pump clamp t block s.chunker s.mem r).reader rc ch = so at hfr hl ⊢
      cases so with
      | done res s' r' =>
        obtain ⟨h1, h2⟩ := hfr
        simp only
        subst h1
        rw [h2]
        simp only
        rw [hoff]
        exact ⟨hp.wb, hl⟩
      | «continue» s' r' rc' =>
        obtain ⟨h1, h2⟩ := hfr
        simp only
        subst h1
        apply ih s' _ rc' hp.wb
        rw [h2]
        simp only
        rw [hoff]
        exact hl

/-- **`last_sentinel_offset`** (judges that never answer `Stop`, e.g. the
always-KeepGoing judge or `chunk_judge(max, None)`): whenever the last of any
number of calls returns a record with range `a..b`, then either the record was
ended by a delimiter, the reader sits right after it (`offset = b + 2`) and
`last_sentinel_offset = b` is where that delimiter starts; or the record was
ended by the end of the stream, everything has been consumed, and
`last_sentinel_offset` is where the delimiter just before the record starts
(`a - 2`; 0 when the record starts the stream and no delimiter was seen). -/
theorem l_nextSeq_spec (clamp : Nat) (hclamp : 2 ≤ clamp) (t : Tuning) (block : Option Nat)
    (hs : SplitIndep p) (judge : Judge) (hj : JudgeOK judge) (hns : ∀ h c, judge h c ≠ .stop) :
    ∀ (n : Nat) (s : RdState) (r : Reader), WellBehaved r →
    (s.chunker.buf ++ r.src = [] ∨ AtBoundary s.chunker.offset s.lastSentinel) →
    ∀ d a b, (nextSeq clamp t p judge block (n + 1) s r).1.getLast? = some (.some d a b) →
      ((nextSeq clamp t p judge block (n + 1) s r).2.1.lastSentinel = b ∧
        (nextSeq clamp t p judge block (n + 1) s r).2.1.chunker.offset = b + 2) ∨
      ((nextSeq clamp t p judge block (n + 1) s r).2.1.chunker.buf ++
          (nextSeq clamp t p judge block (n + 1) s r).2.2.src = [] ∧
        AtBoundary a (nextSeq clamp t p judge block (n + 1) s r).2.1.lastSentinel) := by
  intro n
  induction n with
  | zero =>
    intro s r hwb hb d a b hlast
    obtain ⟨_, hd⟩ := l_run_spec p clamp hclamp t (block.getD Woodpile.Gen.defaultBlockSize) judge hns
      (runFuel s r) s r Rec.fresh hwb { idle := fun _ => ⟨rfl, hb⟩, busy := fun h => absurd rfl h }
    simp only [nextSeq, List.getLast?_singleton, Option.some.injEq] at hlast ⊢
    have hnext : next clamp t p judge block s r =
        run clamp t p judge (block.getD Woodpile.Gen.defaultBlockSize) (runFuel s r) s r Rec.fresh := rfl
    rw [← hnext] at hd
    have := hd.1
    rw [hlast] at this
    exact this
  | succ n ih =>
    intro s r hwb hb d a b hlast
    obtain ⟨hw, hd⟩ := l_run_spec p clamp hclamp t (block.getD Woodpile.Gen.defaultBlockSize) judge hns
      (runFuel s r) s r Rec.fresh hwb { idle := fun _ => ⟨rfl, hb⟩, busy := fun h => absurd rfl h }
    have hnext : next clamp t p judge block s r =
        run clamp t p judge (block.getD Woodpile.Gen.defaultBlockSize) (runFuel s r) s r Rec.fresh := rfl
    rw [← hnext] at hd hw
    have hstep : (nextSeq clamp t p judge block (n + 1 + 1) s r) =
        ((next clamp t p judge block s r).1 ::
          (nextSeq clamp t p judge block (n + 1) (next clamp t p judge block s r).2.1
            (next clamp t p judge block s r).2.2).1,
         (nextSeq clamp t p judge block (n + 1) (next clamp t p judge block s r).2.1
            (next clamp t p judge block s r).2.2).2) := rfl
    rw [hstep] at hlast ⊢
    simp only at hlast ⊢
    have hne : (nextSeq clamp t p judge block (n + 1) (next clamp t p judge block s r).2.1
        (next clamp t p judge block s r).2.2).1 ≠ [] := by simp [nextSeq]
    rw [List.getLast?_cons_of_ne_nil hne] at hlast
    have hgood : (next clamp t p judge block s r).1 = .none ∨
        ∃ d a b, (next clamp t p judge block s r).1 = .some d a b := by
      obtain ⟨_, hg⟩ := g_run_spec p clamp hclamp t (block.getD Woodpile.Gen.defaultBlockSize) hs judge hj
        (runFuel s r) s r Rec.fresh [] hwb (ginv_fresh p _)
        (by simp only [runFuel, Rec.fresh, List.length_append, if_true]; omega)
      rw [← hnext] at hg
      rcases hg with h | ⟨_, d, a, b, _, h⟩
      · exact Or.inl h
      · exact Or.inr ⟨d, a, b, h⟩
    exact ih _ _ hw (hd.2 hgood) d a b hlast

end LastSentinel

end Woodpile.Stream

/-
The single-iovec vocabulary of C03/C04 (`Woodpile.Iovec.Op`) extended with the ANCHORED push composite
(track `anch`):

    AOp.readPush count attempts src script cuts  =
        let a = iovec.arena().read_n(reader, count, attempts)?;        -- own arena, scripted reader
        for (skip, len) in cuts { a.skip_prefix(skip); let (l, r) = a.split_at(len);   -- both clamp
                                  iovec.push(l.slice); a = r }
        if the slice read was not empty { iovec.push_anchor(a.anchor) }

— what `push_anchored`-style callers (the HCOBS codecs' `encode_anchored`, the stream reader) do with the
slice `read_n` hands back: push sub-slices of it, in order, then hand the anchor over.  Each `push`
copies (small pieces) or borrows the arena memory (possibly merging with the previous slice).  A failed
read pushes nothing.

`arefines`: like every `Op`, the composite never panics, preserves `Inv`, and acts on the abstraction as
`append` of exactly the bytes of the pieces (`cutBytes` of the bytes read).  It is ONE operation of the
history — no held slice survives it — so the history invariant stays `Inv` and `run_refines`' induction
carries over (`arun_refines`).  (Interleaving `register_patch` / `backfill` between the pieces, as the
encoder does, is `Proofs/EncWorldAnch.lean`.)
-/
import Woodpile.Proofs.IovecAnch
import Woodpile.Model.EncWorld

namespace Woodpile.Iovec
open Woodpile.Arena
open Woodpile.Pipe (Cell Pipe cellBytes fillCells)
open Woodpile.EncWorld (readOwn pushAnchorOf)

/-- The pieces cut out of `bs`: skip, take, skip, take, … (both clamp, as `skip_prefix` / `split_at`). -/
def cutBytes : List UInt8 → List (Nat × Nat) → List (List UInt8)
  | _, [] => []
  | bs, (skip, len) :: t => (bs.drop skip).take len :: cutBytes ((bs.drop skip).drop len) t

/-- `push` the pieces of the held slice `h`, in order. -/
def World.pushCuts (w : World) (i : Nat) (h : Slice) : List (Nat × Nat) → Option World
  | [] => some w
  | (skip, len) :: t =>
    let k := min skip h.len
    let l := min len (h.len - k)
    match w.push i ⟨h.region, h.off + k, l⟩ with
    | none => none
    | some w' => w'.pushCuts i ⟨h.region, h.off + k + l, h.len - k - l⟩ t

/-- `read_n` into the own arena, push the pieces, push the anchor. -/
def World.readPush (w : World) (i : Nat) (r : ReadN.Reader) (count attempts : Nat) (cuts : List (Nat × Nat)) :
    Option World :=
  match readOwn w i r count attempts with
  | none => none
  | some (w1, .error _, _) => some w1
  | some (w1, .ok a, _) =>
    match w1.pushCuts i a.slice cuts with
    | none => none
    | some w2 => pushAnchorOf w2 i a

/-- The extended vocabulary. -/
inductive AOp where
  | op (o : Op)
  | readPush (count attempts : Nat) (src : List UInt8) (script : List ReadN.Ev) (cuts : List (Nat × Nat))
  deriving Repr, DecidableEq

def astep (i : Nat) (s : State) : AOp → Option (State × Ret)
  | .op o => step i s o
  | .readPush count attempts src script cuts =>
    (s.w.readPush i ⟨src, script⟩ count attempts cuts).map fun w' => ({ s with w := w' }, .unit)

/-- The bytes an anchored push composite appends. -/
def readPushBytes (count attempts : Nat) (src : List UInt8) (script : List ReadN.Ev) (cuts : List (Nat × Nat)) :
    List UInt8 :=
  match (ReadN.readNCore ⟨src, script⟩ count attempts).res with
  | .ok got => (cutBytes got cuts).flatten
  | .err _ => []

def aspecStep (p : Pipe) : AOp → Ret → Pipe
  | .op o, r => specStep p o r
  | .readPush count attempts src script cuts, _ => p.append (readPushBytes count attempts src script cuts)

def aspecOk (p : Pipe) : AOp → Ret → Prop
  | .op o, r => specOk p o r
  | .readPush .., r => r = .unit

def arun (i : Nat) : State → List AOp → Option (State × List Ret)
  | s, [] => some (s, [])
  | s, op :: ops =>
    match astep i s op with
    | none => none
    | some (s', r) =>
      match arun i s' ops with
      | none => none
      | some (s'', rs) => some (s'', r :: rs)

def aspecRun (p : Pipe) : List AOp → List Ret → Pipe
  | op :: ops, r :: rs => aspecRun (aspecStep p op r) ops rs
  | _, _ => p

def aspecOkRun (p : Pipe) : List AOp → List Ret → Prop
  | op :: ops, r :: rs => aspecOk p op r ∧ aspecOkRun (aspecStep p op r) ops rs
  | [], [] => True
  | _, _ => False

/-! ### Pushing the pieces -/

theorem pushCuts_empty (w : World) (i : Nat) (v : Iov) (hv : w.iov i = some v) (cuts : List (Nat × Nat)) :
    ∀ (reg : Region) (off : Nat), w.pushCuts i ⟨reg, off, 0⟩ cuts = some w := by
  induction cuts with
  | nil => intro _ _; rfl
  | cons c t ih =>
    intro reg off
    obtain ⟨skip, len⟩ := c
    have hp : ∀ o, w.push i ⟨reg, o, 0⟩ = some w := by
      intro o
      have h0 : w.sliceBytes ⟨reg, o, 0⟩ = [] := by
        cases reg <;> simp [World.sliceBytes, Heap.read]
      unfold World.push
      rw [hv]
      simp only [Nat.zero_le, decide_true, Bool.true_or, if_true, h0]
      unfold World.pushCopy; rw [hv]; rfl
    simp only [World.pushCuts, Nat.min_zero, Nat.sub_zero, Nat.add_zero, hp]
    exact ih reg off

theorem sliceBytes_sub (w : World) (h : Slice) (a l : Nat) (hr : ∃ c, h.region = .chunk c) (hle : a + l ≤ h.len) :
    w.sliceBytes ⟨h.region, h.off + a, l⟩ = ((w.sliceBytes h).drop a).take l := by
  obtain ⟨c, hc⟩ := hr
  simp only [World.sliceBytes, hc]
  have e : h.len = a + (l + (h.len - a - l)) := by omega
  conv => rhs; rw [e, Heap.read_add, List.drop_left' (by simp), Heap.read_add, List.take_left' (by simp)]

/-- Pushing the pieces of a held slice appends exactly `cutBytes` of its bytes. -/
theorem World.pushCuts_spec (i : Nat) (cuts : List (Nat × Nat)) :
    ∀ (w : World) (v : Iov) (h : Slice) (bs : List UInt8), w.iov i = some v → IovInv w v → HeldOk w v h →
      w.sliceBytes h = bs →
      ∃ w' v', w.pushCuts i h cuts = some w' ∧ w'.iov i = some v' ∧ Pushed w w' v v' (cutBytes bs cuts).flatten := by
  induction cuts with
  | nil =>
    intro w v h bs hv hinv _ _
    exact ⟨w, v, rfl, hv, by simpa [cutBytes] using Pushed.refl hinv⟩
  | cons c t ih =>
    intro w v h bs hv hinv hh hb
    obtain ⟨skip, len⟩ := c
    have hlen : bs.length = h.len := by rw [← hb]; exact sliceBytes_chunk_length w h hh.reg
    have hk : min skip h.len ≤ h.len := Nat.min_le_right _ _
    have hl : min len (h.len - min skip h.len) ≤ h.len - min skip h.len := Nat.min_le_right _ _
    generalize hkd : min skip h.len = k at hk hl
    generalize hld : min len (h.len - k) = l at hl
    have hpiece : HeldOk w v ⟨h.region, h.off + k, l⟩ := hh.sub _ rfl (by simp only; omega) (by simp only; omega)
    have hpb : w.sliceBytes ⟨h.region, h.off + k, l⟩ = (bs.drop skip).take len := by
      rw [sliceBytes_sub w h k l hh.reg (by omega), hb]
      apply List.ext_getElem?
      intro j
      simp only [List.getElem?_take, List.getElem?_drop]
      by_cases hj : j < l
      · have hj2 : j < len := by omega
        simp only [hj, hj2, if_true]
        by_cases hs : skip ≤ h.len
        · have : k = skip := by omega
          rw [this]
        · have hk2 : k = h.len := by omega
          rw [List.getElem?_eq_none (by omega), List.getElem?_eq_none (by omega)]
      · simp only [hj, if_false]
        by_cases hj2 : j < len
        · simp only [hj2, if_true]
          rw [List.getElem?_eq_none (by omega)]
        · simp only [hj2, if_false]
    obtain ⟨w1, v1, g1, g2, g3, _, g5⟩ := World.pushHeld_total w i v _ _ hv hinv hpiece hpb
    have hrest : HeldOk w v ⟨h.region, h.off + k + l, h.len - k - l⟩ :=
      hh.sub _ rfl (by simp only; omega) (by simp only; omega)
    obtain ⟨r1, r2⟩ := g5 _ hrest (by intro c _ _; simp only; right; left; omega)
    have hrb : w1.sliceBytes ⟨h.region, h.off + k + l, h.len - k - l⟩ = (bs.drop skip).drop len := by
      rw [r2]
      have := sliceBytes_sub w h (k + l) (h.len - k - l) hh.reg (by omega)
      rw [← Nat.add_assoc] at this
      rw [this, hb, List.take_of_length_le (by simp; omega), List.drop_drop]
      apply List.ext_getElem?
      intro j
      simp only [List.getElem?_drop]
      by_cases hs : skip ≤ h.len
      · have e1 : k = skip := by omega
        by_cases hs2 : len ≤ h.len - k
        · have e2 : l = len := by omega
          rw [e1, e2]
        · have e2 : l = h.len - k := by omega
          rw [List.getElem?_eq_none (by omega), List.getElem?_eq_none (by omega)]
      · have e1 : k = h.len := by omega
        rw [List.getElem?_eq_none (by omega), List.getElem?_eq_none (by omega)]
    obtain ⟨w2, v2, k1, k2, k3⟩ := ih w1 v1 _ _ g2 g3.inv r1 hrb
    refine ⟨w2, v2, ?_, k2, ?_⟩
    · simp only [World.pushCuts, hkd, hld, g1]
      exact k1
    · simpa [cutBytes] using g3.trans k3

/-- The anchored push composite refines `append` of the pieces' bytes. -/
theorem World.readPush_spec (w : World) (i : Nat) (v : Iov) (count attempts : Nat) (src : List UInt8)
    (script : List ReadN.Ev) (cuts : List (Nat × Nat)) (hv : w.iov i = some v) (hinv : IovInv w v) :
    ∃ w' v', w.readPush i ⟨src, script⟩ count attempts cuts = some w' ∧ w'.iov i = some v' ∧
      Pushed w w' v v' (readPushBytes count attempts src script cuts) := by
  obtain ⟨w1, ar', res, hrn, hv1, _, hpush, _, herr, hokr⟩ :=
    World.readN_spec w i v ⟨src, script⟩ count attempts hv hinv
  have hro : readOwn w i ⟨src, script⟩ count attempts =
      some (w1.setIov i (some { v with arena := ar' }), res, ReadN.readNCore ⟨src, script⟩ count attempts) := by
    unfold readOwn
    rw [hv]
    simp only [hrn, hv1]
  have hv2 : (w1.setIov i (some { v with arena := ar' })).iov i = some { v with arena := ar' } := by simp
  cases hres : (ReadN.readNCore ⟨src, script⟩ count attempts).res with
  | err k =>
    have := herr k hres
    subst this
    refine ⟨_, _, by simp only [World.readPush, hro], hv2, ?_⟩
    simpa [readPushBytes, hres] using hpush
  | ok got =>
    obtain ⟨a, hra, hal, hab, hheld⟩ := hokr got hres
    subst hra
    have hbytes : readPushBytes count attempts src script cuts = (cutBytes got cuts).flatten := by
      simp [readPushBytes, hres]
    rw [hbytes]
    by_cases hl0 : a.slice.len = 0
    · have hg0 : got = [] := List.length_eq_zero_iff.mp (by omega)
      subst hg0
      have hcb : ∀ cs : List (Nat × Nat), (cutBytes [] cs).flatten = [] := by
        intro cs
        induction cs with
        | nil => rfl
        | cons c t ih => obtain ⟨a, b⟩ := c; simp [cutBytes, ih]
      rw [hcb]
      have hpc := pushCuts_empty _ i _ hv2 cuts a.slice.region a.slice.off
      have ha : a.slice = ⟨a.slice.region, a.slice.off, 0⟩ := by
        cases hs : a.slice with
        | mk r o l => rw [hs] at hl0; simp only at hl0; subst hl0; rfl
      refine ⟨_, _, ?_, hv2, hpush⟩
      simp only [World.readPush, hro]
      rw [ha, hpc]
      simp only [pushAnchorOf]
      rw [if_pos hl0]
    · have hc : 0 < count := by
        rcases Nat.eq_zero_or_pos count with h0 | h0
        · subst h0
          have : ReadN.readNCore ⟨src, script⟩ 0 attempts = ⟨.ok [], [], ⟨src, script⟩⟩ := by simp [ReadN.readNCore]
          rw [this] at hres
          simp only [ReadN.ReadRes.ok.injEq] at hres
          subst hres
          simp at hal; exact absurd hal hl0
        · exact h0
      obtain ⟨hheld1, _⟩ := hheld hc
      obtain ⟨w2, v2, k1, k2, k3⟩ := World.pushCuts_spec i cuts _ _ a.slice got hv2 hpush.inv hheld1 hab
      obtain ⟨m1, m2⟩ := World.pushAnchor_spec w2 i v2 a.anchor k2 k3.inv
      refine ⟨w2.setIov i (some { v2 with anchors := v2.anchors ++ [{ a.anchor with count := 0 }] }),
        { v2 with anchors := v2.anchors ++ [{ a.anchor with count := 0 }] }, ?_, World.iov_setIov w2 i _, ?_⟩
      · simp only [World.readPush, hro, k1, pushAnchorOf, hl0, if_false, m1]
      · have := (hpush.trans k3).trans m2
        simpa using this

/-- Per-operation refinement for the extended vocabulary (`Props/C03.op_refines` for `AOp`). -/
theorem astep_refines (i : Nat) (s s' : State) (op : AOp) (r : Ret) (hinv : Inv i s)
    (h : astep i s op = some (s', r)) :
    Inv i s' ∧ abs i s' = aspecStep (abs i s) op r ∧ aspecOk (abs i s) op r := by
  cases op with
  | op o => exact step_refines i s s' o r hinv h
  | readPush count attempts src script cuts =>
    obtain ⟨v, hv, hi⟩ := hinv
    obtain ⟨w', v', h1, h2, h3⟩ := World.readPush_spec s.w i v count attempts src script cuts hv hi
    simp only [astep, h1, Option.map_some, Option.some.injEq, Prod.mk.injEq] at h
    obtain ⟨rfl, rfl⟩ := h
    obtain ⟨g1, g2⟩ := producer_refines i s w' v v' _ hv h2 h3
    exact ⟨g1, g2, rfl⟩

/-- The anchored push composite never panics. -/
theorem astep_readPush_some (i : Nat) (s : State) (count attempts : Nat) (src : List UInt8) (script : List ReadN.Ev)
    (cuts : List (Nat × Nat)) (hinv : Inv i s) :
    ∃ s', astep i s (.readPush count attempts src script cuts) = some (s', .unit) := by
  obtain ⟨v, hv, hi⟩ := hinv
  obtain ⟨w', v', h1, _, _⟩ := World.readPush_spec s.w i v count attempts src script cuts hv hi
  exact ⟨{ s with w := w' }, by simp only [astep, h1, Option.map_some]⟩

theorem arun_refines (i : Nat) :
    ∀ (ops : List AOp) (s s' : State) (rs : List Ret), Inv i s → arun i s ops = some (s', rs) →
      Inv i s' ∧ abs i s' = aspecRun (abs i s) ops rs ∧ aspecOkRun (abs i s) ops rs := by
  intro ops
  induction ops with
  | nil =>
    intro s s' rs hinv h
    simp only [arun, Option.some.injEq, Prod.mk.injEq] at h
    obtain ⟨rfl, rfl⟩ := h
    exact ⟨hinv, rfl, trivial⟩
  | cons op ops ih =>
    intro s s' rs hinv h
    simp only [arun] at h
    cases h1 : astep i s op with
    | none => rw [h1] at h; cases h
    | some sr =>
      obtain ⟨s1, r⟩ := sr
      rw [h1] at h
      simp only at h
      cases h2 : arun i s1 ops with
      | none => rw [h2] at h; cases h
      | some srs =>
        obtain ⟨s2, rs2⟩ := srs
        rw [h2] at h
        simp only [Option.some.injEq, Prod.mk.injEq] at h
        obtain ⟨rfl, rfl⟩ := h
        obtain ⟨a1, a2, a3⟩ := astep_refines i s s1 op r hinv h1
        obtain ⟨b1, b2, b3⟩ := ih s1 s2 rs2 a1 h2
        refine ⟨b1, ?_, ?_⟩
        · simp only [aspecRun]; rw [← a2]; exact b2
        · simp only [aspecOkRun]; rw [← a2]; exact ⟨a3, b3⟩

end Woodpile.Iovec

/-
Layer B, ownership along ANCHORED codec calls (track `rdrworld`; audit gap 11).

`Encoder::encode_anchored(a)` / `Decoder::decode_anchored(a)` are the composite

    for each borrowed piece the state machine emits: iovec.push(&a.slice()[range]);   -- copied when small
    iovec.push_anchor(a.anchor)

Between the first `push` and `push_anchor` the guard of the pushed sub-slices is the call's own
`AnchoredSlice a`, not an anchor of the deque: the intermediate worlds are outside `WorldInv`
(`Proofs/IovecOwn.lean`), and a decoder fed header-only bytes pushes an anchor onto an EMPTY deque, so
`HeadPos` fails even between calls.  This file carries the generalised invariant:

* `IovOkZ next exts zs v` — `IovOk` without the head condition and with the zero-count anchors `zs`
  the running call still HOLDS appended to the deque: `Guarded (v.anchors ++ zs) v.slices`;
* `HInv i w held` — `WorldInv` in that form for a world in which the call on iovec `i` holds the
  anchored slice `held` (`none` between calls), plus `ArenaInv` of the world in which the held slice is
  REGISTERED as a detached slice (`World.holding`): the held slice is a holder like any other, it lies
  below the bump pointer of its chunk's cache, and fresh allocations land above it;
* `HStep` — the micro-steps a codec call is made of (`push_copy`, `push` of a caller buffer range, `push`
  of a range of the held slice, `register_patch`, `backfill`, drains, lending a buffer, `read_n` on the
  iovec's own arena, `push_anchor`, and — for `StreamReader` — taking a detached slice of the world as the
  held one).  Every micro-step preserves `HInv` (`HStep.inv`) and is an `AStep` of the holding worlds
  (`HStep.astep`), so it satisfies the conclusion of `C05.no_overlap` (`HStep.fresh`).
-/
import Woodpile.Proofs.EncGlue

namespace Woodpile.Iovec
open Woodpile.Arena

/-! ### The guard with zero-count anchors behind -/

theorem anchorChunks_insert {as zs : List Anchor} (z : Anchor) {k : Nat} (h : k ∈ anchorChunks (as ++ zs)) :
    k ∈ anchorChunks (as ++ z :: zs) := by
  rw [mem_anchorChunks] at h ⊢
  obtain ⟨a, ha, hk⟩ := h
  refine ⟨a, ?_, hk⟩
  simp only [List.mem_append, List.mem_cons] at ha ⊢
  rcases ha with ha | ha
  · exact Or.inl ha
  · exact Or.inr (Or.inr ha)

/-- A zero-count anchor can be inserted in front of the trailing zero-count anchors. -/
theorem Guarded.insert_zero {as : List Anchor} : ∀ {ss : List Slice} {zs : List Anchor} (c : Option Nat),
    Guarded (as ++ zs) ss → AllZero zs → Guarded (as ++ ⟨0, c⟩ :: zs) ss := by
  induction as with
  | nil =>
    intro ss zs c h hz
    have := Guarded.of_allZero hz (by simpa using h)
    subst this
    apply guarded_allZero_nil
    intro z hz'
    simp only [List.nil_append, List.mem_cons] at hz'
    rcases hz' with rfl | hz'
    · rfl
    · exact hz z hz'
  | cons a rest ih =>
    intro ss zs c h hz
    rw [List.cons_append, guarded_cons] at h
    obtain ⟨h1, h2, h3⟩ := h
    rw [List.cons_append, guarded_cons]
    refine ⟨h1, fun s hs => ?_, ih c h3 hz⟩
    obtain ⟨hl, hk⟩ := h2 s hs
    refine ⟨hl, fun k hk' => ?_⟩
    have := hk k hk'
    rw [← List.cons_append] at this ⊢
    exact anchorChunks_insert _ this

/-- Push a slice counted by a fresh anchor that goes in front of the trailing zero-count anchors. -/
theorem Guarded.snoc_newZ {as zs : List Anchor} {ss : List Slice} (h : Guarded (as ++ zs) ss) (hz : AllZero zs)
    (s : Slice) (c : Option Nat) (hl : 0 < s.len) (hc : ∀ k, s.region = .chunk k → c = some k) :
    Guarded (as ++ ⟨1, c⟩ :: zs) (ss ++ [s]) := by
  have h0 := h.insert_zero c hz
  have := h0.snoc_inc hz s hl (by
    intro k hk
    rw [mem_anchorChunks]
    exact ⟨⟨0, c⟩, by simp, hc k hk⟩)
  simpa using this

theorem copyAnchors_guardZ {as zs : List Anchor} {ss : List Slice} (hg : Guarded (as ++ zs) ss) (hz : AllZero zs)
    (chunk off len : Nat) (hl : 0 < len) :
    Guarded (copyAnchors as chunk ++ zs) (ss ++ [⟨.chunk chunk, off, len⟩]) := by
  rcases copyAnchors_cases as chunk with ⟨ys, a, has, hc, h⟩ | ⟨_, h⟩
  · rw [h]
    rw [has] at hg
    simp only [List.append_assoc, List.singleton_append] at hg ⊢
    refine hg.snoc_inc hz _ hl ?_
    intro k hk
    simp only [Region.chunk.injEq] at hk
    subst hk
    rw [mem_anchorChunks]
    exact ⟨a, by simp, hc⟩
  · rw [h]
    simp only [List.append_assoc, List.singleton_append]
    exact hg.snoc_newZ hz _ _ hl (by intro k hk; simp only [Region.chunk.injEq] at hk; rw [hk])

theorem copyAnchors_chunksZ (as zs : List Anchor) (chunk : Nat) :
    ∀ k ∈ anchorChunks (copyAnchors as chunk ++ zs), k ∈ anchorChunks (as ++ zs) ∨ k = chunk := by
  intro k hk
  rw [anchorChunks_append, List.mem_append] at hk
  rcases hk with hk | hk
  · rcases copyAnchors_chunks as chunk k hk with h | h
    · exact Or.inl (anchorChunks_mono_left h)
    · exact Or.inr h
  · left; rw [anchorChunks_append]; exact List.mem_append_right _ hk

/-! ### `IovOk` with held anchors, without the head condition -/

/-- `IovOk` for an iovec whose running call still holds the zero-count anchors `zs` (they will be
pushed by the `push_anchor` that ends the call); no condition on the front anchor. -/
structure IovOkZ (next : Nat) (exts : List (List UInt8)) (zs : List Anchor) (v : Iov) : Prop where
  zero : AllZero zs
  guard : Guarded (v.anchors ++ zs) v.slices
  anchorsLt : ∀ k ∈ anchorChunks (v.anchors ++ zs), k < next
  cacheLt : ∀ c, v.arena.cache = some c → c.chunk < next
  extOk : ∀ s ∈ v.slices, ExtOk exts s

theorem allZero_nil : AllZero [] := by intro z hz; cases hz

theorem IovOk.toZ {n : Nat} {e : List (List UInt8)} {v : Iov} (h : IovOk n e v) : IovOkZ n e [] v :=
  ⟨allZero_nil, by simpa using h.guard, by simpa using h.anchorsLt, h.cacheLt, h.extOk⟩

theorem IovOkZ.toOk {n : Nat} {e : List (List UInt8)} {v : Iov} (h : IovOkZ n e [] v) (hp : HeadPos v.anchors) :
    IovOk n e v :=
  ⟨by simpa using h.guard, by simpa using h.anchorsLt, h.cacheLt, h.extOk, hp⟩

theorem IovOkZ.mono {n n' : Nat} {e t : List (List UInt8)} {zs : List Anchor} {v : Iov} (h : IovOkZ n e zs v)
    (hn : n ≤ n') : IovOkZ n' (e ++ t) zs v :=
  ⟨h.zero, h.guard, fun k hk => Nat.lt_of_lt_of_le (h.anchorsLt k hk) hn,
   fun c hc => Nat.lt_of_lt_of_le (h.cacheLt c hc) hn, fun s hs => (h.extOk s hs).mono⟩

theorem IovOkZ.mono0 {n n' : Nat} {e : List (List UInt8)} {zs : List Anchor} {v : Iov} (h : IovOkZ n e zs v)
    (hn : n ≤ n') : IovOkZ n' e zs v := by
  have := h.mono (t := []) hn
  simpa using this

theorem iovOkZ_empty (n : Nat) (e : List (List UInt8)) : IovOkZ n e [] Iov.empty := (iovOk_empty n e).toZ

theorem IovOkZ.with_arena {n : Nat} {e : List (List UInt8)} {zs : List Anchor} {v : Iov} (h : IovOkZ n e zs v)
    (a : Arena) (ha : ∀ c, a.cache = some c → c.chunk < n) : IovOkZ n e zs { v with arena := a } :=
  ⟨h.zero, h.guard, h.anchorsLt, ha, h.extOk⟩

theorem IovOkZ.with_backrefs {n : Nat} {e : List (List UInt8)} {zs : List Anchor} {v : Iov} (h : IovOkZ n e zs v)
    (b : List (Nat × BackrefInfo)) : IovOkZ n e zs { v with backrefs := b } :=
  ⟨h.zero, h.guard, h.anchorsLt, h.cacheLt, h.extOk⟩

theorem IovOkZ.optimize {n : Nat} {e : List (List UInt8)} {zs : List Anchor} {v v' : Iov} (hv : IovOkZ n e zs v)
    (h : v.optimize = some v') : IovOkZ n e zs v' :=
  ⟨hv.zero, optimize_guard zs hv.zero hv.guard h,
   by rw [anchorChunks_append, optimize_chunks h, ← anchorChunks_append]; exact hv.anchorsLt,
   by rw [Woodpile.Iovec.optimize_arena h]; exact hv.cacheLt,
   fun s hs b hb => hv.extOk s (optimize_ext h s hs b hb) b hb⟩

/-- `push_borrowed` of a caller-buffer range, or of an owned range whose chunk one of the held anchors
holds. -/
theorem IovOkZ.pushBorrowedSlice {n : Nat} {e : List (List UInt8)} {zs : List Anchor} {v v' : Iov} {s : Slice}
    (hv : IovOkZ n e zs v) (h : v.pushBorrowedSlice s = some v') (hs : ExtOk e s)
    (hc : ∀ k, s.region = .chunk k → k ∈ anchorChunks zs) : IovOkZ n e zs v' := by
  refine ⟨hv.zero, pushBorrowedSlice_guard zs hv.zero hv.guard h hc, ?_, ?_, ?_⟩
  · rw [anchorChunks_append, pushBorrowedSlice_chunks h, ← anchorChunks_append]; exact hv.anchorsLt
  · rw [pushBorrowedSlice_arena h]; exact hv.cacheLt
  · intro x hx b hb
    rcases pushBorrowedSlice_ext h x hx b hb with hx | rfl
    · exact hv.extOk x hx b hb
    · exact hs b hb

theorem IovOkZ.consumeSlices {n : Nat} {e : List (List UInt8)} {v v' : Iov} {count k : Nat}
    (hv : IovOkZ n e [] v) (h : v.consumeSlices count = some (v', k)) : IovOkZ n e [] v' := by
  obtain ⟨hk, as1, hd, rfl⟩ := consumeSlices_specO h
  have hg : Guarded v.anchors v.slices := by simpa using hv.guard
  refine ⟨allZero_nil, ?_, ?_, hv.cacheLt, ?_⟩
  · simpa using (hg.drain _ k (by omega) hd).dropZero
  · intro c hc
    have := hv.anchorsLt c
    simp only [List.append_nil] at this hc
    exact this (anchorChunks_drain _ k hd c (anchorChunks_dropZero c hc))
  · intro s hs
    exact hv.extOk s (List.mem_of_mem_drop hs)

theorem IovOkZ.consumeBytes {n : Nat} {e : List (List UInt8)} {v v' : Iov} {fuel count consumed c : Nat}
    (hv : IovOkZ n e [] v) (h : Iov.consumeBytes fuel v count consumed = some (v', c)) : IovOkZ n e [] v' := by
  refine consumeBytes_preserves (IovOkZ n e []) (fun v v' k hp hc => hp.consumeSlices hc) ?_ fuel v count consumed v' c hv h
  intro v s rest m hp hs hm
  refine ⟨allZero_nil, ?_, hp.anchorsLt, hp.cacheLt, ?_⟩
  · have := hp.guard
    simp only [List.append_nil] at this ⊢
    rw [hs] at this
    exact this.shrink_head rfl (by simp; omega)
  · intro x hx
    simp only [List.mem_cons] at hx
    rcases hx with rfl | hx
    · intro b hb
      have := hp.extOk s (by rw [hs]; simp) b hb
      simp only; omega
    · exact hp.extOk x (by rw [hs]; simp [hx])

/-- The `push_anchor` that ends the call moves the held anchor into the deque. -/
theorem IovOkZ.pushAnchor {n : Nat} {e : List (List UInt8)} {z : Anchor} {v : Iov} (hv : IovOkZ n e [z] v) :
    IovOkZ n e [] { v with anchors := v.anchors ++ [z] } :=
  ⟨allZero_nil, by simpa using hv.guard, by simpa using hv.anchorsLt, hv.cacheLt, hv.extOk⟩

/-- The call starts holding an anchor. -/
theorem IovOkZ.hold {n : Nat} {e : List (List UInt8)} {v : Iov} (hv : IovOkZ n e [] v) (c : Option Nat)
    (hc : ∀ k, c = some k → k < n) : IovOkZ n e [⟨0, c⟩] v := by
  have hg : Guarded v.anchors v.slices := by simpa using hv.guard
  refine ⟨by intro z hz; simp only [List.mem_singleton] at hz; subst hz; rfl, hg.snoc_anchor c, ?_, hv.cacheLt, hv.extOk⟩
  intro k hk
  rw [anchorChunks_append, List.mem_append] at hk
  rcases hk with hk | hk
  · exact hv.anchorsLt k (by simpa using hk)
  · simp only [anchorChunks, List.filterMap_cons, List.filterMap_nil] at hk
    cases c with
    | none => simp at hk
    | some c0 => simp at hk; subst hk; exact hc _ rfl

/-! ### The world in which the held slice is registered -/

/-- The zero-count anchor the call will push for the slice it holds. -/
def heldZs : Option ASlice → List Anchor
  | none => []
  | some a => [{ a.anchor with count := 0 }]

/-- The world with the call's held `AnchoredSlice` registered as one more detached slice: a holder of
its chunk, and a slice the arena invariant speaks about. -/
def World.holding (w : World) : Option ASlice → World
  | none => w
  | some a => (w.addASlice a).1

@[simp] theorem holding_none (w : World) : w.holding none = w := rfl
@[simp] theorem holding_next (w : World) (h : Option ASlice) : (w.holding h).next = w.next := by cases h <;> rfl
@[simp] theorem holding_exts (w : World) (h : Option ASlice) : (w.holding h).exts = w.exts := by cases h <;> rfl
@[simp] theorem holding_iov (w : World) (h : Option ASlice) (j : Nat) : (w.holding h).iov j = w.iov j := by
  cases h <;> rfl
@[simp] theorem holding_arena (w : World) (h : Option ASlice) (j : Nat) : (w.holding h).arena j = w.arena j := by
  cases h <;> rfl
@[simp] theorem holding_cacheAt (w : World) (h : Option ASlice) (x : Holder) :
    (w.holding h).cacheAt x = w.cacheAt x := by
  cases h with
  | none => rfl
  | some a => simp [World.holding]

theorem hasSlice_addASlice_mono {w : World} {a : ASlice} {s : Slice} (h : w.HasSlice s) :
    (w.addASlice a).1.HasSlice s := by
  rcases h with ⟨j, v, hv, hs⟩ | ⟨j, a', ha, hs⟩
  · exact Or.inl ⟨j, v, by simpa using hv, hs⟩
  · refine Or.inr ⟨j, a', ?_, hs⟩
    rw [aslice_addASlice]
    have hj : j ≠ w.aslices.length := by
      intro e
      rw [aslice_none_of_ge w j (by omega)] at ha
      cases ha
    simp [hj, ha]

theorem hasSlice_holding {w : World} {held : Option ASlice} {s : Slice} :
    (w.holding held).HasSlice s ↔ w.HasSlice s ∨ ∃ a, held = some a ∧ a.slice = s := by
  cases held with
  | none => simp
  | some a =>
    constructor
    · intro h
      rcases hasSlice_addASlice h with h0 | h0
      · exact Or.inr ⟨a, rfl, h0⟩
      · exact Or.inl h0
    · rintro (h | ⟨a', ha, rfl⟩)
      · exact hasSlice_addASlice_mono h
      · cases ha
        exact Or.inr ⟨w.aslices.length, _, by simp [World.holding], rfl⟩

theorem derived_holding {w : World} {held : Option ASlice} {s : Slice} (h : w.Derived s) :
    (w.holding held).Derived s := by
  rcases h with hb | ⟨x, hx, hr, hl⟩
  · exact Or.inl hb
  · exact Or.inr ⟨x, hasSlice_holding.2 (Or.inl hx), hr, hl⟩

/-- An `AStep` of the plain worlds is an `AStep` of the worlds that hold the same slice. -/
theorem AStep.holding {w w' : World} (h : AStep w w') (held : Option ASlice) :
    AStep (w.holding held) (w'.holding held) := by
  have hd : ∀ s', (w'.holding held).HasSlice s' → w'.HasSlice s' ∨ (w.holding held).Derived s' := by
    intro s' hs'
    rcases hasSlice_holding.1 hs' with h0 | ⟨a, ha, rfl⟩
    · exact Or.inl h0
    · exact Or.inr (World.HasSlice.derived (hasSlice_holding.2 (Or.inr ⟨a, ha, rfl⟩)))
  cases h with
  | move o hn hc hinj hs =>
    refine .move o (by simpa using hn) (fun h c hh => by simpa using hc h c (by simpa using hh))
      (fun h1 h2 c1 c2 e1 e2 e => hinj h1 h2 c1 c2 (by simpa using e1) (by simpa using e2) e) ?_
    intro s' hs'
    rcases hd s' hs' with h0 | h0
    · exact derived_holding (hs s' h0)
    · exact h0
  | alloc X c' n hother hX hcase hs =>
    refine .alloc X c' n (fun h e => by simpa using hother h e) (by simpa using hX) ?_ ?_
    · rcases hcase with ⟨c, h1, h2, h3, h4⟩ | ⟨h1, h2, h3, h4⟩
      · exact Or.inl ⟨c, by simpa using h1, h2, h3, by simpa using h4⟩
      · exact Or.inr ⟨by simpa using h1, h2, h3, by simpa using h4⟩
    · intro s' hs'
      rcases hd s' hs' with h0 | h0
      · rcases hs s' h0 with h1 | h1 | ⟨l, hl, h2⟩
        · exact Or.inl (derived_holding h1)
        · exact Or.inr (Or.inl h1)
        · exact Or.inr (Or.inr ⟨l, hasSlice_holding.2 (Or.inl hl), h2⟩)
      · exact Or.inl h0

/-! ### `AStep` preserves `ArenaInv` under the bare bound on chunk ordinals -/

/-- Chunks named by caches and slices have been allocated: all `AStep.inv` uses of `WorldInv`. -/
structure Bounded (w : World) : Prop where
  cacheLt : ∀ h c, w.cacheAt h = some c → c.chunk < w.next
  sliceLt : ∀ s k, w.HasSlice s → s.region = .chunk k → k < w.next

theorem WorldInv.bounded {w : World} (hw : WorldInv w) : Bounded w :=
  ⟨fun _ _ hc => hw.cacheAt_lt hc, fun _ _ hs hr => hw.hasSlice_lt hs hr⟩

/-- `AStep.inv` from `Bounded` (same proof). -/
theorem AStep.invB {w w' : World} {caps caps' : Nat → Nat} (hw : Bounded w) (ha : ArenaInv w caps) (h : AStep w w')
    (hold : ∀ k, k < w.next → caps' k = caps k)
    (hnew : ∀ h c, w'.cacheAt h = some c → caps' c.chunk = c.cap) : ArenaInv w' caps' := by
  have derived_below : ∀ h c s', w.cacheAt h = some c → w.Derived s' → s'.region = .chunk c.chunk →
      s'.off + s'.len ≤ c.bump := by
    intro h c s' hc hd hr
    rcases hd with ⟨b, hb⟩ | ⟨s, hs, hr2, hl⟩
    · rw [hb] at hr; cases hr
    · have := ha.below h c s hc hs (hr2 ▸ hr); omega
  have derived_cap : ∀ s' k, w.Derived s' → s'.region = .chunk k → s'.off + s'.len ≤ caps' k ∧ k < w.next := by
    intro s' k hd hr
    rcases hd with ⟨b, hb⟩ | ⟨s, hs, hr2, hl⟩
    · rw [hb] at hr; cases hr
    · have := ha.inCap s k hs (hr2 ▸ hr)
      have hlt := hw.sliceLt s k hs (hr2 ▸ hr)
      exact ⟨by rw [hold k hlt]; omega, hlt⟩
  cases h with
  | move o hn hc hinj hs =>
    refine ⟨?_, ?_, ?_, ?_⟩
    · intro h h' c c' h1 h2 he
      exact hinj h h' c c' h1 h2 (ha.unique _ _ c c' (hc h c h1) (hc h' c' h2) he)
    · intro h c hh; exact ⟨(ha.bumpLe _ c (hc h c hh)).1, hnew h c hh⟩
    · intro h c s' hh hs' hr; exact derived_below _ c s' (hc h c hh) (hs s' hs') hr
    · intro s' k hs' hr; exact (derived_cap s' k (hs s' hs') hr).1
  | alloc X c' n hother hX hcase hs =>
    rcases hcase with ⟨c, hcX, hc', hle, hn⟩ | ⟨hck, hb, hcap, hn⟩
    · -- same chunk
      have hchunk : c'.chunk = c.chunk := by rw [hc']
      have hcapeq : c'.cap = c.cap := by rw [hc']
      have hbump : c'.bump = c.bump + n := by rw [hc']
      have old_of : ∀ h d, w'.cacheAt h = some d → ∃ d0, w.cacheAt h = some d0 ∧ d0.chunk = d.chunk ∧
          d0.cap = d.cap ∧ d0.bump ≤ d.bump ∧ (h ≠ X → d0 = d) := by
        intro h d hd
        by_cases e : h = X
        · subst e; rw [hX] at hd; cases hd
          exact ⟨c, hcX, hchunk.symm, hcapeq.symm, by omega, fun hne => absurd rfl hne⟩
        · rw [hother h e] at hd; exact ⟨d, hd, rfl, rfl, Nat.le_refl _, fun _ => rfl⟩
      refine ⟨?_, ?_, ?_, ?_⟩
      · intro h h' d d' h1 h2 he
        obtain ⟨d0, hd0, e0, _, _, _⟩ := old_of h d h1
        obtain ⟨d0', hd0', e0', _, _, _⟩ := old_of h' d' h2
        exact ha.unique h h' d0 d0' hd0 hd0' (by omega)
      · intro h d hd
        refine ⟨?_, hnew h d hd⟩
        obtain ⟨d0, hd0, e0, e1, e2, e3⟩ := old_of h d hd
        have := ha.bumpLe h d0 hd0
        by_cases e : h = X
        · subst e; rw [hX] at hd; cases hd
          rw [hcX] at hd0; cases hd0
          omega
        · rw [← e3 e]; exact this.1
      · intro h d s' hd hs' hr
        obtain ⟨d0, hd0, e0, e1, e2, e3⟩ := old_of h d hd
        rcases hs s' hs' with hdv | ⟨hr', _, hle'⟩ | ⟨l, hl, hlr, hr', _, _, hle''⟩
        · have := derived_below h d0 s' hd0 hdv (by rw [e0]; exact hr); omega
        · rw [hr'] at hr; simp at hr
          have hX0 : h = X := ha.unique h X d0 c hd0 hcX (by omega)
          subst hX0; rw [hX] at hd; cases hd; exact hle'
        · rw [hr'] at hr; simp at hr
          have hX0 : h = X := ha.unique h X d0 c hd0 hcX (by omega)
          subst hX0; rw [hX] at hd; cases hd; exact Nat.le_of_eq hle''
      · intro s' k hs' hr
        have hcapX := hnew X c' hX
        rcases hs s' hs' with hdv | ⟨hr', _, hle'⟩ | ⟨l, hl, hlr, hr', _, _, hle''⟩
        · exact (derived_cap s' k hdv hr).1
        · rw [hr'] at hr; simp at hr; subst hr
          rw [hcapX]; omega
        · rw [hr'] at hr; simp at hr; subst hr
          rw [hcapX]; have := Nat.le_of_eq hle''; omega
    · -- fresh chunk
      have old_of : ∀ h d, w'.cacheAt h = some d → h ≠ X → w.cacheAt h = some d ∧ d.chunk < w.next := by
        intro h d hd e
        rw [hother h e] at hd; exact ⟨hd, hw.cacheLt h d hd⟩
      refine ⟨?_, ?_, ?_, ?_⟩
      · intro h h' d d' h1 h2 he
        by_cases e : h = X <;> by_cases e' : h' = X
        · rw [e, e']
        · subst e; rw [hX] at h1; cases h1
          have := (old_of h' d' h2 e').2; omega
        · subst e'; rw [hX] at h2; cases h2
          have := (old_of h d h1 e).2; omega
        · exact ha.unique h h' d d' (old_of h d h1 e).1 (old_of h' d' h2 e').1 he
      · intro h d hd
        refine ⟨?_, hnew h d hd⟩
        by_cases e : h = X
        · subst e; rw [hX] at hd; cases hd; omega
        · exact (ha.bumpLe h d (old_of h d hd e).1).1
      · intro h d s' hd hs' hr
        rcases hs s' hs' with hdv | ⟨hr', _, hle'⟩ | ⟨l, hl, hlr, hr', _, _, hle''⟩
        · by_cases e : h = X
          · subst e; rw [hX] at hd; cases hd
            have := (derived_cap s' _ hdv hr).2; omega
          · exact derived_below h d s' (old_of h d hd e).1 hdv hr
        · rw [hr'] at hr; simp at hr
          by_cases e : h = X
          · subst e; rw [hX] at hd; cases hd; exact hle'
          · have := (old_of h d hd e).2; omega
        · have := hw.sliceLt l _ hl hlr; omega
      · intro s' k hs' hr
        have hcapX := hnew X c' hX
        rcases hs s' hs' with hdv | ⟨hr', _, hle'⟩ | ⟨l, hl, hlr, hr', _, _, hle''⟩
        · exact (derived_cap s' k hdv hr).1
        · rw [hr'] at hr; simp at hr; subst hr
          rw [hcapX]; omega
        · have := hw.sliceLt l _ hl hlr; omega

theorem AStep.exists_capsB {w w' : World} {caps : Nat → Nat} (hw : Bounded w) (ha : ArenaInv w caps) (h : AStep w w') :
    ∃ caps' : Nat → Nat, (∀ k, k < w.next → caps' k = caps k) ∧ (∀ h c, w'.cacheAt h = some c → caps' c.chunk = c.cap) := by
  cases h with
  | move o hn hc hinj hs =>
    exact ⟨caps, fun _ _ => rfl, fun h c hh => (ha.bumpLe _ c (hc h c hh)).2⟩
  | alloc X c' n hother hX hcase hs =>
    rcases hcase with ⟨c, hcX, hc', hle, hn⟩ | ⟨hck, hb, hcap, hn⟩
    · refine ⟨caps, fun _ _ => rfl, ?_⟩
      intro h d hd
      by_cases e : h = X
      · subst e; rw [hX] at hd; cases hd
        have := (ha.bumpLe h c hcX).2
        rw [hc']; exact this
      · rw [hother h e] at hd; exact (ha.bumpLe h d hd).2
    · refine ⟨fun k => if k = w.next then c'.cap else caps k, ?_, ?_⟩
      · intro k hk; have : k ≠ w.next := by omega
        simp [this]
      · intro h d hd
        by_cases e : h = X
        · subst e; rw [hX] at hd; cases hd; simp [hck]
        · rw [hother h e] at hd
          have : d.chunk ≠ w.next := Nat.ne_of_lt (hw.cacheLt h d hd)
          simp [this]; exact (ha.bumpLe h d hd).2

/-- One `AStep` from a bounded world: the arena invariant carries over, for the capacity ghost that
records the fresh chunk. -/
theorem AStep.arenaInvB {w w' : World} (hw : Bounded w) (ha : ∃ caps, ArenaInv w caps) (h : AStep w w') :
    ∃ caps', ArenaInv w' caps' := by
  obtain ⟨caps, ha⟩ := ha
  obtain ⟨caps', h1, h2⟩ := h.exists_capsB hw ha
  exact ⟨caps', h.invB hw ha h1 h2⟩

/-- The conclusion of `C05.no_overlap` for one `AStep` between worlds that satisfy the arena invariant. -/
theorem AStep.fresh {w w' : World} {caps caps' : Nat → Nat} (hw : Bounded w) (ha : ArenaInv w caps)
    (ha' : ArenaInv w' caps') (h : AStep w w') :
    ∃ k lo hi, lo ≤ hi ∧ hi ≤ caps' k ∧
      (∀ s, w.HasSlice s → s.region = .chunk k → s.off + s.len ≤ lo) ∧
      (∀ s', w'.HasSlice s' → w.Derived s' ∨
        (s'.region = .chunk k ∧ lo ≤ s'.off ∧ s'.off + s'.len ≤ hi) ∨
        (∃ l, w.HasSlice l ∧ s'.region = l.region ∧ l.region = .chunk k ∧ s'.off = l.off ∧
          l.off + l.len = lo ∧ s'.off + s'.len = hi)) := by
  cases h with
  | move o hn hc hinj hsl =>
    refine ⟨w.next, 0, 0, Nat.le_refl _, Nat.zero_le _, ?_, fun s' hs' => Or.inl (hsl s' hs')⟩
    intro s hs hr
    have := hw.sliceLt s _ hs hr; omega
  | alloc X c' n hother hX hcase hsl =>
    have hb' := ha'.bumpLe X c' hX
    refine ⟨c'.chunk, c'.bump - n, c'.bump, Nat.sub_le _ _, by rw [hb'.2]; exact hb'.1, ?_, ?_⟩
    · intro s hs hr
      rcases hcase with ⟨c, hcX, hc', hle, hn⟩ | ⟨hck, hb, hcap, hn⟩
      · have := ha.below X c s hcX hs (by rw [hr, hc'])
        rw [hc']; simp only; omega
      · have := hw.sliceLt s _ hs hr; omega
    · intro s' hs'
      rcases hsl s' hs' with h1 | h1 | ⟨l, hl, h2, h3, h4, h5, h6⟩
      · exact Or.inl h1
      · exact Or.inr (Or.inl h1)
      · exact Or.inr (Or.inr ⟨l, hl, by rw [h3, h2], h2, h4, h5, h6⟩)

/-! ### The invariant of a world whose running call holds an anchored slice -/

/-- `WorldInv` (without the head condition) and `ArenaInv` for a world in which the call running on
iovec `i` holds the anchored slice `held` (`none`: between calls). -/
structure HInv (i : Nat) (w : World) (held : Option ASlice) : Prop where
  iovOk : ∀ j v, w.iov j = some v → IovOkZ w.next w.exts (if j = i then heldZs held else []) v
  arenaOk : ∀ j a, w.arena j = some a → ArenaOk w.next a
  asliceOk : ∀ j s, w.aslice j = some s → ASliceOk w.next s
  heldOk : ∀ a, held = some a → ASliceOk w.next a
  arena : ∃ caps, ArenaInv (w.holding held) caps

theorem HInv.bounded {i : Nat} {w : World} {held : Option ASlice} (h : HInv i w held) : Bounded (w.holding held) := by
  refine ⟨?_, ?_⟩
  · intro x c hc
    rw [holding_cacheAt] at hc
    rw [holding_next]
    cases x with
    | iov j =>
      simp only [World.cacheAt] at hc
      cases hv : w.iov j with
      | none => simp [hv] at hc
      | some v => simp [hv] at hc; exact (h.iovOk j v hv).cacheLt c hc
    | arena j =>
      simp only [World.cacheAt] at hc
      cases hv : w.arena j with
      | none => simp [hv] at hc
      | some a => simp [hv] at hc; exact h.arenaOk j a hv c hc
  · intro s k hs hr
    rw [holding_next]
    rcases hasSlice_holding.1 hs with (⟨j, v, hv, hm⟩ | ⟨j, a, ha, rfl⟩) | ⟨a, ha, rfl⟩
    · have hok := h.iovOk j v hv
      exact hok.anchorsLt k ((hok.guard.mem s hm).2 k hr)
    · have hok := h.asliceOk j a ha
      exact hok.chunkLt k (hok.anchored k hr)
    · have hok := h.heldOk a ha
      exact hok.chunkLt k (hok.anchored k hr)

/-- Between calls, with the head condition: the invariants of `Props/C05`. -/
theorem HInv.good {i : Nat} {w : World} (h : HInv i w none) (hp : ∀ j v, w.iov j = some v → HeadPos v.anchors) :
    Good w := by
  refine ⟨⟨fun j v hv => ?_, h.arenaOk, h.asliceOk⟩, by simpa using h.arena⟩
  have := h.iovOk j v hv
  have hz : (if j = i then heldZs none else []) = ([] : List Anchor) := by split <;> rfl
  rw [hz] at this
  exact this.toOk (hp j v hv)

theorem Good.hInv {w : World} (h : Good w) (i : Nat) : HInv i w none := by
  obtain ⟨hw, ha⟩ := h
  refine ⟨fun j v hv => ?_, hw.arenaOk, hw.asliceOk, (fun a ha => by cases ha), (by simpa using ha)⟩
  have hz : (if j = i then heldZs none else []) = ([] : List Anchor) := by split <;> rfl
  rw [hz]
  exact (hw.iovOk j v hv).toZ

/-- The workhorse (as `WorldInv.transfer`). -/
theorem HInv.transfer {i : Nat} {w w' : World} {held held' : Option ASlice} (h : HInv i w held)
    (hn : w.next ≤ w'.next) (he : ∃ t, w'.exts = w.exts ++ t)
    (hi : ∀ j v, w'.iov j = some v → (w.iov j = some v ∧ (j = i → heldZs held' = heldZs held)) ∨
      IovOkZ w'.next w'.exts (if j = i then heldZs held' else []) v)
    (ha : ∀ j a, w'.arena j = some a → w.arena j = some a ∨ ArenaOk w'.next a)
    (hs : ∀ j s, w'.aslice j = some s → w.aslice j = some s ∨ ASliceOk w'.next s)
    (hh : ∀ a, held' = some a → held = some a ∨ ASliceOk w'.next a)
    (har : AStep (w.holding held) (w'.holding held')) : HInv i w' held' := by
  obtain ⟨t, het⟩ := he
  refine ⟨fun j v hv => ?_, fun j a hj => ?_, fun j s hj => ?_, fun a hj => ?_, har.arenaInvB h.bounded h.arena⟩
  · rcases hi j v hv with ⟨h1, h2⟩ | h1
    · have := (h.iovOk j v h1).mono (t := t) hn
      rw [het]
      by_cases e : j = i
      · rw [if_pos e] at this ⊢; rw [h2 e]; exact this
      · rw [if_neg e] at this ⊢; exact this
    · exact h1
  · rcases ha j a hj with h1 | h1
    · exact fun c hc => Nat.lt_of_lt_of_le (h.arenaOk j a h1 c hc) hn
    · exact h1
  · rcases hs j s hj with h1 | h1
    · exact (h.asliceOk j s h1).mono hn
    · exact h1
  · rcases hh a hj with h1 | h1
    · exact (h.heldOk a h1).mono hn
    · exact h1

/-- Only iovec `i` changed (and the heap / chunk counter). -/
theorem HInv.setIov {i : Nat} {w w' : World} {held : Option ASlice} {v' : Iov} (h : HInv i w held)
    (hn : w.next ≤ w'.next) (he : w'.exts = w.exts) (hi : ∀ j, w'.iov j = if j = i then some v' else w.iov j)
    (ha : ∀ j, w'.arena j = w.arena j) (hs : ∀ j, w'.aslice j = w.aslice j)
    (hv' : IovOkZ w'.next w'.exts (heldZs held) v')
    (har : AStep (w.holding held) (w'.holding held)) : HInv i w' held := by
  refine h.transfer hn ⟨[], by simp [he]⟩ ?_ (fun j a hj => Or.inl (by rw [← ha]; exact hj))
    (fun j s hj => Or.inl (by rw [← hs]; exact hj)) (fun a ha => Or.inl ha) har
  intro j v hv
  rw [hi] at hv
  by_cases e : j = i
  · rw [if_pos e] at hv; cases hv
    right; rw [if_pos e]; exact hv'
  · rw [if_neg e] at hv
    exact Or.inl ⟨hv, fun e' => absurd e' e⟩

/-! ### The micro-steps of a codec call -/

/-- One micro-step of a call on iovec `i`: the world and the anchored slice the call holds, before and
after. -/
inductive HStep (i : Nat) : World → Option ASlice → World → Option ASlice → Prop
  /-- `push_copy` -/
  | copy {w w' : World} {held : Option ASlice} {bs : List UInt8} (h : w.pushCopy i bs = some w') : HStep i w held w' held
  /-- `push` of an in-bounds range of a caller buffer -/
  | pushExt {w w' : World} {held : Option ASlice} {s : Slice} (h : w.push i s = some w') (hr : ∃ b, s.region = .ext b)
      (he : ExtOk w.exts s) : HStep i w held w' held
  /-- `push` of a range of the anchored slice the call holds -/
  | pushHeld {w w' : World} {a : ASlice} {s : Slice} (h : w.push i s = some w') (hr : s.region = a.slice.region)
      (hk : ∃ k, s.region = .chunk k) (h1 : a.slice.off ≤ s.off) (h2 : s.off + s.len ≤ a.slice.off + a.slice.len) :
      HStep i w (some a) w' (some a)
  | register {w w' : World} {held : Option ASlice} {pat : List UInt8} {b : Backref}
      (h : w.registerPatch i pat = some (w', b)) : HStep i w held w' held
  | backfill {w w' : World} {held : Option ASlice} {b : Backref} {src : List UInt8}
      (h : w.backfill i b src = some w') : HStep i w held w' held
  | consume {w w' : World} {k n : Nat} (h : w.consume i k = some (w', n)) : HStep i w none w' none
  | advance {w w' : World} {k n : Nat} (h : w.advance i k = some (w', n)) : HStep i w none w' none
  /-- the caller lends a buffer -/
  | lend {w : World} {held : Option ASlice} (d : List UInt8) : HStep i w held (w.addExt d).1 held
  /-- `read_n` on the iovec's own arena returned a non-empty anchored slice: the call holds it -/
  | readOk {w w' : World} {a : ASlice} {o : ReadN.Out} {r : ReadN.Reader} {count attempts : Nat}
      (h : Woodpile.EncWorld.readOwn w i r count attempts = some (w', .ok a, o)) (hl : a.slice.len ≠ 0) :
      HStep i w none w' (some a)
  /-- … an empty one: dropped at once (`encode_anchored` of an empty slice does nothing) -/
  | readEmpty {w w' : World} {a : ASlice} {o : ReadN.Out} {r : ReadN.Reader} {count attempts : Nat}
      (h : Woodpile.EncWorld.readOwn w i r count attempts = some (w', .ok a, o)) (hl : a.slice.len = 0) :
      HStep i w none w' none
  | readErr {w w' : World} {k : Nat} {o : ReadN.Out} {r : ReadN.Reader} {count attempts : Nat}
      (h : Woodpile.EncWorld.readOwn w i r count attempts = some (w', .error k, o)) : HStep i w none w' none
  /-- the `push_anchor` that ends the call -/
  | anchor {w w' : World} {a : ASlice} (h : w.pushAnchor i a.anchor = some w') : HStep i w (some a) w' none
  /-- a detached anchored slice of the world is handed to the call (`decode_anchored(chunk)`) -/
  | take {w : World} {j : Nat} {a : ASlice} (h : w.aslice j = some a) (hl : a.slice.len ≠ 0) :
      HStep i w none (w.setASlice j none) (some a)

theorem pushBorrowed_addASlice (w : World) (a : ASlice) (i : Nat) (s : Slice) :
    (w.addASlice a).1.pushBorrowed i s = (w.pushBorrowed i s).map (fun w' => (w'.addASlice a).1) := by
  simp only [World.pushBorrowed, iov_addASlice]
  cases w.iov i with
  | none => rfl
  | some v =>
    simp only
    by_cases h0 : s.len = 0
    · simp [h0]
    · simp only [h0, if_false]
      cases v.pushBorrowedSlice s with
      | none => rfl
      | some v' => rfl

theorem registerPatch_astep {w w' : World} {i : Nat} {pat : List UInt8} {b : Backref}
    (h : w.registerPatch i pat = some (w', b)) : AStep w w' := by
  rcases registerPatch_spec h with ⟨_, rfl, _⟩ | ⟨_, w1, v, last, hpc, hv, _, _, _, _, rfl⟩
  · exact AStep.refl_of_same rfl (fun _ => rfl) (fun _ h => h.derived)
  · refine (pushCopy_astep hpc).congr_right rfl ?_ ?_
    · intro h
      simp only [cacheAt_setIov]
      split
      · rename_i e; subst e; simp [cacheAt_iov hv]
      · rfl
    · intro s hs
      rcases hasSlice_setIov hs with ⟨x, hx, hm⟩ | h0
      · cases hx; exact Or.inl ⟨i, v, hv, hm⟩
      · exact h0

theorem readOwn_spec {w w' : World} {i : Nat} {r : ReadN.Reader} {count attempts : Nat} {res : Except Nat ASlice}
    {o : ReadN.Out} (h : Woodpile.EncWorld.readOwn w i r count attempts = some (w', res, o)) :
    ∃ v w1 ar', w.iov i = some v ∧ w.readN v.arena r count attempts = (w1, ar', res, o) ∧
      (∃ hp nx, w1 = { w with heap := hp, next := nx }) ∧ w' = w1.setIov i (some { v with arena := ar' }) := by
  unfold Woodpile.EncWorld.readOwn at h
  cases hv : w.iov i with
  | none => rw [hv] at h; cases h
  | some v =>
    rw [hv] at h
    simp only at h
    rcases hr : w.readN v.arena r count attempts with ⟨w1, ar', res1, o1⟩
    rw [hr] at h
    simp only at h
    have hshape : ∃ hp nx, w1 = { w with heap := hp, next := nx } := by
      unfold World.readN at hr
      split at hr
      · simp only [Prod.mk.injEq] at hr
        exact ⟨w.heap, w.next, hr.1.symm⟩
      · rcases hal : alloc w.tun v.arena w.next count with ⟨a1, next1, chunk, off⟩
        simp only [hal] at hr
        cases hres : (ReadN.readNCore r count attempts).res with
        | ok got =>
          simp only [hres, Prod.mk.injEq] at hr
          exact ⟨_, _, hr.1.symm⟩
        | err k =>
          simp only [hres, Prod.mk.injEq] at hr
          exact ⟨_, _, hr.1.symm⟩
    obtain ⟨hp, nx, rfl⟩ := hshape
    have hv1 : World.iov ({ w with heap := hp, next := nx } : World) i = some v := hv
    rw [hv1] at h
    simp only [Option.some.injEq, Prod.mk.injEq] at h
    obtain ⟨rfl, rfl, rfl⟩ := h
    exact ⟨v, _, ar', rfl, hr, ⟨hp, nx, rfl⟩, rfl⟩

/-- `read_n` on iovec `i`'s own arena as an `AStep` into any world `wf` that adds at most the returned slice. -/
theorem readOwn_astep {w w' wf : World} {i : Nat} {r : ReadN.Reader} {count attempts : Nat} {res : Except Nat ASlice}
    {o : ReadN.Out} (h : Woodpile.EncWorld.readOwn w i r count attempts = some (w', res, o))
    (hn : wf.next = w'.next) (hc : ∀ x, wf.cacheAt x = w'.cacheAt x)
    (hsl : ∀ s, wf.HasSlice s → w'.HasSlice s ∨ ∃ x, res = .ok x ∧ x.slice = s) : AStep w wf := by
  obtain ⟨v, w1, ar', hv, hr, ⟨hp, nx, rfl⟩, rfl⟩ := readOwn_spec h
  refine readN_astep (X := .iov i) (cacheAt_iov hv) hr (by rw [hn]; rfl) (by rw [hc]; simp) ?_ ?_
  · intro x hx
    rw [hc]
    simp [hx]
  · intro s hs
    rcases hsl s hs with h0 | h0
    · left
      rcases hasSlice_setIov h0 with ⟨x, hx, hm⟩ | h1
      · cases hx; exact Or.inl ⟨i, v, hv, hm⟩
      · exact hasSlice_of_same (fun _ => rfl) (fun _ => rfl) h1
    · exact Or.inr h0

theorem HStep.astep {i : Nat} {w w' : World} {held held' : Option ASlice} (hs : HStep i w held w' held') :
    AStep (w.holding held) (w'.holding held') := by
  cases hs with
  | copy h => exact (pushCopy_astep h).holding _
  | pushExt h hr he => exact (push_astep h (Or.inl hr)).holding _
  | @pushHeld _ a s h hr hk h1 h2 =>
    rcases push_cases h with h | h
    · exact (pushCopy_astep h).holding _
    · have hd : (w.holding (some a)).Derived s :=
        Or.inr ⟨a.slice, hasSlice_holding.2 (Or.inr ⟨a, rfl, rfl⟩), hr, h2⟩
      have : (w.addASlice a).1.pushBorrowed i s = some (w'.addASlice a).1 := by
        rw [pushBorrowed_addASlice, h]; rfl
      exact (pushBorrowed_quiet this hd).astep
  | register h => exact (registerPatch_astep h).holding _
  | backfill h => exact (Woodpile.EncWorld.backfill_quiet h).astep.holding _
  | consume h => exact consume_astep h
  | advance h => exact advance_astep h
  | lend d => exact (quiet_with_exts w (w.exts ++ [d])).astep.holding _
  | @readOk _ a o r count attempts h hl =>
    refine readOwn_astep h (by simp) (by simp) ?_
    intro s hs
    rcases hasSlice_holding.1 hs with h0 | ⟨a', ha, rfl⟩
    · exact Or.inl h0
    · cases ha; exact Or.inr ⟨_, rfl, rfl⟩
  | readEmpty h hl => exact readOwn_astep h rfl (fun _ => rfl) (fun s hs => Or.inl hs)
  | readErr h => exact readOwn_astep h rfl (fun _ => rfl) (fun s hs => Or.inl hs)
  | @anchor _ a h =>
    unfold World.pushAnchor at h
    cases hv : w.iov i with
    | none => rw [hv] at h; cases h
    | some v =>
      rw [hv] at h
      simp only [Option.some.injEq] at h
      subst h
      refine AStep.refl_of_same (by simp) (fun x => ?_) ?_
      · simp only [holding_none, holding_cacheAt, cacheAt_setIov]
        split
        · rename_i e; subst e; simp [cacheAt_iov hv]
        · rfl
      · intro s hs
        simp only [holding_none] at hs
        rcases hasSlice_setIov hs with ⟨x, hx, hm⟩ | h0
        · cases hx
          exact World.HasSlice.derived (hasSlice_holding.2 (Or.inl (Or.inl ⟨i, v, hv, hm⟩)))
        · exact World.HasSlice.derived (hasSlice_holding.2 (Or.inl h0))
  | @take j a h hl =>
    refine AStep.refl_of_same (by simp only [holding_next]; rfl) (fun x => by simp) ?_
    intro s hs
    simp only [holding_none]
    rcases hasSlice_holding.1 hs with h0 | ⟨a', ha, rfl⟩
    · rcases hasSlice_setASlice h0 with ⟨x, hx, _⟩ | h1
      · cases hx
      · exact h1.derived
    · cases ha
      exact World.HasSlice.derived (Or.inr ⟨j, _, h, rfl⟩)

/-! ### Every micro-step keeps the invariant -/

theorem IovOkZ.pushCopyStep {n n' : Nat} {e : List (List UInt8)} {zs : List Anchor} {v : Iov} (hv : IovOkZ n e zs v)
    {arena' : Arena} {chunk off len ls : Nat} (hn : n ≤ n') (hck : chunk < n') (hao : ArenaOk n' arena') (hl : 0 < len) :
    IovOkZ n' e zs { v with slices := v.slices ++ [⟨.chunk chunk, off, len⟩], anchors := copyAnchors v.anchors chunk,
                            logicalSize := ls, arena := arena' } := by
  refine ⟨hv.zero, copyAnchors_guardZ hv.guard hv.zero _ _ _ hl, ?_, hao, ?_⟩
  · intro k hk
    rcases copyAnchors_chunksZ _ _ _ k hk with hk | rfl
    · exact Nat.lt_of_lt_of_le (hv.anchorsLt k hk) hn
    · exact hck
  · intro s hs
    simp only [List.mem_append, List.mem_singleton] at hs
    rcases hs with hs | rfl
    · exact hv.extOk s hs
    · intro b hb; simp at hb

theorem HInv.pushCopy {i : Nat} {w w' : World} {held : Option ASlice} {bs : List UInt8} (h : HInv i w held)
    (hp : w.pushCopy i bs = some w') : HInv i w' held := by
  have hst : HStep i w held w' held := .copy hp
  obtain ⟨v, hv, ⟨_, rfl⟩ | ⟨hne, arena', next', chunk, off, v2, hal, ho, rfl⟩⟩ := pushCopy_spec hp
  · exact h
  · have hvok := h.iovOk i v hv
    rw [if_pos rfl] at hvok
    obtain ⟨hn, hck, hao⟩ := alloc_ok hvok.cacheLt hal
    have hlen : 0 < bs.length := by cases bs <;> simp_all
    refine h.setIov (v' := v2) hn rfl (fun j => iov_setIov _ _ _ _) (fun _ => rfl)
      (fun _ => rfl) ?_ hst.astep
    exact (hvok.pushCopyStep hn hck hao hlen).optimize ho

theorem HInv.pushBorrowed {i : Nat} {w w' : World} {held : Option ASlice} {s : Slice} (h : HInv i w held)
    (hp : w.pushBorrowed i s = some w') (hs : ExtOk w.exts s)
    (hc : ∀ k, s.region = .chunk k → k ∈ anchorChunks (heldZs held)) (hst : HStep i w held w' held) :
    HInv i w' held := by
  obtain ⟨v, hv, ⟨_, rfl⟩ | ⟨_, v', hpb, rfl⟩⟩ := pushBorrowed_spec hp
  · exact h
  · have hvok := h.iovOk i v hv
    rw [if_pos rfl] at hvok
    refine h.setIov (v' := v') (Nat.le_refl _) rfl (fun j => iov_setIov _ _ _ _) (fun _ => rfl)
      (fun _ => rfl) ?_ hst.astep
    exact hvok.pushBorrowedSlice hpb hs hc

theorem HStep.inv {i : Nat} {w w' : World} {held held' : Option ASlice} (h : HInv i w held)
    (hst : HStep i w held w' held') : HInv i w' held' := by
  cases hst with
  | copy hp => exact h.pushCopy hp
  | pushExt hp hr he =>
    rcases push_cases hp with hp' | hp'
    · exact h.pushCopy hp'
    · refine h.pushBorrowed hp' he ?_ (.pushExt hp hr he)
      intro k hk
      obtain ⟨b, hb⟩ := hr
      rw [hb] at hk; cases hk
  | @pushHeld _ a s hp hr hk h1 h2 =>
    rcases push_cases hp with hp' | hp'
    · exact h.pushCopy hp'
    · refine h.pushBorrowed hp' ?_ ?_ (.pushHeld hp hr hk h1 h2)
      · intro b hb
        obtain ⟨k, hk⟩ := hk
        rw [hk] at hb; cases hb
      · intro k hk'
        have := (h.heldOk a rfl).anchored k (by rw [← hr]; exact hk')
        rw [mem_anchorChunks]
        exact ⟨_, List.mem_singleton.2 rfl, this⟩
  | @register _ _ pat b hp =>
    have hst : HStep i w held w' held := .register hp
    rcases registerPatch_spec hp with ⟨_, rfl, _⟩ | ⟨_, w1, v, last, hpc, hv, _, _, _, _, rfl⟩
    · exact h
    · have h1 := h.pushCopy hpc
      have hvok := h1.iovOk i v hv
      rw [if_pos rfl] at hvok
      refine h1.setIov (Nat.le_refl _) rfl (fun j => iov_setIov _ _ _ _) (fun _ => rfl) (fun _ => rfl)
        (hvok.with_backrefs _) ?_
      refine (quiet_setIov_same hv ?_ ?_).astep.holding _
      · rfl
      · exact fun s' hs' => World.HasSlice.derived (Or.inl ⟨i, v, hv, hs'⟩)
  | @backfill _ _ b src hp =>
    have hst : HStep i w held w' held := .backfill hp
    obtain ⟨v, hv, ⟨_, _, rfl⟩ | ⟨key, info, target, k, _, _, _, _, _, _, _, rfl⟩⟩ := backfill_spec hp
    · exact h
    · have hvok := h.iovOk i v hv
      rw [if_pos rfl] at hvok
      refine h.setIov (Nat.le_refl _) rfl (fun j => iov_setIov _ _ _ _) (fun _ => rfl)
        (fun _ => rfl) (hvok.with_backrefs _) hst.astep
  | @consume _ k n hp =>
    have hst : HStep i w none w' none := .consume hp
    obtain ⟨v, m, v', hv, _, hc, rfl⟩ := consume_spec hp
    have hvok := h.iovOk i v hv
    rw [if_pos rfl] at hvok
    exact h.setIov (Nat.le_refl _) rfl (fun j => iov_setIov _ _ _ _) (fun _ => rfl) (fun _ => rfl)
      (IovOkZ.consumeSlices hvok hc) hst.astep
  | @advance _ k n hp =>
    have hst : HStep i w none w' none := .advance hp
    obtain ⟨v, m, v', k', hv, _, hc, rfl⟩ := advance_spec hp
    have hvok := h.iovOk i v hv
    rw [if_pos rfl] at hvok
    exact h.setIov (Nat.le_refl _) rfl (fun j => iov_setIov _ _ _ _) (fun _ => rfl) (fun _ => rfl)
      (IovOkZ.consumeBytes hvok hc) hst.astep
  | lend d =>
    exact h.transfer (Nat.le_refl _) ⟨[d], rfl⟩ (fun j v hv => Or.inl ⟨hv, fun _ => rfl⟩) (fun j a hj => Or.inl hj)
      (fun j s hj => Or.inl hj) (fun a ha => Or.inl ha) (HStep.lend (i := i) d).astep
  | @readOk _ a o r count attempts hp hl =>
    have hst : HStep i w none w' (some a) := .readOk hp hl
    obtain ⟨v, w1, ar', hv, hr, ⟨hpp, nx, rfl⟩, rfl⟩ := readOwn_spec hp
    have hvok := h.iovOk i v hv
    rw [if_pos rfl] at hvok
    obtain ⟨_, hn, hao, hres⟩ := readN_inv (fun c hc => hvok.cacheLt c hc) hr
    have haok := hres a rfl
    refine h.transfer hn ⟨[], by simp [World.setIov]⟩ ?_ (fun j a hj => Or.inl hj) (fun j s hj => Or.inl hj)
      (fun a' ha' => by cases ha'; exact Or.inr haok) hst.astep
    intro j x hx
    simp only [iov_setIov] at hx
    by_cases e : j = i
    · rw [if_pos e] at hx; cases hx
      right; rw [if_pos e]
      exact ((hvok.mono0 hn).with_arena ar' hao).hold a.anchor.chunk (fun k hk => haok.chunkLt k hk)
    · rw [if_neg e] at hx
      exact Or.inl ⟨hx, fun e' => absurd e' e⟩
  | @readEmpty _ a o r count attempts hp hl =>
    have hst : HStep i w none w' none := .readEmpty hp hl
    obtain ⟨v, w1, ar', hv, hr, ⟨hpp, nx, rfl⟩, rfl⟩ := readOwn_spec hp
    have hvok := h.iovOk i v hv
    rw [if_pos rfl] at hvok
    obtain ⟨_, hn, hao, _⟩ := readN_inv (fun c hc => hvok.cacheLt c hc) hr
    exact h.setIov hn rfl (fun j => iov_setIov _ _ _ _) (fun _ => rfl) (fun _ => rfl)
      ((hvok.mono0 hn).with_arena ar' hao) hst.astep
  | @readErr _ k o r count attempts hp =>
    have hst : HStep i w none w' none := .readErr hp
    obtain ⟨v, w1, ar', hv, hr, ⟨hpp, nx, rfl⟩, rfl⟩ := readOwn_spec hp
    have hvok := h.iovOk i v hv
    rw [if_pos rfl] at hvok
    obtain ⟨_, hn, hao, _⟩ := readN_inv (fun c hc => hvok.cacheLt c hc) hr
    exact h.setIov hn rfl (fun j => iov_setIov _ _ _ _) (fun _ => rfl) (fun _ => rfl)
      ((hvok.mono0 hn).with_arena ar' hao) hst.astep
  | @anchor _ a hp =>
    have hst : HStep i w (some a) w' none := .anchor hp
    unfold World.pushAnchor at hp
    cases hv : w.iov i with
    | none => rw [hv] at hp; cases hp
    | some v =>
      rw [hv] at hp
      simp only [Option.some.injEq] at hp
      subst hp
      have hvok := h.iovOk i v hv
      rw [if_pos rfl] at hvok
      refine h.transfer (Nat.le_refl _) ⟨[], by simp [World.setIov]⟩ ?_ (fun j a hj => Or.inl hj)
        (fun j s hj => Or.inl hj) (fun a' ha' => by cases ha') hst.astep
      intro j x hx
      simp only [iov_setIov] at hx
      by_cases e : j = i
      · rw [if_pos e] at hx; cases hx
        right; rw [if_pos e]
        exact IovOkZ.pushAnchor hvok
      · rw [if_neg e] at hx
        exact Or.inl ⟨hx, fun e' => absurd e' e⟩
  | @take j a hj hl =>
    have hst : HStep i w none (w.setASlice j none) (some a) := .take hj hl
    have haok := h.asliceOk j a hj
    refine h.transfer (Nat.le_refl _) ⟨[], by simp [World.setASlice]⟩ ?_ (fun j a hj => Or.inl hj) ?_
      (fun a' ha' => by cases ha'; exact Or.inr haok) hst.astep
    · intro j' x hx
      have hx' : w.iov j' = some x := hx
      by_cases e : j' = i
      · right; rw [if_pos e]
        have hvok := h.iovOk j' x hx'
        rw [if_pos e] at hvok
        exact hvok.hold a.anchor.chunk (fun k hk => haok.chunkLt k hk)
      · exact Or.inl ⟨hx', fun e' => absurd e' e⟩
    · intro j' s hs
      simp only [aslice_setASlice] at hs
      split at hs
      · cases hs
      · exact Or.inl hs

/-- A chain of micro-steps. -/
inductive HPath (i : Nat) : World → Option ASlice → World → Option ASlice → Prop
  | nil (w : World) (held : Option ASlice) : HPath i w held w held
  | cons {w w1 w2 : World} {h h1 h2 : Option ASlice} : HStep i w h w1 h1 → HPath i w1 h1 w2 h2 → HPath i w h w2 h2

theorem HPath.single {i : Nat} {w w' : World} {h h' : Option ASlice} (s : HStep i w h w' h') : HPath i w h w' h' :=
  .cons s (.nil _ _)

theorem HPath.trans {i : Nat} {w w1 w2 : World} {h h1 h2 : Option ASlice} (a : HPath i w h w1 h1)
    (b : HPath i w1 h1 w2 h2) : HPath i w h w2 h2 := by
  induction a with
  | nil => exact b
  | cons s _ ih => exact .cons s (ih b)

theorem HPath.inv {i : Nat} {w w' : World} {held held' : Option ASlice} (p : HPath i w held w' held')
    (h : HInv i w held) : HInv i w' held' := by
  induction p with
  | nil => exact h
  | cons s _ ih => exact ih (s.inv h)

/-- Along a chain from a world that satisfies the invariant: every micro-step is between worlds that
satisfy the invariant and has the conclusion of `C05.no_overlap` (on the holding worlds: the held slice
counts as an existing slice). -/
def StepFresh (w w' : World) : Prop :=
  ∃ k lo hi, lo ≤ hi ∧
    (∀ s, w.HasSlice s → s.region = .chunk k → s.off + s.len ≤ lo) ∧
    (∀ s', w'.HasSlice s' → w.Derived s' ∨
      (s'.region = .chunk k ∧ lo ≤ s'.off ∧ s'.off + s'.len ≤ hi) ∨
      (∃ l, w.HasSlice l ∧ s'.region = l.region ∧ l.region = .chunk k ∧ s'.off = l.off ∧
        l.off + l.len = lo ∧ s'.off + s'.len = hi))

theorem HStep.fresh {i : Nat} {w w' : World} {held held' : Option ASlice} (h : HInv i w held)
    (hst : HStep i w held w' held') : StepFresh (w.holding held) (w'.holding held') := by
  obtain ⟨caps, ha⟩ := h.arena
  obtain ⟨caps', ha'⟩ := (hst.inv h).arena
  obtain ⟨k, lo, hi, h1, _, h3, h4⟩ := hst.astep.fresh h.bounded ha ha'
  exact ⟨k, lo, hi, h1, h3, h4⟩

/-- A chain of micro-steps each of which satisfies `P`. -/
inductive HPathP (i : Nat) (P : World → Option ASlice → World → Option ASlice → Prop) :
    World → Option ASlice → World → Option ASlice → Prop
  | nil (w : World) (held : Option ASlice) : HPathP i P w held w held
  | cons {w w1 w2 : World} {h h1 h2 : Option ASlice} : HStep i w h w1 h1 → P w h w1 h1 → HPathP i P w1 h1 w2 h2 →
      HPathP i P w h w2 h2

/-- What holds at every micro-step of a chain that starts in a world satisfying the invariant: the
invariant before and after, and the conclusion of `C05.no_overlap` on the holding worlds. -/
def StepGood (i : Nat) (a : World) (ha : Option ASlice) (b : World) (hb : Option ASlice) : Prop :=
  HInv i a ha ∧ HInv i b hb ∧ StepFresh (a.holding ha) (b.holding hb)

theorem HPath.all_fresh {i : Nat} {w w' : World} {held held' : Option ASlice} (p : HPath i w held w' held')
    (h : HInv i w held) : HPathP i (StepGood i) w held w' held' := by
  induction p with
  | nil => exact .nil _ _
  | cons s _ ih => exact .cons s ⟨h, s.inv h, s.fresh h⟩ (ih (s.inv h))

end Woodpile.Iovec

/-
Cross-check (evaluated at compile time with `#guard`, NOT a proof): the pure step function
`Woodpile.Iovec.World.step` (over which C05 / C10 / C20 are proved) and the line-protocol driver
`Woodpile.Driver.IovecFam.step` (which the correspondence run ties to the real crates) compute the same
world for every op of the vocabulary, on scripted histories that exercise every op constructor, both
branches of `push` / `push_aslice`, panics and ill-formed handles.  This file prints each `WOp` as the
driver's op line and compares the drivers' full `describe` output (every iovec, slice, arena and the live
set) after every step.

Status (track apigaps, audit gap 6): the driver is no longer a separately written wiring.
`Driver/Iovec.lean` now parses every op line into a `WOp` (or, for public-API spellings, the `WOp` list
`Props/C05A` proves it equal to) and takes the next world from `World.step` ITSELF, so the agreement
checked here holds by construction for the world component; what these `#guard`s still exercise is the
line parser / printer round trip (`words` below vs. the driver's parser) and the driver-side conventions
around documented panics (`R panicked`, world unchanged).
-/
import Woodpile.Model.IovecOps
import Woodpile.Driver.Iovec

namespace Woodpile.Iovec.OpsCheck
open Woodpile.Driver Woodpile.Driver.IovecFam Woodpile.Iovec Woodpile.Arena

def hexList (l : List (List UInt8)) : String := if l.isEmpty then "-" else "|".intercalate (l.map toHex)

def evStr : ReadN.Ev → String
  | .deliver k => "d" ++ toString k
  | .eof => "e"
  | .err k => "x" ++ toString k

def scriptStr (s : List ReadN.Ev) : String := if s.isEmpty then "-" else ",".intercalate (s.map evStr)

/-- The op line of the `iovec` family for an `WOp`. -/
def words : WOp → List String
  | .new => ["new"]
  | .newArena => ["new_arena"]
  | .newFromArena a => ["new_from_arena", "a" ++ toString a]
  | .newFromSlices bufs => ["new_from_slices", hexList bufs]
  | .push v bs => ["push", "v" ++ toString v, toHex bs]
  | .pushBorrowed v bs => ["push_borrowed", "v" ++ toString v, toHex bs]
  | .pushCopy v bs => ["push_copy", "v" ++ toString v, toHex bs]
  | .register v bs => ["register", "v" ++ toString v, toHex bs]
  | .extend v bufs => ["extend", "v" ++ toString v, hexList bufs]
  | .consume v k => ["consume", "v" ++ toString v, toString k]
  | .advance v k => ["advance", "v" ++ toString v, toString k]
  | .read v k => ["read", "v" ++ toString v, toString k]
  | .reserve v k => ["reserve", "v" ++ toString v, toString k]
  | .pushASlice v s => ["push_aslice", "v" ++ toString v, "s" ++ toString s]
  | .swapArena v a => ["swap_arena", "v" ++ toString v, "a" ++ toString a]
  | .aReserve a k => ["a_reserve", "a" ++ toString a, toString k]
  | .sSkip s k => ["s_skip", "s" ++ toString s, toString k]
  | .sDropSuf s k => ["s_dropsuf", "s" ++ toString s, toString k]
  | .sSplit s k => ["s_split", "s" ++ toString s, toString k]
  | .backfill v b bs => ["backfill", "v" ++ toString v, "b" ++ toString b, toHex bs]
  | .pop v => ["pop", "v" ++ toString v]
  | .clear v => ["clear", "v" ++ toString v]
  | .take v => ["take", "v" ++ toString v]
  | .clone v => ["clone", "v" ++ toString v]
  | .drop v => ["drop", "v" ++ toString v]
  | .flush v => ["flush", "v" ++ toString v]
  | .takeArena v => ["take_arena", "v" ++ toString v]
  | .aFlush a => ["a_flush", "a" ++ toString a]
  | .dropArena a => ["drop_arena", "a" ++ toString a]
  | .sTake s => ["s_take", "s" ++ toString s]
  | .sClone s => ["s_clone", "s" ++ toString s]
  | .sDrop s => ["s_drop", "s" ++ toString s]
  | .readNIov v c a src sc => ["read_n", "v" ++ toString v, toString c, toString a, toHex src, scriptStr sc]
  | .readNArena v c a src sc => ["read_n", "a" ++ toString v, toString c, toString a, toHex src, scriptStr sc]
  -- the three `glue` constructors are not op words of the line protocol (the driver answers `bad-op`);
  -- they are related to the op words in `Proofs/IovecGlue.lean` (`wop_push_split`, ...), not here
  | .lend bs => ["(lend)", toHex bs]
  | .pushAt v b off len => ["(push_at)", "v" ++ toString v, toString b, toString off, toString len]
  | .pushBorrowedAt v b off len => ["(push_borrowed_at)", "v" ++ toString v, toString b, toString off, toString len]

/-- Run a history on both sides; `true` iff after every op either both sides have no successor (driver:
`panic` / `bad-op`; `World.step`: `none`) or both have one and the driver's `describe` of the two worlds
agrees. -/
def agree : St → World → List WOp → Bool
  | _, _, [] => true
  | s, w, op :: rest =>
    let (s', out) := IovecFam.step s (words op)
    -- (a wrong-size backfill of a pending placeholder is a documented panic that the harness catches:
    -- the driver answers `R panicked` and keeps the world unchanged; `World.step` has no successor)
    let driverStuck := s'.dead || out == ["bad-op"] || out.head? == some "R panicked"
    match w.step op with
    | none => driverStuck
    | some w' =>
      !driverStuck &&
      describe { s' with w := w' } == describe s' && s'.w.brefs == w'.brefs && s'.w.exts == w'.exts &&
      s'.w.next == w'.next && agree s' w' rest

def check (ops : List WOp) : Bool := agree St.init St.init.w ops

def big (n : Nat) (b : UInt8) : List UInt8 := List.replicate n b

#guard check [.new, .pushCopy 0 [1, 2, 3], .push 0 (big 70 9), .push 0 [4], .pushBorrowed 0 (big 5 1),
  .register 0 [0, 0], .pushCopy 0 [5, 6], .consume 0 1, .advance 0 2, .read 0 3, .backfill 0 0 [7, 8],
  .extend 0 [[1], [], big 80 2], .pop 0, .clone 0, .take 0, .clear 1, .drop 0, .flush 2, .reserve 2 5000]
#guard check [.new, .newArena, .readNArena 0 300 4 (big 304 5) [.err 0, .deliver 100, .deliver 300],
  .sSplit 0 100, .sSkip 1 10, .sDropSuf 2 20, .sClone 1, .sTake 2, .pushASlice 0 1, .pushASlice 0 4,
  .pushASlice 0 3, .sDrop 2, .consume 0 2, .dropArena 0, .consume 0 9]
#guard check [.new, .new, .newArena, .pushCopy 0 [1, 2], .takeArena 0, .swapArena 1 1, .pushCopy 1 [3, 4],
  .aReserve 0 100, .aFlush 0, .newFromArena 1, .newFromSlices [[1, 2], [], big 90 3], .readNIov 1 8 3 [1, 2, 3] [.deliver 2, .eof],
  .readNIov 1 8 3 [1, 2, 3] [.err 5], .readNIov 1 0 3 [] [], .pushASlice 3 0, .drop 1, .advance 3 1]
-- panics and ill-formed handles are "no successor" on both sides
#guard check [.new, .pop 0]
#guard check [.new, .register 0 [0], .backfill 0 0 [1, 2]]
#guard check [.new, .register 0 [0], .clear 0, .backfill 0 0 [1]]
#guard check [.pushCopy 0 [1]]
#guard check [.new, .drop 0, .pushCopy 0 [1]]
#guard check [.new, .swapArena 0 0]
#guard check [.new, .backfill 0 3 []]
#guard check [.new, .sSplit 0 1]

end Woodpile.Iovec.OpsCheck

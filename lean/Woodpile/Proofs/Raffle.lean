/-
Helper lemmas about the raffle arithmetic (`Woodpile.Raffle`): ring facts in
`UInt64` (Z/2^64), for any parameters satisfying the two closed side
conditions that are re-checked on the extracted constants.
-/
import Woodpile.Model.Raffle

namespace Woodpile.Raffle

/-- The parameters are a matched pair: the checking map undoes the vouching map.
With `S = scale ^ VOUCHING_TAG`, `U = unscale ^ CHECKING_TAG`:
`S * U = -1` and `(offset * S + unoffset) * U = WANTED_SUM` in Z/2^64. -/
structure VouchParams.Matched (p : VouchParams) : Prop where
  inv : (p.scale ^^^ vouchingTag) * (p.checking.unscale ^^^ checkingTag) = 0 - 1
  sum : (p.offset * (p.scale ^^^ vouchingTag) + p.checking.unoffset) * (p.checking.unscale ^^^ checkingTag) = wantedSum

/-- A checking multiplier is usable when it is invertible (odd); `inv` is a witness. -/
structure CheckParams.Invertible (p : CheckParams) (inv : UInt64) : Prop where
  mul : (p.unscale ^^^ checkingTag) * inv = 1

theorem check_vouchRaw (p : VouchParams) (h : p.Matched) (x : UInt64) :
    check p.checking x (vouchRaw p x) = true := by
  obtain ⟨h1, h2⟩ := h
  simp only [check, vouchRaw, beq_iff_eq]
  generalize (p.scale ^^^ vouchingTag) = s at *
  generalize (p.checking.unscale ^^^ checkingTag) = u at *
  grind

theorem vouch?_eq (p : VouchParams) (h : p.Matched) (x : UInt64) :
    vouch? p x = some (vouchRaw p x) := by
  simp [vouch?, check_vouchRaw p h x]

/-- One voucher vouches for at most one value (any parameters). -/
theorem check_inj_value (p : CheckParams) (v x y : UInt64) :
    check p x v = true → check p y v = true → x = y := by
  simp only [check, beq_iff_eq]
  generalize (p.unscale ^^^ checkingTag) = u
  intro h1 h2
  grind

/-- One value has at most one voucher (invertible multiplier). -/
theorem check_inj_voucher (p : CheckParams) (inv : UInt64) (h : p.Invertible inv) (x v w : UInt64) :
    check p x v = true → check p x w = true → v = w := by
  obtain ⟨h⟩ := h
  simp only [check, beq_iff_eq]
  generalize (p.unscale ^^^ checkingTag) = u at *
  intro h1 h2
  have : (v - w) * (u * inv) = 0 := by grind
  rw [h] at this
  grind

end Woodpile.Raffle

namespace Woodpile.Raffle

/-! Closed facts about the parameter strings extracted from /repo. -/

theorem nfsVouch_matched : nfsVouch.Matched := ⟨by decide +kernel, by decide +kernel⟩
theorem abtVouch_matched : abtVouch.Matched := ⟨by decide +kernel, by decide +kernel⟩
theorem nfsVouch_checking : nfsVouch.checking = baseTimeCheck := by decide +kernel
theorem abtVouch_checking : abtVouch.checking = baseTimeCheck := by decide +kernel
theorem baseTimeCheck_invertible :
    baseTimeCheck.Invertible (0 - (nfsVouch.scale ^^^ vouchingTag)) := ⟨by decide +kernel⟩

theorem check_nfs (x : UInt64) : check baseTimeCheck x (vouchRaw nfsVouch x) = true := by
  rw [← nfsVouch_checking]; exact check_vouchRaw _ nfsVouch_matched x

theorem check_abt (x : UInt64) : check baseTimeCheck x (vouchRaw abtVouch x) = true := by
  rw [← abtVouch_checking]; exact check_vouchRaw _ abtVouch_matched x

theorem vouch?_nfs (x : UInt64) : vouch? nfsVouch x = some (vouchRaw nfsVouch x) :=
  vouch?_eq _ nfsVouch_matched x

theorem vouch?_abt (x : UInt64) : vouch? abtVouch x = some (vouchRaw abtVouch x) :=
  vouch?_eq _ abtVouch_matched x

end Woodpile.Raffle

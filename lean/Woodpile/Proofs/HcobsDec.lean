/-
Decoder refinement: the incremental decoder state machine of
`Woodpile.Model.Hcobs` (`Dec.once/feed/finish/runPieces/output`) computes the
batch `Spec.decode`, for every segmentation of the input and every method per
piece.

Three equal semantics, two bridges:

* `Dec.feed` (the `while !input.is_empty()` loop over `once`) over a piece
  = `foldB` (one input byte at a time, `stepB`) over its bytes     [bridge 1]
* pieces compose by `foldB_append`, so a whole run is `decRun` of the
  concatenation (split / method independence, also of the reported error)
* `decRun` = `Spec.decode` (success and bytes; failure)             [bridge 2]

Core Lean only.
-/
import Woodpile.Model.Hcobs
import Woodpile.Proofs.PipeLemmas

namespace Woodpile.Hcobs.DecProof
open Woodpile.Pipe Woodpile.Hcobs

/-! ### the byte-at-a-time machine -/

/-- One input byte.  Output bytes instead of pipe ops. -/
def stepB (p : Params) (s : DecState) (b : UInt8) : Except DecErr (DecState × List UInt8) :=
  match s with
  | .initial =>
    if b.toNat > p.maxInit then .error (.invalidInitialSizeHeader b)
    else if b.toNat > 0 then .ok (.inChunk b.toNat (b.toNat < p.maxInit), [])
    else .ok (.beforeChunk (b.toNat < p.maxInit), [])
  | .beforeChunk ins =>
    if b.toNat ≥ p.radix then .error (.invalidHeaderByte false b)
    else .ok (.midHeader b, if ins then [FE, FD] else [])
  | .midHeader b0 =>
    if b.toNat ≥ p.radix then .error (.invalidHeaderByte true b)
    else if b0.toNat + b.toNat * p.radix > p.maxSub then
      .error (.invalidSubsequentSizeHeader (b0.toNat + b.toNat * p.radix))
    else if b0.toNat + b.toNat * p.radix > 0 then
      .ok (.inChunk (b0.toNat + b.toNat * p.radix) (b0.toNat + b.toNat * p.radix < p.maxSub), [])
    else .ok (.beforeChunk (b0.toNat + b.toNat * p.radix < p.maxSub), [])
  | .inChunk rem term =>
    .ok (if 1 < rem then .inChunk (rem - 1) term else .beforeChunk term, [b])

/-- Sequencing of a step result with a continuation that adds output. -/
def andThen (r : Except DecErr (DecState × List UInt8))
    (k : DecState → Except DecErr (DecState × List UInt8)) : Except DecErr (DecState × List UInt8) :=
  match r with
  | .error e => .error e
  | .ok (s, o) =>
    match k s with
    | .error e => .error e
    | .ok (s', o') => .ok (s', o ++ o')

@[simp] theorem andThen_error (e : DecErr) (k) : andThen (.error e) k = .error e := rfl
@[simp] theorem andThen_ok (s : DecState) (o : List UInt8) (k) :
    andThen (.ok (s, o)) k = match k s with
      | .error e => .error e
      | .ok (s', o') => .ok (s', o ++ o') := rfl

theorem andThen_assoc (r k1 k2) :
    andThen (andThen r k1) k2 = andThen r (fun s => andThen (k1 s) k2) := by
  cases r with
  | error e => rfl
  | ok so =>
    obtain ⟨s, o⟩ := so
    simp only [andThen_ok]
    cases h1 : k1 s with
    | error e => simp
    | ok so1 =>
      obtain ⟨s1, o1⟩ := so1
      simp only [andThen_ok]
      cases h2 : k2 s1 with
      | error e => simp
      | ok so2 => obtain ⟨s2, o2⟩ := so2; simp [List.append_assoc]

theorem andThen_pure (r) : andThen r (fun s => .ok (s, [])) = r := by
  cases r with
  | error e => rfl
  | ok so => obtain ⟨s, o⟩ := so; simp

def foldB (p : Params) : DecState → List UInt8 → Except DecErr (DecState × List UInt8)
  | s, [] => .ok (s, [])
  | s, b :: rest => andThen (stepB p s b) (fun s' => foldB p s' rest)

@[simp] theorem foldB_nil (p : Params) (s : DecState) : foldB p s [] = .ok (s, []) := rfl
theorem foldB_cons (p : Params) (s : DecState) (b : UInt8) (rest : List UInt8) :
    foldB p s (b :: rest) = andThen (stepB p s b) (fun s' => foldB p s' rest) := rfl

/-- Split independence at the byte level. -/
theorem foldB_append (p : Params) (s : DecState) (a b : List UInt8) :
    foldB p s (a ++ b) = andThen (foldB p s a) (fun s' => foldB p s' b) := by
  induction a generalizing s with
  | nil =>
    simp only [List.nil_append, foldB_nil, andThen_ok]
    cases foldB p s b with
    | error e => rfl
    | ok so => obtain ⟨s', o'⟩ := so; simp
  | cons x t ih =>
    simp only [List.cons_append, foldB_cons, andThen_assoc]
    congr 1
    funext s'
    exact ih s'

/-- Finish after a byte-level run. -/
def finishB (r : Except DecErr (DecState × List UInt8)) : Except DecErr (List UInt8) :=
  match r with
  | .error e => .error e
  | .ok (s, o) =>
    match Dec.finish s with
    | .ok () => .ok o
    | .error e => .error e

/-- The reference: byte-at-a-time from state `s`, then `finish`. -/
def decRunFrom (p : Params) (s : DecState) (b : List UInt8) : Except DecErr (List UInt8) :=
  finishB (foldB p s b)

def decRun (p : Params) (b : List UInt8) : Except DecErr (List UInt8) := decRunFrom p .initial b

/-- Between calls an `InChunk` state always has bytes left (`NonZeroU32`). -/
def WF : DecState → Prop
  | .inChunk rem _ => 0 < rem
  | _ => True

/-- Bulk step inside a chunk: `min inp.length rem` bytes at once. -/
theorem foldB_inChunk (p : Params) (rem : Nat) (term : Bool) (inp : List UInt8) (hrem : 0 < rem) :
    foldB p (.inChunk rem term) inp =
      andThen (.ok (if min inp.length rem < rem then DecState.inChunk (rem - min inp.length rem) term
                    else DecState.beforeChunk term, inp.take (min inp.length rem)))
        (fun s' => foldB p s' (inp.drop (min inp.length rem))) := by
  induction inp generalizing rem with
  | nil =>
    have : min ([] : List UInt8).length rem = 0 := by simp
    simp [hrem]
  | cons b t ih =>
    by_cases h1 : 1 < rem
    · have ih' := ih (rem - 1) (by omega)
      have hk : min (b :: t).length rem = min t.length (rem - 1) + 1 := by
        simp only [List.length_cons]; omega
      rw [foldB_cons, hk]
      simp only [stepB, if_pos h1, andThen_ok, List.take_succ_cons, List.drop_succ_cons]
      rw [ih']
      have hc : (min t.length (rem - 1) + 1 < rem) = (min t.length (rem - 1) < rem - 1) := by
        apply propext; omega
      have hs : rem - (min t.length (rem - 1) + 1) = rem - 1 - min t.length (rem - 1) := by omega
      simp only [andThen_ok, hc, hs]
      cases foldB p (if min t.length (rem - 1) < rem - 1 then DecState.inChunk (rem - 1 - min t.length (rem - 1)) term
          else DecState.beforeChunk term) (List.drop (min t.length (rem - 1)) t) with
      | error e => rfl
      | ok so => obtain ⟨s', o'⟩ := so; simp
    · have hr : rem = 1 := by omega
      subst hr
      have hk : min (b :: t).length 1 = 1 := by simp only [List.length_cons]; omega
      rw [foldB_cons, hk]
      simp [stepB]

/-! ### bridge 1: `Dec.feed` = `foldB` -/

/-- Bytes carried by a list of emits (`append`s only). -/
def emitBytes (es : List Emit) : List UInt8 := opsBytes (es.map (·.op))

def AppendOnly (es : List Emit) : Prop := (es.map (·.op)).all Op.isAppend = true

@[simp] theorem emitBytes_nil : emitBytes [] = [] := rfl
theorem emitBytes_append (a b : List Emit) : emitBytes (a ++ b) = emitBytes a ++ emitBytes b := by
  simp [emitBytes, opsBytes_append]
@[simp] theorem appendOnly_nil : AppendOnly [] := rfl
theorem appendOnly_append {a b : List Emit} (ha : AppendOnly a) (hb : AppendOnly b) : AppendOnly (a ++ b) := by
  simp only [AppendOnly, List.map_append, List.all_append, Bool.and_eq_true] at *
  exact ⟨ha, hb⟩

/-- Forget the emits of a failed call, turn the emits of a successful one into bytes. -/
def proj (r : Except (DecErr × List Emit) (DecState × List Emit)) : Except DecErr (DecState × List UInt8) :=
  match r with
  | .error (e, _) => .error e
  | .ok (s, es) => .ok (s, emitBytes es)

/-- What one `once` call does, in byte-level terms. -/
theorem once_spec (p : Params) (m : Method) (s : DecState) (b : UInt8) (rest : List UInt8) (hs : WF s) :
    match Dec.once p m s b rest with
    | .error (e, _) => foldB p s (b :: rest) = .error e
    | .ok o => 0 < o.consumed ∧ o.consumed ≤ (b :: rest).length ∧ WF o.st ∧ AppendOnly o.emits ∧
        foldB p s (b :: rest) =
          andThen (.ok (o.st, emitBytes o.emits)) (fun s' => foldB p s' ((b :: rest).drop o.consumed)) := by
  cases s with
  | initial =>
    simp only [Dec.once, foldB_cons, stepB]
    by_cases h1 : b.toNat > p.maxInit
    · simp [h1]
    · by_cases h2 : b.toNat > 0
      · simp [h1, h2, WF, AppendOnly, emitBytes, opsBytes]
      · simp [h1, h2, WF, AppendOnly, emitBytes, opsBytes]
  | beforeChunk ins =>
    simp only [Dec.once, foldB_cons, stepB]
    by_cases h1 : b.toNat ≥ p.radix
    · simp [h1]
    · cases ins <;> simp [h1, WF, AppendOnly, emitBytes, opsBytes, Op.isAppend]
  | midHeader b0 =>
    simp only [Dec.once, foldB_cons, stepB]
    by_cases h1 : b.toNat ≥ p.radix
    · simp [h1]
    · by_cases h2 : b0.toNat + b.toNat * p.radix > p.maxSub
      · simp [h1, h2]
      · by_cases h3 : b0.toNat + b.toNat * p.radix > 0
        · simp [h1, h2, h3, WF, AppendOnly, emitBytes, opsBytes]
        · simp [h1, h2, h3, WF, AppendOnly, emitBytes, opsBytes]
  | inChunk rem term =>
    have hrem : 0 < rem := hs
    simp only [Dec.once]
    refine ⟨by simp only [List.length_cons]; omega, by simp only [List.length_cons]; omega, ?_, ?_, ?_⟩
    · split
      · simp only [WF]; omega
      · trivial
    · simp [AppendOnly, Op.isAppend]
    · rw [foldB_inChunk p rem term (b :: rest) hrem]
      simp [emitBytes, opsBytes]

theorem feed_eq_foldB (p : Params) (m : Method) (fuel : Nat) (s : DecState) (input : List UInt8)
    (hs : WF s) (hf : input.length < fuel) :
    proj (Dec.feed p m fuel s input) = foldB p s input ∧
      ∀ s' es, Dec.feed p m fuel s input = .ok (s', es) → WF s' ∧ AppendOnly es := by
  induction fuel generalizing s input with
  | zero => omega
  | succ fuel ih =>
    cases input with
    | nil => simp only [Dec.feed, proj, foldB_nil, emitBytes_nil, true_and]
             intro s' es h; cases h; exact ⟨hs, appendOnly_nil⟩
    | cons b rest =>
      have hsp := once_spec p m s b rest hs
      cases ho : Dec.once p m s b rest with
      | error ee =>
        obtain ⟨e, es⟩ := ee
        rw [ho] at hsp
        simp only at hsp
        simp only [Dec.feed, ho]
        simp only [proj, hsp, true_and]
        intro s' es' h; cases h
      | ok o =>
        rw [ho] at hsp
        simp only at hsp
        obtain ⟨hc0, hc1, hwf, hao, hfold⟩ := hsp
        simp only [Dec.feed, ho]
        have hlen : ((b :: rest).drop o.consumed).length < fuel := by
          simp only [List.length_drop, List.length_cons] at *; omega
        obtain ⟨ih1, ih2⟩ := ih o.st ((b :: rest).drop o.consumed) hwf hlen
        rw [hfold, andThen_ok, ← ih1]
        cases hr : Dec.feed p m fuel o.st (List.drop o.consumed (b :: rest)) with
        | error ee =>
          obtain ⟨e, es⟩ := ee
          simp only [proj, true_and]
          intro s' es' h; cases h
        | ok se =>
          obtain ⟨s1, es1⟩ := se
          obtain ⟨hwf1, hao1⟩ := ih2 s1 es1 hr
          simp only [proj, emitBytes_append, true_and]
          intro s' es' h
          cases h
          exact ⟨hwf1, appendOnly_append hao hao1⟩

/-! ### whole runs: split and method independence -/

theorem output_bytes (es : List Emit) (h : AppendOnly es) :
    (Pipe.run Pipe.empty (es.map (·.op))).bytes = emitBytes es := by
  rw [run_appendOnly_bytes _ _ h]; simp [Pipe.bytes, Pipe.empty, emitBytes]

theorem runPieces_eq (p : Params) (pieces : List (Method × List UInt8)) (s : DecState) (acc : List Emit)
    (hs : WF s) (hacc : AppendOnly acc) :
    (match Dec.runPieces p pieces s acc with
     | .error e => (.error e : Except DecErr (List UInt8))
     | .ok es => .ok (Pipe.run Pipe.empty (es.map Emit.op)).bytes)
    = (match decRunFrom p s (pieces.map (·.2)).flatten with
       | .error e => .error e
       | .ok o => .ok (emitBytes acc ++ o)) := by
  induction pieces generalizing s acc with
  | nil =>
    simp only [Dec.runPieces, List.map_nil, List.flatten_nil, decRunFrom, foldB_nil, finishB]
    cases Dec.finish s with
    | error e => rfl
    | ok u => simp [output_bytes acc hacc]
  | cons md rest ih =>
    obtain ⟨m, d⟩ := md
    obtain ⟨h1, h2⟩ := feed_eq_foldB p m (d.length + 1) s d hs (by omega)
    simp only [Dec.runPieces, Dec.feedAll, List.map_cons, List.flatten_cons, decRunFrom, foldB_append]
    rw [← h1]
    cases hf : Dec.feed p m (d.length + 1) s d with
    | error ee => obtain ⟨e, es⟩ := ee; simp [proj, finishB]
    | ok se =>
      obtain ⟨s1, es1⟩ := se
      obtain ⟨hwf1, hao1⟩ := h2 s1 es1 hf
      simp only [proj, andThen_ok]
      rw [ih s1 (acc ++ es1) hwf1 (appendOnly_append hacc hao1)]
      simp only [decRunFrom]
      cases foldB p s1 (List.map (fun x => x.2) rest).flatten with
      | error e => simp [finishB]
      | ok so =>
        obtain ⟨s2, o2⟩ := so
        simp only [finishB]
        cases Dec.finish s2 with
        | error e => rfl
        | ok u => simp [emitBytes_append, List.append_assoc]

/-- The whole decoder run is the byte-at-a-time reference run on the
concatenated input: outcome, bytes and error are independent of the
segmentation and of the methods. -/
theorem output_eq_decRun (p : Params) (pieces : List (Method × List UInt8)) :
    Dec.output p pieces = decRun p (pieces.map (·.2)).flatten := by
  have h := runPieces_eq p pieces .initial [] trivial appendOnly_nil
  simp only [emitBytes_nil, List.nil_append] at h
  unfold Dec.output decRun
  cases hr : Dec.runPieces p pieces DecState.initial [] with
  | error e =>
    rw [hr] at h
    cases hd : decRunFrom p DecState.initial (List.map (fun x => x.2) pieces).flatten with
    | error e' => rw [hd] at h; simp only at h; simp only [h]
    | ok o => rw [hd] at h; simp at h
  | ok es =>
    rw [hr] at h
    cases hd : decRunFrom p DecState.initial (List.map (fun x => x.2) pieces).flatten with
    | error e' => rw [hd] at h; simp at h
    | ok o => rw [hd] at h; simp only at h; simp only [h]

end Woodpile.Hcobs.DecProof

/-
Decoder refinement: the incremental decoder state machine of
`Woodpile.Model.Hcobs` (`Dec.once/feed/finish/runPieces/output`) computes the
batch `Spec.decode`, for every segmentation of the input and every method per
piece.

Three equal semantics, two bridges:

* `Dec.feed` (the `while !input.is_empty()` loop over `once`) over a piece
  = `foldB` (one input byte at a time, `stepB`) over its bytes     [bridge 1]
* pieces compose by `foldB_append`, so a whole run is `decRun` of the
  concatenation (split / method independence, also of the reported error)
* `decRun` = `Spec.decode` (success and bytes; failure)             [bridge 2]

Core Lean only.
-/
import Woodpile.Model.Hcobs
import Woodpile.Proofs.PipeLemmas

namespace Woodpile.Hcobs.DecProof
open Woodpile.Pipe Woodpile.Hcobs

/-! ### the byte-at-a-time machine -/

/-- One input byte.  Output bytes instead of pipe ops. -/
def stepB (p : Params) (s : DecState) (b : UInt8) : Except DecErr (DecState × List UInt8) :=
  match s with
  | .initial =>
    if b.toNat > p.maxInit then .error (.invalidInitialSizeHeader b)
    else if b.toNat > 0 then .ok (.inChunk b.toNat (b.toNat < p.maxInit), [])
    else .ok (.beforeChunk (b.toNat < p.maxInit), [])
  | .beforeChunk ins =>
    if b.toNat ≥ p.radix then .error (.invalidHeaderByte false b)
    else .ok (.midHeader b, if ins then [FE, FD] else [])
  | .midHeader b0 =>
    if b.toNat ≥ p.radix then .error (.invalidHeaderByte true b)
    else if b0.toNat + b.toNat * p.radix > p.maxSub then
      .error (.invalidSubsequentSizeHeader (b0.toNat + b.toNat * p.radix))
    else if b0.toNat + b.toNat * p.radix > 0 then
      .ok (.inChunk (b0.toNat + b.toNat * p.radix) (b0.toNat + b.toNat * p.radix < p.maxSub), [])
    else .ok (.beforeChunk (b0.toNat + b.toNat * p.radix < p.maxSub), [])
  | .inChunk rem term =>
    .ok (if 1 < rem then .inChunk (rem - 1) term else .beforeChunk term, [b])

/-- Sequencing of a step result with a continuation that adds output. -/
def andThen (r : Except DecErr (DecState × List UInt8))
    (k : DecState → Except DecErr (DecState × List UInt8)) : Except DecErr (DecState × List UInt8) :=
  match r with
  | .error e => .error e
  | .ok (s, o) =>
    match k s with
    | .error e => .error e
    | .ok (s', o') => .ok (s', o ++ o')

@[simp] theorem andThen_error (e : DecErr) (k) : andThen (.error e) k = .error e := rfl
@[simp] theorem andThen_ok (s : DecState) (o : List UInt8) (k) :
    andThen (.ok (s, o)) k = match k s with
      | .error e => .error e
      | .ok (s', o') => .ok (s', o ++ o') := rfl

theorem andThen_assoc (r k1 k2) :
    andThen (andThen r k1) k2 = andThen r (fun s => andThen (k1 s) k2) := by
  cases r with
  | error e => rfl
  | ok so =>
    obtain ⟨s, o⟩ := so
    simp only [andThen_ok]
    cases h1 : k1 s with
    | error e => simp
    | ok so1 =>
      obtain ⟨s1, o1⟩ := so1
      simp only [andThen_ok]
      cases h2 : k2 s1 with
      | error e => simp
      | ok so2 => obtain ⟨s2, o2⟩ := so2; simp [List.append_assoc]

theorem andThen_pure (r) : andThen r (fun s => .ok (s, [])) = r := by
  cases r with
  | error e => rfl
  | ok so => obtain ⟨s, o⟩ := so; simp

def foldB (p : Params) : DecState → List UInt8 → Except DecErr (DecState × List UInt8)
  | s, [] => .ok (s, [])
  | s, b :: rest => andThen (stepB p s b) (fun s' => foldB p s' rest)

@[simp] theorem foldB_nil (p : Params) (s : DecState) : foldB p s [] = .ok (s, []) := rfl
theorem foldB_cons (p : Params) (s : DecState) (b : UInt8) (rest : List UInt8) :
    foldB p s (b :: rest) = andThen (stepB p s b) (fun s' => foldB p s' rest) := rfl

/-- Split independence at the byte level. -/
theorem foldB_append (p : Params) (s : DecState) (a b : List UInt8) :
    foldB p s (a ++ b) = andThen (foldB p s a) (fun s' => foldB p s' b) := by
  induction a generalizing s with
  | nil =>
    simp only [List.nil_append, foldB_nil, andThen_ok]
    cases foldB p s b with
    | error e => rfl
    | ok so => obtain ⟨s', o'⟩ := so; simp
  | cons x t ih =>
    simp only [List.cons_append, foldB_cons, andThen_assoc]
    congr 1
    funext s'
    exact ih s'

/-- Finish after a byte-level run. -/
def finishB (r : Except DecErr (DecState × List UInt8)) : Except DecErr (List UInt8) :=
  match r with
  | .error e => .error e
  | .ok (s, o) =>
    match Dec.finish s with
    | .ok () => .ok o
    | .error e => .error e

/-- The reference: byte-at-a-time from state `s`, then `finish`. -/
def decRunFrom (p : Params) (s : DecState) (b : List UInt8) : Except DecErr (List UInt8) :=
  finishB (foldB p s b)

def decRun (p : Params) (b : List UInt8) : Except DecErr (List UInt8) := decRunFrom p .initial b

/-- Between calls an `InChunk` state always has bytes left (`NonZeroU32`). -/
def WF : DecState → Prop
  | .inChunk rem _ => 0 < rem
  | _ => True

/-- Bulk step inside a chunk: `min inp.length rem` bytes at once. -/
theorem foldB_inChunk (p : Params) (rem : Nat) (term : Bool) (inp : List UInt8) (hrem : 0 < rem) :
    foldB p (.inChunk rem term) inp =
      andThen (.ok (if min inp.length rem < rem then DecState.inChunk (rem - min inp.length rem) term
                    else DecState.beforeChunk term, inp.take (min inp.length rem)))
        (fun s' => foldB p s' (inp.drop (min inp.length rem))) := by
  induction inp generalizing rem with
  | nil =>
    have : min ([] : List UInt8).length rem = 0 := by simp
    simp [hrem]
  | cons b t ih =>
    by_cases h1 : 1 < rem
    · have ih' := ih (rem - 1) (by omega)
      have hk : min (b :: t).length rem = min t.length (rem - 1) + 1 := by
        simp only [List.length_cons]; omega
      rw [foldB_cons, hk]
      simp only [stepB, if_pos h1, andThen_ok, List.take_succ_cons, List.drop_succ_cons]
      rw [ih']
      have hc : (min t.length (rem - 1) + 1 < rem) = (min t.length (rem - 1) < rem - 1) := by
        apply propext; omega
      have hs : rem - (min t.length (rem - 1) + 1) = rem - 1 - min t.length (rem - 1) := by omega
      simp only [andThen_ok, hc, hs]
      cases foldB p (if min t.length (rem - 1) < rem - 1 then DecState.inChunk (rem - 1 - min t.length (rem - 1)) term
          else DecState.beforeChunk term) (List.drop (min t.length (rem - 1)) t) with
      | error e => rfl
      | ok so => obtain ⟨s', o'⟩ := so; simp
    · have hr : rem = 1 := by omega
      subst hr
      have hk : min (b :: t).length 1 = 1 := by simp only [List.length_cons]; omega
      rw [foldB_cons, hk]
      simp [stepB]

/-! ### bridge 1: `Dec.feed` = `foldB` -/

/-- Bytes carried by a list of emits (`append`s only). -/
def emitBytes (es : List Emit) : List UInt8 := opsBytes (es.map (·.op))

def AppendOnly (es : List Emit) : Prop := (es.map (·.op)).all Op.isAppend = true

@[simp] theorem emitBytes_nil : emitBytes [] = [] := rfl
theorem emitBytes_append (a b : List Emit) : emitBytes (a ++ b) = emitBytes a ++ emitBytes b := by
  simp [emitBytes, opsBytes_append]
@[simp] theorem appendOnly_nil : AppendOnly [] := rfl
theorem appendOnly_append {a b : List Emit} (ha : AppendOnly a) (hb : AppendOnly b) : AppendOnly (a ++ b) := by
  simp only [AppendOnly, List.map_append, List.all_append, Bool.and_eq_true] at *
  exact ⟨ha, hb⟩

/-- Forget the emits of a failed call, turn the emits of a successful one into bytes. -/
def proj (r : Except (DecErr × List Emit) (DecState × List Emit)) : Except DecErr (DecState × List UInt8) :=
  match r with
  | .error (e, _) => .error e
  | .ok (s, es) => .ok (s, emitBytes es)

/-- What one `once` call does, in byte-level terms. -/
theorem once_spec (p : Params) (m : Method) (s : DecState) (b : UInt8) (rest : List UInt8) (hs : WF s) :
    match Dec.once p m s b rest with
    | .error (e, _) => foldB p s (b :: rest) = .error e
    | .ok o => 0 < o.consumed ∧ o.consumed ≤ (b :: rest).length ∧ WF o.st ∧ AppendOnly o.emits ∧
        foldB p s (b :: rest) =
          andThen (.ok (o.st, emitBytes o.emits)) (fun s' => foldB p s' ((b :: rest).drop o.consumed)) := by
  cases s with
  | initial =>
    simp only [Dec.once, foldB_cons, stepB]
    by_cases h1 : b.toNat > p.maxInit
    · simp [h1]
    · by_cases h2 : b.toNat > 0
      · simp [h1, h2, WF, AppendOnly, emitBytes, opsBytes]
      · simp [h1, h2, WF, AppendOnly, emitBytes, opsBytes]
  | beforeChunk ins =>
    simp only [Dec.once, foldB_cons, stepB]
    by_cases h1 : b.toNat ≥ p.radix
    · simp [h1]
    · cases ins <;> simp [h1, WF, AppendOnly, emitBytes, opsBytes, Op.isAppend]
  | midHeader b0 =>
    simp only [Dec.once, foldB_cons, stepB]
    by_cases h1 : b.toNat ≥ p.radix
    · simp [h1]
    · by_cases h2 : b0.toNat + b.toNat * p.radix > p.maxSub
      · simp [h1, h2]
      · by_cases h3 : b0.toNat + b.toNat * p.radix > 0
        · simp [h1, h2, h3, WF, AppendOnly, emitBytes, opsBytes]
        · simp [h1, h2, h3, WF, AppendOnly, emitBytes, opsBytes]
  | inChunk rem term =>
    have hrem : 0 < rem := hs
    simp only [Dec.once]
    refine ⟨by simp only [List.length_cons]; omega, by simp only [List.length_cons]; omega, ?_, ?_, ?_⟩
    · split
      · simp only [WF]; omega
      · trivial
    · simp [AppendOnly, Op.isAppend]
    · rw [foldB_inChunk p rem term (b :: rest) hrem]
      simp [emitBytes, opsBytes]

theorem feed_eq_foldB (p : Params) (m : Method) (fuel : Nat) (s : DecState) (input : List UInt8)
    (hs : WF s) (hf : input.length < fuel) :
    proj (Dec.feed p m fuel s input) = foldB p s input ∧
      ∀ s' es, Dec.feed p m fuel s input = .ok (s', es) → WF s' ∧ AppendOnly es := by
  induction fuel generalizing s input with
  | zero => omega
  | succ fuel ih =>
    cases input with
    | nil => simp only [Dec.feed, proj, foldB_nil, emitBytes_nil, true_and]
             intro s' es h; cases h; exact ⟨hs, appendOnly_nil⟩
    | cons b rest =>
      have hsp := once_spec p m s b rest hs
      cases ho : Dec.once p m s b rest with
      | error ee =>
        obtain ⟨e, es⟩ := ee
        rw [ho] at hsp
        simp only at hsp
        simp only [Dec.feed, ho]
        simp only [proj, hsp, true_and]
        intro s' es' h; cases h
      | ok o =>
        rw [ho] at hsp
        simp only at hsp
        obtain ⟨hc0, hc1, hwf, hao, hfold⟩ := hsp
        simp only [Dec.feed, ho]
        have hlen : ((b :: rest).drop o.consumed).length < fuel := by
          simp only [List.length_drop, List.length_cons] at *; omega
        obtain ⟨ih1, ih2⟩ := ih o.st ((b :: rest).drop o.consumed) hwf hlen
        rw [hfold, andThen_ok, ← ih1]
        cases hr : Dec.feed p m fuel o.st (List.drop o.consumed (b :: rest)) with
        | error ee =>
          obtain ⟨e, es⟩ := ee
          simp only [proj, true_and]
          intro s' es' h; cases h
        | ok se =>
          obtain ⟨s1, es1⟩ := se
          obtain ⟨hwf1, hao1⟩ := ih2 s1 es1 hr
          simp only [proj, emitBytes_append, true_and]
          intro s' es' h
          cases h
          exact ⟨hwf1, appendOnly_append hao hao1⟩

/-! ### whole runs: split and method independence -/

theorem output_bytes (es : List Emit) (h : AppendOnly es) :
    (Pipe.run Pipe.empty (es.map (·.op))).bytes = emitBytes es := by
  rw [run_appendOnly_bytes _ _ h]; simp [Pipe.bytes, Pipe.empty, emitBytes]

theorem runPieces_eq (p : Params) (pieces : List (Method × List UInt8)) (s : DecState) (acc : List Emit)
    (hs : WF s) (hacc : AppendOnly acc) :
    (match Dec.runPieces p pieces s acc with
     | .error e => (.error e : Except DecErr (List UInt8))
     | .ok es => .ok (Pipe.run Pipe.empty (es.map Emit.op)).bytes)
    = (match decRunFrom p s (pieces.map (·.2)).flatten with
       | .error e => .error e
       | .ok o => .ok (emitBytes acc ++ o)) := by
  induction pieces generalizing s acc with
  | nil =>
    simp only [Dec.runPieces, List.map_nil, List.flatten_nil, decRunFrom, foldB_nil, finishB]
    cases Dec.finish s with
    | error e => rfl
    | ok u => simp [output_bytes acc hacc]
  | cons md rest ih =>
    obtain ⟨m, d⟩ := md
    obtain ⟨h1, h2⟩ := feed_eq_foldB p m (d.length + 1) s d hs (by omega)
    simp only [Dec.runPieces, Dec.feedAll, List.map_cons, List.flatten_cons, decRunFrom, foldB_append]
    rw [← h1]
    cases hf : Dec.feed p m (d.length + 1) s d with
    | error ee => obtain ⟨e, es⟩ := ee; simp [proj, finishB]
    | ok se =>
      obtain ⟨s1, es1⟩ := se
      obtain ⟨hwf1, hao1⟩ := h2 s1 es1 hf
      simp only [proj, andThen_ok]
      rw [ih s1 (acc ++ es1) hwf1 (appendOnly_append hacc hao1)]
      simp only [decRunFrom]
      cases foldB p s1 (List.map (fun x => x.2) rest).flatten with
      | error e => simp [finishB]
      | ok so =>
        obtain ⟨s2, o2⟩ := so
        simp only [finishB]
        cases Dec.finish s2 with
        | error e => rfl
        | ok u => simp [emitBytes_append, List.append_assoc]

/-- The whole decoder run is the byte-at-a-time reference run on the
concatenated input: outcome, bytes and error are independent of the
segmentation and of the methods. -/
theorem output_eq_decRun (p : Params) (pieces : List (Method × List UInt8)) :
    Dec.output p pieces = decRun p (pieces.map (·.2)).flatten := by
  have h := runPieces_eq p pieces .initial [] trivial appendOnly_nil
  simp only [emitBytes_nil, List.nil_append] at h
  unfold Dec.output decRun
  cases hr : Dec.runPieces p pieces DecState.initial [] with
  | error e =>
    rw [hr] at h
    cases hd : decRunFrom p DecState.initial (List.map (fun x => x.2) pieces).flatten with
    | error e' => rw [hd] at h; simp only at h; simp only [h]
    | ok o => rw [hd] at h; simp at h
  | ok es =>
    rw [hr] at h
    cases hd : decRunFrom p DecState.initial (List.map (fun x => x.2) pieces).flatten with
    | error e' => rw [hd] at h; simp at h
    | ok o => rw [hd] at h; simp only at h; simp only [h]

/-- The decoder only ever appends (no `register_patch`, no backfill) — also in calls that fail. -/
theorem once_appendOnly (p : Params) (m : Method) (s : DecState) (b : UInt8) (rest : List UInt8) :
    match Dec.once p m s b rest with
    | .error (_, es) => AppendOnly es
    | .ok o => AppendOnly o.emits := by
  cases s with
  | initial =>
    simp only [Dec.once]
    by_cases h1 : b.toNat > p.maxInit
    · simp [h1, AppendOnly]
    · by_cases h2 : b.toNat > 0 <;> simp [h1, h2, AppendOnly]
  | beforeChunk ins =>
    simp only [Dec.once]
    by_cases h1 : b.toNat ≥ p.radix <;> cases ins <;> simp [h1, AppendOnly, Op.isAppend]
  | midHeader b0 =>
    simp only [Dec.once]
    by_cases h1 : b.toNat ≥ p.radix
    · simp [h1, AppendOnly]
    · by_cases h2 : b0.toNat + b.toNat * p.radix > p.maxSub
      · simp [h1, h2, AppendOnly]
      · by_cases h3 : b0.toNat + b.toNat * p.radix > 0 <;> simp [h1, h2, h3, AppendOnly]
  | inChunk rem term => simp [Dec.once, AppendOnly, Op.isAppend]

theorem feed_appendOnly (p : Params) (m : Method) (fuel : Nat) (s : DecState) (input : List UInt8) :
    match Dec.feed p m fuel s input with
    | .error (_, es) => AppendOnly es
    | .ok (_, es) => AppendOnly es := by
  induction fuel generalizing s input with
  | zero => simp [Dec.feed]
  | succ fuel ih =>
    cases input with
    | nil => simp [Dec.feed]
    | cons b rest =>
      have h1 := once_appendOnly p m s b rest
      simp only [Dec.feed]
      cases ho : Dec.once p m s b rest with
      | error ee => rw [ho] at h1; obtain ⟨e, es⟩ := ee; exact h1
      | ok o =>
        rw [ho] at h1
        have h2 := ih o.st (List.drop o.consumed (b :: rest))
        simp only
        cases hr : Dec.feed p m fuel o.st (List.drop o.consumed (b :: rest)) with
        | error ee => rw [hr] at h2; obtain ⟨e, es⟩ := ee; exact appendOnly_append h1 h2
        | ok se => rw [hr] at h2; obtain ⟨s1, es1⟩ := se; exact appendOnly_append h1 h2

/-! ### bridge 2: the byte-level reference run = `Spec.decode` -/

theorem finishB_andThen_ok (s : DecState) (o : List UInt8) (k) :
    finishB (andThen (.ok (s, o)) k) =
      match finishB (k s) with
      | .error e => .error e
      | .ok out => .ok (o ++ out) := by
  simp only [andThen_ok]
  cases k s with
  | error e => rfl
  | ok so =>
    obtain ⟨s', o'⟩ := so
    simp only [finishB]
    cases Dec.finish s' with
    | error e => rfl
    | ok u => rfl

/-- State after a size header announcing `n` bytes (`t` = the chunk is short). -/
def afterHdr (n : Nat) (t : Bool) : DecState := if n > 0 then .inChunk n t else .beforeChunk t

/-- A chunk body of `n` bytes: cut short, or `n` bytes out and on to the next header. -/
theorem decRunFrom_body (p : Params) (n : Nat) (t : Bool) (rest : List UInt8) :
    decRunFrom p (afterHdr n t) rest =
      if rest.length < n then .error .cutShort
      else match decRunFrom p (.beforeChunk t) (rest.drop n) with
        | .error e => .error e
        | .ok out => .ok (rest.take n ++ out) := by
  by_cases hn : n > 0
  · simp only [afterHdr, if_pos hn, decRunFrom]
    rw [foldB_inChunk p n t rest hn, finishB_andThen_ok]
    by_cases hl : rest.length < n
    · have hm : min rest.length n = rest.length := by omega
      simp [hm, hl, finishB, Dec.finish]
    · have hm : min rest.length n = n := by omega
      simp only [hm, Nat.lt_irrefl, if_false, if_neg hl]
  · have h0 : n = 0 := by omega
    subst h0
    simp only [afterHdr, Nat.lt_irrefl, if_false, Nat.not_lt_zero, List.drop_zero, List.take_zero,
      List.nil_append]
    cases decRunFrom p (DecState.beforeChunk t) rest <;> rfl

theorem decLoop_cons (p : Params) (fuel : Nat) (first pend : Bool) (b : UInt8) (t : List UInt8) :
    Spec.decLoop p (fuel + 1) first pend (b :: t) =
      match Spec.parseHdr p first (b :: t) with
      | none => none
      | some (n, rest) =>
        if rest.length < n then none
        else
          match Spec.decLoop p fuel false (n < (if first then p.maxInit else p.maxSub)) (rest.drop n) with
          | none => none
          | some out => some ((if pend then [FE, FD] else []) ++ rest.take n ++ out) := by
  rfl

/-- Refinement statement for one state / spec-flag pair. -/
def Agrees (spec : Option (List UInt8)) (impl : Except DecErr (List UInt8)) : Prop :=
  match spec with
  | some out => impl = .ok out
  | none => ∃ e, impl = .error e

theorem decLoop_sub (p : Params) (fuel : Nat) (pend : Bool) (inp : List UInt8) (hf : inp.length < fuel) :
    Agrees (Spec.decLoop p fuel false pend inp) (decRunFrom p (.beforeChunk pend) inp) := by
  induction fuel generalizing pend inp with
  | zero => omega
  | succ fuel ih =>
    match inp with
    | [] =>
      cases pend <;> simp [Spec.decLoop, Agrees, decRunFrom, finishB, Dec.finish]
    | [b] =>
      simp only [decLoop_cons, Spec.parseHdr, Agrees, decRunFrom, foldB_cons, foldB_nil, stepB]
      by_cases h1 : b.toNat ≥ p.radix
      · simp [h1, finishB]
      · simp [h1, finishB, Dec.finish]
    | b :: c :: rest =>
      simp only [decLoop_cons, Spec.parseHdr, decRunFrom, foldB_cons, stepB]
      by_cases h1 : b.toNat ≥ p.radix
      · have : ¬ (b.toNat < p.radix ∧ c.toNat < p.radix ∧ b.toNat + c.toNat * p.radix ≤ p.maxSub) := by omega
        simp [h1, this, finishB, Agrees]
      · by_cases h2 : c.toNat ≥ p.radix
        · have : ¬ (b.toNat < p.radix ∧ c.toNat < p.radix ∧ b.toNat + c.toNat * p.radix ≤ p.maxSub) := by omega
          simp [h1, h2, this, finishB, Agrees]
        · by_cases h3 : b.toNat + c.toNat * p.radix > p.maxSub
          · have : ¬ (b.toNat < p.radix ∧ c.toNat < p.radix ∧ b.toNat + c.toNat * p.radix ≤ p.maxSub) := by omega
            simp [h1, h2, h3, this, finishB, Agrees]
          · have hc : (b.toNat < p.radix ∧ c.toNat < p.radix ∧ b.toNat + c.toNat * p.radix ≤ p.maxSub) := by omega
            have hst : (if b.toNat + c.toNat * p.radix > 0 then
                  (Except.ok (DecState.inChunk (b.toNat + c.toNat * p.radix)
                    (b.toNat + c.toNat * p.radix < p.maxSub), []) : Except DecErr (DecState × List UInt8))
                else .ok (DecState.beforeChunk (b.toNat + c.toNat * p.radix < p.maxSub), []))
                = .ok (afterHdr (b.toNat + c.toNat * p.radix) (b.toNat + c.toNat * p.radix < p.maxSub), []) := by
              unfold afterHdr; split <;> rfl
            simp only [if_neg h1, if_neg h2, if_neg h3, if_pos hc, hst, finishB_andThen_ok, List.nil_append]
            have hb := decRunFrom_body p (b.toNat + c.toNat * p.radix) (b.toNat + c.toNat * p.radix < p.maxSub) rest
            unfold decRunFrom at hb
            rw [hb]
            by_cases hl : rest.length < b.toNat + c.toNat * p.radix
            · simp [hl, Agrees]
            · have hlen : (rest.drop (b.toNat + c.toNat * p.radix)).length < fuel := by
                simp only [List.length_drop, List.length_cons] at *; omega
              have := ih (decide (b.toNat + c.toNat * p.radix < p.maxSub)) _ hlen
              simp only [if_neg hl, Bool.false_eq_true, if_false]
              unfold Agrees at this
              cases hd : Spec.decLoop p fuel false (decide (b.toNat + c.toNat * p.radix < p.maxSub))
                  (List.drop (b.toNat + c.toNat * p.radix) rest) with
              | none =>
                rw [hd] at this
                obtain ⟨e, he⟩ := this
                unfold decRunFrom at he
                simp [he, Agrees]
              | some out =>
                rw [hd] at this
                unfold decRunFrom at this
                simp [this, Agrees]

theorem decode_agrees (p : Params) (inp : List UInt8) :
    Agrees (Spec.decode p inp) (decRun p inp) := by
  unfold Spec.decode decRun
  match inp with
  | [] => simp [Spec.decLoop, Agrees, decRunFrom, finishB, Dec.finish]
  | b :: rest =>
    simp only [decLoop_cons, Spec.parseHdr, decRunFrom, foldB_cons, stepB]
    by_cases h1 : b.toNat > p.maxInit
    · have : ¬ b.toNat ≤ p.maxInit := by omega
      simp [h1, this, finishB, Agrees]
    · have hc : b.toNat ≤ p.maxInit := by omega
      have hst : (if b.toNat > 0 then
            (Except.ok (DecState.inChunk b.toNat (b.toNat < p.maxInit), []) : Except DecErr (DecState × List UInt8))
          else .ok (DecState.beforeChunk (b.toNat < p.maxInit), []))
          = .ok (afterHdr b.toNat (b.toNat < p.maxInit), []) := by
        unfold afterHdr; split <;> rfl
      simp only [if_neg h1, if_pos hc, hst, finishB_andThen_ok, List.nil_append, if_true]
      have hb := decRunFrom_body p b.toNat (b.toNat < p.maxInit) rest
      unfold decRunFrom at hb
      rw [hb]
      by_cases hl : rest.length < b.toNat
      · simp [hl, Agrees]
      · have hlen : (rest.drop b.toNat).length < (b :: rest).length := by
          simp only [List.length_drop, List.length_cons]; omega
        have := decLoop_sub p _ (decide (b.toNat < p.maxInit)) _ hlen
        simp only [if_neg hl, Bool.false_eq_true, if_false]
        unfold Agrees at this
        cases hd : Spec.decLoop p (b :: rest).length false (decide (b.toNat < p.maxInit))
            (List.drop b.toNat rest) with
        | none =>
          rw [hd] at this
          obtain ⟨e, he⟩ := this
          unfold decRunFrom at he
          simp [he, Agrees]
        | some out =>
          rw [hd] at this
          unfold decRunFrom at this
          simp [this, Agrees]

/-! ### which error for which input: a batch decoder that reports errors -/

/-- Put already-decoded bytes in front of the rest of the decoding. -/
def prepend (o : List UInt8) (r : Except DecErr (List UInt8)) : Except DecErr (List UInt8) :=
  match r with
  | .error e => .error e
  | .ok out => .ok (o ++ out)

/-- Batch decoder from a chunk boundary after the first chunk, reporting the error the
incremental decoder reports.  Chunk by chunk, in this order: bad first header byte, missing
second byte, bad second byte, size above the limit, body cut short; at the end of the input,
the last chunk must have been short. -/
def decSubE (p : Params) : Nat → Bool → List UInt8 → Except DecErr (List UInt8)
  | 0, _, _ => .error .cutShort
  | _ + 1, pend, [] => if pend then .ok [] else .error .missingImplicitTerminator
  | _ + 1, _, [b] => if b.toNat ≥ p.radix then .error (.invalidHeaderByte false b) else .error .cutShort
  | fuel + 1, pend, b :: c :: rest =>
    if b.toNat ≥ p.radix then .error (.invalidHeaderByte false b)
    else if c.toNat ≥ p.radix then .error (.invalidHeaderByte true c)
    else if b.toNat + c.toNat * p.radix > p.maxSub then
      .error (.invalidSubsequentSizeHeader (b.toNat + c.toNat * p.radix))
    else if rest.length < b.toNat + c.toNat * p.radix then .error .cutShort
    else prepend ((if pend then [FE, FD] else []) ++ rest.take (b.toNat + c.toNat * p.radix))
      (decSubE p fuel (b.toNat + c.toNat * p.radix < p.maxSub) (rest.drop (b.toNat + c.toNat * p.radix)))

/-- The error-reporting batch decoder. -/
def decodeE (p : Params) : List UInt8 → Except DecErr (List UInt8)
  | [] => .error .cutShort
  | b :: rest =>
    if b.toNat > p.maxInit then .error (.invalidInitialSizeHeader b)
    else if rest.length < b.toNat then .error .cutShort
    else prepend (rest.take b.toNat) (decSubE p (rest.length + 1) (b.toNat < p.maxInit) (rest.drop b.toNat))

theorem decRunFrom_sub (p : Params) (fuel : Nat) (pend : Bool) (inp : List UInt8) (hf : inp.length < fuel) :
    decRunFrom p (.beforeChunk pend) inp = decSubE p fuel pend inp := by
  induction fuel generalizing pend inp with
  | zero => omega
  | succ fuel ih =>
    match inp with
    | [] => cases pend <;> simp [decSubE, decRunFrom, finishB, Dec.finish]
    | [b] =>
      simp only [decSubE, decRunFrom, foldB_cons, foldB_nil, stepB]
      by_cases h1 : b.toNat ≥ p.radix
      · simp [h1, finishB]
      · simp [h1, finishB, Dec.finish]
    | b :: c :: rest =>
      simp only [decSubE, decRunFrom, foldB_cons, stepB]
      by_cases h1 : b.toNat ≥ p.radix
      · simp [h1, finishB]
      · by_cases h2 : c.toNat ≥ p.radix
        · simp [h1, h2, finishB]
        · by_cases h3 : b.toNat + c.toNat * p.radix > p.maxSub
          · simp [h1, h2, h3, finishB]
          · have hst : (if b.toNat + c.toNat * p.radix > 0 then
                  (Except.ok (DecState.inChunk (b.toNat + c.toNat * p.radix)
                    (b.toNat + c.toNat * p.radix < p.maxSub), []) : Except DecErr (DecState × List UInt8))
                else .ok (DecState.beforeChunk (b.toNat + c.toNat * p.radix < p.maxSub), []))
                = .ok (afterHdr (b.toNat + c.toNat * p.radix) (b.toNat + c.toNat * p.radix < p.maxSub), []) := by
              unfold afterHdr; split <;> rfl
            simp only [if_neg h1, if_neg h2, if_neg h3, hst, finishB_andThen_ok, List.nil_append]
            have hb := decRunFrom_body p (b.toNat + c.toNat * p.radix) (b.toNat + c.toNat * p.radix < p.maxSub) rest
            unfold decRunFrom at hb
            rw [hb]
            by_cases hl : rest.length < b.toNat + c.toNat * p.radix
            · simp [hl]
            · have hlen : (rest.drop (b.toNat + c.toNat * p.radix)).length < fuel := by
                simp only [List.length_drop, List.length_cons] at *; omega
              have ih' := ih (decide (b.toNat + c.toNat * p.radix < p.maxSub)) _ hlen
              unfold decRunFrom at ih'
              rw [if_neg hl, if_neg hl, ih']
              cases decSubE p fuel (decide (b.toNat + c.toNat * p.radix < p.maxSub))
                (List.drop (b.toNat + c.toNat * p.radix) rest) <;> simp [prepend]

/-- The byte-at-a-time reference run is the error-reporting batch decoder. -/
theorem decRun_eq_decodeE (p : Params) (inp : List UInt8) : decRun p inp = decodeE p inp := by
  unfold decRun
  match inp with
  | [] => simp [decodeE, decRunFrom, finishB, Dec.finish]
  | b :: rest =>
    simp only [decodeE, decRunFrom, foldB_cons, stepB]
    by_cases h1 : b.toNat > p.maxInit
    · simp [h1, finishB]
    · have hst : (if b.toNat > 0 then
            (Except.ok (DecState.inChunk b.toNat (b.toNat < p.maxInit), []) : Except DecErr (DecState × List UInt8))
          else .ok (DecState.beforeChunk (b.toNat < p.maxInit), []))
          = .ok (afterHdr b.toNat (b.toNat < p.maxInit), []) := by
        unfold afterHdr; split <;> rfl
      simp only [if_neg h1, hst, finishB_andThen_ok, List.nil_append]
      have hb := decRunFrom_body p b.toNat (b.toNat < p.maxInit) rest
      unfold decRunFrom at hb
      rw [hb]
      by_cases hl : rest.length < b.toNat
      · simp [hl]
      · have hlen : (rest.drop b.toNat).length < rest.length + 1 := by
          simp only [List.length_drop]; omega
        have hs := decRunFrom_sub p _ (decide (b.toNat < p.maxInit)) _ hlen
        unfold decRunFrom at hs
        rw [if_neg hl, if_neg hl, hs]
        cases decSubE p (rest.length + 1) (decide (b.toNat < p.maxInit)) (List.drop b.toNat rest) <;>
          simp [prepend]

/-! ### panic freedom (`dec_total`) -/

/-- States the decoder can be in when `once` is called: the initial state and
everything a successful `once` (any method, any non-empty input) leads to. -/
inductive Reachable (p : Params) : DecState → Prop
  | init : Reachable p .initial
  | step {s : DecState} {m : Method} {b : UInt8} {rest : List UInt8} {o : Dec.OnceOut} :
      Reachable p s → Dec.once p m s b rest = .ok o → Reachable p o.st

/-- `InChunk.remaining` is a `NonZeroU32`. -/
def WF32 : DecState → Prop
  | .inChunk rem _ => 0 < rem ∧ rem < 2 ^ 32
  | _ => True

/-- Every panic site on the path `once` takes from `s` on input `b :: rest` is passed:
* `NonZeroU32::new(chunk_size as u32).unwrap()` in `InitialState::decode` / `MidHeader::decode`
  (reached when the header is accepted and `chunk_size > 0`): `0 < chunk_size < 2³²`;
* `InChunk::update`: `NonZeroU32::new(remaining - consumed).unwrap()` when `consumed < remaining`,
  `assert_eq!(remaining, consumed)` otherwise (and the casts to `u32` are exact);
* the caller's `&input[consumed..]`: `consumed ≤ input.len()` (and `> 0`: the loop makes progress). -/
def OnceNoPanic (p : Params) (m : Method) (s : DecState) (b : UInt8) (rest : List UInt8) : Prop :=
  (match s with
   | .initial => (¬ b.toNat > p.maxInit ∧ b.toNat > 0) → 0 < b.toNat ∧ b.toNat < 2 ^ 32
   | .beforeChunk _ => True
   | .midHeader b0 =>
     (¬ b.toNat ≥ p.radix ∧ ¬ b0.toNat + b.toNat * p.radix > p.maxSub ∧ b0.toNat + b.toNat * p.radix > 0) →
       0 < b0.toNat + b.toNat * p.radix ∧ b0.toNat + b.toNat * p.radix < 2 ^ 32
   | .inChunk rem _ =>
     0 < rem ∧ rem < 2 ^ 32 ∧
     (min (rest.length + 1) rem < rem → 0 < rem - min (rest.length + 1) rem) ∧
     (¬ min (rest.length + 1) rem < rem → rem = min (rest.length + 1) rem)) ∧
  (∀ o, Dec.once p m s b rest = .ok o → 0 < o.consumed ∧ o.consumed ≤ (b :: rest).length)

theorem valid_maxSub_lt (p : Params) (hp : p.Valid) : p.maxSub < 2 ^ 32 := by
  obtain ⟨_, _, _, h4, _, h6⟩ := hp
  have : p.radix * p.radix ≤ 253 * 253 := Nat.mul_le_mul h6 h6
  omega

theorem once_wf32 (p : Params) (hp : p.Valid) {m : Method} {s : DecState} {b : UInt8} {rest : List UInt8}
    {o : Dec.OnceOut} (hs : WF32 s) (h : Dec.once p m s b rest = .ok o) : WF32 o.st := by
  have hsub := valid_maxSub_lt p hp
  have hb : b.toNat < 256 := UInt8.toNat_lt b
  cases s with
  | initial =>
    simp only [Dec.once] at h
    split at h
    · cases h
    · split at h
      · cases h; simp only [WF32]; omega
      · cases h; trivial
  | beforeChunk ins =>
    simp only [Dec.once] at h
    split at h
    · cases h
    · cases h; trivial
  | midHeader b0 =>
    simp only [Dec.once] at h
    split at h
    · cases h
    · split at h
      · cases h
      · split at h
        · cases h; simp only [WF32]; omega
        · cases h; trivial
  | inChunk rem term =>
    simp only [Dec.once] at h
    cases h
    simp only [WF32] at hs
    split
    · simp only [WF32]; omega
    · trivial

theorem reachable_wf32 (p : Params) (hp : p.Valid) {s : DecState} (h : Reachable p s) : WF32 s := by
  induction h with
  | init => trivial
  | step _ ho ih => exact once_wf32 p hp ih ho

theorem wf_of_wf32 {s : DecState} (h : WF32 s) : WF s := by
  cases s <;> simp_all [WF, WF32]

theorem once_noPanic (p : Params) (hp : p.Valid) (m : Method) (s : DecState) (b : UInt8) (rest : List UInt8)
    (hs : WF32 s) : OnceNoPanic p m s b rest := by
  have hsub := valid_maxSub_lt p hp
  have hb : b.toNat < 256 := UInt8.toNat_lt b
  refine ⟨?_, ?_⟩
  · cases s with
    | initial => simp only; omega
    | beforeChunk ins => trivial
    | midHeader b0 => simp only; omega
    | inChunk rem term => simp only [WF32] at hs; simp only; omega
  · intro o ho
    have := once_spec p m s b rest (wf_of_wf32 hs)
    rw [ho] at this
    exact ⟨this.1, this.2.1⟩

/-- A whole `feed` call passes only through reachable states. -/
theorem feed_reachable (p : Params) (m : Method) (fuel : Nat) (s : DecState) (input : List UInt8)
    (hs : Reachable p s) {s' : DecState} {es : List Emit}
    (h : Dec.feed p m fuel s input = .ok (s', es)) : Reachable p s' := by
  induction fuel generalizing s input es with
  | zero => simp only [Dec.feed] at h; cases h; exact hs
  | succ fuel ih =>
    cases input with
    | nil => simp only [Dec.feed] at h; cases h; exact hs
    | cons b rest =>
      simp only [Dec.feed] at h
      cases ho : Dec.once p m s b rest with
      | error ee => rw [ho] at h; cases h
      | ok o =>
        rw [ho] at h
        simp only at h
        cases hr : Dec.feed p m fuel o.st (List.drop o.consumed (b :: rest)) with
        | error ee => rw [hr] at h; cases h
        | ok se =>
          obtain ⟨s1, es1⟩ := se
          rw [hr] at h
          cases h
          exact ih o.st _ (Reachable.step hs ho) hr

end Woodpile.Hcobs.DecProof

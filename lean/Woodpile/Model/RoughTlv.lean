/-
Model of the `rough_tlv` crate (rough_tlv/src/{lib,encoder,decoder}.rs).

Encoder side (`MessageWrapper`): the three constructors, `compute_len` (with the
saturating `usize` arithmetic spelled out) and `encode` (with the saturating
`u32` accumulation; the three `assert!`s are the `none` results).  Everything is
generic in a value type `V` that is only seen through
`bytes : V → List UInt8` (what `to_rough_tlv` writes) and `len : V → Nat`
(what `rough_tlv_len` reports).  A nested message is the instance
`V := Wrapper V'` with `Wrapper.bytes`/`Wrapper.tlvLen`.

Decoder side (`MessageView`): `View.new` (five error kinds in the code's
order) and every accessor.  All slicing is CHECKED: a Rust slice expression
`&s[a..b]` that would panic is `none` here (likewise `usize` underflow, which
the harness profile traps), so "never panics" is a theorem (`≠ none`), not an
assumption.  Words are little-endian `u32`s read from a `List UInt8`, as `Nat`.

64-bit `usize` is assumed throughout (`usizeMax = 2^64 - 1`; `8 * len()` cannot
overflow because `len() < 2^32`).

Sink-call level (`Wrapper.encodePieces`): `MessageWrapper::encode` does not
produce a byte string, it makes a SEQUENCE OF CALLS on a `ZeroCopySink`
(`append_copy` for every header word, then whatever each value's `to_rough_tlv`
does: `append_borrow` for `Cow::Borrowed`, `append_copy` for `Cow::Owned`,
`&[u8]`, `&str`, and the nested call sequence for a value that is itself a
message).  A call is a `Piece = Hcobs.Method × bytes` (`.copy` = `append_copy`,
`.borrow` = `append_borrow`), the vocabulary the HCOBS encoder model
(`Hcobs.Enc.output`) consumes.

Core Lean only (plus the model of the HCOBS `Method`): this file is linked into
the native model driver.
-/
import Woodpile.Model.Hcobs

namespace Woodpile.RoughTlv

deriving instance DecidableEq for Except

/-! ### Numbers -/

def i32Max : Nat := 2147483647
def u32Max : Nat := 4294967295
def usizeMax : Nat := 18446744073709551615

/-- `usize::saturating_add` -/
def satAddUsize (a b : Nat) : Nat := min (a + b) usizeMax
/-- `usize::saturating_mul` -/
def satMulUsize (a b : Nat) : Nat := min (a * b) usizeMax
/-- `u32::saturating_add` -/
def satAddU32 (a b : Nat) : Nat := min (a + b) u32Max

/-- `u32::to_le_bytes` (of `n % 2^32`). -/
def le32 (n : Nat) : List UInt8 :=
  [UInt8.ofNat (n % 256), UInt8.ofNat (n / 256 % 256),
   UInt8.ofNat (n / 65536 % 256), UInt8.ofNat (n / 16777216 % 256)]

/-- The byte at position `i` as a number (0 past the end; every use below is
guarded by a length check). -/
def byteAt (d : List UInt8) (i : Nat) : Nat := (d[i]?.getD 0).toNat

/-- `u32::from_le_bytes` of the four bytes at byte offset `off`. -/
def word (d : List UInt8) (off : Nat) : Nat :=
  byteAt d off + 256 * byteAt d (off + 1) + 65536 * byteAt d (off + 2)
    + 16777216 * byteAt d (off + 3)

/-- `slice_as_tags`: `slice.len() / 4` little-endian words. -/
def wordsOf (s : List UInt8) : List Nat :=
  (List.range (s.length / 4)).map (fun j => word s (4 * j))

/-- `&d[a..b]`; `none` = the slice expression panics. -/
def slice? (d : List UInt8) (a b : Nat) : Option (List UInt8) :=
  if a ≤ b ∧ b ≤ d.length then some ((d.drop a).take (b - a)) else none

/-! ### Encoder: `MessageWrapper` -/

inductive EncErr where
  | nonMonotonicTags (idx cur next : Nat)
  | tooManyElements (count : Nat)
  | valueTooLarge (rank size : Nat)
  | totalTooLarge (count size : Nat)
  deriving Repr, DecidableEq

/-- A pair as the caller supplies it. -/
abbrev Pair (V : Type) := UInt32 × V

/-- The sort key: `Tag::cmp` compares `value()`, the little-endian `u32`. -/
def key {V : Type} (p : Pair V) : Nat := p.1.toNat

/-- Insert `e` in front of the first element whose key is `≥` its own. -/
def insertByTag {V : Type} (e : Pair V) : List (Pair V) → List (Pair V)
  | [] => [e]
  | x :: xs => if key e ≤ key x then e :: x :: xs else x :: insertByTag e xs

/-- `elements.sort_by_key(|x| x.0)`: a *stable* sort (std guarantees
stability; any stable sort computes this same list). -/
def sortByTag {V : Type} : List (Pair V) → List (Pair V)
  | [] => []
  | e :: es => insertByTag e (sortByTag es)

/-- The loop of `new_from_sorted`: first index whose tag exceeds its
successor's, with the two tags. Also the `nonmonotonic` closure of
`MessageView::new`. -/
def firstDecrease : List Nat → Nat → Option (Nat × Nat × Nat)
  | a :: b :: rest, idx =>
    if a > b then some (idx, a, b) else firstDecrease (b :: rest) (idx + 1)
  | _, _ => none

/-- The summation loop of `compute_len` (`rank`, `values_total_size`). -/
def sumLens {V : Type} (len : V → Nat) : List (Pair V) → Nat → Nat → Except EncErr Nat
  | [], _, acc => .ok acc
  | e :: es, rank, acc =>
    if len e.2 > i32Max then .error (.valueTooLarge (rank % 4294967296) (len e.2))
    else sumLens len es (rank + 1) (satAddUsize acc (len e.2))

/-- `MessageWrapper::compute_len`. -/
def computeLen {V : Type} (len : V → Nat) (es : List (Pair V)) : Except EncErr Nat :=
  if es.length > i32Max then .error (.tooManyElements es.length)
  else
    let ret := satAddUsize 4 (satMulUsize (es.length - 1) 4)
    let ret := satAddUsize ret (satMulUsize es.length 4)
    match sumLens len es 0 0 with
    | .error e => .error e
    | .ok total =>
      let ret := satAddUsize ret total
      if ret > i32Max then .error (.totalTooLarge (es.length % 4294967296) ret)
      else .ok ret

/-- `MessageWrapper { len, entries }`. -/
structure Wrapper (V : Type) where
  len : Nat
  entries : List (Pair V)
  deriving Repr, DecidableEq

def mkWrapper {V : Type} (len : V → Nat) (es : List (Pair V)) : Except EncErr (Wrapper V) :=
  match computeLen len es with
  | .error e => .error e
  | .ok n => .ok ⟨n, es⟩

/-- `MessageWrapper::new`. -/
def Wrapper.new {V : Type} (len : V → Nat) (es : List (Pair V)) : Except EncErr (Wrapper V) :=
  mkWrapper len (sortByTag es)

/-- `MessageWrapper::new_from_slice` (sorts the caller's slice in place; same
result as `new`). -/
def Wrapper.newFromSlice {V : Type} (len : V → Nat) (es : List (Pair V)) :
    Except EncErr (Wrapper V) :=
  mkWrapper len (sortByTag es)

/-- `MessageWrapper::new_from_sorted`. -/
def Wrapper.newFromSorted {V : Type} (len : V → Nat) (es : List (Pair V)) :
    Except EncErr (Wrapper V) :=
  match firstDecrease (es.map key) 0 with
  | some (idx, cur, next) => .error (.nonMonotonicTags idx cur next)
  | none => mkWrapper len es

/-- The offsets loop of `encode`: `acc` is the `Option<u32>` running sum.
`none` = one of the two `assert!`s in the loop fails. -/
def encOffsets {V : Type} (len : V → Nat) : List (Pair V) → Option Nat → Option (List UInt8)
  | [], _ => some []
  | e :: es, acc =>
    if len e.2 > i32Max then none
    else match acc with
      | none => encOffsets len es (some (len e.2))
      | some sum =>
        let sum' := satAddU32 sum (len e.2)
        if sum' > i32Max then none
        else (encOffsets len es (some sum')).map (le32 sum ++ ·)

/-- `MessageWrapper::encode`: everything appended to the sink, in order;
`none` = an `assert!` fails. -/
def encodeEntries {V : Type} (bytes : V → List UInt8) (len : V → Nat) (es : List (Pair V)) :
    Option (List UInt8) :=
  if es.length > i32Max then none
  else match encOffsets len es none with
    | none => none
    | some offs =>
      some (le32 es.length ++ offs ++ (es.map (fun e => le32 (key e))).flatten
        ++ (es.map (fun e => bytes e.2)).flatten)

def Wrapper.encode {V : Type} (bytes : V → List UInt8) (len : V → Nat) (w : Wrapper V) :
    Option (List UInt8) :=
  encodeEntries bytes len w.entries

/-- `ToRoughTLV for MessageWrapper`: `rough_tlv_len` is the cached length … -/
def Wrapper.tlvLen {V : Type} (w : Wrapper V) : Nat := w.len

/-- … and `to_rough_tlv` is `encode` (a panicking nested encode writes nothing
that anyone gets to see). -/
def Wrapper.bytes {V : Type} (bytes : V → List UInt8) (len : V → Nat) (w : Wrapper V) :
    List UInt8 :=
  (w.encode bytes len).getD []

/-! ### Encoder at the level of `ZeroCopySink` calls -/

/-- One call on the sink: `(.copy, bs)` = `sink.append_copy(bs)`,
`(.borrow, bs)` = `sink.append_borrow(bs)` (for an `OwningIovec`: `push_copy` /
`push`; for an `hcobs::Encoder`: `encode_copy` / `encode`). -/
abbrev Piece := Woodpile.Hcobs.Method × List UInt8

/-- What reaches the sink, as bytes. -/
def flat (ps : List Piece) : List UInt8 := (ps.map (·.2)).flatten

/-- The offsets loop of `encode` as sink calls: one `append_copy(&sum.to_le_bytes())`
per element after the first (same control flow as `encOffsets`). -/
def encOffsetCalls {V : Type} (len : V → Nat) : List (Pair V) → Option Nat → Option (List Piece)
  | [], _ => some []
  | e :: es, acc =>
    if len e.2 > i32Max then none
    else match acc with
      | none => encOffsetCalls len es (some (len e.2))
      | some sum =>
        let sum' := satAddU32 sum (len e.2)
        if sum' > i32Max then none
        else (encOffsetCalls len es (some sum')).map ((.copy, le32 sum) :: ·)

/-- The last loop of `encode`: `value.to_rough_tlv(sink)` for every pair, in
order.  `calls v = none` means that `v.to_rough_tlv` panics (so does `encode`). -/
def valueCalls {V : Type} (calls : V → Option (List Piece)) : List (Pair V) → Option (List Piece)
  | [] => some []
  | e :: es =>
    match calls e.2 with
    | none => none
    | some c => (valueCalls calls es).map (c ++ ·)

/-- `MessageWrapper::encode` as the sequence of sink calls it makes:
`append_copy(count)`; `append_copy(offset)` N-1 times; `append_copy(tag)` N times;
then every value's own calls.  `none` = an `assert!` fails or a value panics. -/
def encodeEntriesCalls {V : Type} (calls : V → Option (List Piece)) (len : V → Nat)
    (es : List (Pair V)) : Option (List Piece) :=
  if es.length > i32Max then none
  else match encOffsetCalls len es none with
    | none => none
    | some offs =>
      match valueCalls calls es with
      | none => none
      | some vals =>
        some ((.copy, le32 es.length) :: offs ++ es.map (fun e => (.copy, le32 (key e))) ++ vals)

/-- `MessageWrapper::encode` / `to_rough_tlv`, sink-call level.  A nested message
is the instance `V := Wrapper V'`, `calls := fun w => w.encodePieces calls' len'`. -/
def Wrapper.encodePieces {V : Type} (calls : V → Option (List Piece)) (len : V → Nat)
    (w : Wrapper V) : Option (List Piece) :=
  encodeEntriesCalls calls len w.entries

/-- The bytes a value writes, from its calls (nothing if it panics). -/
def bytesOf {V : Type} (calls : V → Option (List Piece)) (v : V) : List UInt8 :=
  flat ((calls v).getD [])

/-! ### The value type and state machine of the `tlv` correspondence family

Kept in the model (not in the driver) so that the lawfulness of every value the
driver can ever build is a theorem (`Props/C11.dval_lawful`). -/

/-- A value as the `tlv` family sees it: the sink calls its `to_rough_tlv` makes
(`none` = it panics: a value that only reports a length and must never be
encoded, or a message containing one) and what `rough_tlv_len` reports. -/
structure DVal where
  calls : Option (List Piece)
  len : Nat
  deriving Repr, DecidableEq

def DVal.bytes (v : DVal) : List UInt8 := flat (v.calls.getD [])

/-- Is (or contains) a never-encoded fake. -/
def DVal.fake (v : DVal) : Bool := v.calls.isNone

/-- An item of an `I msg` line, parsed. -/
inductive ItemSpec where
  /-- bytes handed over by `append_borrow` (`Cow::Borrowed`) or `append_copy`
  (`Cow::Owned`, `&[u8]`, `&str`) -/
  | bytes (m : Woodpile.Hcobs.Method) (bs : List UInt8)
  /-- the `MessageWrapper` in an earlier slot, by reference -/
  | msg (slot : Nat)
  /-- a `MessageView` over (an owned copy of) that slot's encoding -/
  | view (slot : Nat)
  /-- a value whose `rough_tlv_len` reports `n` and whose `to_rough_tlv` panics -/
  | fake (n : Nat)
  deriving Repr, DecidableEq

inductive Ctor where
  | new | sorted | slice
  deriving Repr, DecidableEq

structure TlvSt where
  slots : List (Option (Wrapper DVal))
  deriving Repr, DecidableEq

def TlvSt.init : TlvSt := ⟨[]⟩

/-- The slot's message as a value. -/
def DVal.ofMsg (w : Wrapper DVal) : DVal := ⟨w.encodePieces DVal.calls DVal.len, w.tlvLen⟩

/-- The value an item denotes in state `s`; `none` = malformed op. -/
def TlvSt.value (s : TlvSt) : ItemSpec → Option DVal
  | .bytes m bs => some ⟨some [(m, bs)], bs.length⟩
  | .msg i =>
    match s.slots[i]? with
    | some (some w) => some (DVal.ofMsg w)
    | _ => none
  | .view i =>
    match s.slots[i]? with
    | some (some w) =>
      match w.encodePieces DVal.calls DVal.len with
      -- `impl ToRoughTLV for MessageView`: `self.storage.to_rough_tlv(sink)`, storage = `Cow::Owned`
      | some ps => some ⟨some [(.copy, flat ps)], (flat ps).length⟩
      | none => none
    | _ => none
  | .fake n => some ⟨none, n⟩

def TlvSt.values (s : TlvSt) : List (UInt32 × ItemSpec) → Option (List (Pair DVal))
  | [] => some []
  | (t, it) :: rest =>
    match s.value it with
    | none => none
    | some v => (s.values rest).map ((t, v) :: ·)

def Ctor.apply (c : Ctor) (es : List (Pair DVal)) : Except EncErr (Wrapper DVal) :=
  match c with
  | .new => Wrapper.new DVal.len es
  | .sorted => Wrapper.newFromSorted DVal.len es
  | .slice => Wrapper.newFromSlice DVal.len es

/-- `I msg <ctor> …`: build the values, run the constructor, store the outcome in
the next slot.  `none` = malformed op (nothing happens). -/
def TlvSt.msg (s : TlvSt) (c : Ctor) (items : List (UInt32 × ItemSpec)) :
    Option (TlvSt × Except EncErr (Wrapper DVal)) :=
  match s.values items with
  | none => none
  | some es =>
    let r := c.apply es
    some (⟨s.slots ++ [match r with | .ok w => some w | .error _ => none]⟩, r)

/-- Does the slot's message contain a value that must never be encoded? -/
def hasFake (w : Wrapper DVal) : Bool := w.entries.any (·.2.fake)

/-! ### Decoder: `MessageView` -/

inductive DecErr where
  | impossibleHeader (size : Nat)
  | truncatedHeader (count size : Nat)
  | nonMonotonicOffsets (idx cur next : Nat)
  | nonMonotonicTags (idx cur next : Nat)
  | truncatedPayload (min size : Nat)
  deriving Repr, DecidableEq

structure View where
  storage : List UInt8
  deriving Repr, DecidableEq

/-- `len()`: `u32::from_le_bytes(self.storage[0..4])`. -/
def View.len (v : View) : Option Nat :=
  (slice? v.storage 0 4).map (fun s => word s 0)

/-- `offsets()`: `slice_as_tags(&self.storage[4..(4 * self.len()).max(4)])`. -/
def View.offsets (v : View) : Option (List Nat) :=
  match v.len with
  | none => none
  | some n => (slice? v.storage 4 (max (4 * n) 4)).map wordsOf

/-- `tags()`: `slice_as_tags(&self.storage[4 * self.len()..8 * self.len()])`. -/
def View.tags (v : View) : Option (List Nat) :=
  match v.len with
  | none => none
  | some n => (slice? v.storage (4 * n) (8 * n)).map wordsOf

/-- `MessageView::new`.  Outer `none` = panic. -/
def View.new (d : List UInt8) : Option (Except DecErr View) :=
  if d.length < 4 then some (.error (.impossibleHeader d.length))
  else match slice? d 0 4 with
    | none => none
    | some s =>
      let n := word s 0
      if 8 * n > d.length then some (.error (.truncatedHeader n d.length))
      else
        let ret : View := ⟨d⟩
        match ret.offsets with
        | none => none
        | some offs =>
          match firstDecrease offs 0 with
          | some (i, a, b) => some (.error (.nonMonotonicOffsets i a b))
          | none =>
            match ret.tags with
            | none => none
            | some tags =>
              match firstDecrease tags 0 with
              | some (i, a, b) => some (.error (.nonMonotonicTags i a b))
              | none =>
                match offs.getLast? with
                | some last =>
                  let total := 8 * n + last
                  if total > d.length then some (.error (.truncatedPayload total d.length))
                  else some (.ok ret)
                | none => some (.ok ret)

/-- `get_value(index)`.  Outer `none` = panic, inner = the Rust `Option`. -/
def View.getValue (v : View) (index : Nat) : Option (Option (List UInt8)) :=
  match v.len with
  | none => none
  | some n =>
    if index ≥ n then some none
    else
      let header := 8 * n
      match v.offsets with
      | none => none
      | some offs =>
        let end? : Option Nat :=
          if index = offs.length then some v.storage.length
          else offs[index]?.map (· + header)
        match end? with
        | none => some none
        | some e =>
          let start? : Option Nat := if index = 0 then some 0 else offs[index - 1]?
          match start? with
          | none => some none
          | some s => (slice? v.storage (header + s) e).map some

/-- `get(index)`: `Some((*self.tags().get(index)?, self.get_value(index)?))`. -/
def View.get (v : View) (index : Nat) : Option (Option (Nat × List UInt8)) :=
  match v.tags with
  | none => none
  | some tags =>
    match tags[index]? with
    | none => some none
    | some t =>
      match v.getValue index with
      | none => none
      | some none => some none
      | some (some val) => some (some (t, val))

/-- `iter()` collected.  `self.storage.len() - header` underflowing is a panic
(the harness is built with overflow checks). -/
def View.iter (v : View) : Option (List (Nat × List UInt8)) :=
  match v.len with
  | none => none
  | some n =>
    let header := 8 * n
    match v.offsets with
    | none => none
    | some offs =>
      if v.storage.length < header then none
      else
        let starts := 0 :: offs
        let ends := offs ++ [v.storage.length - header]
        match v.tags with
        | none => none
        | some tags =>
          (tags.zip (starts.zip ends)).mapM (fun (t, (s, e)) =>
            (slice? v.storage (header + s) (header + e)).map (fun val => (t, val)))

/-- The `while size > 1` loop of `core::slice::binary_search_by` (Rust 1.95):
no early exit; `base = if cmp == Greater { base } else { mid }`.  `none` = the
`get_unchecked` would be out of bounds. -/
def bsLoop (tags : List Nat) (w : Nat) : Nat → Nat → Nat → Option Nat
  | 0, _, base => some base
  | fuel + 1, size, base =>
    if size > 1 then
      let half := size / 2
      let mid := base + half
      match tags[mid]? with
      | none => none
      | some x => bsLoop tags w fuel (size - half) (if x > w then base else mid)
    else some base

/-- `tags.binary_search(&wanted).ok()` exactly as std computes it today; with
repeated tags this is the *last* matching index.  Outer `none` = out-of-bounds
`get_unchecked`. -/
def binarySearch (tags : List Nat) (w : Nat) : Option (Option Nat) :=
  if tags.length = 0 then some none
  else match bsLoop tags w tags.length tags.length 0 with
    | none => none
    | some base =>
      match tags[base]? with
      | none => none
      | some x => if x = w then some (some base) else some none

/-- `find_tag` with the search algorithm as a parameter (the C12/C11 theorems
hold for every algorithm that returns *some* matching index). -/
def View.findTagWith (search : List Nat → Nat → Option (Option Nat)) (v : View) (w : Nat) :
    Option (Option Nat) :=
  match v.tags with
  | none => none
  | some tags => search tags w

/-- `find`: `self.get_value(self.find_tag(wanted)?)`. -/
def View.findWith (search : List Nat → Nat → Option (Option Nat)) (v : View) (w : Nat) :
    Option (Option (List UInt8)) :=
  match v.findTagWith search w with
  | none => none
  | some none => some none
  | some (some i) => v.getValue i

def View.findTag (v : View) (w : Nat) : Option (Option Nat) := v.findTagWith binarySearch w
def View.find (v : View) (w : Nat) : Option (Option (List UInt8)) := v.findWith binarySearch w

/-- `tags_match_exactly`. -/
def View.tagsMatchExactly (v : View) (expected : List Nat) : Option Bool :=
  v.tags.map (fun t => t == expected)

/-- `is_empty`. -/
def View.isEmpty (v : View) : Option Bool := v.len.map (· == 0)

end Woodpile.RoughTlv

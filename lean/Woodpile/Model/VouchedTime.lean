/-
Model of `VouchedTime` (vouched_time/src/lib.rs).

A local time (`time::PrimitiveDateTime`, assumed UTC) is represented by its
number of nanoseconds since the Unix epoch, an `Int` (Rust: `i128`, which is
wide enough for every intermediate value below, see `InRange`).  A base time is
a `UInt64` number of milliseconds, a voucher is the `UInt64` inside
`raffle::Voucher`.
-/
import Woodpile.Model.Raffle

namespace Woodpile.VouchedTime
open Woodpile.Raffle

/-- `u64::MAX as i128`. -/
def u64Max : Int := 18446744073709551615

/-- `PrimitiveDateTime::MIN.assume_utc().unix_timestamp_nanos()` (-9999-01-01 00:00:00.0). -/
def minLocalNs : Int := -377705116800000000000
/-- `PrimitiveDateTime::MAX.assume_utc().unix_timestamp_nanos()` (9999-12-31 23:59:59.999999999). -/
def maxLocalNs : Int := 253402300799999999999

/-- Days since 1970-01-01 of the proleptic-Gregorian date `y-m-d` (the standard
"days from civil" computation; `/`, `%` are floor division on `Int`).  Used only to
tie `minLocalNs` / `maxLocalNs` to the year range extracted from the `time` crate
(`Props/C14.local_range_consts`). -/
def daysFromCivil (y m d : Int) : Int :=
  let y' := if m ≤ 2 then y - 1 else y
  let era := y' / 400
  let yoe := y' - era * 400
  let mp := (m + 9) % 12
  let doy := (153 * mp + 2) / 5 + d - 1
  let doe := yoe * 365 + yoe / 4 - yoe / 100 + doy
  era * 146097 + doe - 719468

/-- Nanoseconds since the epoch of `y-m-d hh:mm:ss.nanos` (UTC). -/
def civilNs (y m d hh mm ss nanos : Int) : Int :=
  ((daysFromCivil y m d * 24 + hh) * 60 + mm) * 60 * 1000000000 + ss * 1000000000 + nanos

/-- The representable range of `time::PrimitiveDateTime` (years -9999 ..= 9999). -/
def InRange (ns : Int) : Prop := minLocalNs ≤ ns ∧ ns ≤ maxLocalNs

instance (ns : Int) : Decidable (InRange ns) := by unfold InRange; infer_instance

/-- The error messages of `check` / `check_vouched_time`, in source order. -/
inductive Err where
  | badVoucher     -- "base_time does not match voucher"
  | beforeEpoch    -- "local_time is before the Unix epoch"
  | outOfRange     -- "local time is out of range"
  | tooFarAhead    -- "local_time is too far ahead of base_time"
  | tooFarBehind   -- "local_time is too far behind base_time"
  | provider       -- `now`: the base time provider failed
  deriving Repr, DecidableEq

/-- `std::io::Result<()>`. -/
inductive Verdict where
  | ok
  | err (e : Err)
  deriving Repr, DecidableEq

/-- The crate-level constants the checks depend on. -/
structure Cfg where
  fwdMs : Nat          -- MAX_FORWARD_DISCREPANCY_MS
  backMs : Nat         -- MAX_BACKWARD_DISCREPANCY_MS
  params : CheckParams -- BASE_TIME_CHECK
  deriving Repr, DecidableEq

/-- The constants as extracted from the current sources. -/
def prodCfg : Cfg :=
  { fwdMs := Woodpile.Gen.maxForwardMs, backMs := Woodpile.Gen.maxBackwardMs, params := baseTimeCheck }

/-- `VouchedTime::check_vouched_time(local_time_ms: i128, base_time_ms: u64)`. -/
def checkVouchedTime (c : Cfg) (localMs : Int) (base : UInt64) : Verdict :=
  if localMs < 0 then .err .beforeEpoch
  else if localMs > u64Max then .err .outOfRange
  else
    -- `let local_time_ms = local_time_ms as u64;` (truncating cast)
    let l : UInt64 := UInt64.ofNat localMs.toNat
    -- `(local_time_ms as i128) - (base_time_ms as i128)`
    let delta : Int := (l.toNat : Int) - (base.toNat : Int)
    -- `(-(BACK as i128)..=(FWD as i128)).contains(&delta)`
    if -(c.backMs : Int) ≤ delta ∧ delta ≤ (c.fwdMs : Int) then .ok
    else if l > base then .err .tooFarAhead
    else .err .tooFarBehind

/-- `local_time.assume_utc().unix_timestamp_nanos().div_euclid(1_000_000)`. -/
def localMs (ns : Int) : Int := Int.ediv ns 1000000

/-- `VouchedTime::check(local_time, base_time_ms, voucher)`. -/
def check (c : Cfg) (ns : Int) (base voucher : UInt64) : Verdict :=
  if !Raffle.check c.params base voucher then .err .badVoucher
  else checkVouchedTime c (localMs ns) base

/-- The fields of a `VouchedTime`. -/
structure VT where
  localNs : Int
  base : UInt64
  voucher : UInt64
  deriving Repr, DecidableEq

/-- The outcome of a constructor: `Ok`, `Err`, or a panic (the `expect` inside
`check_or_die`). -/
inductive NewRes where
  | ok (vt : VT)
  | err (e : Err)
  | panic
  deriving Repr, DecidableEq

/-- `VouchedTime::check_or_die(self)`: `false` = the `expect` panics. -/
def checkOrDie (c : Cfg) (vt : VT) : Bool :=
  check c vt.localNs vt.base vt.voucher == .ok

/-- `VouchedTime::new(local_time, base_time_ms, voucher)`. -/
def new (c : Cfg) (ns : Int) (base voucher : UInt64) : NewRes :=
  match check c ns base voucher with
  | .err e => .err e                       -- `Self::check(..)?`
  | .ok =>
    let ret : VT := { localNs := ns, base := base, voucher := voucher }
    if checkOrDie c ret then .ok ret       -- `ret.check_or_die(); Ok(ret)`
    else .panic

/-- `VouchedTime::get_local_time(self)`: `none` = `check_or_die` panics. -/
def getLocalTime (c : Cfg) (vt : VT) : Option Int :=
  if checkOrDie c vt then some vt.localNs else none

/-- `VouchedTime::now(base_time_provider)` with the clock reading
(`OffsetDateTime::now_utc()`, nanoseconds since the epoch) made explicit.
`PrimitiveDateTime::new(now.date(), now.time())` of a UTC `OffsetDateTime` is
the same instant, so the local time passed on is the clock reading itself. -/
def now (c : Cfg) (clockNs : Int) (provider : Int → Option (UInt64 × UInt64)) : NewRes :=
  match provider clockNs with
  | none => .err .provider                 -- `base_time_provider(now)?`
  | some (base, voucher) => new c clockNs base voucher

/-! The formulas the crate used before the repairs of findings F4/F5, kept to
document (in `Props/C14.lean`) that they violate the property. -/

/-- `check_vouched_time` before commit b1e160f: differences in wrapping `u64`. -/
def checkVouchedTimeOldWrapping (c : Cfg) (localMs : Int) (base : UInt64) : Verdict :=
  if localMs < 0 then .err .beforeEpoch
  else if localMs > u64Max then .err .outOfRange
  else
    let l : UInt64 := UInt64.ofNat localMs.toNat
    -- `local_time_ms.wrapping_sub(base_time_ms).wrapping_add(BACK) <= BACK + FWD`
    if l - base + UInt64.ofNat c.backMs ≤ UInt64.ofNat c.backMs + UInt64.ofNat c.fwdMs then .ok
    else if l > base then .err .tooFarAhead
    else .err .tooFarBehind

/-- `unix_timestamp_nanos() / 1_000_000` before commit 44d8992 (truncation toward zero). -/
def localMsOldTruncating (ns : Int) : Int := Int.tdiv ns 1000000

end Woodpile.VouchedTime

/-
Layer C — HCOBS on all-zero input, in closed form.

A piece of 2^32 + k bytes cannot be replayed on `List UInt8`; the `zenc` / `zdec` ops of the
families `hcobs_enc` / `hcobs_dec` (one codec call on `n` zero bytes) are therefore replayed
through a *summary* of the encoding — total size, number of chunks, size of the last chunk,
FNV-1a hash of the header bytes only — that the model computes arithmetically from `Params`
(`zeroSummary`) and the harness computes by walking the slices of the real output.

* `summarize p b`: the summary of an arbitrary encoded byte string (walk it chunk by chunk);
  this is the definition of what the harness prints.
* `encZeros p n`: the encoding of `n` zero bytes written out chunk by chunk.
* `zeroSummary p n`: the summary, by arithmetic.

`Woodpile/Proofs/HcobsZeros.lean` proves `Spec.encode p (zeros n) = encZeros p n` and
`summarize p (Spec.encode p (zeros n)) = zeroSummary p n` for every `n` and all valid `p`.
-/
import Woodpile.Model.Hcobs

namespace Woodpile.Hcobs.Zeros

/-- `n` zero bytes. -/
def zeros (n : Nat) : List UInt8 := List.replicate n 0

/-! ### FNV-1a, 64 bits (the harness' `fnv`) -/

def fnvOffset : UInt64 := 0xcbf29ce484222325
def fnvPrime : UInt64 := 0x100000001b3

def fnvStep (h : UInt64) (b : UInt8) : UInt64 := (h ^^^ b.toUInt64) * fnvPrime

def fnv (h : UInt64) (bs : List UInt8) : UInt64 := bs.foldl fnvStep h

/-! ### Summary of an encoded byte string -/

structure Summary where
  /-- total number of bytes -/
  size : Nat
  /-- number of chunks (size headers) -/
  chunks : Nat
  /-- size announced by the last header -/
  last : Nat
  /-- FNV-1a of the header bytes, in order -/
  hhash : UInt64
  deriving Repr, DecidableEq

/-- Length of a size header. -/
def hdrBytes (first : Bool) : Nat := if first then 1 else 2

/-- Walk `header, payload, header, …`: parse a header, skip what it announces. -/
def walk (p : Params) : Nat → Bool → List UInt8 → Summary → Summary
  | 0, _, _, acc => acc
  | fuel + 1, first, b, acc =>
    match Spec.parseHdr p first b with
    | none => acc
    | some (n, rest) =>
      walk p fuel false (rest.drop n)
        { acc with chunks := acc.chunks + 1, last := n, hhash := fnv acc.hhash (b.take (hdrBytes first)) }

def summarize (p : Params) (b : List UInt8) : Summary :=
  walk p (b.length + 1) true b ⟨b.length, 0, 0, fnvOffset⟩

/-! ### The encoding of `n` zeros, chunk by chunk -/

/-- What follows a full first chunk: `q` full chunks, then a last chunk of `r < maxSub` bytes. -/
def subZeros (p : Params) : Nat → Nat → List UInt8
  | 0, r => header p false r ++ zeros r
  | q + 1, r => header p false p.maxSub ++ zeros p.maxSub ++ subZeros p q r

def encZeros (p : Params) (n : Nat) : List UInt8 :=
  if n < p.maxInit then header p true n ++ zeros n
  else
    header p true p.maxInit ++ zeros p.maxInit ++
      subZeros p ((n - p.maxInit) / p.maxSub) ((n - p.maxInit) % p.maxSub)

/-! ### … and its summary, by arithmetic -/

/-- `f` applied `k` times. -/
def iter {α : Type} (f : α → α) : Nat → α → α
  | 0, a => a
  | k + 1, a => iter f k (f a)

def zeroSummary (p : Params) (n : Nat) : Summary :=
  if n < p.maxInit then ⟨n + 1, 1, n, fnv fnvOffset (header p true n)⟩
  else
    let q := (n - p.maxInit) / p.maxSub
    let r := (n - p.maxInit) % p.maxSub
    let h1 := fnv fnvOffset (header p true p.maxInit)
    let hq := iter (fun h => fnv h (header p false p.maxSub)) q h1
    ⟨n + 1 + 2 * (q + 1), q + 2, r, fnv hq (header p false r)⟩

end Woodpile.Hcobs.Zeros

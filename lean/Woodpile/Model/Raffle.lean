/-
Model of the `raffle` crate (raffle-0.0.1: src/check.rs, src/vouch.rs,
src/constparse.rs): a voucher for a 64-bit value is an affine image of it
under wrapping `u64` arithmetic; checking applies the (tagged) inverse map and
compares with a fixed sum.

`UInt64` `+`/`*`/`^^^` are exactly Rust's `wrapping_add`/`wrapping_mul`/`^`.
-/
import Woodpile.Gen.Consts

namespace Woodpile.Raffle

/-- `constparse::named_u64`: the 8 ASCII bytes of the name, little endian
(`acc + (bytes[idx] as u64) << (8 * idx)`). -/
def namedU64 (bytes : List Nat) : Nat :=
  (bytes.zipIdx.map (fun (b, i) => b * 2 ^ (8 * i))).sum

/-- `check::WANTED_SUM = named_u64("Vouch!OK")`. -/
def wantedSum : UInt64 := 5426592808233693014
/-- `check::CHECKING_TAG = named_u64("Checking")`. -/
def checkingTag : UInt64 := 7453010343294756931
/-- `vouch::VOUCHING_TAG = named_u64("Vouching")`. -/
def vouchingTag : UInt64 := 7453010330410905430

/-- `raffle::CheckingParameters`. -/
structure CheckParams where
  unoffset : UInt64
  unscale : UInt64
  deriving Repr, DecidableEq

/-- `raffle::VouchingParameters`. -/
structure VouchParams where
  offset : UInt64
  scale : UInt64
  checking : CheckParams
  deriving Repr, DecidableEq

/-- `check::check(unoffset, unscale, expected, voucher)`:
`voucher.wrapping_add(unoffset).wrapping_mul(unscale ^ CHECKING_TAG).wrapping_add(expected) == WANTED_SUM`. -/
def check (p : CheckParams) (expected voucher : UInt64) : Bool :=
  (voucher + p.unoffset) * (p.unscale ^^^ checkingTag) + expected == wantedSum

/-- The arithmetic of `vouch::vouch`: `value.wrapping_add(offset).wrapping_mul(scale ^ VOUCHING_TAG)`. -/
def vouchRaw (p : VouchParams) (value : UInt64) : UInt64 :=
  (value + p.offset) * (p.scale ^^^ vouchingTag)

/-- `vouch::vouch` including its assertion (`none` = the `assert!` fires). -/
def vouch? (p : VouchParams) (value : UInt64) : Option UInt64 :=
  let ret := vouchRaw p value
  if check p.checking value ret then some ret else none

/-- `CheckingParameters::parse_or_die("CHECK-fc1da7b1b77c57cb-594b9cce3091464a")`
(`BASE_TIME_CHECK` in vouched_time/src/lib.rs), from the extracted constants. -/
def baseTimeCheck : CheckParams :=
  { unoffset := UInt64.ofNat Woodpile.Gen.checkUnoffset, unscale := UInt64.ofNat Woodpile.Gen.checkUnscale }

/-- `VOUCH_PARAMS` of vouched_time/src/atomic_base_time.rs. -/
def abtVouch : VouchParams :=
  { offset := UInt64.ofNat Woodpile.Gen.abtVouchOffset, scale := UInt64.ofNat Woodpile.Gen.abtVouchScale,
    checking := { unoffset := UInt64.ofNat Woodpile.Gen.abtVouchUnoffset,
                  unscale := UInt64.ofNat Woodpile.Gen.abtVouchUnscale } }

/-- `VOUCH_PARAMS` of vouched_time/src/nfs_voucher.rs. -/
def nfsVouch : VouchParams :=
  { offset := UInt64.ofNat Woodpile.Gen.nfsVouchOffset, scale := UInt64.ofNat Woodpile.Gen.nfsVouchScale,
    checking := { unoffset := UInt64.ofNat Woodpile.Gen.nfsVouchUnoffset,
                  unscale := UInt64.ofNat Woodpile.Gen.nfsVouchUnscale } }

end Woodpile.Raffle

/-
Layer C — HCOBS (hcobs/src/{lib,encoder,decoder}.rs).

* `Spec`: the batch definition of the wire format (`encode`, `decode`).
* `Enc`: the incremental encoder state machine (`EncoderState::consume_once`,
  `encode_header`, `terminate`), emitting `Pipe.Op`s.
* `Dec`: the incremental decoder state machine (`InitialState`, `BeforeChunk`,
  `MidHeader`, `InChunk`), emitting `Pipe.Op`s.

Import-free apart from `Pipe`.
-/
import Woodpile.Model.Pipe

namespace Woodpile.Hcobs
open Woodpile.Pipe

/-- `Parameters` plus the header radix (`RADIX`). -/
structure Params where
  maxInit : Nat
  maxSub : Nat
  radix : Nat
  deriving Repr, DecidableEq

/-- Side conditions under which the format is sound; the production constants
satisfy them (re-checked from `Woodpile.Gen` on every run). -/
def Params.Valid (p : Params) : Prop :=
  1 ≤ p.maxInit ∧ p.maxInit < p.radix ∧ 1 ≤ p.maxSub ∧ p.maxSub < p.radix * p.radix ∧
  2 ≤ p.radix ∧ p.radix ≤ 253

instance (p : Params) : Decidable p.Valid := by unfold Params.Valid; infer_instance

def FE : UInt8 := 0xFE
def FD : UInt8 := 0xFD

/-- `find_stuff_sequence`: index of the first `FE FD`. -/
def findStuff : List UInt8 → Option Nat
  | a :: b :: t =>
    if a = FE ∧ b = FD then some 0
    else (findStuff (b :: t)).map (· + 1)
  | _ => none

/-- Size header: one byte for the first chunk, two little-endian radix digits after. -/
def header (p : Params) (first : Bool) (n : Nat) : List UInt8 :=
  if first then [UInt8.ofNat n] else [UInt8.ofNat (n % p.radix), UInt8.ofNat (n / p.radix)]

namespace Spec

/-- Batch encoder.  `first` selects the header shape and the chunk limit. -/
def encLoop (p : Params) : Nat → Bool → List UInt8 → List UInt8
  | 0, _, _ => []
  | fuel + 1, first, d =>
    let M := if first then p.maxInit else p.maxSub
    let w := d.take M
    match findStuff w with
    | some i => header p first i ++ d.take i ++ encLoop p fuel false (d.drop (i + 2))
    | none =>
      if M ≤ d.length then header p first M ++ w ++ encLoop p fuel false (d.drop M)
      else header p first d.length ++ d

def encode (p : Params) (d : List UInt8) : List UInt8 := encLoop p (d.length + 1) true d

/-- Parse a size header; `none` = rejected. -/
def parseHdr (p : Params) (first : Bool) : List UInt8 → Option (Nat × List UInt8)
  | b :: rest =>
    if first then
      if b.toNat ≤ p.maxInit then some (b.toNat, rest) else none
    else
      match rest with
      | c :: rest' =>
        if b.toNat < p.radix ∧ c.toNat < p.radix ∧ b.toNat + c.toNat * p.radix ≤ p.maxSub
        then some (b.toNat + c.toNat * p.radix, rest') else none
      | [] => none
  | [] => none

/-- Batch decoder.  `pend` = the previous chunk was short, so a stuff sequence
is owed if another chunk follows. -/
def decLoop (p : Params) : Nat → Bool → Bool → List UInt8 → Option (List UInt8)
  | 0, _, _, _ => none
  | fuel + 1, first, pend, inp =>
    match inp with
    | [] => if !first ∧ pend then some [] else none
    | _ =>
      match parseHdr p first inp with
      | none => none
      | some (n, rest) =>
        if rest.length < n then none
        else
          let M := if first then p.maxInit else p.maxSub
          match decLoop p fuel false (n < M) (rest.drop n) with
          | none => none
          | some out => some ((if pend then [FE, FD] else []) ++ rest.take n ++ out)

def decode (p : Params) (b : List UInt8) : Option (List UInt8) := decLoop p (b.length + 1) true false b

end Spec

/-! ### Incremental encoder -/

/-- How a piece of input reaches the output: `borrow` = `OwningIovec::push`,
`copy` = `push_copy`.  On the abstract pipe both are `append`. -/
inductive Method where
  | borrow
  | copy
  deriving Repr, DecidableEq

structure EncState where
  maxChunk : Nat
  cur : Nat
  mid : Bool
  /-- placeholder id of the current chunk's size header, and its length (1 or 2) -/
  backref : Nat
  brLen : Nat
  deriving Repr, DecidableEq

/-- An output event: a pipe op, tagged with the push method when it is data. -/
structure Emit where
  op : Op
  method : Method := .copy
  deriving Repr, DecidableEq

namespace Enc

/-- `EncoderState::new`: registers the one-byte header placeholder; `nextId` is
the pipe's next placeholder id. -/
def init (p : Params) (nextId : Nat) : EncState × List Emit :=
  (⟨p.maxInit, 0, false, nextId, 1⟩, [⟨.register 1, .copy⟩])

def newSubsequent (p : Params) (nextId : Nat) : EncState × List Emit :=
  (⟨p.maxSub, 0, false, nextId, 2⟩, [⟨.register 2, .copy⟩])

/-- `encode_header`: backfill the current placeholder. -/
def closeHeader (p : Params) (s : EncState) : Emit :=
  ⟨.fill s.backref ((header p false s.cur).take s.brLen), .copy⟩

structure OnceOut where
  st : EncState
  consumed : Nat
  emits : List Emit
  /-- placeholders registered so far (to name the next one) -/
  nextId : Nat
  deriving Repr, DecidableEq

/-- `consume_once` on a non-empty `input`. -/
def consumeOnce (p : Params) (s : EncState) (nextId : Nat) (m : Method) (input : List UInt8) : OnceOut :=
  if s.mid ∧ input.head? = some FD then
    -- completed a stuff sequence across two slices
    let (s', e') := newSubsequent p nextId
    ⟨s', 1, closeHeader p s :: e', nextId + 1⟩
  else
    -- flush a held-back FE
    let (s1, e1) : EncState × List Emit :=
      if s.mid then ({ s with cur := s.cur + 1, mid := false }, [⟨.append [FE], .copy⟩]) else (s, [])
    let remaining := s1.maxChunk - s1.cur
    let w := input.take remaining
    match findStuff w with
    | some i =>
      let s2 := { s1 with cur := s1.cur + i }
      let (s', e') := newSubsequent p nextId
      ⟨s', i + 2, e1 ++ (if i = 0 then [] else [⟨.append (w.take i), m⟩]) ++ closeHeader p s2 :: e', nextId + 1⟩
    | none =>
      if w.length = remaining then
        let s2 := { s1 with cur := s1.cur + remaining }
        let (s', e') := newSubsequent p nextId
        ⟨s', remaining, e1 ++ (if remaining = 0 then [] else [⟨.append w, m⟩]) ++ closeHeader p s2 :: e', nextId + 1⟩
      else
        let mid := w.getLast? = some FE
        let n := if mid then w.length - 1 else w.length
        ⟨{ s1 with cur := s1.cur + n, mid := mid }, w.length,
          e1 ++ (if n = 0 then [] else [⟨.append (w.take n), m⟩]), nextId⟩

/-- `encode_borrow` / `encode_copy`: the `while !input.is_empty()` loop. -/
def feed (p : Params) : Nat → EncState → Nat → Method → List UInt8 → EncState × Nat × List Emit
  | 0, s, nid, _, _ => (s, nid, [])
  | fuel + 1, s, nid, m, input =>
    if input.isEmpty then (s, nid, [])
    else
      let o := consumeOnce p s nid m input
      let (s', nid', es) := feed p fuel o.st o.nextId m (input.drop o.consumed)
      (s', nid', o.emits ++ es)

def feedAll (p : Params) (s : EncState) (nid : Nat) (m : Method) (input : List UInt8) :=
  feed p (2 * input.length + 2) s nid m input

/-- `terminate`. -/
def finish (p : Params) (s : EncState) : List Emit :=
  let (s1, e1) : EncState × List Emit :=
    if s.mid then ({ s with cur := s.cur + 1, mid := false }, [⟨.append [FE], .copy⟩]) else (s, [])
  e1 ++ [closeHeader p s1]

/-- Whole run: pieces with their methods, then finish; on an initially empty pipe. -/
def runPieces (p : Params) (pieces : List (Method × List UInt8)) : List Emit :=
  let (s0, e0) := init p 0
  let rec go : List (Method × List UInt8) → EncState → Nat → List Emit → List Emit
    | [], s, _, acc => acc ++ finish p s
    | (m, d) :: rest, s, nid, acc =>
      let (s', nid', es) := feedAll p s nid m d
      go rest s' nid' (acc ++ es)
  go pieces s0 1 e0

def output (p : Params) (pieces : List (Method × List UInt8)) : Pipe :=
  Pipe.run Pipe.empty ((runPieces p pieces).map (·.op))

end Enc

/-! ### Incremental decoder -/

inductive DecErr where
  | invalidInitialSizeHeader (b : UInt8)
  | invalidHeaderByte (second : Bool) (b : UInt8)
  | invalidSubsequentSizeHeader (n : Nat)
  | cutShort
  | missingImplicitTerminator
  deriving Repr, DecidableEq

inductive DecState where
  | initial
  | beforeChunk (insertStuff : Bool)
  | midHeader (b0 : UInt8)
  | inChunk (remaining : Nat) (term : Bool)
  deriving Repr, DecidableEq

namespace Dec

structure OnceOut where
  st : DecState
  consumed : Nat
  emits : List Emit
  deriving Repr, DecidableEq

/-- One state-machine step on a non-empty input (`b :: rest`).  Returns the
emits even on error: `BeforeChunk::decode` pushes the owed stuff sequence
before it validates the header byte. -/
def once (p : Params) (m : Method) (s : DecState) (b : UInt8) (rest : List UInt8) :
    Except (DecErr × List Emit) OnceOut :=
  match s with
  | .initial =>
    let n := b.toNat
    if n > p.maxInit then .error (.invalidInitialSizeHeader b, [])
    else if n > 0 then .ok ⟨.inChunk n (n < p.maxInit), 1, []⟩
    else .ok ⟨.beforeChunk (n < p.maxInit), 1, []⟩
  | .beforeChunk ins =>
    let e : List Emit := if ins then [⟨.append [FE, FD], .copy⟩] else []
    if b.toNat ≥ p.radix then .error (.invalidHeaderByte false b, e)
    else .ok ⟨.midHeader b, 1, e⟩
  | .midHeader b0 =>
    if b.toNat ≥ p.radix then .error (.invalidHeaderByte true b, [])
    else
      let n := b0.toNat + b.toNat * p.radix
      if n > p.maxSub then .error (.invalidSubsequentSizeHeader n, [])
      else if n > 0 then .ok ⟨.inChunk n (n < p.maxSub), 1, []⟩
      else .ok ⟨.beforeChunk (n < p.maxSub), 1, []⟩
  | .inChunk rem term =>
    let inp := b :: rest
    let k := min inp.length rem
    let st' := if k < rem then DecState.inChunk (rem - k) term else DecState.beforeChunk term
    .ok ⟨st', k, [⟨.append (inp.take k), m⟩]⟩

/-- `decode_borrow` / `decode_copy`. -/
def feed (p : Params) (m : Method) : Nat → DecState → List UInt8 → Except (DecErr × List Emit) (DecState × List Emit)
  | 0, s, _ => .ok (s, [])
  | fuel + 1, s, input =>
    match input with
    | [] => .ok (s, [])
    | b :: rest =>
      match once p m s b rest with
      | .error e => .error e
      | .ok o =>
        match feed p m fuel o.st (input.drop o.consumed) with
        | .error (e, es) => .error (e, o.emits ++ es)
        | .ok (s', es) => .ok (s', o.emits ++ es)

def feedAll (p : Params) (m : Method) (s : DecState) (input : List UInt8) :=
  feed p m (input.length + 1) s input

/-- `DecoderState::terminate`. -/
def finish : DecState → Except DecErr Unit
  | .beforeChunk true => .ok ()
  | .beforeChunk false => .error .missingImplicitTerminator
  | _ => .error .cutShort

/-- Whole run over pieces; returns the decoded bytes or the first error. -/
def runPieces (p : Params) : List (Method × List UInt8) → DecState → List Emit → Except DecErr (List Emit)
  | [], s, acc => match finish s with
    | .ok () => .ok acc
    | .error e => .error e
  | (m, d) :: rest, s, acc =>
    match feedAll p m s d with
    | .error (e, _) => .error e
    | .ok (s', es) => runPieces p rest s' (acc ++ es)

def output (p : Params) (pieces : List (Method × List UInt8)) : Except DecErr (List UInt8) :=
  match runPieces p pieces .initial [] with
  | .error e => .error e
  | .ok es => .ok (Pipe.run Pipe.empty (es.map (·.op))).bytes

end Dec

end Woodpile.Hcobs

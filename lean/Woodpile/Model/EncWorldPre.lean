/-
`Encoder::new_from_iovec` / `Decoder::new_from_iovec` on a PRE-FILLED `OwningIovec` (track `apileft`,
audit gap 15): what a caller can do to the iovec BEFORE it hands it over, as a short script of real
`OwningIovec` / `ConsumingIovec` calls, each one the `World.*` function of `Model/Iovec.lean`:

    push / push_borrowed / push_copy          (bytes of a fresh caller buffer, or copied into the arena)
    register_patch(&[0; n])                   (a caller placeholder; the `Backref` token is remembered)
    backfill_or_panic(token k, bytes)         (the caller fills one of ITS placeholders)
    consumer().consume(k) / advance_slices(k) (the prefill may be partly consumed already)

After the hand-over the codec owns the iovec: `Encoder::consumer()` / `Decoder::consumer()` give the READ
side only (`ConsumingIovec`: `consume`, `advance_slices`, the arena), so a caller placeholder that is still
pending at the hand-over stays pending until the caller gets the iovec back (`Encoder::finish`,
`Decoder::finish` / `take_iovec`); only then can it call `backfill_or_panic` with the token it kept.  That
is exactly what is reachable from safe code, and it is what `Driver/CodecW.lean` replays for the op words
`enc_from2` / `dec_from2` (the script, then `EncWorld.encInit` / nothing) and `post_fill` (a `World.backfill`
with a remembered caller token once the codec is gone).

Import-free apart from sibling models.
-/
import Woodpile.Model.EncWorld

namespace Woodpile.EncWorld
open Woodpile.Hcobs Woodpile.Iovec

/-- One call of the caller on the iovec it is about to hand over. -/
inductive PreOp where
  /-- `push(slice)` of a fresh caller buffer: copied when small / appendable, borrowed otherwise -/
  | push (bs : List UInt8)
  /-- `push_borrowed(slice)` of a fresh caller buffer -/
  | pushBorrowed (bs : List UInt8)
  /-- `push_copy(src)` -/
  | pushCopy (bs : List UInt8)
  /-- `register_patch(&[0; n])`; the returned token is the caller's token number `toks.length` -/
  | register (n : Nat)
  /-- `backfill_or_panic(token k, bs)` -/
  | fill (k : Nat) (bs : List UInt8)
  /-- `consumer().consume(k)` (whole slices) -/
  | consume (k : Nat)
  /-- `consumer().advance_slices(k)` (bytes) -/
  | advance (k : Nat)
  deriving Repr, DecidableEq

/-- The world, the caller's tokens in registration order, and every byte the consumer took out so far. -/
structure PreSt where
  w : World
  toks : List Backref
  drained : List UInt8

/-- One caller call on iovec `i`; `none` = the real call panics (`backfill_or_panic` of a token that is
not pending / of the wrong size) or the script is malformed (no such token). -/
def preStep (i : Nat) (s : PreSt) : PreOp → Option PreSt
  | .push bs =>
    let (w1, id) := s.w.addExt bs
    (w1.push i ⟨.ext id, 0, bs.length⟩).map fun w' => { s with w := w' }
  | .pushBorrowed bs =>
    let (w1, id) := s.w.addExt bs
    (w1.pushBorrowed i ⟨.ext id, 0, bs.length⟩).map fun w' => { s with w := w' }
  | .pushCopy bs => (s.w.pushCopy i bs).map fun w' => { s with w := w' }
  | .register n =>
    match s.w.registerPatch i (List.replicate n 0) with
    | some (w', b) => some { s with w := w', toks := s.toks ++ [b] }
    | none => none
  | .fill k bs =>
    match s.toks[k]? with
    | some b => (s.w.backfill i b bs).map fun w' => { s with w := w' }
    | none => none
  | .consume k =>
    match s.w.iov i with
    | none => none
    | some v =>
      (s.w.consume i k).map fun x => ⟨x.1, s.toks, s.drained ++ (v.slices.take x.2).flatMap s.w.sliceBytes⟩
  | .advance k =>
    match s.w.iov i with
    | none => none
    | some v =>
      (s.w.advance i k).map fun x => ⟨x.1, s.toks, s.drained ++ (v.slices.flatMap s.w.sliceBytes).take x.2⟩

/-- The caller's whole script. -/
def preRun (i : Nat) : PreSt → List PreOp → Option PreSt
  | s, [] => some s
  | s, op :: t =>
    match preStep i s op with
    | some s' => preRun i s' t
    | none => none

end Woodpile.EncWorld

/-
Standard-trait methods of `SlidingDeque` / `SortedDeque` over SEVERAL object instances
(track traits): `Clone::clone`, `Clone::clone_from`, `Default::default`, `mem::take` /
`mem::swap` (moves), next to the single-object operations of `Model/SlidingDeque.lean`
and `Model/SortedDeque.lean`.

`#[derive(Clone)]` clones field by field and does not override `clone_from`, whose provided
body is `*self = source.clone()`: the destination's previous state - its consumed prefix in
particular - is dropped as a whole.  `#[derive(Default)]` is `consumed_prefix = 0` over
`Container::default()`.

A case of the `sdeque` / `sorted` families holds a current deque (every single-object op acts
on it) and a list of further deques addressed by handles `0, 1, …`; `MOp` are the operations
that move values between them.  Import-free apart from the deque models (core only): linked
into `wpmodel`.
-/
import Woodpile.Model.SlidingDeque
import Woodpile.Model.SortedDeque

namespace Woodpile.SlidingDeque

namespace SDeque
variable {α : Type}

/-- `#[derive(Clone)]`: `SlidingDeque { consumed_prefix: self.consumed_prefix.clone(), container: self.container.clone() }`. -/
def clone (s : SDeque α) : SDeque α := { consumed := s.consumed, container := s.container }

/-- `Clone::clone_from` (provided method): `*self = source.clone()`. -/
def cloneFrom (_dst src : SDeque α) : SDeque α := src.clone

/-- `#[derive(Default)]` (no `check_rep`). -/
def default : SDeque α := { consumed := 0, container := [] }

end SDeque
end Woodpile.SlidingDeque

namespace Woodpile.SortedDeque
namespace SortedDeque
variable {α : Type}

/-- `#[derive(Clone)]` (the marker is a unit-like value). -/
def clone (s : SortedDeque α) : SortedDeque α := ⟨s.items.clone⟩

/-- `Clone::clone_from` (provided method): `*self = source.clone()`. -/
def cloneFrom (_dst src : SortedDeque α) : SortedDeque α := src.clone

end SortedDeque
end Woodpile.SortedDeque

namespace Woodpile.DequeTraits

/-- The operations between object instances; `k` is a handle into `objs`. -/
inductive MOp where
  /-- a fresh object through the type's constructor (`SlidingDeque::new()`), appended to `objs` -/
  | new
  /-- `Default::default()`, appended to `objs` -/
  | default
  /-- `objs[k] = cur.clone()` (`k = objs.length` appends) -/
  | store (k : Nat)
  /-- `cur = objs[k].clone()` -/
  | load (k : Nat)
  /-- `mem::swap(&mut cur, &mut objs[k])` -/
  | swap (k : Nat)
  /-- `cur.clone_from(&objs[k])` -/
  | cloneFrom (k : Nat)
  /-- `objs[k].clone_from(&cur)` -/
  | cloneInto (k : Nat)
  /-- `cur = mem::take(&mut objs[k])` (leaves `Default::default()` behind) -/
  | take (k : Nat)
  deriving Repr, DecidableEq

/-- What one `MOp` does to a value type `δ` with the given trait methods.  `shown` is the object
the operation wrote (the one the drivers print). -/
structure Traits (δ : Type) where
  /-- the constructor; `none` = it panics -/
  new : Option δ
  default : δ
  clone : δ → δ
  cloneFrom : δ → δ → δ

structure Multi (δ : Type) where
  cur : δ
  objs : List δ
  deriving Repr, DecidableEq

inductive MRes (δ : Type) where
  | nohandle
  | panic
  | ok (shown : δ) (m : Multi δ)

variable {δ : Type}

def mstep (t : Traits δ) (m : Multi δ) : MOp → MRes δ
  | .new =>
    match t.new with
    | none => .panic
    | some d => .ok d ⟨m.cur, m.objs ++ [d]⟩
  | .default => .ok t.default ⟨m.cur, m.objs ++ [t.default]⟩
  | .store k =>
    let c := t.clone m.cur
    if k < m.objs.length then .ok c ⟨m.cur, m.objs.set k c⟩
    else if k = m.objs.length then .ok c ⟨m.cur, m.objs ++ [c]⟩
    else .nohandle
  | .load k =>
    match m.objs[k]? with
    | none => .nohandle
    | some o => .ok (t.clone o) ⟨t.clone o, m.objs⟩
  | .swap k =>
    match m.objs[k]? with
    | none => .nohandle
    | some o => .ok o ⟨o, m.objs.set k m.cur⟩
  | .cloneFrom k =>
    match m.objs[k]? with
    | none => .nohandle
    | some o => .ok (t.cloneFrom m.cur o) ⟨t.cloneFrom m.cur o, m.objs⟩
  | .cloneInto k =>
    match m.objs[k]? with
    | none => .nohandle
    | some o => .ok (t.cloneFrom o m.cur) ⟨m.cur, m.objs.set k (t.cloneFrom o m.cur)⟩
  | .take k =>
    match m.objs[k]? with
    | none => .nohandle
    | some o => .ok o ⟨o, m.objs.set k t.default⟩

/-- The trait methods of the real types, as modelled. -/
def sdequeTraits (α : Type) : Traits (Woodpile.SlidingDeque.SDeque α) :=
  { new := Woodpile.SlidingDeque.SDeque.new
    default := Woodpile.SlidingDeque.SDeque.default
    clone := Woodpile.SlidingDeque.SDeque.clone
    cloneFrom := Woodpile.SlidingDeque.SDeque.cloneFrom }

def sortedTraits (α : Type) : Traits (Woodpile.SortedDeque.SortedDeque α) :=
  { new := some Woodpile.SortedDeque.SortedDeque.empty     -- `Default::default()` is the only argument-free constructor
    default := Woodpile.SortedDeque.SortedDeque.empty
    clone := Woodpile.SortedDeque.SortedDeque.clone
    cloneFrom := Woodpile.SortedDeque.SortedDeque.cloneFrom }

/-- The reference: values are plain mathematical values (a `List`, an association list);
cloning copies, `clone_from` ASSIGNS, `default` is the empty value. -/
def refTraits (ρ : Type) (empty : ρ) : Traits ρ :=
  { new := some empty, default := empty, clone := id, cloneFrom := fun _ src => src }

end Woodpile.DequeTraits

/-! ### Histories that mix single-object operations (on `cur`) with `MOp`s -/
namespace Woodpile.DequeTraits

inductive Cmd (Ω : Type) where
  | op (o : Ω)
  | m (o : MOp)

/-- One answer: a single-object operation's return value, the object an `MOp` wrote, or
"no such handle" (the state is unchanged). -/
inductive Out (R σ : Type) where
  | ret (r : R)
  | shown (d : σ)
  | nohandle
  deriving Repr, DecidableEq

def Out.map {R σ τ : Type} (f : σ → τ) : Out R σ → Out R τ
  | .ret r => .ret r
  | .shown d => .shown (f d)
  | .nohandle => .nohandle

variable {δ Ω R : Type}

/-- `none` = panic. -/
def cstep (t : Traits δ) (step1 : δ → Ω → Option (R × δ)) (m : Multi δ) : Cmd Ω → Option (Out R δ × Multi δ)
  | .op o =>
    match step1 m.cur o with
    | none => none
    | some (r, d) => some (.ret r, ⟨d, m.objs⟩)
  | .m o =>
    match mstep t m o with
    | .nohandle => some (.nohandle, m)
    | .panic => none
    | .ok d m' => some (.shown d, m')

def crun (t : Traits δ) (step1 : δ → Ω → Option (R × δ)) (m : Multi δ) :
    List (Cmd Ω) → Option (List (Out R δ) × Multi δ)
  | [] => some ([], m)
  | c :: cs =>
    match cstep t step1 m c with
    | none => none
    | some (o, m') =>
      match crun t step1 m' cs with
      | none => none
      | some (os, m'') => some (o :: os, m'')

end Woodpile.DequeTraits

/-
Model of `hcobs/src/stream_reader.rs`: `StreamChunker::pump` and
`StreamReader::next_record_bytes`, over a *reader script* (`Woodpile.ReadN.Reader`)
applied to a fixed source.

* `chain`, `readChained`  : `(&mut carry).chain(&mut reader)` fed to `ByteArena::read_n`
                            with `max_attempts = usize::MAX`;
* `refill`, `pump`        : `StreamChunker::pump`, arm by arm;
* `pumpSeq`               : successive `pump` calls (one block size per call);
* `Rd.step`, `Rd.run`, `Rd.next` : `StreamReader::next_record_bytes` (one `step` = one
                            iteration of the inner `loop`, i.e. one `pump`);
* `chunkJudge`            : `StreamReader::chunk_judge`.

The decoder is `Woodpile.Hcobs.Dec` (`feedAll` = `Decoder::decode`, `finish` =
`DecoderState::terminate`); `decode_anchored` = `decode` + `push_anchor`, and the
anchor is invisible at this level.

Core Lean only (linked into the native driver).
-/
import Woodpile.Model.ReadN
import Woodpile.Model.Hcobs
import Woodpile.Gen.Consts

namespace Woodpile.Stream
open Woodpile.Arena Woodpile.ReadN Woodpile.Hcobs Woodpile.Pipe

/-- The arena the chunker allocates its blocks from (`decoder.consumer().arena()`),
with the world's chunk counter.  It only decides *where* the bytes live. -/
structure Mem where
  arena : Arena
  next : Nat
  deriving Repr, DecidableEq

def Mem.fresh : Mem := ⟨⟨none⟩, 0⟩

/-- `stream_reader::Chunk`.  Offsets are absolute end positions. -/
inductive Chunk where
  | sentinel (off : Nat)
  | eof
  | data (off : Nat) (bytes : List UInt8)
  deriving Repr, DecidableEq

/-- The stream bytes a chunk stands for. -/
def Chunk.bytes : Chunk → List UInt8
  | .sentinel _ => [FE, FD]
  | .eof => []
  | .data _ bs => bs

/-- What one `pump` call returns.  `panic` = one of `pump`'s assertions failed
(`assert!(len >= 2)`, `assert_ne!(split_pos, 0)`) or the model's refill fuel ran
out; proved unreachable. -/
inductive PumpRes where
  | ok (c : Chunk)
  | ioerr (kind : Nat)
  | panic
  deriving Repr, DecidableEq

/-- `StreamChunker { buf, offset }`. -/
structure Chunker where
  buf : List UInt8
  offset : Nat
  deriving Repr, DecidableEq

def Chunker.new : Chunker := ⟨[], 0⟩

/-- `(&mut carry).chain(&mut reader)` as a scripted reader: the carry is handed
over by the first `read` call, then the reader takes over (the extra zero-byte
read of the exhausted carry slice happens inside the same `Chain::read` call and
is invisible).  Exact for `carry.length ≤ 1`, which is all `pump` ever chains
(`while buf.len() < 2`), and for requests of at least one byte. -/
def chain (carry : List UInt8) (r : Reader) : Reader :=
  ⟨carry ++ r.src, (if carry.isEmpty then [] else [Ev.deliver carry.length]) ++ r.script⟩

/-- `arena.read_n(carry.chain(reader), count, NonZeroUsize::MAX)`.
`usize::MAX` attempts: every attempt that does not end the loop consumes one
scripted answer and an exhausted script answers end-of-file, which ends the
loop, so `script length + 1` attempts are as good as `usize::MAX`
(`Woodpile.Stream.readNCore_fuel_irrelevant`).  `count = 0` returns before the
chain is ever read. -/
def readChained (t : Tuning) (m : Mem) (carry : List UInt8) (r : Reader) (count : Nat) : Out × Mem :=
  if count = 0 then (⟨.ok [], [], r⟩, m)
  else
    let cr := chain carry r
    let res := readN t m.arena m.next cr count (cr.script.length + 1)
    (res.1, ⟨res.2.1, res.2.2.1⟩)

/-- Outcome of the refill loop. -/
inductive Refill where
  /-- the loop exited: the buffer holds at least two bytes -/
  | filled (c : Chunker)
  /-- `pump` returned from inside the loop -/
  | done (res : PumpRes) (c : Chunker)
  deriving Repr, DecidableEq

/-- The request sizes the *underlying* reader saw during one chained `read_n`:
with a non-empty carry the first call is answered by the carry. -/
def readerReqs (carry : List UInt8) (o : Out) : List Nat :=
  if carry.isEmpty then o.reqs else o.reqs.drop 1

/-- `while self.buf.slice().len() < 2 { … }`.  At most two iterations ever run
(an empty carry can grow to one byte, a one-byte carry either makes no progress
or reaches two bytes), so fuel 3 is never exhausted.  The last component
collects the request sizes seen by the underlying reader (ghost, transcript only). -/
def refill (t : Tuning) (count : Nat) :
    Nat → Chunker → Mem → Reader → List Nat → Refill × Mem × Reader × List Nat
  | 0, c, m, r, reqs => (.done .panic c, m, r, reqs)
  | fuel + 1, c, m, r, reqs =>
    if 2 ≤ c.buf.length then (.filled c, m, r, reqs)
    else
      -- let buf = self.buf.take();  (self.buf is empty from here on)
      let initial := c.buf.length
      let rd := readChained t m c.buf r count
      let o := rd.1
      let reqs' := reqs ++ readerReqs c.buf o
      match o.res with
      | .err k => (.done (.ioerr k) { c with buf := [] }, rd.2, o.reader, reqs')   -- `?`
      | .ok got =>
        if got.length = initial then
          -- No progress, must be Eof.
          if got.isEmpty then (.done (.ok .eof) { c with buf := [] }, rd.2, o.reader, reqs')
          else
            (.done (.ok (.data (c.offset + got.length) got)) ⟨[], c.offset + got.length⟩,
              rd.2, o.reader, reqs')
        else refill t count fuel { c with buf := got } rd.2 o.reader reqs'

/-- Where `pump` cuts a buffer of at least two bytes that does not start with `FE FD`. -/
def splitPos (buf : List UInt8) : Nat :=
  match findStuff buf with
  | some idx => idx
  | none => if buf.getLast? = some FE then buf.length - 1 else buf.length

structure PumpOut where
  res : PumpRes
  chunker : Chunker
  mem : Mem
  reader : Reader
  /-- request sizes seen by the underlying reader (ghost, transcript only) -/
  reqs : List Nat
  deriving Repr, DecidableEq

/-- `StreamChunker::pump`.  `clamp` is the minimum block size
(`io_block_size.max(clamp)`; `Woodpile.Gen.minBlock` in the code as it is). -/
def pump (clamp : Nat) (t : Tuning) (block : Nat) (c : Chunker) (m : Mem) (r : Reader) : PumpOut :=
  let count := max block clamp
  match refill t count 3 c m r [] with
  | (.done res c', m', r', reqs) => ⟨res, c', m', r', reqs⟩
  | (.filled c', m', r', reqs) =>
    if c'.buf.length < 2 then ⟨.panic, c', m', r', reqs⟩            -- assert!(len >= 2)
    else if c'.buf.take 2 = [FE, FD] then
      ⟨.ok (.sentinel (c'.offset + 2)), ⟨c'.buf.drop 2, c'.offset + 2⟩, m', r', reqs⟩
    else
      let sp := splitPos c'.buf
      if sp = 0 then ⟨.panic, c', m', r', reqs⟩                      -- assert_ne!(split_pos, 0)
      else
        let pre := c'.buf.take sp
        ⟨.ok (.data (c'.offset + pre.length) pre), ⟨c'.buf.drop sp, c'.offset + pre.length⟩, m', r', reqs⟩

/-- Successive `pump` calls, one per listed block size. -/
def pumpSeq (clamp : Nat) (t : Tuning) :
    List Nat → Chunker → Mem → Reader → List PumpRes × Chunker × Mem × Reader
  | [], c, m, r => ([], c, m, r)
  | b :: bs, c, m, r =>
    let o := pump clamp t b c m r
    let rest := pumpSeq clamp t bs o.chunker o.mem o.reader
    (o.res :: rest.1, rest.2)

/-! ### Specification: the segments of a stream -/

/-- A piece of the stream with its byte range `[start, stop)`. -/
structure Seg where
  bytes : List UInt8
  start : Nat
  stop : Nat
  deriving Repr, DecidableEq

/-- Scan left to right: `cur` is the piece collected since `start`; every `FE FD`
met closes the current piece and is skipped (so occurrences never overlap). -/
def segScan : Nat → List UInt8 → List UInt8 → List Seg
  | start, cur, a :: b :: t =>
    if a = FE ∧ b = FD then ⟨cur, start, start + cur.length⟩ :: segScan (start + cur.length + 2) [] t
    else segScan start (cur ++ [a]) (b :: t)
  | start, cur, [a] => [⟨cur ++ [a], start, start + cur.length + 1⟩]
  | start, cur, [] => [⟨cur, start, start + cur.length⟩]

/-- The maximal `FE FD`-free pieces of a stream (empty ones included), in order,
with their byte ranges.  A stream with `n` delimiters has `n + 1` segments. -/
def segments (s : List UInt8) : List Seg := segScan 0 [] s

/-- The same pieces read off a chunk sequence: `Data` extends the current piece,
`Sentinel` closes it, `Eof` changes nothing. -/
def regroup : Nat → List UInt8 → List Chunk → List Seg
  | start, cur, [] => [⟨cur, start, start + cur.length⟩]
  | start, cur, .sentinel off :: cs => ⟨cur, start, start + cur.length⟩ :: regroup off [] cs
  | start, cur, .eof :: cs => regroup start cur cs
  | start, cur, .data _ bs :: cs => regroup start (cur ++ bs) cs

/-! ### `StreamReader::next_record_bytes` -/

/-- `StreamAction`. -/
inductive Action where
  | keepGoing
  | skipRecord
  | stop
  deriving Repr, DecidableEq

/-- One consultation of the judge: the record's byte range so far and
`iovec.total_size()`. -/
structure Consult where
  start : Nat
  stop : Nat
  size : Nat
  deriving Repr, DecidableEq

/-- A `FnMut` judge: its verdict may depend on everything it has been asked
before (first argument, oldest first).  A pure judge ignores the history. -/
abbrev Judge := List Consult → Consult → Action

def keepGoingJudge : Judge := fun _ _ => .keepGoing

/-- `StreamReader::chunk_judge(max_record_size, limit_offset)`.  `none` stands
for `u64::MAX`, which no offset reaches. -/
def atLimit (limit : Option Nat) (start : Nat) : Bool :=
  match limit with
  | some l => decide (l ≤ start)
  | none => false

def chunkJudge (maxSize : Nat) (limit : Option Nat) : Judge := fun _ c =>
  if atLimit limit c.start then .stop
  else if maxSize < c.size then .skipRecord
  else .keepGoing

/-- A judge that replays a fixed list of verdicts, then keeps going. -/
def listJudge (vs : List Action) : Judge := fun h _ => vs.getD h.length .keepGoing

inductive RState where
  | skipSentinel
  | decodeRecord
  | skipRecord
  deriving Repr, DecidableEq

/-- The locals of one turn of the `'retry` loop. -/
structure Rec where
  st : RState
  start : Nat
  stop : Nat
  dec : DecState
  emits : List Emit
  deriving Repr, DecidableEq

def Rec.fresh : Rec := ⟨.skipSentinel, 0, 0, .initial, []⟩

/-- bytes an output event adds to `total_size()` (placeholders count, fills do not) -/
def opSize : Op → Nat
  | .append bs => bs.length
  | .register n => n
  | .fill _ _ => 0

/-- `iovec.total_size()` of the decoder's output so far: the size of the pipe the
emitted operations build (`Woodpile.Stream.rec_size_is_pipe_size`), computed
without building it. -/
def Rec.size (rc : Rec) : Nat := rc.emits.foldl (fun acc e => acc + opSize e.op) 0

/-- The decoded record (`flatten`). -/
def Rec.bytes (rc : Rec) : List UInt8 := (Pipe.run Pipe.empty (rc.emits.map (·.op))).bytes

/-- `StreamReader` (the iovec is rebuilt from scratch by every call). -/
structure RdState where
  chunker : Chunker
  lastSentinel : Nat
  /-- ghost: every consultation of the judge so far -/
  hist : List Consult
  mem : Mem
  deriving Repr, DecidableEq

def RdState.new : RdState := ⟨Chunker.new, 0, [], Mem.fresh⟩

inductive NextRes where
  | some (bytes : List UInt8) (start stop : Nat)
  | none
  | ioerr (kind : Nat)
  /-- one of the `assert!`s of `next_record_bytes`/`pump` failed, or the model ran out of fuel -/
  | panic
  deriving Repr, DecidableEq

inductive StepOut where
  | continue (s : RdState) (r : Reader) (rc : Rec)
  | done (res : NextRes) (s : RdState) (r : Reader)
  deriving Repr, DecidableEq

def prod : Params := ⟨Woodpile.Gen.maxInit, Woodpile.Gen.maxSub, Woodpile.Gen.radix⟩

/-- The code after the inner `loop` (reached by `break`). -/
def afterBreak (s : RdState) (r : Reader) (rc : Rec) : StepOut :=
  if rc.start = rc.stop then .done .panic s r                     -- assert_ne!(range.start, range.end)
  else if rc.st = .skipRecord then .continue s r Rec.fresh        -- continue 'retry
  else
    match Dec.finish rc.dec with
    | .error _ => .continue s r Rec.fresh                         -- continue 'retry
    | .ok () => .done (.some rc.bytes rc.start rc.stop) s r

/-- `match record_judge(range.clone(), decoder.consumer()) { … }`. -/
def consult (judge : Judge) (s : RdState) (r : Reader) (rc : Rec) : StepOut :=
  let q : Consult := ⟨rc.start, rc.stop, rc.size⟩
  let s' := { s with hist := s.hist ++ [q] }
  match judge s.hist q with
  | .keepGoing => .continue s' r rc
  | .skipRecord => .continue s' r { rc with st := .skipRecord }
  | .stop => .done .none s' r

/-- `decoder.decode_anchored(slice)` in state `DecodeRecord`. -/
def decodeChunk (p : Params) (rc : Rec) (bytes : List UInt8) : Rec :=
  match Dec.feedAll p .borrow rc.dec bytes with
  | .error (_, es) => { rc with st := .skipRecord, emits := rc.emits ++ es }
  | .ok (d', es) => { rc with dec := d', emits := rc.emits ++ es }

/-- The `match` on the chunk `pump` returned, and the judge's verdict. -/
def onChunk (p : Params) (judge : Judge) (s1 : RdState) (r : Reader) (rc : Rec) : Chunk → StepOut
  | .sentinel off =>
    if off < 2 then .done .panic s1 r                              -- assert!(offset >= 2)
    else
      let s2 := { s1 with lastSentinel := off - 2 }
      match rc.st with
      | .skipSentinel => consult judge s2 r { rc with start := off, stop := off }
      | _ => afterBreak s2 r rc
  | .eof =>
    if rc.start = rc.stop then .done .none s1 r
    else afterBreak s1 r rc
  | .data off bytes =>
    if bytes.isEmpty then .done .panic s1 r                        -- assert!(!slice.is_empty())
    else
      let rc1 : Rec :=
        match rc.st with
        | .skipSentinel =>
          { rc with start := off - bytes.length, stop := off - bytes.length, st := .decodeRecord }
        | _ => rc
      let rc2 : Rec := if rc1.st = .decodeRecord then decodeChunk p rc1 bytes else rc1
      consult judge s1 r { rc2 with stop := off }

/-- One iteration of the inner `loop`. -/
def step (clamp : Nat) (t : Tuning) (p : Params) (judge : Judge) (block : Nat)
    (s : RdState) (r : Reader) (rc : Rec) : StepOut :=
  -- assert_eq!(range.is_empty(), state == State::SkipSentinel)
  if decide (rc.start = rc.stop) ≠ decide (rc.st = .skipSentinel) then .done .panic s r
  else
    let o := pump clamp t block s.chunker s.mem r
    let s1 := { s with chunker := o.chunker, mem := o.mem }
    match o.res with
    | .ioerr k => .done (.ioerr k) s1 o.reader                     -- `?`
    | .panic => .done .panic s1 o.reader
    | .ok ch => onChunk p judge s1 o.reader rc ch

/-- The two nested loops, flattened: one `step` per `pump`. -/
def run (clamp : Nat) (t : Tuning) (p : Params) (judge : Judge) (block : Nat) :
    Nat → RdState → Reader → Rec → NextRes × RdState × Reader
  | 0, s, r, _ => (.panic, s, r)
  | fuel + 1, s, r, rc =>
    match step clamp t p judge block s r rc with
    | .done res s' r' => (res, s', r')
    | .continue s' r' rc' => run clamp t p judge block fuel s' r' rc'

/-- Enough fuel for any script: every step that does not end the call consumes
a stream byte or a scripted answer, except at most two at the very end. -/
def runFuel (s : RdState) (r : Reader) : Nat :=
  2 * (s.chunker.buf.length + r.src.length) + r.script.length + 3

/-- `next_record_bytes(reader, judge, io_block_size)`. -/
def next (clamp : Nat) (t : Tuning) (p : Params) (judge : Judge) (block : Option Nat)
    (s : RdState) (r : Reader) : NextRes × RdState × Reader :=
  run clamp t p judge (block.getD Woodpile.Gen.defaultBlockSize) (runFuel s r) s r Rec.fresh

/-- Successive `next_record_bytes` calls with the same arguments. -/
def nextSeq (clamp : Nat) (t : Tuning) (p : Params) (judge : Judge) (block : Option Nat) :
    Nat → RdState → Reader → List NextRes × RdState × Reader
  | 0, s, r => ([], s, r)
  | n + 1, s, r =>
    let o := next clamp t p judge block s r
    let rest := nextSeq clamp t p judge block n o.2.1 o.2.2
    (o.1 :: rest.1, rest.2)

/-! ### Specification: what the reader must return -/

/-- the pieces as `decode_anchored` feeds them (`Method.borrow`) -/
def borrowed (ds : List (List UInt8)) : List (Method × List UInt8) := ds.map (fun d => (Method.borrow, d))

/-- The incremental decoder `Dec` (production parameters `p`) run over the given
pieces and finished: the decoded bytes, or `none` if it reports an error. -/
def decodePieces (p : Params) (ds : List (List UInt8)) : Option (List UInt8) :=
  match Dec.output p (borrowed ds) with
  | .ok d => some d
  | .error _ => none

/-- `Stop` at or after `limit`, `SkipRecord` when the decoded size is `tooBig`,
else `KeepGoing`.  Both `keepGoingJudge` and `chunk_judge` are of this form. -/
def threshJudge (limit : Option Nat) (tooBig : Nat → Bool) : Judge := fun _ c =>
  if atLimit limit c.start then .stop else if tooBig c.size then .skipRecord else .keepGoing

/-- A returned record: decoded bytes and the byte range of its encoding. -/
abbrev Rcd := List UInt8 × Nat × Nat

/-- What a segment contributes to the output: nothing if it is empty, does not
decode, or decodes to something too big. -/
def contrib (p : Params) (tooBig : Nat → Bool) (sg : Seg) : List Rcd :=
  if sg.bytes = [] then []
  else match decodePieces p [sg.bytes] with
    | some d => if tooBig d.length then [] else [(d, sg.start, sg.stop)]
    | none => []

/-- The records a reader with `threshJudge limit tooBig` must return for a list
of segments: those that contribute, cut at the first segment (empty or not)
that starts at or after the limit. -/
def recordsT (p : Params) (limit : Option Nat) (tooBig : Nat → Bool) : List Seg → List Rcd
  | [] => []
  | sg :: rest => if atLimit limit sg.start then [] else contrib p tooBig sg ++ recordsT p limit tooBig rest

/-- every non-empty segment the incremental decoder accepts, with its range -/
def recordsAll (p : Params) : List Seg → List Rcd := recordsT p none (fun _ => false)

/-- the same for `chunk_judge(maxSize, limit)`: decoded size at most `maxSize`,
cut at the first segment starting at or after `limit` -/
def recordsStd (p : Params) (maxSize : Nat) (limit : Option Nat) : List Seg → List Rcd :=
  recordsT p limit (fun n => decide (maxSize < n))

/-- `n` successive calls that are expected to return the records `E` in order:
the records, then `None` forever. -/
def expectedSeq : List Rcd → Nat → List NextRes
  | _, 0 => []
  | [], n + 1 => .none :: expectedSeq [] n
  | (d, a, b) :: rest, n + 1 => .some d a b :: expectedSeq rest n

/-- the records returned before the first call that returns no record -/
def leading : List NextRes → List Rcd
  | .some d a b :: t => (d, a, b) :: leading t
  | _ => []

end Woodpile.Stream

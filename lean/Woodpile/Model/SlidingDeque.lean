/-
Model of `sliding_deque/src/sliding_deque.rs`: `SlidingDeque<Container>`.

The backing container (`Vec<T>` / `SmallVec<A>`, behind `PushTruncateContainer`)
is a `List α`; `consumed_prefix` is a `Nat`.  Every public method is mirrored
arm by arm, including each evaluation of `check_rep` (debug assertions are ON in
the harness profile) and each slicing `&container.slice()[consumed_prefix..]`
(which panics when `consumed_prefix > len`, in every build).  A panic is `none`
in the `Option` monad: an operation that returns `some _` evaluated every
`check_rep` on its path to `true`.

Import-free (core only): linked into the native driver `wpmodel`.
-/
namespace Woodpile.SlidingDeque

/-- `SlidingDeque { consumed_prefix, container }`. -/
structure SDeque (α : Type) where
  consumed : Nat
  container : List α
  deriving Repr, DecidableEq

/-- `debug_assert!(b)` / a bounds check: `none` is a panic. -/
def check (b : Bool) : Option Unit := if b then some () else none

namespace SDeque
variable {α : Type}

/-- The logical contents (total version, used by the theorems). -/
def view (s : SDeque α) : List α := s.container.drop s.consumed

/-- `Deref::deref` / `DerefMut::deref_mut`: `&container.slice()[consumed_prefix..]`;
the range start is bounds-checked by the slice indexing. -/
def deref (s : SDeque α) : Option (List α) :=
  if s.consumed ≤ s.container.length then some (s.container.drop s.consumed) else none

/-- `check_rep` (two `debug_assert!`s; the first one goes through `is_empty`, i.e. `deref`):
* `(!self.is_empty()) | (self.consumed_prefix == 0)`
* `self.consumed_prefix <= self.container.slice().len() / 2`. -/
def checkRep (s : SDeque α) : Bool :=
  match s.deref with
  | none => false
  | some v => (!v.isEmpty || s.consumed == 0) && decide (s.consumed ≤ s.container.length / 2)

/-- `SlidingDeque::new`: `Default::default()` then `check_rep`. -/
def empty : SDeque α := ⟨0, []⟩

def new : Option (SDeque α) := do
  check (empty : SDeque α).checkRep
  pure empty

/-- `From<Container>`: no `check_rep`. -/
def ofList (l : List α) : SDeque α := ⟨0, l⟩

/-- `push_back`. -/
def pushBack (s : SDeque α) (x : α) : Option (SDeque α) := do
  check s.checkRep
  let s' : SDeque α := { s with container := s.container ++ [x] }   -- `container.push(item)`
  check s'.checkRep
  pure s'

/-- `front`: `check_rep`, then `self.first()` through `deref`. -/
def front (s : SDeque α) : Option (Option α) := do
  check s.checkRep
  let v ← s.deref
  pure v.head?

/-- `back`: `check_rep`, then `self.last()` through `deref`. -/
def back (s : SDeque α) : Option (Option α) := do
  check s.checkRep
  let v ← s.deref
  pure v.getLast?

/-- `slide` as compiled with debug assertions (no early return):
`copy_within(consumed_prefix.., 0)` (bounds-checked), `truncate(len - consumed_prefix)`,
`consumed_prefix = 0`, `check_rep`.  The release-build early return for
`consumed_prefix == 0` produces the same state. -/
def slide (s : SDeque α) : Option (SDeque α) := do
  check (decide (s.consumed ≤ s.container.length))
  let s' : SDeque α := { consumed := 0, container := s.container.drop s.consumed }
  check s'.checkRep
  pure s'

/-- `maybe_slide`: the condition uses the non-short-circuit `|`, so `is_empty()`
(a `deref`) is always evaluated. -/
def maybeSlide (s : SDeque α) : Option (SDeque α) := do
  let v ← s.deref
  let s' ← if decide (s.consumed > s.container.length / 2) || v.isEmpty then s.slide else pure s
  check s'.checkRep
  pure s'

/-- `pop_front`. -/
def popFront (s : SDeque α) : Option (Option α × SDeque α) := do
  check s.checkRep
  match ← s.front with
  | none => pure (none, s)                      -- `*self.front()?`
  | some r =>
    let s1 : SDeque α := { s with consumed := s.consumed + 1 }
    let s2 ← s1.maybeSlide
    check s2.checkRep
    pure (some r, s2)

/-- `pop_back`. -/
def popBack (s : SDeque α) : Option (Option α × SDeque α) := do
  check s.checkRep
  match ← s.back with
  | none => pure (none, s)                      -- `*self.back()?`
  | some r =>
    check (!s.container.isEmpty)                -- `container.pop().expect("must be non-empty")`
    let s1 : SDeque α := { s with container := s.container.dropLast }
    let s2 ← s1.maybeSlide
    check s2.checkRep
    pure (some r, s2)

/-- `advance(count)`: returns the number of elements actually consumed. -/
def advance (s : SDeque α) (count : Nat) : Option (Nat × SDeque α) := do
  check s.checkRep
  let toConsume := min (s.container.length - s.consumed) count   -- `saturating_sub`, `min`
  let s1 : SDeque α := { s with consumed := s.consumed + toConsume }
  let s2 ← s1.maybeSlide
  check s2.checkRep
  pure (toConsume, s2)

/-- `clear`: `truncate(0)`, `consumed_prefix = 0`, `check_rep` (no check on entry). -/
def clear (_s : SDeque α) : Option (SDeque α) := do
  let s' : SDeque α := { consumed := 0, container := [] }
  check s'.checkRep
  pure s'

/-- `*front_mut() = x` when there is a front: `check_rep`, `first_mut()` through `deref_mut`. -/
def setFront (s : SDeque α) (x : α) : Option (Bool × SDeque α) := do
  check s.checkRep
  let v ← s.deref
  if v.isEmpty then pure (false, s)
  else pure (true, { s with container := s.container.set s.consumed x })

/-- `*back_mut() = x` when there is a back. -/
def setBack (s : SDeque α) (x : α) : Option (Bool × SDeque α) := do
  check s.checkRep
  let v ← s.deref
  if v.isEmpty then pure (false, s)
  else pure (true, { s with container := s.container.set (s.container.length - 1) x })

/-- `if let Some(r) = deque.get_mut(i) { *r = x }` through `deref_mut` (no `check_rep`). -/
def setAt (s : SDeque α) (i : Nat) (x : α) : Option (Bool × SDeque α) := do
  let v ← s.deref
  if i < v.length then pure (true, { s with container := s.container.set (s.consumed + i) x })
  else pure (false, s)

end SDeque

/-! ### Operation sequences -/

/-- The public operations (reads through the `Deref` view are observations, not ops). -/
inductive Op (α : Type) where
  | pushBack (x : α)
  | front
  | back
  | popFront
  | popBack
  | advance (n : Nat)
  | clear
  | slide
  | setFront (x : α)
  | setBack (x : α)
  | setAt (i : Nat) (x : α)
  deriving Repr, DecidableEq

/-- What an operation returns. -/
inductive Ret (α : Type) where
  | unit
  | item (o : Option α)
  | count (n : Nat)
  | wrote (b : Bool)
  deriving Repr, DecidableEq

variable {α : Type}

/-- One operation on the model; `none` = the real code would panic. -/
def step (s : SDeque α) : Op α → Option (Ret α × SDeque α)
  | .pushBack x => do let s' ← s.pushBack x; pure (.unit, s')
  | .front => do let r ← s.front; pure (.item r, s)
  | .back => do let r ← s.back; pure (.item r, s)
  | .popFront => do let (r, s') ← s.popFront; pure (.item r, s')
  | .popBack => do let (r, s') ← s.popBack; pure (.item r, s')
  | .advance n => do let (k, s') ← s.advance n; pure (.count k, s')
  | .clear => do let s' ← s.clear; pure (.unit, s')
  | .slide => do let s' ← s.slide; pure (.unit, s')
  | .setFront x => do let (b, s') ← s.setFront x; pure (.wrote b, s')
  | .setBack x => do let (b, s') ← s.setBack x; pure (.wrote b, s')
  | .setAt i x => do let (b, s') ← s.setAt i x; pure (.wrote b, s')

/-- A whole operation sequence; `none` as soon as one operation panics. -/
def run (s : SDeque α) : List (Op α) → Option (List (Ret α) × SDeque α)
  | [] => some ([], s)
  | op :: ops =>
    match step s op with
    | none => none
    | some (r, s') =>
      match run s' ops with
      | none => none
      | some (rs, s'') => some (r :: rs, s'')

/-! ### The reference double-ended queue: a plain `List` -/

/-- One operation on the reference deque. -/
def stepRef (l : List α) : Op α → Ret α × List α
  | .pushBack x => (.unit, l ++ [x])
  | .front => (.item l.head?, l)
  | .back => (.item l.getLast?, l)
  | .popFront => (.item l.head?, l.drop 1)
  | .popBack => (.item l.getLast?, l.dropLast)
  | .advance n => (.count (min n l.length), l.drop n)
  | .clear => (.unit, [])
  | .slide => (.unit, l)
  | .setFront x => (.wrote (!l.isEmpty), l.set 0 x)
  | .setBack x => (.wrote (!l.isEmpty), l.set (l.length - 1) x)
  | .setAt i x => (.wrote (decide (i < l.length)), l.set i x)

def runRef (l : List α) : List (Op α) → List (Ret α) × List α
  | [] => ([], l)
  | op :: ops =>
    let (r, l') := stepRef l op
    let (rs, l'') := runRef l' ops
    (r :: rs, l'')

end Woodpile.SlidingDeque

/-
vouched_time, public-API completion (track `apigaps`): the `_or_die` constructors of `VouchedTime`
(lib.rs).  Import-free apart from the sibling model.
-/
import Woodpile.Model.VouchedTime

namespace Woodpile.VouchedTime

/-- `VouchedTime::new_or_die`: `VouchedTime::new(..).expect("failed to construct VouchedTime")`. -/
def newOrDie (c : Cfg) (ns : Int) (base voucher : UInt64) : NewRes :=
  match new c ns base voucher with
  | .ok vt => .ok vt
  | .err _ => .panic
  | .panic => .panic

/-- `VouchedTime::now_or_die`: `VouchedTime::now(provider).expect(..)`. -/
def nowOrDie (c : Cfg) (clockNs : Int) (provider : Int → Option (UInt64 × UInt64)) : NewRes :=
  match now c clockNs provider with
  | .ok vt => .ok vt
  | .err _ => .panic
  | .panic => .panic

end Woodpile.VouchedTime

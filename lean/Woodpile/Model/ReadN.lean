/-
Model of `ByteArena::read_n` / `read_n_impl` (owning_iovec/src/byte_arena/mod.rs)
over a *reader script*.
-/
import Woodpile.Model.Arena

namespace Woodpile.ReadN
open Woodpile.Arena

/-- One scripted answer of the `Read` implementation.  `deliver k` hands over
`min k (buffer length)` bytes of the source (fewer if the source runs dry; zero
bytes is what `Read` calls end of file). `err kind` with `kind = 0` is
`ErrorKind::Interrupted`; any other kind is a hard error. -/
inductive Ev where
  | deliver (k : Nat)
  | eof
  | err (kind : Nat)
  deriving Repr, DecidableEq

structure Reader where
  src : List UInt8
  script : List Ev
  deriving Repr, DecidableEq

inductive ReadRes where
  | ok (bytes : List UInt8)
  | err (kind : Nat)
  deriving Repr, DecidableEq

/-- One call `reader.read(buf)` with `buf.len() = n`.  An exhausted script
answers end-of-file forever. -/
def Reader.read (r : Reader) (n : Nat) : ReadRes × Reader :=
  match r.script with
  | [] => (.ok [], r)
  | .deliver k :: s =>
    let bs := r.src.take (min k n)
    (.ok bs, { src := r.src.drop (min k n), script := s })
  | .eof :: s => (.ok [], { r with script := s })
  | .err kind :: s => (.err kind, { r with script := s })

/-- One call: the buffer length offered, and the reader's answer. -/
abbrev Call := Nat × ReadRes

structure LoopOut where
  got : List UInt8
  err : Option Nat
  calls : List Call        -- every call made, in order (ghost: only for the theorems / transcript)
  reader : Reader
  deriving Repr, DecidableEq

/-- `read_n_impl`: the retry loop, `fuel` = attempts left. -/
def loop (count : Nat) : Nat → Reader → List UInt8 → Option Nat → List Call → LoopOut
  | 0, r, got, err, calls => ⟨got, err, calls, r⟩
  | fuel + 1, r, got, err, calls =>
    let req := count - got.length
    match r.read req with
    | (.ok bs, r') =>
      if bs.length = 0 then ⟨got, none, calls ++ [(req, .ok bs)], r'⟩
      else
        let got' := got ++ bs
        if got'.length = count then ⟨got', err, calls ++ [(req, .ok bs)], r'⟩
        else loop count fuel r' got' err (calls ++ [(req, .ok bs)])
    | (.err kind, r') =>
      if kind ≠ 0 then ⟨got, some kind, calls ++ [(req, .err kind)], r'⟩
      else if got.length = count then ⟨got, some kind, calls ++ [(req, .err kind)], r'⟩
      else loop count fuel r' got (some kind) (calls ++ [(req, .err kind)])

structure Out where
  res : ReadRes
  calls : List Call
  reader : Reader
  deriving Repr, DecidableEq

def Out.reqs (o : Out) : List Nat := o.calls.map (·.1)

/-- The reader-facing half of `read_n` (everything but the arena). -/
def finish (o : LoopOut) : Out :=
  match o.got, o.err with
  | [], some e => ⟨.err e, o.calls, o.reader⟩
  | got, _ => ⟨.ok got, o.calls, o.reader⟩

def readNCore (r : Reader) (count attempts : Nat) : Out :=
  if count = 0 then ⟨.ok [], [], r⟩
  else finish (loop count attempts r [] none [])

/-- `ByteArena::read_n` including the arena: allocate `count`, read, release
the unread tail (everything on failure).  Returns the placement of the
returned slice `(chunk, offset)` too. -/
def readN (t : Tuning) (a : Arena) (next : Nat) (r : Reader) (count attempts : Nat) :
    Out × Arena × Nat × Nat × Nat :=
  if count = 0 then (⟨.ok [], [], r⟩, a, next, 0, 0)
  else
    let (a1, next1, chunk, off) := alloc t a next count
    let o := readNCore r count attempts
    match o.res with
    | .ok got => (o, release a1 (count - got.length), next1, chunk, off)
    | .err _ => (o, release a1 count, next1, chunk, off)

end Woodpile.ReadN

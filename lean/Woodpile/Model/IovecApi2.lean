/-
Layer B, the last public corners of `owning_iovec` (track `apileft`): values that safe code can only
obtain through `Default::default()` / `Clone`, and what happens when they are handed to the iovec.

  implementation.rs    OwningIovec::push_anchor(anchor)          `World.pushAnchorDefault` (a chunk-less anchor)
  byte_arena/anchor.rs Default / Clone / increment_count /
                       decrement_count for Anchor                the anchor value `⟨n, none⟩`
  byte_arena/mod.rs    Default for AnchoredSlice                 `World.sDefault`
                       Default for ByteArena, ByteArena::new     `World.arenaDefault`

`Anchor` is not re-exported by the crate, so safe code cannot NAME the type; it can still obtain a
value — `iovec.push_anchor(Default::default())` type-checks by inference, and so does
`fn mk<T: Default>(_: fn(&mut OwningIovec<'static>, T)) -> T { T::default() }` applied to
`OwningIovec::push_anchor`, after which the pub methods `increment_count` / `decrement_count` /
`clone` are callable on it.  Such a value never holds a chunk (`chunk: None` is only ever replaced
inside the crate), so every anchor safe code can push is `⟨n, none⟩`; `GlobalDeque::push_anchor`
zeroes the count before it stores the anchor.

Import-free apart from sibling models (linked into `wpmodel`).
-/
import Woodpile.Model.IovecApi

namespace Woodpile.Iovec
open Woodpile.Arena

/-- An `Anchor` value as safe code can build it: `Default::default()` (`count = 0`) followed by `n`
calls of `increment_count()`; never a chunk. -/
def Anchor.safe (n : Nat) : Anchor := ⟨n, none⟩

/-- `OwningIovec::push_anchor(a)` for an anchor built by safe code (`n = 0`: `Default::default()`):
`GlobalDeque::push_anchor` decrements the count to zero (`assert_eq!(remainder, 0)` cannot fail) and
pushes the anchor at the back of the anchor deque.  No slice is pushed. -/
def World.pushAnchorDefault (w : World) (i : Nat) (n : Nat := 0) : Option World :=
  w.pushAnchor i (Anchor.safe n)

/-- `AnchoredSlice::default()`: a new (empty, chunk-less) detached slice value. -/
def World.sDefault (w : World) : World := (w.addASlice ASlice.empty).1

/-- `ByteArena::default()` = `ByteArena::new()`: a new detached arena without allocation cache. -/
def World.arenaDefault (w : World) : World := (w.addArena ⟨none⟩).1

end Woodpile.Iovec

/-
ITERATOR-PROTOCOL scripts (track gen3): the model side of the harness' `iterscript.rs`.

An iterator of the crates (`MessageView::iter`, `tags().iter()`, `SortedDeque::iter`, the
`Deref` slice of a `SlidingDeque`) is, in the models, the LIST of items it will yield.  A script
drives it through calls of `Iterator` / `DoubleEndedIterator` / `ExactSizeIterator` and of the
`std` adapters built on them; on a list every one of them is a closed form (`drop`, `take`,
`reverse`, ...).  `Proofs/IterScript.lean` proves that these closed forms are what the PROVIDED
methods of the `Iterator` trait compute from `next` alone (their default bodies), which is the
contract an overriding implementation has to keep.

Core Lean only: this file is linked into the native model driver.
-/
namespace Woodpile.IterScript

/-- One call (the text form is in `Driver/IterScript.lean`). -/
inductive Step where
  /-- `next()` -/
  | next
  /-- `nth(k)` -/
  | nth (k : Nat)
  /-- `size_hint()` -/
  | hint
  /-- `by_ref().take(k).collect()` -/
  | byRefTake (k : Nat)
  /-- `it = it.skip(k)` -/
  | skip (k : Nat)
  /-- `it = it.take(k)` -/
  | take (k : Nat)
  /-- `next_back()` -/
  | nextBack
  /-- `nth_back(k)` -/
  | nthBack (k : Nat)
  /-- `it = it.rev()` -/
  | rev
  /-- `len()` -/
  | len
  /-- `count()` (consumes) -/
  | count
  /-- `last()` (consumes) -/
  | last
  /-- `collect()` (consumes) -/
  | collect
  /-- `fold(..)` pushing every item (consumes) -/
  | fold
  /-- `step_by(s).take(m).collect()` (consumes; `s ≥ 1`) -/
  | stepByTake (s m : Nat)
  deriving Repr, DecidableEq

def Step.terminal : Step → Bool
  | .count | .last | .collect | .fold | .stepByTake _ _ => true
  | _ => false

/-- What a call answers. -/
inductive Obs (α : Type) where
  /-- `Option<Item>` -/
  | item (o : Option α)
  /-- a number (`count`, `len`; `size_hint` = `(n, Some(n))`) -/
  | num (n : Nat)
  /-- collected items -/
  | items (l : List α)
  /-- an adapter: nothing to see yet -/
  | unit
  deriving Repr, DecidableEq

/-- Every `s`-th item, starting with the first: what `step_by(s)` yields (`s ≥ 1`).  The fuel is
the length of the list. -/
def everyNth {α : Type} (s : Nat) : Nat → List α → List α
  | 0, _ => []
  | _ + 1, [] => []
  | fuel + 1, x :: xs => x :: everyNth s fuel (xs.drop (s - 1))

def stepBy {α : Type} (s : Nat) (l : List α) : List α := everyNth s l.length l

/-- One call on the iterator that will yield `l`: the list it will yield afterwards, and the answer. -/
def step {α : Type} (l : List α) : Step → List α × Obs α
  | .next => (l.drop 1, .item l.head?)
  | .nth k => (l.drop (k + 1), .item (l.drop k).head?)
  | .hint => (l, .num l.length)
  | .byRefTake k => (l.drop k, .items (l.take k))
  | .skip k => (l.drop k, .unit)
  | .take k => (l.take k, .unit)
  | .nextBack => (l.dropLast, .item l.getLast?)
  | .nthBack k => (l.take (l.length - (k + 1)), .item (l.reverse.drop k).head?)
  | .rev => (l.reverse, .unit)
  | .len => (l, .num l.length)
  | .count => ([], .num l.length)
  | .last => ([], .item l.getLast?)
  | .collect => ([], .items l)
  | .fold => ([], .items l)
  | .stepByTake s m => ([], .items ((stepBy s l).take m))

/-- A whole script; it stops after a consuming call. -/
def run {α : Type} (l : List α) : List Step → List (Obs α)
  | [] => []
  | st :: rest =>
    let (l', o) := step l st
    o :: (if st.terminal then [] else run l' rest)

end Woodpile.IterScript

/-
Length-only model of `sliding_deque::SlidingDeque<Vec<()>>` (zero-sized items).

A deque of `()`s is fully described by two numbers: `consumed_prefix` and the length of
the backing container.  `ZDeque` is `Woodpile.SlidingDeque.SDeque` with the container
replaced by its length; every function below is the corresponding `SDeque` function with
`List` operations replaced by what they do to the length (`++ [x]` = `+ 1`, `dropLast` =
`- 1`, `drop n` = `- n`, `isEmpty` = `== 0`), arm by arm, `check_rep` by `check_rep`.
`Woodpile/Proofs/ZDeque.lean` proves that it is exactly the image of the list model under
`length` (`zstep_image`), so the C15 theorems transfer; the driver replays the
zero-sized-item ops of family `sdeque` on it without materialising lists of 2^64 units.

Import-free apart from the SlidingDeque model (core only): linked into `wpmodel`.
-/
import Woodpile.Model.SlidingDeque

namespace Woodpile.SlidingDeque

/-- `SlidingDeque { consumed_prefix, container }` with `container : Vec<()>` given by its length. -/
structure ZDeque where
  consumed : Nat
  len : Nat
  deriving Repr, DecidableEq

namespace ZDeque

/-- `Deref::deref(..).len()`: `&container.slice()[consumed_prefix..]`, bounds-checked. -/
def deref (z : ZDeque) : Option Nat :=
  if z.consumed ≤ z.len then some (z.len - z.consumed) else none

/-- `check_rep`. -/
def checkRep (z : ZDeque) : Bool :=
  match z.deref with
  | none => false
  | some v => (!(v == 0) || z.consumed == 0) && decide (z.consumed ≤ z.len / 2)

/-- `From<Vec<()>>` for a vector of `n` units: no `check_rep`. -/
def ofLen (n : Nat) : ZDeque := ⟨0, n⟩

/-- `push_back(())`. -/
def pushBack (z : ZDeque) : Option ZDeque := do
  check z.checkRep
  let z' : ZDeque := { z with len := z.len + 1 }
  check z'.checkRep
  pure z'

/-- `front().is_some()`. -/
def front (z : ZDeque) : Option Bool := do
  check z.checkRep
  let v ← z.deref
  pure (!(v == 0))

/-- `back().is_some()`. -/
def back (z : ZDeque) : Option Bool := do
  check z.checkRep
  let v ← z.deref
  pure (!(v == 0))

/-- `slide` (as compiled with debug assertions). -/
def slide (z : ZDeque) : Option ZDeque := do
  check (decide (z.consumed ≤ z.len))
  let z' : ZDeque := { consumed := 0, len := z.len - z.consumed }
  check z'.checkRep
  pure z'

/-- `maybe_slide`. -/
def maybeSlide (z : ZDeque) : Option ZDeque := do
  let v ← z.deref
  let z' ← if decide (z.consumed > z.len / 2) || v == 0 then z.slide else pure z
  check z'.checkRep
  pure z'

/-- `pop_front().is_some()`. -/
def popFront (z : ZDeque) : Option (Bool × ZDeque) := do
  check z.checkRep
  match ← z.front with
  | false => pure (false, z)
  | true =>
    let z1 : ZDeque := { z with consumed := z.consumed + 1 }
    let z2 ← z1.maybeSlide
    check z2.checkRep
    pure (true, z2)

/-- `pop_back().is_some()`. -/
def popBack (z : ZDeque) : Option (Bool × ZDeque) := do
  check z.checkRep
  match ← z.back with
  | false => pure (false, z)
  | true =>
    check (!(z.len == 0))
    let z1 : ZDeque := { z with len := z.len - 1 }
    let z2 ← z1.maybeSlide
    check z2.checkRep
    pure (true, z2)

/-- `advance(count)`. -/
def advance (z : ZDeque) (count : Nat) : Option (Nat × ZDeque) := do
  check z.checkRep
  let toConsume := min (z.len - z.consumed) count
  let z1 : ZDeque := { z with consumed := z.consumed + toConsume }
  let z2 ← z1.maybeSlide
  check z2.checkRep
  pure (toConsume, z2)

/-- `clear`. -/
def clear (_z : ZDeque) : Option ZDeque := do
  let z' : ZDeque := { consumed := 0, len := 0 }
  check z'.checkRep
  pure z'

end ZDeque

/-- The operations of the zero-sized-item vocabulary. -/
inductive ZOp where
  | pushBack
  | front
  | back
  | popFront
  | popBack
  | advance (n : Nat)
  | clear
  | slide
  deriving Repr, DecidableEq

/-- What they return, with items reduced to "was there one". -/
inductive ZRet where
  | unit
  | has (b : Bool)
  | count (n : Nat)
  deriving Repr, DecidableEq

/-- The same operation on a deque of `Unit`s. -/
def ZOp.toOp : ZOp → Op Unit
  | .pushBack => .pushBack ()
  | .front => .front
  | .back => .back
  | .popFront => .popFront
  | .popBack => .popBack
  | .advance n => .advance n
  | .clear => .clear
  | .slide => .slide

/-- A return value of the list model at `Unit`, with items reduced to "was there one". -/
def Ret.toZ : Ret Unit → ZRet
  | .unit => .unit
  | .item o => .has o.isSome
  | .count n => .count n
  | .wrote b => .has b

/-- One operation on the length-only model; `none` = the real code would panic. -/
def zstep (z : ZDeque) : ZOp → Option (ZRet × ZDeque)
  | .pushBack => do let z' ← z.pushBack; pure (.unit, z')
  | .front => do let r ← z.front; pure (.has r, z)
  | .back => do let r ← z.back; pure (.has r, z)
  | .popFront => do let (r, z') ← z.popFront; pure (.has r, z')
  | .popBack => do let (r, z') ← z.popBack; pure (.has r, z')
  | .advance n => do let (k, z') ← z.advance n; pure (.count k, z')
  | .clear => do let z' ← z.clear; pure (.unit, z')
  | .slide => do let z' ← z.slide; pure (.unit, z')

/-- A whole operation sequence; `none` as soon as one operation panics. -/
def zrun (z : ZDeque) : List ZOp → Option (List ZRet × ZDeque)
  | [] => some ([], z)
  | op :: ops =>
    match zstep z op with
    | none => none
    | some (r, z') =>
      match zrun z' ops with
      | none => none
      | some (rs, z'') => some (r :: rs, z'')

end Woodpile.SlidingDeque

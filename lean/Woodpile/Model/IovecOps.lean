/-
Layer B — the operation vocabulary of the `iovec` family as a pure step function.

`World.step` is the mapping of `Woodpile.Driver.IovecFam.step` (harness op line ↦
model functions) with the string parsing and the printing removed: one
constructor of `WOp` per op word of the line protocol, handles are the creation
ordinals (`v<i>` iovec, `a<i>` detached arena, `s<i>` anchored slice, `b<i>`
backref token).  `none` = the Rust code panics, or the handle does not name a
live object (the harness never issues such an op; the driver answers `bad-op`).

The theorems of C05 / C10 / C20 quantify over arbitrary `List WOp` histories
from `World.init`.  Import-free apart from sibling models.

Three further constructors (`lend`, `pushAt`, `pushBorrowedAt`; track `glue`) are
NOT op words of the line protocol: they split "lend a fresh caller buffer and
push all of it" (what `push` / `push_borrowed` / `extend` do above) into its two
halves, so that a push of a SUB-slice of a caller buffer — what the C03/C04
vocabulary (`Woodpile.Iovec.Op`, `Borrow.pre/post`) and the HCOBS codecs
(`EncWorld.XOp.pushAt`) do — is a history of this vocabulary too
(`Proofs/IovecGlue.lean`).  They call the same model functions (`World.push`,
`World.pushBorrowed`); the theorems over `List WOp` cover them.
-/
import Woodpile.Model.Iovec

namespace Woodpile.Iovec
open Woodpile.Arena

def World.arena (w : World) (j : Nat) : Option Arena := w.arenas.getD j none
def World.aslice (w : World) (j : Nat) : Option ASlice := w.aslices.getD j none
def World.setArena (w : World) (j : Nat) (a : Option Arena) : World :=
  { w with arenas := listSet w.arenas j a none }
def World.setASlice (w : World) (j : Nat) (s : Option ASlice) : World :=
  { w with aslices := listSet w.aslices j s none }

/-- Register caller buffers and return the borrowed slices that cover them
(`new_from_slices`, `extend`: one fresh buffer per hex string of the op line). -/
def World.addExts (w : World) (bufs : List (List UInt8)) : World × List Slice :=
  bufs.foldl (fun (acc : World × List Slice) bs =>
    let (w1, id) := acc.1.addExt bs
    (w1, acc.2 ++ [⟨.ext id, 0, bs.length⟩])) (w, [])

/-- One line of the `iovec` family's op vocabulary. -/
inductive WOp where
  | new
  | newArena
  | newFromArena (a : Nat)
  | newFromSlices (bufs : List (List UInt8))
  | push (v : Nat) (bs : List UInt8)
  | pushBorrowed (v : Nat) (bs : List UInt8)
  | pushCopy (v : Nat) (bs : List UInt8)
  | register (v : Nat) (pattern : List UInt8)
  | extend (v : Nat) (bufs : List (List UInt8))
  | consume (v k : Nat)
  | advance (v k : Nat)
  | read (v k : Nat)
  | reserve (v k : Nat)
  | pushASlice (v s : Nat)
  | swapArena (v a : Nat)
  | aReserve (a k : Nat)
  | sSkip (s k : Nat)
  | sDropSuf (s k : Nat)
  | sSplit (s k : Nat)
  | backfill (v b : Nat) (bs : List UInt8)
  | pop (v : Nat)
  | clear (v : Nat)
  | take (v : Nat)
  | clone (v : Nat)
  | drop (v : Nat)
  | flush (v : Nat)
  | takeArena (v : Nat)
  | aFlush (a : Nat)
  | dropArena (a : Nat)
  | sTake (s : Nat)
  | sClone (s : Nat)
  | sDrop (s : Nat)
  | readNIov (v count attempts : Nat) (src : List UInt8) (script : List ReadN.Ev)
  | readNArena (a count attempts : Nat) (src : List UInt8) (script : List ReadN.Ev)
  /-- (glue) the caller makes a buffer known to the world without pushing it (no iovec call) -/
  | lend (bs : List UInt8)
  /-- (glue) `push` of the sub-slice `[off, off+len)` of the already known caller buffer `b` -/
  | pushAt (v b off len : Nat)
  /-- (glue) `push_borrowed` of the sub-slice `[off, off+len)` of the already known caller buffer `b` -/
  | pushBorrowedAt (v b off len : Nat)
  deriving Repr, DecidableEq

/-- `ByteArena::read_n` on iovec `i`'s own arena; the anchored result becomes a new detached slice. -/
def World.readNIov (w : World) (i count attempts : Nat) (r : ReadN.Reader) : Option World :=
  match w.iov i with
  | none => none
  | some v =>
    let (w1, ar', res, _) := w.readN v.arena r count attempts
    let w2 := match w1.iov i with
      | some v1 => w1.setIov i (some { v1 with arena := ar' })
      | none => w1
    match res with
    | .ok a => some (w2.addASlice a).1
    | .error _ => some w2

/-- `ByteArena::read_n` on the detached arena `j`. -/
def World.readNArena (w : World) (j count attempts : Nat) (r : ReadN.Reader) : Option World :=
  match w.arena j with
  | none => none
  | some ar =>
    let (w1, ar', res, _) := w.readN ar r count attempts
    let w2 := w1.setArena j (some ar')
    match res with
    | .ok a => some (w2.addASlice a).1
    | .error _ => some w2

/-- The driver's `step`, op by op. -/
def World.step (w : World) : WOp → Option World
  | .new => some (w.addIov Iov.empty).1
  | .newArena => some (w.addArena ⟨none⟩).1
  | .newFromArena a =>
    match w.arena a with
    | some ar => some ((w.setArena a none).addIov { Iov.empty with arena := ar }).1
    | none => none
  | .newFromSlices bufs =>
    let (w', slices) := w.addExts bufs
    some (w'.newFromSlices slices ⟨none⟩).1
  | .push i bs =>
    let (w1, id) := w.addExt bs
    w1.push i ⟨.ext id, 0, bs.length⟩
  | .pushBorrowed i bs =>
    let (w1, id) := w.addExt bs
    w1.pushBorrowed i ⟨.ext id, 0, bs.length⟩
  | .pushCopy i bs => w.pushCopy i bs
  | .register i pattern =>
    match w.registerPatch i pattern with
    | some (w', b) => some (w'.addBref b).1
    | none => none
  | .extend i bufs =>
    let (w', slices) := w.addExts bufs
    w'.extend i slices
  | .consume i k =>
    match w.consume i k with
    | some (w', _) => some w'
    | none => none
  | .advance i k =>
    match w.advance i k with
    | some (w', _) => some w'
    | none => none
  | .read i k =>
    match World.readInto (k + 2) w i k [] with
    | some (w', _) => some w'
    | none => none
  | .reserve i k =>
    match w.iov i with
    | some v =>
      let (a', nx) := ensureCapacity w.tun v.arena w.next k
      some ({ w with next := nx }.setIov i (some { v with arena := a' }))
    | none => none
  | .pushASlice i si =>
    match w.aslice si with
    | some a =>
      let w0 := w.setASlice si none
      if a.slice.len = 0 then some w0      -- skipped entirely: no push, the anchor is dropped
      else
        match w0.push i a.slice with
        | some w1 => w1.pushAnchor i a.anchor
        | none => none
    | none => none
  | .swapArena i ai =>
    match w.iov i, w.arena ai with
    | some v, some ar => some ((w.setArena ai (some v.arena)).setIov i (some { v with arena := ar }))
    | _, _ => none
  | .aReserve ai k =>
    match w.arena ai with
    | some ar =>
      let (a', nx) := ensureCapacity w.tun ar w.next k
      some ({ w with next := nx }.setArena ai (some a'))
    | none => none
  | .sSkip si k =>
    match w.aslice si with
    | some a => some (w.setASlice si (some (a.skipPrefix k).1))
    | none => none
  | .sDropSuf si k =>
    match w.aslice si with
    | some a => some (w.setASlice si (some (a.dropSuffix k).1))
    | none => none
  | .sSplit si k =>
    match w.aslice si with
    | some a =>
      let (l, r) := a.splitAt k
      some ((((w.setASlice si none).addASlice l).1).addASlice r).1
    | none => none
  | .backfill i bi bs =>
    if bi < w.brefs.length then w.backfill i (w.brefs.getD bi none) bs else none
  | .pop i =>
    match w.consume i 1 with
    | some (w', 1) => some w'
    | _ => none
  | .clear i => w.clear i
  | .take i =>
    match w.take i with
    | some (w', _) => some w'
    | none => none
  | .clone i =>
    match w.clone i with
    | some (w', _) => some w'
    | none => none
  | .drop i => w.dropIov i
  | .flush i =>
    match w.iov i with
    | some v => some (w.setIov i (some { v with arena := flush v.arena }))
    | none => none
  | .takeArena i =>
    match w.iov i with
    | some v => some ((w.setIov i (some { v with arena := ⟨none⟩ })).addArena v.arena).1
    | none => none
  | .aFlush ai =>
    match w.arena ai with
    | some ar => some (w.setArena ai (some (flush ar)))
    | none => none
  | .dropArena ai =>
    match w.arena ai with
    | some _ => some (w.setArena ai none)
    | none => none
  | .sTake si =>
    match w.aslice si with
    | some a => some ((w.setASlice si (some ASlice.empty)).addASlice a).1
    | none => none
  | .sClone si =>
    match w.aslice si with
    | some a => some (w.addASlice a).1
    | none => none
  | .sDrop si =>
    match w.aslice si with
    | some _ => some (w.setASlice si none)
    | none => none
  | .readNIov i count attempts src script => w.readNIov i count attempts ⟨src, script⟩
  | .readNArena j count attempts src script => w.readNArena j count attempts ⟨src, script⟩
  | .lend bs => some (w.addExt bs).1
  -- a borrow of `buf[off .. off+len]` only type-checks in Rust when it is in bounds
  | .pushAt i b off len =>
    if off + len ≤ (w.exts.getD b []).length then w.push i ⟨.ext b, off, len⟩ else none
  | .pushBorrowedAt i b off len =>
    if off + len ≤ (w.exts.getD b []).length then w.pushBorrowed i ⟨.ext b, off, len⟩ else none

/-- A whole history; `none` as soon as one op panics (or is ill-formed). -/
def World.run (w : World) : List WOp → Option World
  | [] => some w
  | op :: rest =>
    match w.step op with
    | some w' => w'.run rest
    | none => none

/-- Drop every iovec, detached arena and anchored slice (the end of every harness history). -/
def World.dropAll (w : World) : World :=
  { w with iovs := w.iovs.map (fun _ => none), arenas := w.arenas.map (fun _ => none),
           aslices := w.aslices.map (fun _ => none) }

end Woodpile.Iovec

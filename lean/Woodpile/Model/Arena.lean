/-
Model of `owning_iovec/src/byte_arena/{mod.rs,alloc_cache.rs}`: the bump-pointer
allocation cache.  Addresses are symbolic: a chunk is a natural number (its
ordinal in allocation order) and a position is an offset inside the chunk.

Import-free (core only) so that it links into the native driver.
-/
namespace Woodpile.Arena

/-- The tuning constants of `byte_arena/mod.rs` (`BUMP_REGION_SIZE_SEQUENCE`,
`BUMP_REGION_SIZE_FACTOR`); the production values are in `Woodpile.Gen`. -/
structure Tuning where
  seq : List Nat
  factor : Nat
  deriving Repr, DecidableEq

/-- `AllocCache`: the chunk it bumps in, the chunk's capacity, the bump offset. -/
structure Cache where
  chunk : Nat
  cap : Nat
  bump : Nat
  deriving Repr, DecidableEq

/-- `ByteArena` plus the world's chunk counter (the next fresh chunk ordinal). -/
structure Arena where
  cache : Option Cache
  deriving Repr, DecidableEq

def Cache.remaining (c : Cache) : Nat := c.cap - c.bump

def Arena.remaining (a : Arena) : Nat :=
  match a.cache with
  | some c => c.remaining
  | none => 0

/-- first element of `seq` that is `≥ wanted`, else `dflt`. -/
def firstAtLeast (wanted dflt : Nat) : List Nat → Nat
  | [] => dflt
  | s :: rest => if s ≥ wanted then s else firstAtLeast wanted dflt rest

/-- `ByteArena::find_hint_size`. -/
def findHintSize (t : Tuning) (len prevCap : Nat) : Nat :=
  let maxSeq := t.seq.getLast?.getD 0
  if len ≥ maxSeq then
    ((len + t.factor - 1) / t.factor) * t.factor
  else if prevCap ≥ maxSeq then
    maxSeq
  else
    firstAtLeast (max (prevCap + 1) len) maxSeq t.seq

/-- `ensure_capacity_internal`: returns the arena, the next chunk ordinal, and
whether a fresh chunk was allocated. -/
def ensureCapacity (t : Tuning) (a : Arena) (next : Nat) (len : Nat) : Arena × Nat :=
  match a.cache with
  | some c =>
    if c.remaining ≥ len then (a, next)
    else
      let hint := findHintSize t len c.cap
      ({ cache := some { chunk := next, cap := max hint len, bump := 0 } }, next + 1)
  | none =>
    let hint := findHintSize t len 0
    ({ cache := some { chunk := next, cap := max hint len, bump := 0 } }, next + 1)

/-- `ByteArena::alloc` for `len > 0`: returns (arena', next', chunk, offset). -/
def alloc (t : Tuning) (a : Arena) (next : Nat) (len : Nat) : Arena × Nat × Nat × Nat :=
  let (a', next') := ensureCapacity t a next len
  match a'.cache with
  | some c => ({ cache := some { c with bump := c.bump + len } }, next', c.chunk, c.bump)
  | none => (a', next', 0, 0)  -- unreachable: `ensureCapacity` always leaves a cache

/-- `AllocCache::release_or_die` of the last `len` bytes. -/
def release (a : Arena) (len : Nat) : Arena :=
  match a.cache with
  | some c => { cache := some { c with bump := c.bump - len } }
  | none => a

def flush (_ : Arena) : Arena := { cache := none }

end Woodpile.Arena

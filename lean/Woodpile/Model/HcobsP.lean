/-
Layer C, panic-aware: the HCOBS encoder / decoder state machines of
`Woodpile.Model.Hcobs` again, this time with a `panic` OUTCOME at every site where the
Rust code can panic: every `assert!` / `assert_eq!`, every `unwrap()`, every slice
index / range, every overflow-checked `+` / `-` / `*` on a machine word on the path
(`hcobs/src/encoder.rs`, `hcobs/src/decoder.rs`, the callers in `hcobs/src/lib.rs`, and
`OwningIovec::backfill_or_panic`).  Each site is cited by file and line (`Site`).

These are the functions the model driver (`Driver/Hcobs.lean`, `Driver/Stream.lean`)
runs.  `Proofs/HcobsPanic.lean` proves, for every reachable state, every input and every
segmentation, `xP … = .ok (x …)`: the panic outcome is unreachable and the panic-free
functions of `Model/Hcobs.lean` (about which C01/C02/C07/C06 are stated) are what runs.

Machine words: `usize` is 64 bits (`USIZE`), `InChunk::remaining` is a `NonZeroU32`
(`U32`); `as u32` / `as u8` are truncations (`% 2^32`, `UInt8.ofNat`), never panics.
The decoder is also modelled at the level of the `Decoder` object (`Dec.call`,
`Dec.calls`, `Dec.session`): `Decoder::decode` swaps `Default::default()` into
`self.state` and returns early on `Err`, so after an error the object is a usable decoder
in `InitialState` over the same iovec (whatever was pushed before the error stays).

Core Lean only (linked into the native driver).
-/
import Woodpile.Model.Hcobs

namespace Woodpile.Hcobs
open Woodpile.Pipe

/-- Source file of a panic site. -/
inductive Src where
  /-- `hcobs/src/encoder.rs` -/
  | encoder
  /-- `hcobs/src/decoder.rs` -/
  | decoder
  /-- `owning_iovec/src/implementation.rs` -/
  | iovec
  /-- not a Rust site: the model's loop fuel ran out -/
  | model
  deriving Repr, DecidableEq

/-- The outcome of a step that may panic. -/
inductive PRes (α : Type) where
  | panic (file : Src) (line : Nat)
  | ok (a : α)
  deriving Repr, DecidableEq

namespace PRes

def bind {α β : Type} : PRes α → (α → PRes β) → PRes β
  | .panic f l, _ => .panic f l
  | .ok a, k => k a

instance : Monad PRes where
  pure := PRes.ok
  bind := PRes.bind

def isPanic {α : Type} : PRes α → Bool
  | .panic _ _ => true
  | .ok _ => false

end PRes

/-- `assert!(c)` at `file:line` (also used for overflow / bounds checks). -/
def check (c : Bool) (file : Src) (line : Nat) : PRes Unit :=
  if c then .ok () else .panic file line

/-- `xs[i]` at `file:line`. -/
def index (xs : List UInt8) (i : Nat) (file : Src) (line : Nat) : PRes UInt8 :=
  match xs[i]? with
  | some b => .ok b
  | none => .panic file line

/-- `usize::MAX + 1` -/
def USIZE : Nat := 2 ^ 64
/-- `u32::MAX + 1` -/
def U32 : Nat := 2 ^ 32

/-- `x as u32` -/
def asU32 (n : Nat) : Nat := n % U32

/-- `NonZeroU32::new(x).unwrap()` on a `u32` value. -/
def nonZeroU32 (n : Nat) (line : Nat) : PRes Nat :=
  if n = 0 then .panic .decoder line else .ok n

/-! ### Encoder -/

namespace Enc

/-- Run emits on a pipe (what the iovec looks like after the calls made so far). -/
def runQ (q : Pipe) (es : List Emit) : Pipe := q.run (es.map (·.op))

/-- `encode_header(chunk_size = s.cur, iovec, s.backref)` (encoder.rs:125-134), on the
output pipe `q` as it is at that moment. -/
def encodeHeaderP (p : Params) (s : EncState) (q : Pipe) : PRes Emit := do
  -- assert!(chunk_size < RADIX * RADIX)
  check (decide (s.cur < p.radix * p.radix)) .encoder 126
  -- let header = [(chunk_size % RADIX) as u8, (chunk_size / RADIX) as u8, 0];
  let hdr : List UInt8 := [UInt8.ofNat (s.cur % p.radix), UInt8.ofNat (s.cur / p.radix), 0]
  -- let len = backref.len(); assert!((1..=2).contains(&len));
  check (decide (1 ≤ s.brLen ∧ s.brLen ≤ 2)) .encoder 130
  -- assert!(header[len] == 0)
  let z ← index hdr s.brLen .encoder 131
  check (z == 0) .encoder 131
  -- iovec.backfill_or_panic(backref, &header[0..len]): the placeholder must still be pending
  -- in this iovec, with exactly `len` bytes (implementation.rs:370 `assert_eq!(info.len, src.len())`,
  -- :374 `.expect("backref not found")`)
  check (decide (q.cells.count (Cell.hole s.backref) = s.brLen)) .iovec 374
  pure ⟨.fill s.backref (hdr.take s.brLen), .copy⟩

/-- `write_partial_stuff_sequence` (encoder.rs:159-163). -/
def flushP (s : EncState) : PRes (EncState × List Emit) := do
  -- iovec.push_copy(&[STUFF_SEQUENCE[0]]); self.current_chunk_size += 1;
  check (decide (s.cur + 1 < USIZE)) .encoder 161
  let s' := { s with cur := s.cur + 1, mid := false }
  -- assert!(self.current_chunk_size <= self.max_chunk_size.get())
  check (decide (s'.cur ≤ s'.maxChunk)) .encoder 162
  pure (s', [⟨.append [FE], .copy⟩])

/-- The `writer` closure: `this.write(iovec, &input[0..prefix])` (encoder.rs:73, 137-145) or
`this.copy(…)` (encoder.rs:101, 148-156).  `outer` is the callers' un-truncated `input`;
`payload` is its `prefix`-byte prefix. -/
def writeP (s : EncState) (m : Method) (outerLen : Nat) (payload : List UInt8) : PRes (EncState × List Emit) := do
  -- &input[0..prefix]
  check (decide (payload.length ≤ outerLen)) .encoder (if m = .borrow then 73 else 101)
  if payload.isEmpty then pure (s, [])     -- `if payload.is_empty() { return; }`
  else do
    -- iovec.push(payload) / push_copy(payload); self.current_chunk_size += payload.len();
    check (decide (s.cur + payload.length < USIZE)) .encoder (if m = .borrow then 143 else 154)
    let s' := { s with cur := s.cur + payload.length }
    -- assert!(self.current_chunk_size <= self.max_chunk_size.get())
    check (decide (s'.cur ≤ s'.maxChunk)) .encoder (if m = .borrow then 144 else 155)
    pure (s', [⟨.append payload, m⟩])

/-- `if self.maybe_mid_stuff { self.write_partial_stuff_sequence(iovec); assert!(cur < max); }`
(encoder.rs:185-190). -/
def flushIfMidP (s : EncState) : PRes (EncState × List Emit) :=
  if s.mid then do
    let r ← flushP s
    -- assert!(self.current_chunk_size < self.max_chunk_size.get())
    check (decide (r.1.cur < r.1.maxChunk)) .encoder 189
    pure r
  else pure (s, [])

/-- `if self.maybe_mid_stuff { self.write_partial_stuff_sequence(iovec); }` (encoder.rs:117-119). -/
def flushAtEndP (s : EncState) : PRes (EncState × List Emit) :=
  if s.mid then flushP s else pure (s, [])

/-- `encode_header` on the current placeholder, then `Self::new_subsequent`
(encoder.rs:227-228).  `pre` = what this call has emitted so far. -/
def closeP (p : Params) (s : EncState) (nid : Nat) (q : Pipe) (pre : List Emit) (consumed : Nat) :
    PRes OnceOut := do
  let e ← encodeHeaderP p s (runQ q pre)
  let (s', e') := newSubsequent p nid
  pure ⟨s', consumed, pre ++ e :: e', nid + 1⟩

/-- `consume_once` (encoder.rs:165-229); `q` is the output pipe when the call starts. -/
def consumeOnceP (p : Params) (s : EncState) (nid : Nat) (m : Method) (q : Pipe) (input : List UInt8) :
    PRes OnceOut := do
  -- assert!(!input.is_empty())
  check (!input.isEmpty) .encoder 173
  -- assert!(self.current_chunk_size + (self.maybe_mid_stuff as usize) < self.max_chunk_size.get())
  check (decide (s.cur + (if s.mid then 1 else 0) < USIZE)) .encoder 175
  check (decide (s.cur + (if s.mid then 1 else 0) < s.maxChunk)) .encoder 174
  -- input[0]
  let b0 ← index input 0 .encoder 179
  if s.mid ∧ b0 = FD then
    -- completed a stuff sequence between two slices: consumed = 1
    closeP p s nid q [] 1
  else do
    -- assert!(self.current_chunk_size < self.max_chunk_size.get())
    check (decide (s.cur < s.maxChunk)) .encoder 183
    let (s1, e1) ← flushIfMidP s
    -- let remaining = self.max_chunk_size.get() - self.current_chunk_size;
    check (decide (s1.cur ≤ s1.maxChunk)) .encoder 192
    let remaining := s1.maxChunk - s1.cur
    -- input = &input[..input.len().min(remaining)];  (`min` keeps the range in bounds)
    let w := input.take remaining
    -- assert!(!input.is_empty())
    check (!w.isEmpty) .encoder 196
    match findStuff w with
    | some i => do
      -- (index, index + STUFF_SEQUENCE.len())
      check (decide (i + 2 < USIZE)) .encoder 201
      let (s2, e2) ← writeP s1 m input.length (w.take i)
      closeP p s2 nid q (e1 ++ e2) (i + 2)
    | none =>
      if w.length = remaining then do
        -- (remaining, remaining)
        let (s2, e2) ← writeP s1 m input.length w
        closeP p s2 nid q (e1 ++ e2) remaining
      else do
        let ret := w.length
        -- input[input.len() - 1]
        check (decide (1 ≤ w.length)) .encoder 211
        let last ← index w (w.length - 1) .encoder 211
        let mid : Bool := last == FE
        -- let to_copy = if self.maybe_mid_stuff { ret - 1 } else { ret };
        check (decide (mid = true → 1 ≤ ret)) .encoder 212
        let toCopy := if mid then ret - 1 else ret
        let (s2, e2) ← writeP { s1 with mid := mid } m input.length (w.take toCopy)
        -- assert!(self.current_chunk_size + (self.maybe_mid_stuff as usize) < self.max_chunk_size.get())
        check (decide (s2.cur + (if s2.mid then 1 else 0) < USIZE)) .encoder 217
        check (decide (s2.cur + (if s2.mid then 1 else 0) < s2.maxChunk)) .encoder 216
        pure ⟨s2, ret, e1 ++ e2, nid⟩

/-- `encode_borrow` (encoder.rs:60-86) / `encode_copy` (88-114): the
`while !input.is_empty()` loop.  `q` = the output pipe when the call starts. -/
def feedP (p : Params) : Nat → EncState → Nat → Method → Pipe → List UInt8 → PRes (EncState × Nat × List Emit)
  | 0, s, nid, _, _, input => if input.isEmpty then .ok (s, nid, []) else .panic .model 0
  | fuel + 1, s, nid, m, q, input =>
    if input.isEmpty then .ok (s, nid, [])
    else do
      let had := s.mid
      let o ← consumeOnceP p s nid m q input
      -- assert!(consumed <= input.len())
      check (decide (o.consumed ≤ input.length)) .encoder (if m = .borrow then 77 else 105)
      -- assert!((consumed > 0) | (!self.maybe_mid_stuff & had_buffered_data))
      check (decide (o.consumed > 0) || (!o.st.mid && had)) .encoder (if m = .borrow then 80 else 108)
      -- input = &input[consumed..]  (in range by the first assert)
      let (s', nid', es) ← feedP p fuel o.st o.nextId m (runQ q o.emits) (input.drop o.consumed)
      pure (s', nid', o.emits ++ es)

def feedAllP (p : Params) (s : EncState) (nid : Nat) (m : Method) (q : Pipe) (input : List UInt8) :=
  feedP p (2 * input.length + 2) s nid m q input

/-- `terminate` (encoder.rs:116-123). -/
def finishP (p : Params) (s : EncState) (q : Pipe) : PRes (List Emit) := do
  let (s1, e1) ← flushAtEndP s
  -- assert!(self.current_chunk_size < self.max_chunk_size.get())
  check (decide (s1.cur < s1.maxChunk)) .encoder 121
  let e ← encodeHeaderP p s1 (runQ q e1)
  pure (e1 ++ [e])

/-- Whole run, as `Enc.runPieces`: `EncoderState::new` on an empty iovec, the pieces, `terminate`. -/
def runPiecesP (p : Params) (pieces : List (Method × List UInt8)) : PRes (List Emit) :=
  let (s0, e0) := init p 0
  let rec go : List (Method × List UInt8) → EncState → Nat → List Emit → PRes (List Emit)
    | [], s, _, acc => do
      let es ← finishP p s (runQ Pipe.empty acc)
      pure (acc ++ es)
    | (m, d) :: rest, s, nid, acc => do
      let (s', nid', es) ← feedAllP p s nid m (runQ Pipe.empty acc) d
      go rest s' nid' (acc ++ es)
  go pieces s0 1 e0

end Enc

/-! ### Decoder -/

namespace Dec

/-- One state-machine step (`InitialState::decode`, `BeforeChunk::decode`,
`MidHeader::decode`, `InChunk::decode_borrow` / `decode_copy` + `InChunk::update`) on `input`. -/
def onceP (p : Params) (m : Method) (s : DecState) (input : List UInt8) :
    PRes (Except (DecErr × List Emit) OnceOut) :=
  match s with
  | .initial => do
    -- assert!(!input.is_empty()); input[0]
    check (!input.isEmpty) .decoder 228
    let b ← index input 0 .decoder 230
    let n := b.toNat
    -- Err(InvalidInitialSizeHeader(chunk_size as u8)): `chunk_size` came from a `u8`
    if n > p.maxInit then pure (.error (.invalidInitialSizeHeader b, []))
    else if n > 0 then do
      -- NonZeroU32::new(chunk_size as u32).unwrap()
      let r ← nonZeroU32 (asU32 n) 240
      pure (.ok ⟨.inChunk r (n < p.maxInit), 1, []⟩)
    else pure (.ok ⟨.beforeChunk (n < p.maxInit), 1, []⟩)
  | .beforeChunk ins => do
    check (!input.isEmpty) .decoder 263
    -- iovec.push_copy(&STUFF_SEQUENCE) happens before the header byte is validated
    let e : List Emit := if ins then [⟨.append [FE, FD], .copy⟩] else []
    let b ← index input 0 .decoder 269
    if b.toNat ≥ p.radix then pure (.error (.invalidHeaderByte false b, e))
    else pure (.ok ⟨.midHeader b, 1, e⟩)
  | .midHeader b0 => do
    check (!input.isEmpty) .decoder 285
    let b ← index input 0 .decoder 287
    if b.toNat ≥ p.radix then pure (.error (.invalidHeaderByte true b, []))
    else do
      -- (self.initial_byte as usize) + (second_byte * RADIX)
      check (decide (b.toNat * p.radix < USIZE)) .decoder 292
      check (decide (b0.toNat + b.toNat * p.radix < USIZE)) .decoder 292
      let n := b0.toNat + b.toNat * p.radix
      if n > p.maxSub then pure (.error (.invalidSubsequentSizeHeader n, []))
      else if n > 0 then do
        let r ← nonZeroU32 (asU32 n) 303
        pure (.ok ⟨.inChunk r (n < p.maxSub), 1, []⟩)
      else pure (.ok ⟨.beforeChunk (n < p.maxSub), 1, []⟩)
  | .inChunk rem term => do
    check (!input.isEmpty) .decoder (if m = .borrow then 342 else 355)
    -- let bytes_consumed = input.len().min(self.remaining.get() as usize);
    let k := min input.length rem
    -- iovec.push(&input[..bytes_consumed]) / push_copy
    check (decide (k ≤ input.length)) .decoder (if m = .borrow then 345 else 358)
    let es : List Emit := [⟨.append (input.take k), m⟩]
    -- InChunk::update(bytes_consumed)
    if k < rem then do
      -- NonZeroU32::new(self.remaining.get() - bytes_consumed as u32).unwrap(): `u32` subtraction
      check (decide (asU32 k ≤ rem)) .decoder 322
      let r ← nonZeroU32 (rem - asU32 k) 322
      pure (.ok ⟨.inChunk r term, k, es⟩)
    else do
      -- assert_eq!(self.remaining.get(), bytes_consumed as u32)
      check (decide (rem = asU32 k)) .decoder 325
      pure (.ok ⟨.beforeChunk term, k, es⟩)

/-- `decode_borrow` (decoder.rs:170-191) / `decode_copy` (198-218). -/
def feedP (p : Params) (m : Method) :
    Nat → DecState → List UInt8 → PRes (Except (DecErr × List Emit) (DecState × List Emit))
  | 0, s, input => if input.isEmpty then .ok (.ok (s, [])) else .panic .model 0
  | fuel + 1, s, input =>
    if input.isEmpty then .ok (.ok (s, []))
    else do
      match ← onceP p m s input with
      | .error e => pure (.error e)                      -- `?`
      | .ok o => do
        -- input = &input[consumed..]
        check (decide (o.consumed ≤ input.length)) .decoder (if m = .borrow then 187 else 214)
        match ← feedP p m fuel o.st (input.drop o.consumed) with
        | .error (e, es) => pure (.error (e, o.emits ++ es))
        | .ok (s', es) => pure (.ok (s', o.emits ++ es))

def feedAllP (p : Params) (m : Method) (s : DecState) (input : List UInt8) :=
  feedP p m (input.length + 1) s input

/-! #### the `Decoder` object: calls continue after an error -/

/-- What one `Decoder::decode` / `decode_copy` / `decode_anchored` call leaves behind. -/
structure CallOut where
  /-- `self.state` after the call -/
  st : DecState
  /-- what the call pushed to the iovec (also when it failed) -/
  emits : List Emit
  /-- `Err(e)` -/
  err : Option DecErr
  deriving Repr, DecidableEq

/-- `Decoder::decode` (lib.rs:282-287) / `decode_copy` (290-295): `self.state` is swapped with
`Default::default()` (= `InitialState`), the old state runs `decode_borrow`, and `?` returns
early on `Err` — leaving `InitialState` in place.  On `Ok` the new state is stored. -/
def call (p : Params) (m : Method) (s : DecState) (input : List UInt8) : CallOut :=
  match feedAll p m s input with
  | .ok (s', es) => ⟨s', es, none⟩
  | .error (e, es) => ⟨.initial, es, some e⟩

def callP (p : Params) (m : Method) (s : DecState) (input : List UInt8) : PRes CallOut := do
  match ← feedAllP p m s input with
  | .ok (s', es) => pure ⟨s', es, none⟩
  | .error (e, es) => pure ⟨.initial, es, some e⟩

/-- A sequence of calls on one `Decoder`, continuing after errors: the verdict of every call,
everything pushed to the iovec, the final state. -/
structure CallsOut where
  verdicts : List (Option DecErr)
  emits : List Emit
  st : DecState
  deriving Repr, DecidableEq

def calls (p : Params) : DecState → List (Method × List UInt8) → CallsOut
  | s, [] => ⟨[], [], s⟩
  | s, (m, d) :: rest =>
    let o := call p m s d
    let r := calls p o.st rest
    ⟨o.err :: r.verdicts, o.emits ++ r.emits, r.st⟩

def callsP (p : Params) : DecState → List (Method × List UInt8) → PRes CallsOut
  | s, [] => pure ⟨[], [], s⟩
  | s, (m, d) :: rest => do
    let o ← callP p m s d
    let r ← callsP p o.st rest
    pure ⟨o.err :: r.verdicts, o.emits ++ r.emits, r.st⟩

/-- A whole life of a `Decoder::new()`: the calls, then `finish(self)` (lib.rs:313-316). -/
def session (p : Params) (pieces : List (Method × List UInt8)) : CallsOut × Except DecErr Unit :=
  let r := calls p .initial pieces
  (r, finish r.st)

def sessionP (p : Params) (pieces : List (Method × List UInt8)) : PRes (CallsOut × Except DecErr Unit) := do
  let r ← callsP p .initial pieces
  pure (r, finish r.st)

end Dec

end Woodpile.Hcobs

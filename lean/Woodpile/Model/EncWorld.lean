/-
The HCOBS encoder / decoder state machines (Model/Hcobs.lean) driving the
structural OwningIovec model (Model/Iovec.lean): each `Emit` becomes the
`OwningIovec` call the Rust code makes (`push`, `push_copy`, `register_patch`,
`backfill_or_panic`).  This is what C09 (lag) and C10 (streaming footprint)
are stated on.  Import-free apart from sibling models.
-/
import Woodpile.Model.Hcobs
import Woodpile.Model.Iovec

namespace Woodpile.EncWorld
open Woodpile.Hcobs Woodpile.Iovec Woodpile.Pipe

/-- Where a piece of codec input lives: a caller buffer (`ext`) or arena memory
(an anchored slice).  `base` is the slice the bytes were read from. -/
structure Src where
  base : Slice
  deriving Repr

/-- Apply one emit to iovec `i`.  `toks` maps placeholder ids (in registration
order) to backref tokens.  For `append`, `src` locates the bytes: the emit's
bytes are `src` advanced by `srcOff`. -/
def applyEmit (w : World) (i : Nat) (toks : List Backref) (e : Emit) (src : Slice) :
    Option (World × List Backref) :=
  match e.op with
  | .append bs =>
    match e.method with
    | .copy => (w.pushCopy i bs).map (·, toks)
    | .borrow => (w.push i { src with len := bs.length }).map (·, toks)
  | .register n =>
    match w.registerPatch i (List.replicate n 0) with
    | some (w', b) => some (w', toks ++ [b])
    | none => none
  | .fill id bs =>
    match toks[id]? with
    | some b => (w.backfill i b bs).map (·, toks)
    | none => none

/-- Apply the emits of one state-machine step; borrowed appends all refer to the
front of the not-yet-consumed input, which lives at `src`. -/
def applyStep (w : World) (i : Nat) (toks : List Backref) : List Emit → Slice → Option (World × List Backref)
  | [], _ => some (w, toks)
  | e :: rest, src =>
    match applyEmit w i toks e src with
    | some (w', toks') => applyStep w' i toks' rest src
    | none => none

structure EncW where
  st : EncState
  /-- next placeholder id = number of placeholders registered so far -/
  nid : Nat
  toks : List Backref
  deriving Repr

/-- `Encoder::new_from_iovec`: register the first header placeholder. -/
def encInit (p : Params) (w : World) (i : Nat) : Option (World × EncW) :=
  let (s0, e0) := Enc.init p 0
  match applyStep w i [] e0 ⟨.ext 0, 0, 0⟩ with
  | some (w', toks) => some (w', ⟨s0, 1, toks⟩)
  | none => none

/-- `encode` / `encode_copy` of a piece whose bytes are `input`, located at `base`
(a caller buffer, or arena memory for anchored input). -/
def encFeed (p : Params) : Nat → World → Nat → EncW → Method → Slice → List UInt8 → Nat → Option (World × EncW)
  | 0, w, _, e, _, _, _, _ => some (w, e)
  | fuel + 1, w, i, e, m, base, input, pos =>
    if input.isEmpty then some (w, e)
    else
      let o := Enc.consumeOnce p e.st e.nid m input
      match applyStep w i e.toks o.emits { base with off := base.off + pos, len := base.len - pos } with
      | none => none
      | some (w', toks') =>
        encFeed p fuel w' i ⟨o.st, o.nextId, toks'⟩ m base (input.drop o.consumed) (pos + o.consumed)

/-- `Encoder::finish`. -/
def encFinish (p : Params) (w : World) (i : Nat) (e : EncW) : Option World :=
  (applyStep w i e.toks (Enc.finish p e.st) ⟨.ext 0, 0, 0⟩).map (·.1)

/-- `decode` / `decode_copy` of a piece; returns the error (if any) after applying
whatever was emitted before it, exactly as the Rust code does. -/
def decFeed (p : Params) (m : Method) : Nat → World → Nat → DecState → Slice → List UInt8 → Nat →
    Option (World × Except DecErr DecState)
  | 0, w, _, s, _, _, _ => some (w, .ok s)
  | fuel + 1, w, i, s, base, input, pos =>
    match input with
    | [] => some (w, .ok s)
    | b :: rest =>
      match Dec.once p m s b rest with
      | .error (err, es) =>
        match applyStep w i [] es base with
        | some (w', _) => some (w', .error err)
        | none => none
      | .ok o =>
        match applyStep w i [] o.emits { base with off := base.off + pos, len := base.len - pos } with
        | none => none
        | some (w', _) => decFeed p m fuel w' i o.st base (input.drop o.consumed) (pos + o.consumed)

end Woodpile.EncWorld

/-
The HCOBS encoder / decoder state machines (Model/Hcobs.lean) driving the
structural OwningIovec model (Model/Iovec.lean): each `Emit` becomes the
`OwningIovec` call the Rust code makes (`push`, `push_copy`, `register_patch`,
`backfill_or_panic`).  This is what C09 (lag) and C10 (streaming footprint)
are stated on.  Import-free apart from sibling models.
-/
import Woodpile.Model.Hcobs
import Woodpile.Model.Iovec

namespace Woodpile.EncWorld
open Woodpile.Hcobs Woodpile.Iovec Woodpile.Pipe

/-- Where a piece of codec input lives: a caller buffer (`ext`) or arena memory
(an anchored slice).  `base` is the slice the bytes were read from. -/
structure Src where
  base : Slice
  deriving Repr

/-- Apply one emit to iovec `i`.  `toks` maps placeholder ids (in registration
order) to backref tokens.  For `append`, `src` locates the bytes: the emit's
bytes are `src` advanced by `srcOff`. -/
def applyEmit (w : World) (i : Nat) (toks : List Backref) (e : Emit) (src : Slice) :
    Option (World × List Backref) :=
  match e.op with
  | .append bs =>
    match e.method with
    | .copy => (w.pushCopy i bs).map (·, toks)
    | .borrow => (w.push i { src with len := bs.length }).map (·, toks)
  | .register n =>
    match w.registerPatch i (List.replicate n 0) with
    | some (w', b) => some (w', toks ++ [b])
    | none => none
  | .fill id bs =>
    match toks[id]? with
    | some b => (w.backfill i b bs).map (·, toks)
    | none => none

/-- Apply the emits produced for one input piece located at `base`.  Borrowed
appends refer to consecutive sub-slices of `base`, except that bytes the codec
drops (the stuff sequence on the encoder side) or injects are accounted for by
`skip`: for every emit the caller provides the offset of its bytes in the piece. -/
def applyEmits (w : World) (i : Nat) (toks : List Backref) :
    List (Emit × Nat) → Slice → Option (World × List Backref)
  | [], _ => some (w, toks)
  | (e, off) :: rest, base =>
    match applyEmit w i toks e { base with off := base.off + off } with
    | some (w', toks') => applyEmits w' i toks' rest base
    | none => none

end Woodpile.EncWorld

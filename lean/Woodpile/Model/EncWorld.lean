/-
The HCOBS encoder / decoder state machines (Model/Hcobs.lean) driving the
structural OwningIovec model (Model/Iovec.lean): each `Emit` becomes the
`OwningIovec` call the Rust code makes (`push`, `push_copy`, `register_patch`,
`backfill_or_panic`).  This is what C09 (lag) and C10 (streaming footprint)
are stated on.  Import-free apart from sibling models.
-/
import Woodpile.Model.Hcobs
import Woodpile.Model.Iovec

namespace Woodpile.EncWorld
open Woodpile.Hcobs Woodpile.Iovec Woodpile.Pipe

/-- Where a piece of codec input lives: a caller buffer (`ext`) or arena memory
(an anchored slice).  `base` is the slice the bytes were read from. -/
structure Src where
  base : Slice
  deriving Repr

/-- Apply one emit to iovec `i`.  `toks` maps placeholder ids (in registration
order) to backref tokens.  For `append`, `src` locates the bytes: the emit's
bytes are `src` advanced by `srcOff`. -/
def applyEmit (w : World) (i : Nat) (toks : List Backref) (e : Emit) (src : Slice) :
    Option (World × List Backref) :=
  match e.op with
  | .append bs =>
    match e.method with
    | .copy => (w.pushCopy i bs).map (·, toks)
    | .borrow => (w.push i { src with len := bs.length }).map (·, toks)
  | .register n =>
    match w.registerPatch i (List.replicate n 0) with
    | some (w', b) => some (w', toks ++ [b])
    | none => none
  | .fill id bs =>
    match toks[id]? with
    | some b => (w.backfill i b bs).map (·, toks)
    | none => none

/-- Apply the emits of one state-machine step; borrowed appends all refer to the
front of the not-yet-consumed input, which lives at `src`. -/
def applyStep (w : World) (i : Nat) (toks : List Backref) : List Emit → Slice → Option (World × List Backref)
  | [], _ => some (w, toks)
  | e :: rest, src =>
    match applyEmit w i toks e src with
    | some (w', toks') => applyStep w' i toks' rest src
    | none => none

structure EncW where
  st : EncState
  /-- next placeholder id = number of placeholders registered so far -/
  nid : Nat
  toks : List Backref
  deriving Repr

/-- `Encoder::new_from_iovec`: register the first header placeholder. -/
def encInit (p : Params) (w : World) (i : Nat) : Option (World × EncW) :=
  let (s0, e0) := Enc.init p 0
  match applyStep w i [] e0 ⟨.ext 0, 0, 0⟩ with
  | some (w', toks) => some (w', ⟨s0, 1, toks⟩)
  | none => none

/-- `encode` / `encode_copy` of a piece whose bytes are `input`, located at `base`
(a caller buffer, or arena memory for anchored input). -/
def encFeed (p : Params) : Nat → World → Nat → EncW → Method → Slice → List UInt8 → Nat → Option (World × EncW)
  | 0, w, _, e, _, _, _, _ => some (w, e)
  | fuel + 1, w, i, e, m, base, input, pos =>
    if input.isEmpty then some (w, e)
    else
      let o := Enc.consumeOnce p e.st e.nid m input
      match applyStep w i e.toks o.emits { base with off := base.off + pos, len := base.len - pos } with
      | none => none
      | some (w', toks') =>
        encFeed p fuel w' i ⟨o.st, o.nextId, toks'⟩ m base (input.drop o.consumed) (pos + o.consumed)

/-- `Encoder::finish`. -/
def encFinish (p : Params) (w : World) (i : Nat) (e : EncW) : Option World :=
  (applyStep w i e.toks (Enc.finish p e.st) ⟨.ext 0, 0, 0⟩).map (·.1)

/-- `decode` / `decode_copy` of a piece; returns the error (if any) after applying
whatever was emitted before it, exactly as the Rust code does. -/
def decFeed (p : Params) (m : Method) : Nat → World → Nat → DecState → Slice → List UInt8 → Nat →
    Option (World × Except DecErr DecState)
  | 0, w, _, s, _, _, _ => some (w, .ok s)
  | fuel + 1, w, i, s, base, input, pos =>
    match input with
    | [] => some (w, .ok s)
    | b :: rest =>
      match Dec.once p m s b rest with
      | .error (err, es) =>
        match applyStep w i [] es base with
        | some (w', _) => some (w', .error err)
        | none => none
      | .ok o =>
        match applyStep w i [] o.emits { base with off := base.off + pos, len := base.len - pos } with
        | none => none
        | some (w', _) => decFeed p m fuel w' i o.st base (input.drop o.consumed) (pos + o.consumed)

/-! ### Anchored input from the codec's own arena (`read_n`, `encode_read`, `decode_read`) -/

/-- `Encoder::read_n` / `Decoder::read_n` = `self.iovec.arena().read_n(reader, count, attempts)`:
`World.readN` on iovec `i`'s own arena, the arena put back.  Returns the world, the result (the
anchored slice, or the io error kind) and the reader-side transcript. -/
def readOwn (w : World) (i : Nat) (r : ReadN.Reader) (count attempts : Nat) :
    Option (World × Except Nat ASlice × ReadN.Out) :=
  match w.iov i with
  | none => none
  | some v =>
    let (w1, ar', res, o) := w.readN v.arena r count attempts
    let w2 := match w1.iov i with
      | some v1 => w1.setIov i (some { v1 with arena := ar' })
      | none => w1
    some (w2, res, o)

/-- The `push_anchor` that ends `encode_anchored` / `decode_anchored`; an empty slice is skipped
entirely ("avoids accumulating useless anchors"). -/
def pushAnchorOf (w : World) (i : Nat) (a : ASlice) : Option World :=
  if a.slice.len = 0 then some w else w.pushAnchor i a.anchor

/-- `Encoder::encode_anchored(a)` for a slice `a` of arena memory: `encode(a.slice)`, then
`push_anchor(a.anchor)`. -/
def encodeAnchored (p : Params) (w : World) (i : Nat) (e : EncW) (a : ASlice) : Option (World × EncW) :=
  let bytes := w.sliceBytes a.slice
  match encFeed p (2 * bytes.length + 2) w i e .borrow a.slice bytes 0 with
  | none => none
  | some (w', e') =>
    match pushAnchorOf w' i a with
    | some w'' => some (w'', e')
    | none => none

/-- `Encoder::encode_read(reader, count, attempts)`: `read_n`, then `encode_anchored` of what was read;
a failed read encodes nothing.  Returns `Ok(bytes read)` or the io error kind. -/
def encodeRead (p : Params) (w : World) (i : Nat) (e : EncW) (r : ReadN.Reader) (count attempts : Nat) :
    Option (World × EncW × Except Nat Nat × ReadN.Out) :=
  match readOwn w i r count attempts with
  | none => none
  | some (w1, .error k, o) => some (w1, e, .error k, o)
  | some (w1, .ok a, o) =>
    match encodeAnchored p w1 i e a with
    | some (w2, e') => some (w2, e', .ok a.slice.len, o)
    | none => none

/-- `Decoder::decode_anchored(a)`: `decode(a.slice)`, then `push_anchor(a.anchor)` whatever the
verdict. -/
def decodeAnchored (p : Params) (w : World) (i : Nat) (s : DecState) (a : ASlice) :
    Option (World × Except DecErr DecState) :=
  let bytes := w.sliceBytes a.slice
  match decFeed p .borrow (bytes.length + 1) w i s a.slice bytes 0 with
  | none => none
  | some (w', res) =>
    match pushAnchorOf w' i a with
    | some w'' => some (w'', res)
    | none => none

/-- `Decoder::decode_read(reader, count, attempts)`: outer `Except` = the io result of `read_n`
(`Ok(bytes read)`), inner = the decoding verdict. -/
def decodeRead (p : Params) (w : World) (i : Nat) (s : DecState) (r : ReadN.Reader) (count attempts : Nat) :
    Option (World × Except Nat (Nat × Except DecErr DecState) × ReadN.Out) :=
  match readOwn w i r count attempts with
  | none => none
  | some (w1, .error k, o) => some (w1, .error k, o)
  | some (w1, .ok a, o) =>
    match decodeAnchored p w1 i s a with
    | some (w2, res) => some (w2, .ok (a.slice.len, res), o)
    | none => none

end Woodpile.EncWorld

/-
Layer B — structural model of `owning_iovec` (implementation.rs, global_deque.rs,
byte_arena/{mod,anchor,alloc_cache}.rs).

Addresses are symbolic: a region is an arena chunk (its allocation ordinal) or a
caller-provided buffer (its id), plus an offset.  Chunk liveness is *derived*:
a chunk is live iff some holder (an arena's allocation cache, an anchor in some
iovec's anchor deque, a detached `AnchoredSlice`'s anchor) still references it —
that is what `Arc<Chunk>` implements.

One Lean function per Rust method, same control flow.  `none` = the Rust code
panics.  Import-free apart from sibling models.
-/
import Woodpile.Model.Arena
import Woodpile.Model.ReadN

namespace Woodpile.Iovec
open Woodpile.Arena

inductive Region where
  | chunk (k : Nat)
  | ext (b : Nat)
  deriving Repr, DecidableEq

/-- An `IoSlice`: symbolic base address and length. -/
structure Slice where
  region : Region
  off : Nat
  len : Nat
  deriving Repr, DecidableEq

/-- `byte_arena::Anchor`. -/
structure Anchor where
  count : Nat
  chunk : Option Nat
  deriving Repr, DecidableEq

/-- `AnchoredSlice`. -/
structure ASlice where
  slice : Slice
  anchor : Anchor
  deriving Repr, DecidableEq

def ASlice.empty : ASlice := ⟨⟨.ext 0, 0, 0⟩, ⟨0, none⟩⟩

structure BackrefInfo where
  sliceIndex : Nat
  begin : Nat
  len : Nat
  deriving Repr, DecidableEq

/-- `Backref`: `none` = the zero-sized backref. -/
abbrev Backref := Option (Nat × BackrefInfo)

/-- The tuning constants of implementation.rs. -/
structure Policy where
  smallCopy : Nat
  maxOppCopy : Nat
  deriving Repr, DecidableEq

/-- `OwningIovec` (`GlobalDeque` flattened in). -/
structure Iov where
  slices : List Slice
  anchors : List Anchor
  logicalSize : Nat
  consumedSize : Nat
  consumedSlices : Nat
  arena : Arena
  /-- live pending backrefs, ascending key (`SortedDeque`; see C16) -/
  backrefs : List (Nat × BackrefInfo)
  deriving Repr, DecidableEq

def Iov.empty : Iov := ⟨[], [], 0, 0, 0, ⟨none⟩, []⟩

/-- Chunk memory: contents written so far (index = chunk ordinal). -/
structure Heap where
  chunks : List (List UInt8)
  deriving Repr, DecidableEq

def Heap.get (h : Heap) (k : Nat) : List UInt8 := h.chunks.getD k []

def listSet {α} (l : List α) (i : Nat) (x : α) (dflt : α) : List α :=
  if i < l.length then l.set i x else l ++ List.replicate (i - l.length) dflt ++ [x]

/-- Write `bytes` at offset `off` of chunk `k` (zero-padding any gap). -/
def Heap.write (h : Heap) (k off : Nat) (bytes : List UInt8) : Heap :=
  let old := h.get k
  let padded := if old.length < off then old ++ List.replicate (off - old.length) 0 else old
  let new := padded.take off ++ bytes ++ padded.drop (off + bytes.length)
  ⟨listSet h.chunks k new []⟩

def Heap.read (h : Heap) (k off len : Nat) : List UInt8 :=
  let c := h.get k
  let s := (c.drop off).take len
  s ++ List.replicate (len - s.length) 0

/-! ### `Anchor` -/

def Anchor.decrement (a : Anchor) (d : Nat) : Anchor × Nat :=
  let t := min a.count d
  ({ a with count := a.count - t }, d - t)

/-- `Anchor::merge_ref_or_create`: returns the updated old anchor and the fresh one, if any. -/
def mergeRefOrCreate (old : Option Anchor) (chunk : Nat) : Option Anchor × Option Anchor :=
  match old with
  | some a => if a.chunk = some chunk then (some { a with count := a.count + 1 }, none)
              else (some a, some ⟨1, some chunk⟩)
  | none => (none, some ⟨1, some chunk⟩)

/-! ### Arena queries on slices -/

/-- `ByteArena::contains`: the slice lies in the current cache's chunk. -/
def arenaContains (a : Arena) (s : Slice) : Bool :=
  match a.cache with
  | some c => s.region = .chunk c.chunk ∧ s.off + s.len ≤ c.cap
  | none => false

/-- `ByteArena::is_last`. -/
def arenaIsLast (a : Arena) (s : Slice) : Bool :=
  match a.cache with
  | some c => arenaContains a s ∧ s.off + s.len = c.bump
  | none => false

/-- `ByteArena::try_join`. -/
def tryJoin (a : Arena) (l r : Slice) : Option Slice :=
  if arenaContains a l ∧ arenaContains a r ∧ l.off + l.len = r.off then
    some ⟨l.region, l.off, l.len + r.len⟩
  else none

/-! ### `GlobalDeque` -/

def setLast {α} (l : List α) (x : α) : List α :=
  match l with
  | [] => []
  | _ => l.dropLast ++ [x]

/-- `maybe_collapse_last_pair` with `try_join` (= `OwningIovec::optimize`). `none` = assertion failure. -/
def Iov.optimize (v : Iov) : Option Iov :=
  let n := v.slices.length
  if n < 2 then some v
  else
    match v.anchors.getLast? with
    | none => none
    | some anchor =>
      if anchor.count = 0 then none
      else if anchor.count < 2 then some v
      else
        match tryJoin v.arena (v.slices.getD (n - 2) ⟨.ext 0, 0, 0⟩) (v.slices.getD (n - 1) ⟨.ext 0, 0, 0⟩) with
        | none => some v
        | some m =>
          some { v with slices := setLast v.slices.dropLast m,
                        anchors := setLast v.anchors { anchor with count := anchor.count - 1 } }

/-- `GlobalDeque::push_borrowed` followed by `optimize`. -/
def Iov.pushBorrowedSlice (v : Iov) (s : Slice) : Option Iov :=
  if s.len = 0 then none
  else
    let anchors := if v.anchors.isEmpty then [⟨0, none⟩] else v.anchors
    let anchors := match anchors.getLast? with
      | some a => setLast anchors { a with count := a.count + 1 }
      | none => anchors
    Iov.optimize { v with slices := v.slices ++ [s], anchors := anchors,
                          logicalSize := v.logicalSize + s.len }

/-- `GlobalDeque::consume`. -/
def drainAnchors : Nat → List Anchor → Nat → Option (List Anchor)
  | _, anchors, 0 => some anchors
  | 0, _, _ + 1 => none
  | fuel + 1, anchors, n + 1 =>
    match anchors with
    | [] => none
    | front :: rest =>
      let (front', left) := front.decrement (n + 1)
      if front'.count = 0 then drainAnchors fuel rest left
      else if left = 0 then some (front' :: rest) else none

def dropZeroAnchors : List Anchor → List Anchor
  | [] => []
  | a :: rest => if a.count = 0 then dropZeroAnchors rest else a :: rest

def Iov.consumeSlices (v : Iov) (count : Nat) : Option (Iov × Nat) :=
  let count := min count v.slices.length
  let size := ((v.slices.take count).map (·.len)).foldl (· + ·) 0
  match drainAnchors (v.anchors.length + 1) v.anchors count with
  | none => none
  | some anchors =>
    let anchors := dropZeroAnchors anchors
    let slices := v.slices.drop count
    if slices.isEmpty ≠ anchors.isEmpty then none
    else some ({ v with slices := slices, anchors := anchors, consumedSize := v.consumedSize + size,
                        consumedSlices := v.consumedSlices + count }, count)

/-- `GlobalDeque::consume_by_bytes`. -/
def Iov.consumeBytes : Nat → Iov → Nat → Nat → Option (Iov × Nat)
  | 0, v, _, consumed => some (v, consumed)
  | fuel + 1, v, count, consumed =>
    if consumed ≥ count then some (v, consumed)
    else
      match v.slices with
      | [] => none
      | s :: rest =>
        let n := min (count - consumed) s.len
        if n = s.len then
          match v.consumeSlices 1 with
          | none => none
          | some (v', _) => Iov.consumeBytes fuel v' count (consumed + n)
        else
          some ({ v with slices := { s with off := s.off + n, len := s.len - n } :: rest,
                         consumedSize := v.consumedSize + n }, consumed + n)

/-! ### `OwningIovec` read side -/

def Iov.hasPending (v : Iov) : Bool := !v.backrefs.isEmpty

/-- `stable_prefix` (`get_logical_prefix`): `none` = arithmetic underflow panic. -/
def Iov.stableCount (v : Iov) : Option Nat :=
  match v.backrefs.head? with
  | none => some v.slices.length
  | some (_, info) =>
    if info.sliceIndex < v.consumedSlices then none
    else some (min (info.sliceIndex - v.consumedSlices) v.slices.length)

def Iov.totalSize (v : Iov) : Nat := v.logicalSize - v.consumedSize

/-! ### The world: heap, objects, caller buffers -/

structure World where
  pol : Policy
  tun : Tuning
  heap : Heap
  next : Nat
  iovs : List (Option Iov)
  arenas : List (Option Arena)
  aslices : List (Option ASlice)
  brefs : List Backref
  exts : List (List UInt8)
  deriving Repr

def World.init (pol : Policy) (tun : Tuning) : World :=
  ⟨pol, tun, ⟨[]⟩, 0, [], [], [], [], []⟩

def World.iov (w : World) (i : Nat) : Option Iov := (w.iovs.getD i none)
def World.setIov (w : World) (i : Nat) (v : Option Iov) : World := { w with iovs := listSet w.iovs i v none }
def World.addIov (w : World) (v : Iov) : World × Nat := ({ w with iovs := w.iovs ++ [some v] }, w.iovs.length)
def World.addExt (w : World) (bs : List UInt8) : World × Nat := ({ w with exts := w.exts ++ [bs] }, w.exts.length)
def World.addASlice (w : World) (s : ASlice) : World × Nat := ({ w with aslices := w.aslices ++ [some s] }, w.aslices.length)
def World.addArena (w : World) (a : Arena) : World × Nat := ({ w with arenas := w.arenas ++ [some a] }, w.arenas.length)
def World.addBref (w : World) (b : Backref) : World × Nat := ({ w with brefs := w.brefs ++ [b] }, w.brefs.length)

/-- Bytes a slice points at (through the heap or a caller buffer). -/
def World.sliceBytes (w : World) (s : Slice) : List UInt8 :=
  match s.region with
  | .chunk k => w.heap.read k s.off s.len
  | .ext b => ((w.exts.getD b []).drop s.off).take s.len

/-- Chunks held by an arena / an anchor list / a detached slice. -/
def arenaChunks (a : Arena) : List Nat := match a.cache with | some c => [c.chunk] | none => []
def anchorChunks (as : List Anchor) : List Nat := as.filterMap (·.chunk)

/-- The derived live set (sorted, duplicates removed). -/
def World.liveChunks (w : World) : List Nat :=
  let fromIovs := w.iovs.foldl (fun acc o => match o with
    | some v => acc ++ arenaChunks v.arena ++ anchorChunks v.anchors
    | none => acc) []
  let fromArenas := w.arenas.foldl (fun acc o => match o with
    | some a => acc ++ arenaChunks a
    | none => acc) []
  let fromSlices := w.aslices.foldl (fun acc o => match o with
    | some s => acc ++ anchorChunks [s.anchor]
    | none => acc) []
  let all := fromIovs ++ fromArenas ++ fromSlices
  (List.range w.next).filter (fun k => all.contains k)

/-- chunk capacity as allocated (recorded by `allocIn`) -/
structure AllocOut where
  arena : Arena
  next : Nat
  chunk : Nat
  off : Nat

/-- `ByteArena::copy` into `v`'s arena with `GlobalDeque::push` and `optimize` (= `push_copy`). -/
def World.pushCopy (w : World) (i : Nat) (src : List UInt8) : Option World :=
  match w.iov i with
  | none => none
  | some v =>
    if src.isEmpty then some w
    else
      let (arena', next', chunk, off) := alloc w.tun v.arena w.next src.length
      let heap' := w.heap.write chunk off src
      let (old', fresh) := mergeRefOrCreate v.anchors.getLast? chunk
      let anchors := match old' with
        | some a => setLast v.anchors a
        | none => v.anchors
      let anchors := match fresh with
        | some a => anchors ++ [a]
        | none => anchors
      if anchors.isEmpty then none
      else
        let v' : Iov := { v with slices := v.slices ++ [⟨.chunk chunk, off, src.length⟩], anchors := anchors,
                                 logicalSize := v.logicalSize + src.length, arena := arena' }
        match v'.optimize with
        | none => none
        | some v'' => some { (w.setIov i (some v'')) with heap := heap', next := next' }

/-- `push_borrowed` of a slice that lives as long as the iovec. -/
def World.pushBorrowed (w : World) (i : Nat) (s : Slice) : Option World :=
  match w.iov i with
  | none => none
  | some v =>
    if s.len = 0 then some w
    else match v.pushBorrowedSlice s with
      | none => none
      | some v' => some (w.setIov i (some v'))

/-- `OwningIovec::push`: copy small slices, and medium ones when they would extend the last slice. -/
def World.push (w : World) (i : Nat) (s : Slice) : Option World :=
  match w.iov i with
  | none => none
  | some v =>
    let small : Bool := s.len ≤ w.pol.smallCopy
    let appendable : Bool := s.len ≤ w.pol.maxOppCopy && v.arena.remaining ≥ s.len &&
      (match v.slices.getLast? with | some l => arenaIsLast v.arena l | none => false)
    if small || appendable then w.pushCopy i (w.sliceBytes s) else w.pushBorrowed i s

/-- `register_patch`. Returns the backref token. -/
def World.registerPatch (w : World) (i : Nat) (pattern : List UInt8) : Option (World × Backref) :=
  if pattern.isEmpty then some (w, none)
  else
    match w.pushCopy i pattern with
    | none => none
    | some w' =>
      match w'.iov i with
      | none => none
      | some v =>
        match v.slices.getLast? with
        | none => none
        | some last =>
          let key := v.logicalSize
          let info : BackrefInfo := ⟨v.consumedSlices + v.slices.length - 1, last.len - pattern.length, pattern.length⟩
          -- push_back_or_panic: keys strictly increasing
          let ok : Bool := match v.backrefs.getLast? with | some (k, _) => k < key | none => true
          if !ok || key = 0 then none
          else some (w'.setIov i (some { v with backrefs := v.backrefs ++ [(key, info)] }), some (key, info))

/-- `backfill_or_panic`. -/
def World.backfill (w : World) (i : Nat) (b : Backref) (src : List UInt8) : Option World :=
  match w.iov i with
  | none => none
  | some v =>
    match b with
    | none => if src.isEmpty then some w else none
    | some (key, info) =>
      if info.len ≠ src.length then none
      else
        match v.backrefs.find? (·.1 = key) with
        | none => none
        | some found =>
          if found ≠ (key, info) then none
          else
            let v' := { v with backrefs := v.backrefs.filter (·.1 ≠ key) }
            if info.sliceIndex < v.consumedSlices then none
            else
              match v.slices[info.sliceIndex - v.consumedSlices]? with
              | none => none
              | some target =>
                if info.begin + src.length > target.len then none
                else
                  match target.region with
                  | .chunk k => some { (w.setIov i (some v')) with heap := w.heap.write k (target.off + info.begin) src }
                  | .ext _ => none  -- unreachable: backref slices are owned

/-- `ConsumingIovec::consume`. -/
def World.consume (w : World) (i : Nat) (count : Nat) : Option (World × Nat) :=
  match w.iov i with
  | none => none
  | some v =>
    match v.stableCount with
    | none => none
    | some n =>
      match v.consumeSlices (min count n) with
      | none => none
      | some (v', k) => some (w.setIov i (some v'), k)

/-- `ConsumingIovec::advance_slices`. -/
def World.advance (w : World) (i : Nat) (count : Nat) : Option (World × Nat) :=
  match w.iov i with
  | none => none
  | some v =>
    match v.stableCount with
    | none => none
    | some n =>
      let stableBytes := ((v.slices.take n).map (·.len)).foldl (· + ·) 0
      let k := min count stableBytes
      match Iov.consumeBytes (v.slices.length + 1) v k 0 with
      | none => none
      | some (v', c) => some (w.setIov i (some v'), c)

/-- `impl Read for ConsumingIovec`: returns the bytes copied out. -/
def World.readInto : Nat → World → Nat → Nat → List UInt8 → Option (World × List UInt8)
  | 0, w, _, _, acc => some (w, acc)
  | fuel + 1, w, i, room, acc =>
    if room = 0 then some (w, acc)
    else
      match w.iov i with
      | none => none
      | some v =>
        match v.stableCount with
        | none => none
        | some n =>
          match (v.slices.take n).head? with
          | none => some (w, acc)
          | some s =>
            let k := min s.len room
            let bytes := (w.sliceBytes s).take k
            match w.advance i k with
            | none => none
            | some (w', _) => World.readInto fuel w' i (room - k) (acc ++ bytes)

/-- `ByteArena::read_n` on `v`'s arena; returns the world and the result (an `ASlice` or an error kind). -/
def World.readN (w : World) (a : Arena) (r : ReadN.Reader) (count attempts : Nat) :
    World × Arena × (Except Nat ASlice) × ReadN.Out :=
  if count = 0 then
    (w, a, .ok ASlice.empty, ⟨.ok [], [], r⟩)
  else
    let (a1, next1, chunk, off) := alloc w.tun a w.next count
    let o := ReadN.readNCore r count attempts
    -- `slice.fill(0)` then the reader writes what it delivers
    let heap1 := w.heap.write chunk off (List.replicate count 0)
    match o.res with
    | .ok got =>
      let heap2 := heap1.write chunk off got
      ({ w with heap := heap2, next := next1 }, release a1 (count - got.length),
        .ok ⟨⟨.chunk chunk, off, got.length⟩, ⟨1, some chunk⟩⟩, o)
    | .err k =>
      ({ w with heap := heap1, next := next1 }, release a1 count, .error k, o)

/-- `OwningIovec::extend`: borrowed pushes, skipping empty slices. -/
def World.extend (w : World) (i : Nat) : List Slice → Option World
  | [] => some w
  | s :: rest =>
    if s.len = 0 then w.extend i rest
    else match w.pushBorrowed i s with
      | none => none
      | some w' => w'.extend i rest

/-- `OwningIovec::push_anchor` (`GlobalDeque::push_anchor`): the anchor goes to the back with count 0. -/
def World.pushAnchor (w : World) (i : Nat) (a : Anchor) : Option World :=
  match w.iov i with
  | none => none
  | some v => some (w.setIov i (some { v with anchors := v.anchors ++ [{ a with count := 0 }] }))

/-- `OwningIovec::clear`. -/
def World.clear (w : World) (i : Nat) : Option World :=
  match w.iov i with
  | none => none
  | some v => some (w.setIov i (some { Iov.empty with arena := v.arena }))

/-- `OwningIovec::take`: the old value moves to a fresh handle, a default one stays. -/
def World.take (w : World) (i : Nat) : Option (World × Nat) :=
  match w.iov i with
  | none => none
  | some v =>
    let (w', j) := (w.setIov i (some Iov.empty)).addIov v
    some (w', j)

/-- `Clone for OwningIovec`: slices, anchors and pending backrefs are copied, the arena is not. -/
def World.clone (w : World) (i : Nat) : Option (World × Nat) :=
  match w.iov i with
  | none => none
  | some v => some (w.addIov { v with arena := ⟨none⟩ })

def World.dropIov (w : World) (i : Nat) : Option World :=
  match w.iov i with
  | none => none
  | some _ => some (w.setIov i none)

/-- `OwningIovec::new_from_slices`. -/
def World.newFromSlices (w : World) (slices : List Slice) (arena : Arena) : World × Nat :=
  let slices := slices.filter (fun s => s.len > 0)
  let anchors : List Anchor := if slices.isEmpty then [] else [⟨slices.length, none⟩]
  w.addIov { Iov.empty with slices := slices, anchors := anchors, arena := arena,
                            logicalSize := (slices.map (·.len)).foldl (· + ·) 0 }

/-! ### `AnchoredSlice` -/

def ASlice.skipPrefix (s : ASlice) (count : Nat) : ASlice × Nat :=
  let c := min count s.slice.len
  ({ s with slice := { s.slice with off := s.slice.off + c, len := s.slice.len - c } }, c)

def ASlice.dropSuffix (s : ASlice) (count : Nat) : ASlice × Nat :=
  let c := min count s.slice.len
  ({ s with slice := { s.slice with len := s.slice.len - c } }, c)

def ASlice.splitAt (s : ASlice) (mid : Nat) : ASlice × ASlice :=
  if mid ≥ s.slice.len then (s, ASlice.empty)
  else ({ s with slice := { s.slice with len := mid } },
        { s with slice := { s.slice with off := s.slice.off + mid, len := s.slice.len - mid } })

end Woodpile.Iovec

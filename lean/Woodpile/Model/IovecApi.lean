/-
Layer B, public-API completion (track `apigaps`): one Lean function per public method of
`owning_iovec` that the structural model (`Model/Iovec.lean`, `Model/IovecOps.lean`) did not
have yet, written in terms of the existing model functions wherever the Rust code is written in
terms of the corresponding Rust functions.

  implementation.rs   FromIterator<IoSlice> / FromIterator<&IoSlice>   `World.fromIter`, `World.fromIterRef`
                      new_from_slices(slices, Some(arena))             `World.newFromSlicesArena`
                      stable_prefix / front / IntoIterator for &_      `Iov.stablePrefix`, `Iov.front`, `Iov.iter`
                      iovs / flatten / flatten_into(dst)               `Iov.iovs`, `World.flatten`, `World.flattenInto`
                      TryFrom<ConsumingIovec> for StableIovec,
                      stable_consumer                                  `Iov.tryStable`
                      StableIovec::{iovs, flatten, flatten_into}       `World.stableIovs`, `World.stableFlatten(Into)`
                      consumer calls through a StableIovec (DerefMut)
                      or through the Err side of stable_consumer       `World.scConsume`, `scAdvance`, `scRead`, `scPop`
  lib.rs              impl Read for ConsumingIovec                     `World.readViaFront` (= `World.readInto`)
                      ZeroCopySink for OwningIovec / for &mut T        `World.appendCopy`, `World.appendBorrow`
  byte_arena/mod.rs   Clone for ByteArena, is_last, Default for
                      AnchoredSlice, Default for Backref               `arenaClone`, `World.isLastIov`, `World.isLastArena`, `ASlice.empty`, `none`

`none` = the Rust code panics (or the handle names no live object).  Import-free apart from
sibling models (linked into `wpmodel`).
-/
import Woodpile.Model.IovecOps

namespace Woodpile.Iovec
open Woodpile.Arena

/-! ### Constructors -/

/-- `impl FromIterator<IoSlice> for OwningIovec`: `iter.into_iter().collect::<Vec<_>>()` then
`OwningIovec::new_from_slices(slices, None)`. -/
def World.fromIter (w : World) (slices : List Slice) : World × Nat :=
  w.newFromSlices slices ⟨none⟩

/-- `impl FromIterator<&IoSlice> for OwningIovec`: `OwningIovec::from_iter(iter.into_iter().copied())`. -/
def World.fromIterRef (w : World) (slices : List Slice) : World × Nat :=
  w.fromIter slices

/-- `OwningIovec::new_from_slices(slices, Some(arena))`: the detached arena `j` moves into the new iovec. -/
def World.newFromSlicesArena (w : World) (j : Nat) (slices : List Slice) : Option (World × Nat) :=
  match w.arena j with
  | some ar => some ((w.setArena j none).newFromSlices slices ar)
  | none => none

/-- `impl Clone for ByteArena`: "Can't clone the `AllocCache`" — the clone is a default arena. -/
def arenaClone (_ : Arena) : Arena := ⟨none⟩

/-! ### Pure read methods of `OwningIovec` -/

/-- `stable_prefix()` = `get_logical_prefix(first pending backref's slice index)`. -/
def Iov.stablePrefix (v : Iov) : Option (List Slice) :=
  match v.stableCount with
  | some n => some (v.slices.take n)
  | none => none

/-- `front()` = `self.stable_prefix().first().copied()`. -/
def Iov.front (v : Iov) : Option (Option Slice) :=
  match v.stablePrefix with
  | some ss => some ss.head?
  | none => none

/-- `impl IntoIterator for &OwningIovec`: `self.stable_prefix().iter()`. -/
def Iov.iter (v : Iov) : Option (List Slice) := v.stablePrefix

/-- `iovs()`: the stable prefix, `Ok` (= `true`) iff no backref is pending. -/
def Iov.iovs (v : Iov) : Option (Bool × List Slice) :=
  match v.stablePrefix with
  | some ss => some (!v.hasPending, ss)
  | none => none

/-- `flatten_into_impl(dst)`: `for iov in self.stable_prefix() { dst.extend_from_slice(iov) }`. -/
def World.flattenIntoImpl (w : World) (v : Iov) (dst : List UInt8) : Option (List UInt8) :=
  match v.stablePrefix with
  | some ss => some (ss.foldl (fun acc s => acc ++ w.sliceBytes s) dst)
  | none => none

/-- `flatten_into(dst)`: `Ok` (= `true`) iff no backref is pending; `dst` is kept and appended to. -/
def World.flattenInto (w : World) (v : Iov) (dst : List UInt8) : Option (Bool × List UInt8) :=
  match w.flattenIntoImpl v dst with
  | some bytes => some (!v.hasPending, bytes)
  | none => none

/-- `flatten()` = `flatten_into(Vec::with_capacity(total_size))`. -/
def World.flatten (w : World) (v : Iov) : Option (Bool × List UInt8) := w.flattenInto v []

/-! ### `StableIovec` -/

/-- `TryFrom<ConsumingIovec> for StableIovec` / `stable_consumer()`: `Ok` iff nothing is pending;
the `Err` side hands the same `ConsumingIovec` back. -/
def Iov.tryStable (v : Iov) : Bool := !v.hasPending

/-- `StableIovec::iovs()` = `self.stable_prefix()` (through two `Deref`s). -/
def World.stableIovs (_ : World) (v : Iov) : Option (List Slice) := v.stablePrefix

/-- `StableIovec::flatten_into(dst)` = `flatten_into_impl(dst)` (no `Result`: nothing is pending). -/
def World.stableFlattenInto (w : World) (v : Iov) (dst : List UInt8) : Option (List UInt8) :=
  w.flattenIntoImpl v dst

/-- `StableIovec::flatten()` = `flatten_into(Vec::with_capacity(total_size))`. -/
def World.stableFlatten (w : World) (v : Iov) : Option (List UInt8) := w.stableFlattenInto v []

/-- A consumer call made through whatever `stable_consumer()` / `StableIovec::try_from(consumer())`
returned: the `StableIovec` (`DerefMut` to the `ConsumingIovec`) or the `ConsumingIovec` handed back as
the error.  Either way it is the plain consumer call; the flag says which side it was. -/
def World.scConsume (w : World) (i count : Nat) : Option (Bool × World × Nat) :=
  match w.iov i with
  | none => none
  | some v => match w.consume i count with
    | some (w', n) => some (v.tryStable, w', n)
    | none => none

def World.scAdvance (w : World) (i count : Nat) : Option (Bool × World × Nat) :=
  match w.iov i with
  | none => none
  | some v => match w.advance i count with
    | some (w', n) => some (v.tryStable, w', n)
    | none => none

def World.scRead (w : World) (i room : Nat) : Option (Bool × World × List UInt8) :=
  match w.iov i with
  | none => none
  | some v => match World.readInto (room + 2) w i room [] with
    | some (w', bytes) => some (v.tryStable, w', bytes)
    | none => none

/-- `pop_front()` through the stable consumer: `assert_eq!(self.consume(1), 1)`. -/
def World.scPop (w : World) (i : Nat) : Option (Bool × World) :=
  match w.iov i with
  | none => none
  | some v => match w.consume i 1 with
    | some (w', 1) => some (v.tryStable, w')
    | _ => none

/-! ### `impl Read for ConsumingIovec`, as written: a loop of `front()` + `advance_slices()` -/

def World.readViaFront : Nat → World → Nat → Nat → List UInt8 → Option (World × List UInt8)
  | 0, w, _, _, acc => some (w, acc)
  | fuel + 1, w, i, room, acc =>
    if room = 0 then some (w, acc)          -- `while !dst.is_empty()`
    else
      match w.iov i with
      | none => none
      | some v =>
        match v.front with                   -- `let Some(slice) = self.front() else { break }`
        | none => none
        | some none => some (w, acc)
        | some (some s) =>
          let k := min s.len room            -- `to_write`
          let bytes := (w.sliceBytes s).take k
          match w.advance i k with           -- `self.advance_slices(to_write)`
          | none => none
          | some (w', _) => World.readViaFront fuel w' i (room - k) (acc ++ bytes)

/-! ### `ZeroCopySink` -/

/-- `ZeroCopySink::append_copy for OwningIovec` = `push_copy`; the blanket `impl for &mut T`
forwards to it, and so does every call through `dyn ZeroCopySink`. -/
def World.appendCopy (w : World) (i : Nat) (bytes : List UInt8) : Option World := w.pushCopy i bytes

/-- `ZeroCopySink::append_borrow for OwningIovec` = `push` (size-adaptive). -/
def World.appendBorrow (w : World) (i : Nat) (s : Slice) : Option World := w.push i s

/-! ### `ByteArena::is_last` used directly -/

/-- `arena.is_last(slice)` for the arena of iovec `i`. -/
def World.isLastIov (w : World) (i : Nat) (s : Slice) : Option Bool :=
  match w.iov i with
  | some v => some (arenaIsLast v.arena s)
  | none => none

/-- `arena.is_last(slice)` for the detached arena `j`. -/
def World.isLastArena (w : World) (j : Nat) (s : Slice) : Option Bool :=
  match w.arena j with
  | some a => some (arenaIsLast a s)
  | none => none

/-! ### Which op lines name live objects

`World.step w op = none` means "the Rust code panics, or a handle of `op` does not name a live object".
`handlesOk` separates the two: the harness answers an op line whose handles are not live with `bad-op`
and leaves its state alone (it never generates one; replays and shrunk cases can contain them). -/

def WOp.handlesOk (w : World) : WOp → Bool
  | .new | .newArena | .newFromSlices _ | .lend _ => true
  | .newFromArena a | .aReserve a _ | .aFlush a | .dropArena a | .readNArena a _ _ _ _ => (w.arena a).isSome
  | .push v _ | .pushBorrowed v _ | .pushCopy v _ | .register v _ | .extend v _ | .consume v _ | .advance v _
  | .read v _ | .reserve v _ | .pop v | .clear v | .take v | .clone v | .drop v | .flush v | .takeArena v
  | .readNIov v _ _ _ _ | .pushAt v _ _ _ | .pushBorrowedAt v _ _ _ => (w.iov v).isSome
  | .pushASlice v s => (w.iov v).isSome && (w.aslice s).isSome
  | .swapArena v a => (w.iov v).isSome && (w.arena a).isSome
  | .sSkip s _ | .sDropSuf s _ | .sSplit s _ | .sTake s | .sClone s | .sDrop s => (w.aslice s).isSome
  | .backfill v b _ => (w.iov v).isSome && b < w.brefs.length

end Woodpile.Iovec

/-
Layer A — `Pipe`: the abstract specification of `OwningIovec` as the codecs and
the consumers see it: a FIFO of byte cells, some of which are placeholders
("holes") still waiting for a backpatch.

Import-free.
-/
namespace Woodpile.Pipe

inductive Cell where
  | byte (b : UInt8)
  | hole (id : Nat)
  deriving Repr, DecidableEq

def Cell.isByte : Cell → Bool
  | .byte _ => true
  | .hole _ => false

structure Pipe where
  /-- unconsumed cells, oldest first -/
  cells : List Cell
  /-- ghost: everything consumed since the last `clear`, oldest first -/
  consumed : List UInt8
  /-- next placeholder identifier -/
  nextId : Nat
  deriving Repr, DecidableEq

def empty : Pipe := ⟨[], [], 0⟩

/-- The producer-side operations a codec can emit. -/
inductive Op where
  | append (bs : List UInt8)
  /-- reserve `n` placeholder bytes; the new placeholder gets id `nextId` -/
  | register (n : Nat)
  /-- fill placeholder `id` with `bs` (`bs.length` = its size) -/
  | fill (id : Nat) (bs : List UInt8)
  deriving Repr, DecidableEq

def Pipe.append (p : Pipe) (bs : List UInt8) : Pipe :=
  { p with cells := p.cells ++ bs.map Cell.byte }

def Pipe.register (p : Pipe) (n : Nat) : Pipe × Nat :=
  ({ p with cells := p.cells ++ List.replicate n (Cell.hole p.nextId), nextId := p.nextId + 1 }, p.nextId)

/-- Replace the cells of placeholder `id`, in order, by `bs`. -/
def fillCells (id : Nat) : List Cell → List UInt8 → List Cell
  | [], _ => []
  | .hole j :: t, b :: bs => if j = id then .byte b :: fillCells id t bs else .hole j :: fillCells id t (b :: bs)
  | c :: t, bs => c :: fillCells id t bs

def Pipe.fill (p : Pipe) (id : Nat) (bs : List UInt8) : Pipe :=
  { p with cells := fillCells id p.cells bs }

def Pipe.apply (p : Pipe) : Op → Pipe
  | .append bs => p.append bs
  | .register n => (p.register n).1
  | .fill id bs => p.fill id bs

def Pipe.run (p : Pipe) (ops : List Op) : Pipe := ops.foldl Pipe.apply p

/-- total number of buffered bytes, placeholders included (`total_size`) -/
def Pipe.size (p : Pipe) : Nat := p.cells.length

def Pipe.pending (p : Pipe) : Bool := p.cells.any (fun c => !c.isByte)

def cellBytes : List Cell → List UInt8
  | [] => []
  | .byte b :: t => b :: cellBytes t
  | .hole _ :: t => cellBytes t

/-- The bytes a consumer may see: everything before the first placeholder. -/
def Pipe.stable (p : Pipe) : List UInt8 := cellBytes (p.cells.takeWhile Cell.isByte)

/-- All buffered bytes when no placeholder is pending (`flatten` = `Ok`). -/
def Pipe.bytes (p : Pipe) : List UInt8 := cellBytes p.cells

/-- Consume up to `k` stable bytes; returns how many were consumed. -/
def Pipe.consume (p : Pipe) (k : Nat) : Pipe × Nat :=
  let n := min k p.stable.length
  ({ p with cells := p.cells.drop n, consumed := p.consumed ++ p.stable.take n }, n)

def Pipe.clear (p : Pipe) : Pipe := { p with cells := [], consumed := [] }

end Woodpile.Pipe

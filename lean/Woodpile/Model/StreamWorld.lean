/-
World-level model of `hcobs/src/stream_reader.rs` (track `rdrworld`): `StreamChunker::pump` and
`StreamReader::next_record_bytes` on top of the structural `World` of `Model/Iovec.lean`.

`Model/Stream.lean` models the same two functions at the level of BYTES (a chunk is a `List UInt8`);
here the objects the Rust code uses are modelled as objects of the world:

* the arena `pump` reads into is a detached `ByteArena` of the caller (`ArenaAt.arena j`; the `chunker`
  harness family) or the arena of the decoder's iovec (`ArenaAt.iov i`: `decoder.consumer().arena()`);
* `StreamChunker::buf` is a detached `AnchoredSlice` of the world (handle `ChunkerW.buf`); every
  `Chunk::Data` handed out is a detached `AnchoredSlice` too (handle in `ChunkW.data`) — its anchor is
  what keeps its chunk alive, independently of the chunker and of the arena;
* every step `pump` performs is one operation of the `iovec` family vocabulary, executed by
  `World.step` itself: `self.buf.take()` = `sTake`, `arena.read_n(carry.chain(reader), ..)` =
  `readNArena` / `readNIov` on the chained reader (`Stream.chain`), dropping the old buffer = `sDrop`,
  `skip_prefix(2)` = `sSkip`, `take().split_at(pos)` = `sSplit`.  So a chunker-only history is a `WOp`
  history (`Proofs/StreamWorld.lean`).
* `StreamReader`: the iovec `self.iovec` (handle `RdW.iov`; moving it into and out of the `Decoder` is
  the identity on the world), `clear()` per `'retry` turn, `decode_anchored(chunk)` =
  `EncWorld.decodeAnchored` of the chunk taken out of the world, and — on every path that drops the
  `Decoder` while it owns the iovec (`?`, `return Ok(None)`, `finish()` failing) — the iovec and its arena
  are dropped and `self.iovec` is the default one `take()` left behind (`resetIov`).

`none` = a Rust panic the byte-level model proves unreachable, or an ill-formed handle.
Core Lean only (linked into the native driver).
-/
import Woodpile.Model.IovecOps
import Woodpile.Model.EncWorld
import Woodpile.Model.Stream

namespace Woodpile.StreamWorld
open Woodpile.Arena Woodpile.ReadN Woodpile.Hcobs Woodpile.Iovec Woodpile.Stream Woodpile.EncWorld

/-- Where the arena `pump` reads into lives. -/
inductive ArenaAt where
  | arena (j : Nat)
  | iov (i : Nat)
  deriving Repr, DecidableEq

/-- `arena.read_n(reader, count, attempts)` as an operation of the `iovec` vocabulary. -/
def readOp (X : ArenaAt) (count attempts : Nat) (r : Reader) : WOp :=
  match X with
  | .arena j => .readNArena j count attempts r.src r.script
  | .iov i => .readNIov i count attempts r.src r.script

/-- `StreamChunker { buf, offset }`: `buf` is the handle of the detached anchored slice. -/
structure ChunkerW where
  buf : Nat
  offset : Nat
  deriving Repr, DecidableEq

/-- `stream_reader::Chunk`; a `Data` chunk is the handle of the anchored slice handed out. -/
inductive ChunkW where
  | sentinel (off : Nat)
  | eof
  | data (off : Nat) (h : Nat)
  deriving Repr, DecidableEq

inductive PumpResW where
  | ok (c : ChunkW)
  | ioerr (kind : Nat)
  | panic
  deriving Repr, DecidableEq

/-- What `pump` threads through: the world, the chunker, the reader, the request sizes the underlying
reader saw (ghost, transcript only). -/
structure PumpSt where
  w : World
  c : ChunkerW
  r : Reader
  reqs : List Nat

inductive RefillW where
  | filled
  | done (res : PumpResW)
  deriving Repr, DecidableEq

/-- `while self.buf.slice().len() < 2 { … }` (`Stream.refill`, same fuel). -/
def refillW (X : ArenaAt) (count : Nat) : Nat → PumpSt → Option (RefillW × PumpSt)
  | 0, s => some (.done .panic, s)
  | fuel + 1, s =>
    match s.w.aslice s.c.buf with
    | none => none
    | some b =>
      if 2 ≤ b.slice.len then some (.filled, s)
      else
        let carry := s.w.sliceBytes b.slice
        let initial := b.slice.len
        -- let buf = self.buf.take();   (the local `buf` is the new handle `t`; `self.buf` is the default slice)
        let t := s.w.aslices.length
        match s.w.step (.sTake s.c.buf) with
        | none => none
        | some w1 =>
          -- let buf = arena.read_n((&mut slice).chain(&mut reader), io_block_size, MAX)
          let cr := chain carry s.r
          let attempts := cr.script.length + 1
          match w1.step (readOp X count attempts cr) with
          | none => none
          | some w2 =>
            -- `count = 0` returns before the chain is ever read
            let o : Out := if count = 0 then ⟨.ok [], [], s.r⟩ else readNCore cr count attempts
            let reqs' := s.reqs ++ readerReqs carry o
            -- the old buffer is dropped when the new value shadows it / on `?`
            match w2.step (.sDrop t) with
            | none => none
            | some w3 =>
              match o.res with
              | .err k => some (.done (.ioerr k), ⟨w3, s.c, o.reader, reqs'⟩)       -- `?`: self.buf stays the default
              | .ok got =>
                let h := t + 1          -- the handle of the slice `read_n` returned
                if got.length = initial then
                  -- No progress, must be Eof.
                  if got.isEmpty then
                    match w3.step (.sDrop h) with
                    | none => none
                    | some w4 => some (.done (.ok .eof), ⟨w4, s.c, o.reader, reqs'⟩)
                  else
                    some (.done (.ok (.data (s.c.offset + got.length) h)),
                      ⟨w3, { s.c with offset := s.c.offset + got.length }, o.reader, reqs'⟩)
                else
                  -- self.buf = buf;   (the default value in the old slot is dropped)
                  match w3.step (.sDrop s.c.buf) with
                  | none => none
                  | some w4 => refillW X count fuel ⟨w4, { s.c with buf := h }, o.reader, reqs'⟩

/-- `StreamChunker::pump(arena, reader, io_block_size)`. -/
def pumpW (clamp : Nat) (X : ArenaAt) (block : Nat) (s : PumpSt) : Option (PumpResW × PumpSt) :=
  let count := max block clamp
  match refillW X count 3 { s with reqs := [] } with
  | none => none
  | some (.done res, s') => some (res, s')
  | some (.filled, s') =>
    match s'.w.aslice s'.c.buf with
    | none => none
    | some b =>
      let bytes := s'.w.sliceBytes b.slice
      if b.slice.len < 2 then some (.panic, s')                          -- assert!(len >= 2)
      else if bytes.take 2 = [FE, FD] then
        match s'.w.step (.sSkip s'.c.buf 2) with
        | none => none
        | some w' => some (.ok (.sentinel (s'.c.offset + 2)), { s' with w := w', c := { s'.c with offset := s'.c.offset + 2 } })
      else
        let sp := splitPos bytes
        if sp = 0 then some (.panic, s')                                  -- assert_ne!(split_pos, 0)
        else
          -- (prefix, self.buf) = self.buf.take().split_at(split_pos)
          let n := s'.w.aslices.length
          match s'.w.step (.sSplit s'.c.buf sp) with
          | none => none
          | some w' =>
            let pre := min sp b.slice.len
            some (.ok (.data (s'.c.offset + pre) n), { s' with w := w', c := ⟨n + 1, s'.c.offset + pre⟩ })

/-- A fresh `StreamChunker` in world `w`: its (empty, default) buffer becomes a new detached slice. -/
def ChunkerW.create (w : World) : World × ChunkerW :=
  let (w', h) := w.addASlice ASlice.empty
  (w', ⟨h, 0⟩)

/-! ### `StreamReader::next_record_bytes` -/

/-- The locals of one turn of the `'retry` loop (`Stream.Rec` without the emit list: the decoded
bytes are in the iovec). -/
structure RecW where
  st : RState
  start : Nat
  stop : Nat
  dec : DecState
  deriving Repr, DecidableEq

def RecW.fresh : RecW := ⟨.skipSentinel, 0, 0, .initial⟩

/-- `StreamReader`: `iov` is the handle of `self.iovec`. -/
structure RdW where
  chunker : ChunkerW
  lastSentinel : Nat
  hist : List Consult
  iov : Nat

inductive NextResW where
  /-- `Ok(Some((&mut self.iovec, start..stop)))` -/
  | some (start stop : Nat)
  | none
  | ioerr (kind : Nat)
  | panic
  deriving Repr, DecidableEq

structure RdSt where
  w : World
  s : RdW
  r : Reader

inductive StepOutW where
  | continue (x : RdSt) (rc : RecW)
  /-- `continue 'retry` -/
  | retry (x : RdSt)
  | done (res : NextResW) (x : RdSt)

/-- The `Decoder` is dropped while it owns the iovec: the iovec, its anchors and its arena go; `self.iovec`
is the default value `take()` left behind. -/
def resetIov (x : RdSt) : RdSt := { x with w := x.w.setIov x.s.iov (some Iov.empty) }

/-- `iovec.total_size()` as the judge sees it. -/
def sizeOf (x : RdSt) : Nat :=
  match x.w.iov x.s.iov with
  | some v => v.totalSize
  | none => 0

/-- The code after the inner `loop` (`Stream.afterBreak`). -/
def afterBreakW (x : RdSt) (rc : RecW) : StepOutW :=
  if rc.start = rc.stop then .done .panic x                        -- assert_ne!(range.start, range.end)
  else if rc.st = .skipRecord then .retry x                        -- self.iovec = decoder.take_iovec(); continue 'retry
  else
    match Dec.finish rc.dec with
    | .error _ => .retry (resetIov x)                               -- `finish(self)` failed: the decoder is gone
    | .ok () => .done (.some rc.start rc.stop) x

/-- `match record_judge(range.clone(), decoder.consumer()) { … }` (`Stream.consult`). -/
def consultW (judge : Judge) (x : RdSt) (rc : RecW) : StepOutW :=
  let q : Consult := ⟨rc.start, rc.stop, sizeOf x⟩
  let x' := { x with s := { x.s with hist := x.s.hist ++ [q] } }
  match judge x.s.hist q with
  | .keepGoing => .continue x' rc
  | .skipRecord => .continue x' { rc with st := .skipRecord }
  | .stop => .done .none (resetIov x')

/-- A non-empty `Data` chunk `a` (handle `hd`) in record state `rc1`: the chunk leaves the world — into
`decode_anchored`, or dropped at the end of the iteration — and the judge is consulted. -/
def onDataW (p : Params) (judge : Judge) (x : RdSt) (rc1 : RecW) (off hd : Nat) (a : ASlice) : Option StepOutW :=
  let w0 := x.w.setASlice hd none
  if rc1.st = .decodeRecord then
    match decodeAnchored p w0 x.s.iov rc1.dec a with
    | none => none
    | some (w', .ok d') => some (consultW judge { x with w := w' } { rc1 with dec := d', stop := off })
    | some (w', .error _) => some (consultW judge { x with w := w' } { rc1 with st := .skipRecord, stop := off })
  else some (consultW judge { x with w := w0 } { rc1 with stop := off })

/-- The `match` on the chunk `pump` returned (`Stream.onChunk`). -/
def onChunkW (p : Params) (judge : Judge) (x : RdSt) (rc : RecW) : ChunkW → Option StepOutW
  | .sentinel off =>
    if off < 2 then some (.done .panic x)                           -- assert!(offset >= 2)
    else
      let x2 := { x with s := { x.s with lastSentinel := off - 2 } }
      match rc.st with
      | .skipSentinel => some (consultW judge x2 { rc with start := off, stop := off })
      | _ => some (afterBreakW x2 rc)
  | .eof =>
    if rc.start = rc.stop then some (.done .none (resetIov x))
    else some (afterBreakW x rc)
  | .data off h =>
    match x.w.aslice h with
    | none => none
    | some a =>
      if a.slice.len = 0 then some (.done .panic x)                 -- assert!(!slice.is_empty())
      else if rc.st = .skipSentinel ∧ off < a.slice.len then some (.done .panic x)   -- offset - len (u64)
      else
        let rc1 : RecW :=
          match rc.st with
          | .skipSentinel => { rc with start := off - a.slice.len, stop := off - a.slice.len, st := .decodeRecord }
          | _ => rc
        onDataW p judge x rc1 off h a

/-- One iteration of the inner `loop` (`Stream.step`). -/
def stepW (clamp : Nat) (p : Params) (judge : Judge) (block : Nat) (x : RdSt) (rc : RecW) : Option StepOutW :=
  if decide (rc.start = rc.stop) ≠ decide (rc.st = .skipSentinel) then some (.done .panic x)
  else
    match pumpW clamp (.iov x.s.iov) block ⟨x.w, x.s.chunker, x.r, []⟩ with
    | none => none
    | some (res, o) =>
      let x1 : RdSt := ⟨o.w, { x.s with chunker := o.c }, o.r⟩
      match res with
      | .ioerr k => some (.done (.ioerr k) (resetIov x1))             -- `?`
      | .panic => some (.done .panic x1)
      | .ok ch => onChunkW p judge x1 rc ch

/-- The top of the `'retry` loop: `self.iovec.clear()`. -/
def clearIov (x : RdSt) : Option RdSt := (x.w.clear x.s.iov).map fun w' => { x with w := w' }

/-- The two nested loops, flattened (`Stream.run`). -/
def runW (clamp : Nat) (p : Params) (judge : Judge) (block : Nat) : Nat → RdSt → RecW → Option (NextResW × RdSt)
  | 0, x, _ => some (.panic, x)
  | fuel + 1, x, rc =>
    match stepW clamp p judge block x rc with
    | none => none
    | some (.done res x') => some (res, x')
    | some (.continue x' rc') => runW clamp p judge block fuel x' rc'
    | some (.retry x') =>
      match clearIov x' with
      | none => none
      | some x'' => runW clamp p judge block fuel x'' RecW.fresh

def bufLen (x : RdSt) : Nat :=
  match x.w.aslice x.s.chunker.buf with
  | some b => b.slice.len
  | none => 0

/-- `Stream.runFuel`. -/
def runFuelW (x : RdSt) : Nat := 2 * (bufLen x + x.r.src.length) + x.r.script.length + 3

/-- `next_record_bytes(reader, judge, io_block_size)`. -/
def nextW (clamp : Nat) (p : Params) (judge : Judge) (block : Option Nat) (x : RdSt) : Option (NextResW × RdSt) :=
  match clearIov x with
  | none => none
  | some x' => runW clamp p judge (block.getD Woodpile.Gen.defaultBlockSize) (runFuelW x) x' RecW.fresh

/-- `StreamReader::new()` in a fresh world: the default iovec (handle 0) and the chunker's default buffer. -/
def RdSt.new (pol : Policy) (tun : Tuning) : RdSt :=
  let w0 := ((World.init pol tun).addIov Iov.empty).1
  let (w1, c) := ChunkerW.create w0
  ⟨w1, ⟨c, 0, [], 0⟩, ⟨[], []⟩⟩

end Woodpile.StreamWorld

/-
Model of `vouched_time::nfs_voucher` (vouched_time/src/nfs_voucher.rs): the
process-wide trusted-path table and base-time cell, with every answer of the
operating system (can the path be opened, what does `stat` say, what time is
it) supplied as an input of the call.

The cell `BASE_TIME : AtomicBaseTime` follows its *sequential* specification
(vouched_time/src/atomic_base_time.rs, `advance_once`): an update is accepted
iff its time is not older than the current one.  `try_update` can additionally
fail under contention or after a poisoning panic; in single-threaded histories
neither happens (no call panics — `no_panic` in `Props/C19.lean`), so it
coincides with `update`.
-/
import Woodpile.Model.Raffle

namespace Woodpile.NfsVoucher
open Woodpile.Raffle

/-- What `file.metadata()` reports: device id, `st_ctime`, `st_ctime_nsec` (both `i64`). -/
structure Stat where
  dev : Nat
  ctimeS : Int
  ctimeNs : Int
  deriving Repr, DecidableEq

/-- The operating system's answers for one path / file within one call. -/
inductive FileAns where
  | openErr              -- `File::options()...open(path)` fails (or the first `metadata()` of `add_trusted_path`)
  | updErr               -- `set_times` or `metadata()` inside `update_base_time` fails
  | stat (s : Stat)      -- everything succeeds and `metadata()` reports `s`
  deriving Repr, DecidableEq

def u64MaxNat : Nat := 18446744073709551615

/-- `x as u64` for an `i64` (two's complement). -/
def asU64 (x : Int) : Nat := (x % 18446744073709551616).toNat

def satMul (a b : Nat) : Nat := min (a * b) u64MaxNat
def satAdd (a b : Nat) : Nat := min (a + b) u64MaxNat
def satSub (a b : Nat) : Nat := a - b

/-- `(stat.ctime() as u64).saturating_mul(1000).saturating_add((stat.ctime_nsec() as u64) / 1_000_000)`. -/
def millisOf (s : Stat) : UInt64 :=
  UInt64.ofNat (satAdd (satMul (asU64 s.ctimeS) 1000) (asU64 s.ctimeNs / 1000000))

/-- Module state: `TRUSTED_PATHS` (device id ↦ path, a `BTreeMap`: sorted by
device id, one path per device; paths are abstract ids) and the cell's
current (base time, voucher). -/
structure St where
  trusted : List (Nat × Nat)
  base : UInt64
  voucher : UInt64
  deriving Repr, DecidableEq

/-- `BaseTime::new()`: the epoch, vouched for by AtomicBaseTime's parameters. -/
def init : St := { trusted := [], base := 0, voucher := vouchRaw abtVouch 0 }

def St.trusts (st : St) (dev : Nat) : Bool := st.trusted.any (·.1 == dev)

/-- `BTreeMap::insert(dev, path)`. -/
def insertTrusted : List (Nat × Nat) → Nat → Nat → List (Nat × Nat)
  | [], dev, path => [(dev, path)]
  | (d, p) :: rest, dev, path =>
    if dev < d then (dev, path) :: (d, p) :: rest
    else if dev = d then (dev, path) :: rest
    else (d, p) :: insertTrusted rest dev path

/-- What a call returns. -/
inductive Ret where
  | unit                                               -- `Ok(())` / `()`
  | ioErr                                              -- `Err(_)`
  | observed (s : Stat) (upd : Option (UInt64 × UInt64)) -- `Ok((stat, upd))`
  | pair (base voucher : UInt64)                       -- `Ok((base, voucher))`
  | bool (b : Bool)
  | panic                                              -- an `assert!` / `expect` fired
  deriving Repr, DecidableEq

/-- `AtomicBaseTime::update` / `try_update` → `advance_once` (sequential):
`none` = the `assert!(BASE_TIME_CHECK.check(..))` in `BaseTime::update` fires;
otherwise the new state and whether the update was applied. -/
def cellUpdate (st : St) (t v : UInt64) : Option (St × Bool) :=
  if t < st.base then some (st, false)                 -- "older than the current value; skip it"
  else if !check baseTimeCheck t v then none
  else some ({ st with base := t, voucher := v }, true)

/-- `AtomicBaseTime::snapshot` (sequential): `none` = its `assert!` fires. -/
def cellSnapshot (st : St) : Option (UInt64 × UInt64) :=
  if check baseTimeCheck st.base st.voucher then some (st.base, st.voucher) else none

/-- `update_base_time(file, options)` once the file is open: `extra` is
`options.extra_device`; `blocking` only selects `update` vs `try_update`, which
coincide here; `touch` is part of the OS answer (`updErr`). -/
def updateBaseTime (st : St) (extra : Option Nat) (ans : FileAns) : St × Ret :=
  match ans with
  | .openErr => (st, .ioErr)
  | .updErr => (st, .ioErr)
  | .stat s =>
    if !st.trusts s.dev && extra != some s.dev then (st, .observed s none)
    else
      let t := millisOf s
      match vouch? nfsVouch t with
      | none => (st, .panic)                           -- the assertion inside `raffle::vouch`
      | some v =>
        match cellUpdate st t v with
        | none => (st, .panic)
        | some (st', _) => (st', .observed s (some (t, v)))

/-- `add_trusted_path(path)`.  The file's device is read twice (once directly,
once inside `update_base_time`); both readings come from the same open file
and are one input here. -/
def addTrustedPath (st : St) (path : Nat) (ans : FileAns) : St × Ret :=
  match ans with
  | .openErr => (st, .ioErr)
  | .updErr => (st, .ioErr)
  | .stat s =>
    match updateBaseTime st (some s.dev) ans with
    | (st', .observed _ (some _)) =>
      ({ st' with trusted := insertTrusted st'.trusted s.dev path }, .unit)
    | (st', .observed _ none) => (st', .panic)         -- `.expect("Path is trusted.")`
    | (st', r) => (st', r)

/-- `observe_file_time(file)`. -/
def observeFileTime (st : St) (ans : FileAns) : St × Ret :=
  updateBaseTime st none ans

/-- `should_refresh_base_time(leeway_ms, now)`.  `rateLimited` says that `now`
is `None` and the thread-local `LAST_UPDATE` is less than 100 ms old; `nowNs`
is `now` or else the clock reading.  `none` = the snapshot assertion fires. -/
def shouldRefresh (st : St) (leewayMs : Nat) (rateLimited : Bool) (nowNs : Int) : Option Bool :=
  if rateLimited then some false
  else
    -- `(now.unix_timestamp_nanos() / 1_000_000).clamp(0, u64::MAX as i128) as u64`
    let wanted : Nat := (min (max (Int.tdiv nowNs 1000000) 0) (u64MaxNat : Int)).toNat
    match cellSnapshot st with
    | none => none
    | some (baseMs, _) =>
      some (decide (satSub wanted baseMs.toNat > leewayMs) && !st.trusted.isEmpty)

/-- `scan_for_base_time_impl()`: the trusted paths in device-id order; the
first successful update wins; an open failure aborts the scan (`?`), a failing
update is remembered and the scan goes on. -/
def scanLoop (st : St) (answers : Nat → FileAns) : List (Nat × Nat) → St × Ret
  | [] => (st, .ioErr)                                  -- the first recorded error, or "no trusted path"
  | (_, path) :: rest =>
    match answers path with
    | .openErr => (st, .ioErr)                          -- `.open(path)?`
    | .updErr => scanLoop st answers rest               -- `err.get_or_insert(e)`
    | .stat s =>
      match updateBaseTime st none (.stat s) with
      | (st', .observed _ (some (t, v))) => (st', .pair t v)
      | (st', .observed _ none) => scanLoop st' answers rest
      | (st', r) => (st', r)

def scanImpl (st : St) (answers : Nat → FileAns) : St × Ret :=
  scanLoop st answers st.trusted

/-- `DEFAULT_LEEWAY_MS`. -/
def defaultLeewayMs : Nat := Woodpile.Gen.defaultLeewayMs

/-- One call of the module's public API with the OS answers it will receive. -/
inductive Call where
  | addTrusted (path : Nat) (ans : FileAns)
  | observe (ans : FileAns)
  | maybeObserve (rateLimited : Bool) (nowNs : Int) (ans : FileAns)
  | scan (rateLimited : Bool) (nowNs : Int) (answers : List (Nat × FileAns))
  | getBaseTime (nowNs : Int) (answers : List (Nat × FileAns))
  | getUnlocked
  | shouldRefresh (leewayMs : Option Nat) (rateLimited : Bool) (nowNs : Int)
  deriving Repr

/-- Answers by path id; a path the OS was not asked about cannot be opened. -/
def lookupAns (answers : List (Nat × FileAns)) (path : Nat) : FileAns :=
  match answers.lookup path with
  | some a => a
  | none => .openErr

/-! The callers of `should_refresh_base_time`.  Each is split into the branch on
the verdict (`…On`, taking the verdict as an argument) and the call itself;
this only keeps Lean's equation lemmas for the definitions cheap. -/

def maybeObserveOn (st : St) (ans : FileAns) : Option Bool → St × Ret
  | none => (st, .panic)
  | some false => (st, .unit)
  | some true =>
    -- `let _ = observe_file_time(file);`
    let r := observeFileTime st ans
    if r.2 = .panic then (r.1, .panic) else (r.1, .unit)

/-- `maybe_observe_file_time(file)`:
`if should_refresh_base_time(None, None) { let _ = observe_file_time(file); }`. -/
def maybeObserveFileTime (st : St) (rl : Bool) (nowNs : Int) (ans : FileAns) : St × Ret :=
  maybeObserveOn st ans (shouldRefresh st defaultLeewayMs rl nowNs)

def scanBaseTimeOn (st : St) (answers : Nat → FileAns) : Option Bool → St × Ret
  | none => (st, .panic)
  | some false => (st, .unit)
  | some true =>
    -- `scan_for_base_time_impl()?;` then `Ok(())`
    let r := scanImpl st answers
    match r.2 with
    | .pair _ _ => (r.1, .unit)
    | other => (r.1, other)

/-- `scan_base_time()`:
`if should_refresh_base_time(Some(1000), None) { scan_for_base_time_impl()?; } Ok(())`. -/
def scanBaseTime (st : St) (rl : Bool) (nowNs : Int) (answers : Nat → FileAns) : St × Ret :=
  scanBaseTimeOn st answers (shouldRefresh st 1000 rl nowNs)

/-- The result of a call that returns `Ok(BASE_TIME.snapshot())`. -/
def snapshotRet (st : St) : Option (UInt64 × UInt64) → St × Ret
  | some (b, v) => (st, .pair b v)
  | none => (st, .panic)

/-- `get_base_time_unlocked(now)`: `Ok(BASE_TIME.snapshot())`. -/
def getBaseTimeUnlocked (st : St) : St × Ret := snapshotRet st (cellSnapshot st)

def getBaseTimeOn (st : St) (answers : Nat → FileAns) : Option Bool → St × Ret
  | none => (st, .panic)
  | some true => scanImpl st answers
  | some false => getBaseTimeUnlocked st

/-- `get_base_time(now)`: `if should_refresh_base_time(None, Some(now)) { scan_for_base_time_impl() }
else { get_base_time_unlocked(now) }`. -/
def getBaseTime (st : St) (nowNs : Int) (answers : Nat → FileAns) : St × Ret :=
  getBaseTimeOn st answers (shouldRefresh st defaultLeewayMs false nowNs)

def shouldRefreshOn (st : St) : Option Bool → St × Ret
  | none => (st, .panic)
  | some b => (st, .bool b)

/-- The public `should_refresh_base_time(leeway_ms, now)`. -/
def shouldRefreshCall (st : St) (leeway : Option Nat) (rl : Bool) (nowNs : Int) : St × Ret :=
  shouldRefreshOn st (shouldRefresh st (leeway.getD defaultLeewayMs) rl nowNs)

def step (st : St) : Call → St × Ret
  | .addTrusted path ans => addTrustedPath st path ans
  | .observe ans => observeFileTime st ans
  | .maybeObserve rl nowNs ans => maybeObserveFileTime st rl nowNs ans
  | .scan rl nowNs answers => scanBaseTime st rl nowNs (lookupAns answers)
  | .getBaseTime nowNs answers => getBaseTime st nowNs (lookupAns answers)
  | .getUnlocked => getBaseTimeUnlocked st
  | .shouldRefresh leeway rl nowNs => shouldRefreshCall st leeway rl nowNs

/-- A history: the states after each call (starting with the given one) and the results. -/
def run (st : St) : List Call → List (St × Ret)
  | [] => []
  | c :: cs => let r := step st c; r :: run r.1 cs

def finalState (st : St) (cs : List Call) : St := cs.foldl (fun s c => (step s c).1) st

end Woodpile.NfsVoucher

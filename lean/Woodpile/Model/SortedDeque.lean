/-
Model of `sliding_deque/src/sorted_deque.rs`: `SortedDeque<Container, Marker>`.

Items with tombstones over the `SlidingDeque` model (`Woodpile.SlidingDeque.SDeque`).
The `Marker` (`SortedDequeComparator` + `SortedDequeMarker`) is a record `Cmp` of four
functions; the two stock conventions of the crate are `pairCmp` (`(Key, Option<Value>)`,
`None` = erased) and `wholeCmp` (a `SortedDequeItem` compared as a whole, like the crate's
`TestItem { key, value: Option<_> }` with the derived lexicographic `Ord`).

Every method is mirrored arm by arm in the `Option` monad (`none` = panic): both
`check_rep`s (SortedDeque's calls `items.front()` / `items.back()`, which evaluate the
SlidingDeque `check_rep`), the `assert_eq!` of `push_back_or_panic`, the `assert!` after
`mark_erased`, and slice indexing.  `slice::binary_search_by` is the algorithm of
core 1.95 (the branch-free variant: `while size > 1 { half = size / 2; mid = base + half;
base = if cmp == Greater { base } else { mid }; size -= half }`, then one last comparison),
written out on a list — not an abstract "some correct search".

Import-free apart from the SlidingDeque model (core only): linked into `wpmodel`.
-/
import Woodpile.Model.SlidingDeque

namespace Woodpile.SortedDeque
open Woodpile.SlidingDeque

/-- `SortedDequeComparator<T>` (`extract_key`, `cmp`, `is_erased`) and
`SortedDequeMarker<T>` (`mark_erased`). -/
structure Cmp (α κ : Type) where
  key : α → κ
  cmp : κ → κ → Ordering
  isErased : α → Bool
  markErased : α → α

/-! ### `slice::binary_search_by` (core 1.95) -/

/-- The `while size > 1` loop; `fuel` bounds the iterations (`size` strictly decreases, so
`fuel = size` is enough; running out of fuel is `none` and is proved unreachable).
`l[mid]?` is `get_unchecked(mid)`: out of bounds would be undefined behaviour, modelled as
`none` and proved unreachable. -/
def bsLoop {α : Type} (f : α → Ordering) (l : List α) : Nat → Nat → Nat → Option Nat
  | 0, size, base => if size > 1 then none else some base
  | fuel + 1, size, base =>
    if size > 1 then
      let half := size / 2
      let mid := base + half
      match l[mid]? with
      | none => none
      | some x =>
        let base' := if f x == .gt then base else mid
        bsLoop f l fuel (size - half) base'
    else some base

/-- `Result<usize, usize>`: `.ok idx` = found at `idx`, `.error idx` = insertion point. -/
def binarySearchBy {α : Type} (f : α → Ordering) (l : List α) : Option (Except Nat Nat) :=
  if l.length = 0 then some (.error 0)
  else do
    let base ← bsLoop f l l.length l.length 0
    let x ← l[base]?
    let c := f x
    if c == .eq then pure (.ok base)
    else pure (.error (base + if c == .lt then 1 else 0))

/-- `SortedDeque { items, marker }` (the marker is passed to every function). -/
structure SortedDeque (α : Type) where
  items : SDeque α
  deriving Repr, DecidableEq

/-- `usize::MAX` (64-bit), the `to_drop` default of `cleanup_front`. -/
def usizeMax : Nat := 18446744073709551615

namespace SortedDeque
variable {α κ : Type}

/-- `SortedDeque::new(items, marker)`: `items.into()`, no check. -/
def new (l : List α) : SortedDeque α := ⟨SDeque.ofList l⟩

/-- `Default::default()`. -/
def empty : SortedDeque α := new []

/-- `check_rep`: neither end may be erased (`debug_assert_ne!(front().map(is_erased), Some(true))`,
same for `back()`). -/
def checkRep (c : Cmp α κ) (s : SortedDeque α) : Option Unit := do
  let f ← s.items.front
  check (f.map c.isErased != some true)
  let b ← s.items.back
  check (b.map c.isErased != some true)

/-- `push_back_or_panic`. -/
def pushBackOrPanic (c : Cmp α κ) (s : SortedDeque α) (x : α) : Option (SortedDeque α) := do
  checkRep c s
  if c.isErased x then pure s
  else do
    match ← s.items.back with
    | some b => check (c.cmp (c.key b) (c.key x) == .lt)      -- `assert_eq!(cmp(back, item), Less)`
    | none => pure ()
    let items ← s.items.pushBack x
    let s' : SortedDeque α := ⟨items⟩
    checkRep c s'
    pure s'

/-- `clear`. -/
def clear (c : Cmp α κ) (s : SortedDeque α) : Option (SortedDeque α) := do
  checkRep c s
  let items ← s.items.clear
  let s' : SortedDeque α := ⟨items⟩
  checkRep c s'
  pure s'

/-- `is_empty`. -/
def isEmpty (c : Cmp α κ) (s : SortedDeque α) : Option Bool := do
  checkRep c s
  let v ← s.items.deref
  pure v.isEmpty

/-- `iter().copied().collect()`: the non-erased items in deque order. -/
def iter (c : Cmp α κ) (s : SortedDeque α) : Option (List α) := do
  checkRep c s
  let v ← s.items.deref
  pure (v.filter fun x => !c.isErased x)

/-- `first`. -/
def first (c : Cmp α κ) (s : SortedDeque α) : Option (Option α) := do
  checkRep c s
  s.items.front

/-- `last`. -/
def last (c : Cmp α κ) (s : SortedDeque α) : Option (Option α) := do
  checkRep c s
  s.items.back

/-- `cleanup_front`: index of the first non-erased item (`usize::MAX` if none), then `advance`. -/
def cleanupFront (c : Cmp α κ) (s : SortedDeque α) : Option (SortedDeque α) := do
  let v ← s.items.deref
  let toDrop := match v.findIdx? (fun x => !c.isErased x) with
    | some i => i
    | none => usizeMax
  let (_, items) ← s.items.advance toDrop
  pure ⟨items⟩

/-- `cleanup_back`: `while let Some(back) = items.back() { if !erased { break } items.pop_back(); }`.
Each iteration removes one element, so `fuel = len + 1` iterations always suffice; running
out of fuel is `none` and is proved unreachable. -/
def cleanupBackLoop (c : Cmp α κ) : Nat → SDeque α → Option (SDeque α)
  | 0, _ => none
  | fuel + 1, items => do
    match ← items.back with
    | none => pure items
    | some b =>
      if !c.isErased b then pure items
      else do
        let (_, items') ← items.popBack
        cleanupBackLoop c fuel items'

def cleanupBack (c : Cmp α κ) (s : SortedDeque α) : Option (SortedDeque α) := do
  let items ← cleanupBackLoop c (s.items.container.length + 1) s.items
  pure ⟨items⟩

/-- `pop_first`. -/
def popFirst (c : Cmp α κ) (s : SortedDeque α) : Option (Option α × SortedDeque α) := do
  checkRep c s
  let (r, items) ← s.items.popFront
  match r with
  | none => pure (none, s)                       -- `self.items.pop_front()?`
  | some x =>
    let s1 ← cleanupFront c ⟨items⟩
    checkRep c s1
    pure (some x, s1)

/-- `pop_last`. -/
def popLast (c : Cmp α κ) (s : SortedDeque α) : Option (Option α × SortedDeque α) := do
  checkRep c s
  let (r, items) ← s.items.popBack
  match r with
  | none => pure (none, s)                       -- `self.items.pop_back()?`
  | some x =>
    let s1 ← cleanupBack c ⟨items⟩
    checkRep c s1
    pure (some x, s1)

/-- `find_index`: `items.binary_search_by(|item| cmp(extract_key(item), key)).ok()`. -/
def findIndex (c : Cmp α κ) (s : SortedDeque α) (k : κ) : Option (Option Nat) := do
  let v ← s.items.deref
  let r ← binarySearchBy (fun x => c.cmp (c.key x) k) v
  match r with
  | .ok i => pure (some i)
  | .error _ => pure none

/-- `find`. -/
def find (c : Cmp α κ) (s : SortedDeque α) (k : κ) : Option (Option α) := do
  checkRep c s
  match ← findIndex c s k with
  | none => pure none
  | some idx =>
    let v ← s.items.deref
    let item ← v[idx]?                            -- `&self.items[idx]` (bounds-checked)
    checkRep c s
    if c.isErased item then pure none else pure (some item)

/-- `remove` (no `check_rep` of its own; `pop_first` / `pop_last` have theirs). -/
def remove (c : Cmp α κ) (s : SortedDeque α) (k : κ) : Option (Option α × SortedDeque α) := do
  let v ← s.items.deref                           -- `self.items.len()`
  let len := v.length
  match ← findIndex c s k with
  | none => pure (none, s)
  | some idx =>
    let item ← v[idx]?                            -- `&mut self.items[idx]`
    if c.isErased item then pure (none, s)
    else if idx == 0 then popFirst c s
    else if idx == len - 1 then popLast c s
    else do
      let item' := c.markErased item
      check (c.isErased item')                    -- `assert!(self.marker.is_erased(item))`
      pure (some item,
        ⟨{ s.items with container := s.items.container.set (s.items.consumed + idx) item' }⟩)

end SortedDeque

/-! ### Operation sequences -/

inductive Op (α κ : Type) where
  | push (x : α)
  | find (k : κ)
  | remove (k : κ)
  | popFirst
  | popLast
  | first
  | last
  | isEmpty
  | iter
  | clear
  deriving Repr, DecidableEq

inductive Ret (α : Type) where
  | unit
  | item (o : Option α)
  | flag (b : Bool)
  | items (l : List α)
  deriving Repr, DecidableEq

variable {α κ : Type}

/-- One operation on the model; `none` = the real code panics. -/
def step (c : Cmp α κ) (s : SortedDeque α) : Op α κ → Option (Ret α × SortedDeque α)
  | .push x => do let s' ← s.pushBackOrPanic c x; pure (.unit, s')
  | .find k => do let r ← s.find c k; pure (.item r, s)
  | .remove k => do let (r, s') ← s.remove c k; pure (.item r, s')
  | .popFirst => do let (r, s') ← s.popFirst c; pure (.item r, s')
  | .popLast => do let (r, s') ← s.popLast c; pure (.item r, s')
  | .first => do let r ← s.first c; pure (.item r, s)
  | .last => do let r ← s.last c; pure (.item r, s)
  | .isEmpty => do let b ← s.isEmpty c; pure (.flag b, s)
  | .iter => do let l ← s.iter c; pure (.items l, s)
  | .clear => do let s' ← s.clear c; pure (.unit, s')

def run (c : Cmp α κ) (s : SortedDeque α) : List (Op α κ) → Option (List (Ret α) × SortedDeque α)
  | [] => some ([], s)
  | op :: ops =>
    match step c s op with
    | none => none
    | some (r, s') =>
      match run c s' ops with
      | none => none
      | some (rs, s'') => some (r :: rs, s'')

/-! ### The reference ordered map: the list of present items in key order -/

/-- One operation on the reference map `m`.  `none` is the one *specified* panic: pushing
a (non-erased) item whose key is not strictly greater than the current last item's. -/
def stepRef (c : Cmp α κ) (m : List α) : Op α κ → Option (Ret α × List α)
  | .push x =>
    if c.isErased x then some (.unit, m)
    else match m.getLast? with
      | none => some (.unit, m ++ [x])
      | some l => if c.cmp (c.key l) (c.key x) == .lt then some (.unit, m ++ [x]) else none
  | .find k => some (.item (m.find? fun y => c.cmp (c.key y) k == .eq), m)
  | .remove k =>
    some (.item (m.find? fun y => c.cmp (c.key y) k == .eq), m.filter fun y => c.cmp (c.key y) k != .eq)
  | .popFirst => some (.item m.head?, m.drop 1)
  | .popLast => some (.item m.getLast?, m.dropLast)
  | .first => some (.item m.head?, m)
  | .last => some (.item m.getLast?, m)
  | .isEmpty => some (.flag m.isEmpty, m)
  | .iter => some (.items m, m)
  | .clear => some (.unit, [])

def runRef (c : Cmp α κ) (m : List α) : List (Op α κ) → Option (List (Ret α) × List α)
  | [] => some ([], m)
  | op :: ops =>
    match stepRef c m op with
    | none => none
    | some (r, m') =>
      match runRef c m' ops with
      | none => none
      | some (rs, m'') => some (r :: rs, m'')

/-! ### The two stock conventions (keys and values are numbers) -/

/-- `(Key, Option<Value>)` with `Marker = ()`: the key is the first component, `None` is erased. -/
def pairCmp : Cmp (Nat × Option Nat) Nat where
  key x := x.1
  cmp a b := compare a b
  isErased x := x.2.isNone
  markErased x := (x.1, none)

/-- derived `Ord` on `Option<_>`: `None < Some(_)`. -/
def cmpOpt : Option Nat → Option Nat → Ordering
  | none, none => .eq
  | none, some _ => .lt
  | some _, none => .gt
  | some a, some b => compare a b

/-- derived (lexicographic) `Ord` on `struct { key, value: Option<_> }`. -/
def cmpItem (a b : Nat × Option Nat) : Ordering :=
  match compare a.1 b.1 with
  | .eq => cmpOpt a.2 b.2
  | o => o

/-- A `SortedDequeItem` compared as a whole (the crate's `TestItem`): the key *is* the item. -/
def wholeCmp : Cmp (Nat × Option Nat) (Nat × Option Nat) where
  key x := x
  cmp a b := cmpItem a b
  isErased x := x.2.isNone
  markErased x := (x.1, none)

end Woodpile.SortedDeque

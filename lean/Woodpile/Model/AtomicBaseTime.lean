/-
Model of `vouched_time/src/atomic_base_time.rs` (`AtomicBaseTime::{snapshot, update,
try_update, advance_once}` and `BaseTime::{snapshot, update}`).

A thread is `(pc, locals)`; every step performs exactly one atomic access or one
lock operation, with the location, the kind and the ORDERING the Rust code uses.
A thread's program is a deterministic function of the results it is fed
(`Local.next` says what it does next, `feedLoad` / `feedLock` / `feedUnit` consume the
result) - exactly the shape the H3 shim exposes on the real code.

Two memory machines run these programs:
* `SC`  - sequentially consistent interleaving (one global value per location);
* `RA`  - a release/acquire view machine (per-location append-only message lists
          `(value, view)`, per-thread views; DESIGN.md appendix A.3).

Values are `Nat` (the sequence counter does not wrap: 2^64 updates are out of scope);
`chk base bits` is `BASE_TIME_CHECK.check(base, voucher)`, a parameter.
Core Lean only (this file is linked into `wpmodel`).
-/
namespace Woodpile.Abt

/-- The five atomic words: `sequence`, and `base_time_ms` / `voucher` of
`snapshots[0]` (`odd = false`) and `snapshots[1]` (`odd = true`). -/
inductive Loc where
  | seq
  | b (odd : Bool)
  | v (odd : Bool)
  deriving DecidableEq, Repr

/-- `std::sync::atomic::Ordering` as used by the code. -/
inductive Ord where
  | rlx | acq | rel
  deriving DecidableEq, Repr

/-- `(s as usize) % self.snapshots.len()` with two slots: is `s` odd? -/
def odd (s : Nat) : Bool := s % 2 == 1

/-- Result of `lock` / `try_lock`. -/
inductive LockRes where
  | ok | poisoned | wouldBlock
  deriving DecidableEq, Repr

/-- What a thread does next. -/
inductive Act where
  | load (l : Loc) (o : Ord)
  | store (l : Loc) (o : Ord) (val : Nat)
  | lock
  | tryLock
  | unlock (poison : Bool)      -- guard drop; `poison` = dropped while unwinding from a panic
  | clearPoison
  | none                        -- no operation in progress
  deriving DecidableEq, Repr

/-- Program counters.  `s*`: `snapshot`; `u*`: the lock loop of `update`; `t*`:
`try_update`; `a*`: `advance_once` (+ `BaseTime::snapshot`, `BaseTime::update`) and the
guard drop that ends `update` / `try_update`. -/
inductive Pc where
  | idle
  | sSeq        -- let mut sequence = self.sequence.load(Acquire)
  | sV          -- bits = slot.voucher.load(Acquire)
  | sB          -- base_time_ms = slot.base_time_ms.load(Acquire)
  | sSeq2       -- next_sequence = self.sequence.load(Acquire); compare; assert!(check)
  | uLock       -- self.lock.lock()
  | uClear      -- Err(_) => self.lock.clear_poison()
  | uUnlock     -- the poisoned guard inside the Err temporary is dropped; loop
  | tTry        -- self.lock.try_lock()
  | tClear      -- Err(Poisoned(_)) => self.lock.clear_poison()
  | tUnlock     -- ... the guard inside the error is dropped; return false
  | aSeq        -- current = self.sequence.load(Relaxed)
  | aV          -- slot.voucher.load(Acquire)        (BaseTime::snapshot, result unused)
  | aB          -- slot.base_time_ms.load(Acquire);  stale test;  assert!(check(update))
  | aStB        -- next slot: base_time_ms.store(update.0, Release)
  | aStV        -- next slot: voucher.store(bits, Release)
  | aStSeq      -- self.sequence.store(next, Release)
  | aUnlock (ret : Bool)   -- guard drop, then return `ret`
  | aUnlockPanic           -- guard drop while unwinding from the failed assert in BaseTime::update
  | retSnap     -- snapshot returned (base, bits)
  | retBool (r : Bool)     -- update / try_update returned (update's `()` is `advance_once`'s bool, dropped)
  | sPanic      -- the assert in `snapshot` failed
  | aPanic      -- the assert in `BaseTime::update` failed (the caller passed an invalid pair)
  deriving DecidableEq, Repr

/-- No operation in progress: a new one may start. -/
def Pc.terminal : Pc → Bool
  | .idle | .retSnap | .retBool _ | .sPanic | .aPanic => true
  | _ => false

/-- Inside `snapshot`. -/
def Pc.inSnap : Pc → Bool
  | .sSeq | .sV | .sB | .sSeq2 => true
  | _ => false

/-- Holding the writer lock (between a successful `lock`/`try_lock` and the guard drop). -/
def Pc.inCS : Pc → Bool
  | .uClear | .uUnlock | .tClear | .tUnlock
  | .aSeq | .aV | .aB | .aStB | .aStV | .aStSeq | .aUnlock _ | .aUnlockPanic => true
  | _ => false

/-- Thread-local state: program counter and the locals of the three functions. -/
structure Local where
  pc : Pc := .idle
  ub : Nat := 0       -- `update.0`
  uv : Nat := 0       -- `update.1` as bits
  sq : Nat := 0       -- `sequence` (snapshot) / `current` (advance_once)
  bits : Nat := 0     -- voucher word read by snapshot
  base : Nat := 0     -- base word read by snapshot
  deriving DecidableEq, Repr

/-- The public operations. -/
inductive Op where
  | snapshot
  | update (b v : Nat)
  | tryUpdate (b v : Nat)
  deriving DecidableEq, Repr

/-- Entering an operation. -/
def Local.start (th : Local) : Op → Local
  | .snapshot => { th with pc := .sSeq }
  | .update b v => { th with pc := .uLock, ub := b, uv := v }
  | .tryUpdate b v => { th with pc := .tTry, ub := b, uv := v }

/-- The next access of a thread. -/
def Local.next (th : Local) : Act :=
  match th.pc with
  | .sSeq => .load .seq .acq
  | .sV => .load (.v (odd th.sq)) .acq
  | .sB => .load (.b (odd th.sq)) .acq
  | .sSeq2 => .load .seq .acq
  | .uLock => .lock
  | .uClear => .clearPoison
  | .uUnlock => .unlock false
  | .tTry => .tryLock
  | .tClear => .clearPoison
  | .tUnlock => .unlock false
  | .aSeq => .load .seq .rlx
  | .aV => .load (.v (odd th.sq)) .acq
  | .aB => .load (.b (odd th.sq)) .acq
  | .aStB => .store (.b (odd (th.sq + 1))) .rel th.ub
  | .aStV => .store (.v (odd (th.sq + 1))) .rel th.uv
  | .aStSeq => .store .seq .rel (th.sq + 1)
  | .aUnlock _ => .unlock false
  | .aUnlockPanic => .unlock true
  | .idle | .retSnap | .retBool _ | .sPanic | .aPanic => .none

/-- Consuming the value a load returned. -/
def Local.feedLoad (chk : Nat → Nat → Bool) (th : Local) (val : Nat) : Local :=
  match th.pc with
  | .sSeq => { th with sq := val, pc := .sV }
  | .sV => { th with bits := val, pc := .sB }
  | .sB => { th with base := val, pc := .sSeq2 }
  | .sSeq2 =>
    if th.sq = val then
      (if chk th.base th.bits then { th with pc := .retSnap } else { th with pc := .sPanic })
    else { th with sq := val, pc := .sV }
  | .aSeq => { th with sq := val, pc := .aV }
  | .aV => { th with pc := .aB }
  | .aB =>
    if th.ub < val then { th with pc := .aUnlock false }
    else if chk th.ub th.uv then { th with pc := .aStB }
    else { th with pc := .aUnlockPanic }
  | _ => th

/-- Consuming the result of `lock` / `try_lock`. -/
def Local.feedLock (th : Local) (r : LockRes) : Local :=
  match th.pc, r with
  | .uLock, .ok => { th with pc := .aSeq }
  | .uLock, .poisoned => { th with pc := .uClear }
  | .tTry, .ok => { th with pc := .aSeq }
  | .tTry, .poisoned => { th with pc := .tClear }
  | .tTry, .wouldBlock => { th with pc := .retBool false }
  | _, _ => th

/-- After an access without a result (store, guard drop, clear_poison). -/
def Local.feedUnit (th : Local) : Local :=
  match th.pc with
  | .uClear => { th with pc := .uUnlock }
  | .uUnlock => { th with pc := .uLock }
  | .tClear => { th with pc := .tUnlock }
  | .tUnlock => { th with pc := .retBool false }
  | .aStB => { th with pc := .aStV }
  | .aStV => { th with pc := .aStSeq }
  | .aStSeq => { th with pc := .aUnlock true }
  | .aUnlock r => { th with pc := .retBool r }
  | .aUnlockPanic => { th with pc := .aPanic }
  | _ => th

/-- Pointwise update of a function. -/
def upd {α : Type} {β : Type} [DecidableEq α] (f : α → β) (a : α) (x : β) : α → β :=
  fun i => if i = a then x else f i

/-- Who may run: `run t ts` = thread `t` performs its next access (a load reads the
message with timestamp `ts`; ignored by the SC machine and by non-loads);
`start t op` = thread `t` enters an operation; `sync t u` = thread `t` learns everything
thread `u` knows through some synchronisation outside the object (thread join, channel ...;
a no-op on the SC machine). -/
inductive Label where
  | run (t : Nat) (ts : Nat)
  | start (t : Nat) (op : Op)
  | sync (t u : Nat)
  deriving DecidableEq, Repr

/-! ## The sequentially consistent machine -/
namespace SC

structure State where
  mem : Loc → Nat
  held : Option Nat        -- the thread holding the writer mutex
  poisoned : Bool
  thr : Nat → Local
  -- ghost state (never read by the programs)
  hist : List (Nat × Nat)        -- `hist[s]` = the pair published with sequence number `s`
  log : Nat → List (Nat × Nat)   -- per thread: the snapshots it returned, most recent first
  start : Nat → Nat              -- per thread: number of updates published when its snapshot began

/-- `AtomicBaseTime::new()`: the epoch pair `(0, v0)` in both slots. -/
def init (v0 : Nat) : State where
  mem := fun l => match l with | .seq => 0 | .b _ => 0 | .v _ => v0
  held := none
  poisoned := false
  thr := fun _ => {}
  hist := [(0, v0)]
  log := fun _ => []
  start := fun _ => 0

/-- The snapshot a thread has just returned, if its last step returned one. -/
def logOf (th : Local) (old : List (Nat × Nat)) : List (Nat × Nat) :=
  if th.pc = .retSnap then (th.base, th.bits) :: old else old

def step (chk : Nat → Nat → Bool) (s : State) : Label → Option State
  | .start t op =>
    let th := s.thr t
    if th.pc.terminal then
      some { s with thr := upd s.thr t (th.start op), start := upd s.start t (s.hist.length - 1) }
    else none
  | .sync _ _ => some s
  | .run t _ =>
    let th := s.thr t
    match th.next with
    | .load l _ =>
      let th' := th.feedLoad chk (s.mem l)
      some { s with thr := upd s.thr t th', log := upd s.log t (logOf th' (s.log t)) }
    | .store l _ val =>
      some { s with mem := upd s.mem l val, thr := upd s.thr t th.feedUnit,
                    hist := if l = .seq then s.hist ++ [(th.ub, th.uv)] else s.hist }
    | .lock =>
      if s.held = none then
        some { s with held := some t,
                      thr := upd s.thr t (th.feedLock (if s.poisoned then .poisoned else .ok)) }
      else none
    | .tryLock =>
      if s.held = none then
        some { s with held := some t,
                      thr := upd s.thr t (th.feedLock (if s.poisoned then .poisoned else .ok)) }
      else some { s with thr := upd s.thr t (th.feedLock .wouldBlock) }
    | .unlock p =>
      some { s with held := none, poisoned := s.poisoned || p, thr := upd s.thr t th.feedUnit }
    | .clearPoison => some { s with poisoned := false, thr := upd s.thr t th.feedUnit }
    | .none => none

/-- Running a schedule. -/
def run (chk : Nat → Nat → Bool) (s : State) : List Label → Option State
  | [] => some s
  | l :: ls => match step chk s l with
    | some s' => run chk s' ls
    | none => none

/-- States reachable from `AtomicBaseTime::new()` under some schedule, for any number of
threads and operations. -/
def Reachable (chk : Nat → Nat → Bool) (v0 : Nat) (s : State) : Prop :=
  ∃ ls, run chk (init v0) ls = some s

end SC

/-! ## The release/acquire view machine -/

/-- A view: for every location, the timestamp (index into the location's message list)
of the latest message the owner is aware of. -/
abbrev View := Loc → Nat

def View.join (a b : View) : View := fun l => max (a l) (b l)

def View.bot : View := fun _ => 0

structure Msg where
  val : Nat
  view : View

namespace RA

structure Thread where
  loc : Local := {}
  view : View := View.bot

structure State where
  mem : Loc → List Msg     -- modification order of each location; timestamp = index
  held : Option Nat
  poisoned : Bool
  mview : View             -- the view released by the last guard drop
  thr : Nat → Thread
  -- ghost state
  hist : List (Nat × Nat)
  log : Nat → List (Nat × Nat)
  start : Nat → Nat        -- per thread: its view of `sequence` when its snapshot began

def init (v0 : Nat) : State where
  mem := fun l => match l with
    | .seq => [⟨0, View.bot⟩] | .b _ => [⟨0, View.bot⟩] | .v _ => [⟨v0, View.bot⟩]
  held := none
  poisoned := false
  mview := View.bot
  thr := fun _ => {}
  hist := [(0, v0)]
  log := fun _ => []
  start := fun _ => 0

/-- The view a thread has after reading message `m` of `l` at timestamp `ts`. -/
def loadView (view : View) (l : Loc) (o : Ord) (ts : Nat) (m : Msg) : View :=
  let v1 := upd view l ts
  match o with
  | .acq => View.join v1 m.view
  | _ => v1

/-- The view attached to a message stored at timestamp `ts` by a thread whose view
(already advanced to `ts` on `l`) is `view`. -/
def storeView (view : View) (l : Loc) (o : Ord) (ts : Nat) : View :=
  match o with
  | .rel => view
  | _ => upd View.bot l ts

def step (chk : Nat → Nat → Bool) (s : State) : Label → Option State
  | .start t op =>
    let th := s.thr t
    if th.loc.pc.terminal then
      some { s with thr := upd s.thr t { th with loc := th.loc.start op },
                    start := upd s.start t (th.view .seq) }
    else none
  | .sync t u =>
    let th := s.thr t
    some { s with thr := upd s.thr t { th with view := View.join th.view (s.thr u).view } }
  | .run t ts =>
    let th := s.thr t
    match th.loc.next with
    | .load l o =>
      match (s.mem l)[ts]? with
      | some m =>
        if th.view l ≤ ts then
          let loc' := th.loc.feedLoad chk m.val
          let th' : Thread := { loc := loc', view := loadView th.view l o ts m }
          some { s with thr := upd s.thr t th', log := upd s.log t (SC.logOf loc' (s.log t)) }
        else none
      | none => none
    | .store l o val =>
      let ts' := (s.mem l).length
      let view' := upd th.view l ts'
      some { s with mem := upd s.mem l (s.mem l ++ [⟨val, storeView view' l o ts'⟩]),
                    thr := upd s.thr t { th with loc := th.loc.feedUnit, view := view' },
                    hist := if l = .seq then s.hist ++ [(th.loc.ub, th.loc.uv)] else s.hist }
    | .lock =>
      if s.held = none then
        some { s with held := some t,
                      thr := upd s.thr t
                        { th with loc := th.loc.feedLock (if s.poisoned then .poisoned else .ok),
                                  view := View.join th.view s.mview } }
      else none
    | .tryLock =>
      if s.held = none then
        some { s with held := some t,
                      thr := upd s.thr t
                        { th with loc := th.loc.feedLock (if s.poisoned then .poisoned else .ok),
                                  view := View.join th.view s.mview } }
      else some { s with thr := upd s.thr t { th with loc := th.loc.feedLock .wouldBlock } }
    | .unlock p =>
      some { s with held := none, poisoned := s.poisoned || p,
                    mview := View.join s.mview th.view,
                    thr := upd s.thr t { th with loc := th.loc.feedUnit } }
    | .clearPoison =>
      some { s with poisoned := false, thr := upd s.thr t { th with loc := th.loc.feedUnit } }
    | .none => none

def run (chk : Nat → Nat → Bool) (s : State) : List Label → Option State
  | [] => some s
  | l :: ls => match step chk s l with
    | some s' => run chk s' ls
    | none => none

/-- States reachable from `AtomicBaseTime::new()` under some schedule and some choice of
reads-from, for any number of threads and operations. -/
def Reachable (chk : Nat → Nat → Bool) (v0 : Nat) (s : State) : Prop :=
  ∃ ls, run chk (init v0) ls = some s

end RA

/-! ## Completed-call records (ghost layer: vocabulary for the C13 / C19 statements; not used by the driver)

`Mach` is what the ghost layer sees of a machine; `Mach.gstep` runs the machine's own `step`
unchanged and, next to it, keeps a step counter, the operation each thread has in progress and
the list of completed calls (`CallRec`).  Nothing here is read by the programs. -/

/-- What a completed call returned. -/
inductive Res where
  | snap (b v : Nat)     -- `snapshot` returned `(b, v)`
  | bool (r : Bool)      -- `try_update` returned `r`; `update` returned (`r` = `advance_once`'s result)
  | panic                -- an `assert!` failed
  deriving DecidableEq, Repr

/-- The result a thread at a terminal pc has just produced (`none`: idle or mid-operation). -/
def Local.result (th : Local) : Option Res :=
  match th.pc with
  | .retSnap => some (.snap th.base th.bits)
  | .retBool r => some (.bool r)
  | .sPanic | .aPanic => some .panic
  | _ => none

/-- One completed call.  `vStart` / `vRet`: the caller's view of `sequence` (= index into
`hist`) when the call began / returned (SC machine: the number of updates published so far);
`tStart` / `tRet`: the global step numbers of its `.start` label and of its last step. -/
structure CallRec where
  tid : Nat
  op : Op
  vStart : Nat
  vRet : Nat
  tStart : Nat
  tRet : Nat
  res : Res
  deriving DecidableEq, Repr

/-- Whose step a label is. -/
def actor : Label → Nat
  | .run t _ => t
  | .start t _ => t
  | .sync t _ => t

/-- A machine as the ghost layer sees it: its states and step function, and per thread the
program state, the view of `sequence`, the recorded view at the start of the current call; the
ghost history. -/
structure Mach where
  σ : Type
  step : σ → Label → Option σ
  loc : σ → Nat → Local
  vseq : σ → Nat → Nat
  startOf : σ → Nat → Nat
  hist : σ → List (Nat × Nat)

namespace Mach

def run (M : Mach) (s : M.σ) : List Label → Option M.σ
  | [] => some s
  | l :: ls => match M.step s l with
    | some s' => M.run s' ls
    | none => none

/-- Machine state plus call bookkeeping. -/
structure GState (M : Mach) where
  s : M.σ
  clock : Nat                       -- number of steps taken so far
  cur : Nat → Option (Op × Nat)     -- per thread: the operation in progress and the step number of its start
  done : List CallRec               -- completed calls, most recent first

def ginit (M : Mach) (s0 : M.σ) : M.GState := { s := s0, clock := 0, cur := fun _ => none, done := [] }

/-- The bookkeeping after a step `l` that took the machine to `s'`. -/
def gnext (M : Mach) (g : M.GState) (l : Label) (s' : M.σ) : M.GState :=
  match l with
  | .start t op => { s := s', clock := g.clock + 1, cur := upd g.cur t (some (op, g.clock)), done := g.done }
  | .sync _ _ => { s := s', clock := g.clock + 1, cur := g.cur, done := g.done }
  | .run t _ =>
    match g.cur t, (M.loc s' t).result with
    | some (op, t0), some r =>
      { s := s', clock := g.clock + 1, cur := upd g.cur t none,
        done := { tid := t, op := op, vStart := M.startOf s' t, vRet := M.vseq s' t,
                  tStart := t0, tRet := g.clock, res := r } :: g.done }
    | _, _ => { s := s', clock := g.clock + 1, cur := g.cur, done := g.done }

/-- The machine's step, with bookkeeping. -/
def gstep (M : Mach) (g : M.GState) (l : Label) : Option M.GState :=
  match M.step g.s l with
  | some s' => some (M.gnext g l s')
  | none => none

def grun (M : Mach) (g : M.GState) : List Label → Option M.GState
  | [] => some g
  | l :: ls => match M.gstep g l with
    | some g' => M.grun g' ls
    | none => none

end Mach

/-- The SC machine, for the ghost layer: every thread's "view of `sequence`" is the current value. -/
@[reducible] def SC.mach (chk : Nat → Nat → Bool) : Mach where
  σ := SC.State
  step := SC.step chk
  loc := fun s t => s.thr t
  vseq := fun s _ => s.mem .seq
  startOf := fun s t => s.start t
  hist := fun s => s.hist

/-- The release/acquire machine, for the ghost layer. -/
@[reducible] def RA.mach (chk : Nat → Nat → Bool) : Mach where
  σ := RA.State
  step := RA.step chk
  loc := fun s t => (s.thr t).loc
  vseq := fun s t => (s.thr t).view .seq
  startOf := fun s t => s.start t
  hist := fun s => s.hist

/-- States of the bookkeeping machine reachable from `AtomicBaseTime::new()`. -/
def SC.GReachable (chk : Nat → Nat → Bool) (v0 : Nat) (g : (SC.mach chk).GState) : Prop :=
  ∃ ls, (SC.mach chk).grun ((SC.mach chk).ginit (SC.init v0)) ls = some g

def RA.GReachable (chk : Nat → Nat → Bool) (v0 : Nat) (g : (RA.mach chk).GState) : Prop :=
  ∃ ls, (RA.mach chk).grun ((RA.mach chk).ginit (RA.init v0)) ls = some g

/-! ## Sequential specification of the cell (what `nfs_voucher`'s model assumes of it) -/

/-- `update` / `try_update` → `advance_once`, run alone on a cell whose current pair is `cur`:
`none` = the `assert!` in `BaseTime::update` fires; otherwise the new current pair and the
returned flag. -/
def seqUpdate (chk : Nat → Nat → Bool) (cur : Nat × Nat) (b v : Nat) : Option ((Nat × Nat) × Bool) :=
  if b < cur.1 then some (cur, false)
  else if !chk b v then none
  else some ((b, v), true)

/-- `snapshot`, run alone: `none` = its `assert!` fires. -/
def seqSnapshot (chk : Nat → Nat → Bool) (cur : Nat × Nat) : Option (Nat × Nat) :=
  if chk cur.1 cur.2 then some cur else none

/-- `get_base_time_unlocked(_now)` is `Ok(BASE_TIME.snapshot())` (nfs_voucher.rs). -/
def getBaseTimeUnlockedOp : Op := .snapshot

end Woodpile.Abt

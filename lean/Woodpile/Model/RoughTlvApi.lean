/-
rough_tlv, public-API completion (track `apigaps`): `MessageView::inner` / `into_inner`, and `Tag`
with its conversions and ordering (lib.rs).  The models of C11 / C12 (`Model/RoughTlv.lean`) represent a
tag by its `u32` value; here a `Tag` is what the crate stores: 4 bytes.  Import-free apart from the
sibling model.
-/
import Woodpile.Model.RoughTlv

namespace Woodpile.RoughTlv

/-- `MessageView::inner()`: the wrapped bytes. -/
def View.inner (v : View) : List UInt8 := v.storage

/-- `MessageView::into_inner()`: the wrapped bytes, by value. -/
def View.intoInner (v : View) : List UInt8 := v.storage

/-- `Tag { bytes: [u8; 4] }` -/
abbrev TagBytes := List UInt8

/-- `From<u32> for Tag` / `Tag::new_from_u32` / `From<&u32>`: `value.to_le_bytes()`. -/
def tagOfU32 (value : Nat) : TagBytes := le32 value

/-- `Tag::new(&bytes)` / `From<[u8; 4]>` / `From<&[u8; 4]>`: the bytes as they are. -/
def tagNew (bytes : List UInt8) : TagBytes := bytes

/-- `Tag::value()` / `From<Tag> for u32` / `From<&Tag> for u32`: `u32::from_le_bytes(self.bytes)`. -/
def tagValue (t : TagBytes) : Nat := word t 0

/-- `Ord for Tag`: `self.value().cmp(&other.value())` — the LITTLE-endian values, not the bytes. -/
def tagCmp (a b : TagBytes) : Ordering := compare (tagValue a) (tagValue b)

/-- `PartialOrd for Tag`: `Some(self.cmp(other))`. -/
def tagPartialCmp (a b : TagBytes) : Option Ordering := some (tagCmp a b)

end Woodpile.RoughTlv

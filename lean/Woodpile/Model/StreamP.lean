/-
`StreamReader::next_record_bytes` again (see `Model/Stream.lean`), with the embedded
decoder replaced by its panic-aware version (`Dec.feedAllP`, `Model/HcobsP.lean`): a panic
inside `decoder.decode_anchored(slice)` is the outcome `NextRes.panic` of the call, like
the reader's own five assertions and the chunker's two.  These are the functions the
model driver runs (`Driver/Stream.lean`); `Proofs/StreamPanic.lean` proves them equal to
the panic-free ones, because every state the reader hands to the decoder is a reachable
decoder state.  The one overflow-checked subtraction of `next_record_bytes` that is not
behind an `assert!` (`offset - slice.len()`, stream_reader.rs:252) is a panic outcome too.

Also: sequences of calls with one `io_block_size` PER CALL (`nextSeqB`): the argument is a
parameter of `next_record_bytes`, so a caller may change it between calls.

Core Lean only.
-/
import Woodpile.Model.Stream
import Woodpile.Model.HcobsP

namespace Woodpile.Stream
open Woodpile.Arena Woodpile.ReadN Woodpile.Hcobs Woodpile.Pipe

/-- `decoder.decode_anchored(slice)` in state `DecodeRecord` (stream_reader.rs:263;
lib.rs:298-310 = `decode` + `push_anchor`).  After an `Err` the real `Decoder` is back in
`InitialState`; the reader never feeds or finishes it again (`state = SkipRecord`, then
`decoder.take_iovec()`), so `rc.dec` is dead from then on and is left as it was, as in
`decodeChunk`. -/
def decodeChunkP (p : Params) (rc : Rec) (bytes : List UInt8) : PRes Rec :=
  match Dec.feedAllP p .borrow rc.dec bytes with
  | .panic f l => .panic f l
  | .ok (.error (_, es)) => .ok { rc with st := .skipRecord, emits := rc.emits ++ es }
  | .ok (.ok (d', es)) => .ok { rc with dec := d', emits := rc.emits ++ es }

/-- `onChunk` with the panic-aware decoder. -/
def onChunkP (p : Params) (judge : Judge) (s1 : RdState) (r : Reader) (rc : Rec) : Chunk → StepOut
  | .sentinel off =>
    if off < 2 then .done .panic s1 r                              -- assert!(offset >= 2)
    else
      let s2 := { s1 with lastSentinel := off - 2 }
      match rc.st with
      | .skipSentinel => consult judge s2 r { rc with start := off, stop := off }
      | _ => afterBreak s2 r rc
  | .eof =>
    if rc.start = rc.stop then .done .none s1 r
    else afterBreak s1 r rc
  | .data off bytes =>
    if bytes.isEmpty then .done .panic s1 r                        -- assert!(!slice.is_empty())
    -- let start = offset - (slice.slice().len() as u64);  (u64 subtraction, stream_reader.rs:252)
    else if rc.st = .skipSentinel ∧ off < bytes.length then .done .panic s1 r
    else
      let rc1 : Rec :=
        match rc.st with
        | .skipSentinel =>
          { rc with start := off - bytes.length, stop := off - bytes.length, st := .decodeRecord }
        | _ => rc
      if rc1.st = .decodeRecord then
        match decodeChunkP p rc1 bytes with
        | .panic _ _ => .done .panic s1 r                          -- a panic inside the decoder
        | .ok rc2 => consult judge s1 r { rc2 with stop := off }
      else consult judge s1 r { rc1 with stop := off }

def stepP (clamp : Nat) (t : Tuning) (p : Params) (judge : Judge) (block : Nat)
    (s : RdState) (r : Reader) (rc : Rec) : StepOut :=
  if decide (rc.start = rc.stop) ≠ decide (rc.st = .skipSentinel) then .done .panic s r
  else
    let o := pump clamp t block s.chunker s.mem r
    let s1 := { s with chunker := o.chunker, mem := o.mem }
    match o.res with
    | .ioerr k => .done (.ioerr k) s1 o.reader
    | .panic => .done .panic s1 o.reader
    | .ok ch => onChunkP p judge s1 o.reader rc ch

def runP (clamp : Nat) (t : Tuning) (p : Params) (judge : Judge) (block : Nat) :
    Nat → RdState → Reader → Rec → NextRes × RdState × Reader
  | 0, s, r, _ => (.panic, s, r)
  | fuel + 1, s, r, rc =>
    match stepP clamp t p judge block s r rc with
    | .done res s' r' => (res, s', r')
    | .continue s' r' rc' => runP clamp t p judge block fuel s' r' rc'

/-- `next_record_bytes(reader, judge, io_block_size)` with the panic-aware decoder. -/
def nextP (clamp : Nat) (t : Tuning) (p : Params) (judge : Judge) (block : Option Nat)
    (s : RdState) (r : Reader) : NextRes × RdState × Reader :=
  runP clamp t p judge (block.getD Woodpile.Gen.defaultBlockSize) (runFuel s r) s r Rec.fresh

/-- Successive `next_record_bytes` calls, one `io_block_size` argument per call. -/
def nextSeqB (clamp : Nat) (t : Tuning) (p : Params) (judge : Judge) :
    List (Option Nat) → RdState → Reader → List NextRes × RdState × Reader
  | [], s, r => ([], s, r)
  | b :: bs, s, r =>
    let o := next clamp t p judge b s r
    let rest := nextSeqB clamp t p judge bs o.2.1 o.2.2
    (o.1 :: rest.1, rest.2)

/-- … with the panic-aware decoder. -/
def nextSeqBP (clamp : Nat) (t : Tuning) (p : Params) (judge : Judge) :
    List (Option Nat) → RdState → Reader → List NextRes × RdState × Reader
  | [], s, r => ([], s, r)
  | b :: bs, s, r =>
    let o := nextP clamp t p judge b s r
    let rest := nextSeqBP clamp t p judge bs o.2.1 o.2.2
    (o.1 :: rest.1, rest.2)

end Woodpile.Stream

import Woodpile.Driver.Util
import Woodpile.Model.AtomicBaseTime
import Woodpile.Driver.Unwind

/-!
Family `abt` (C13, C18): the `AtomicBaseTime` thread programs and the two memory machines.

Values on the wire: a decimal `u64`, or `v<x>` = the bits of the voucher of base time `x`
(`VOUCH_PARAMS.vouch(x)`); the driver represents `v<x>` as `2^64 + x`, so
`check base bits` is `bits = 2^64 + base`.

Ops
* `trace <snapshot|unlocked> <script>` / `trace <update|try_update> <base> <voucher> <script>`:
  one thread program run against a script of fed results (load values, `ok`/`poisoned`/
  `wouldblock`); prints every access (location, kind, ordering, value stored, result fed)
  and how the call ended.
* `trace sequence <script>`: `AtomicBaseTime::sequence()` (one relaxed load of the counter): prints
  `ld.seq.rlx=<v>;ret=<v>`.
* `machine <sc|ra>`, `start <t> <op…>`, `step <t> <ts>`, `sync <t> <u>`: a whole execution on
  the SC or the view machine (`ts` = timestamp a load reads from; ignored under `sc`).
  `start <t> sequence` + one `step` ends with `;ret=<n>`.
* `new_default`: what `AtomicBaseTime::new()` / `Default::default()` build (`SC.init` / `RA.init`):
  the five words, the mutex, and what a solo `sequence` / `snapshot` return from it.
* `explore …`: harness-only oracle run (bounded exhaustive search on the real code).
* `seq new|default`, `seq snapshot`, `seq update <b> <v>`, `seq try_update <b> <v>` (track traits):
  plain sequential calls on an object of their own = solo runs of thread 0 on a separate SC
  machine; answer `seq ret…` / `seq panic`.  `unwinding seq <call>` (`Driver/Unwind.lean`) is the
  same call (the harness makes it while the thread unwinds); accepted only for calls that
  cannot panic: a snapshot, or an update whose voucher matches its base time.
-/
namespace Woodpile.Driver.AbtFam
open Woodpile.Driver Woodpile.Abt

def two64 : Nat := 18446744073709551616

def chk (b v : Nat) : Bool := v == two64 + b

def parseVal (s : String) : Option Nat :=
  match s.toList with
  | 'v' :: rest => (String.ofList rest).toNat?.map (two64 + ·)
  | _ => match s.toNat? with
    | some n => if n < two64 then some n else none
    | none => none

def fmtVal (n : Nat) : String :=
  if n < two64 then toString n else "v" ++ toString (n - two64)

def fmtLoc : Loc → String
  | .seq => "seq"
  | .b o => if o then "b1" else "b0"
  | .v o => if o then "v1" else "v0"

def fmtOrd : Ord → String
  | .rlx => "rlx" | .acq => "acq" | .rel => "rel"

def fmtLockRes : LockRes → String
  | .ok => "ok" | .poisoned => "poisoned" | .wouldBlock => "wouldblock"

def parseLockRes : String → Option LockRes
  | "ok" => some .ok | "poisoned" => some .poisoned | "wouldblock" => some .wouldBlock
  | _ => none

def fmtAct : Act → String
  | .load l o => "ld." ++ fmtLoc l ++ "." ++ fmtOrd o
  | .store l o v => "st." ++ fmtLoc l ++ "." ++ fmtOrd o ++ "=" ++ fmtVal v
  | .lock => "lock"
  | .tryLock => "trylock"
  | .unlock p => "unlock." ++ (if p then "1" else "0")
  | .clearPoison => "clearpoison"
  | .none => "none"

inductive Kind where
  | snapshot | unlocked | update | tryUpdate
  | sequence
  deriving DecidableEq

/-- How a finished call is reported (`update` returns `()`). -/
def fmtEnd (k : Kind) (th : Local) : Option String :=
  match th.pc with
  | .retSnap => some ("ret=" ++ fmtVal th.base ++ "," ++ fmtVal th.bits)
  | .retBool r => some (if k = .update then "ret" else if r then "ret=true" else "ret=false")
  | .sPanic => some "panic"
  | .aPanic => some "panic"
  -- BEGIN track apileft (abt): `sequence()` returned the counter value it loaded
  | .retSeq => some ("ret=" ++ fmtVal th.sq)
  -- END track apileft (abt)
  | _ => none

def parseOp : List String → Option (Kind × Op × List String)
  | "snapshot" :: rest => some (.snapshot, .snapshot, rest)
  | "unlocked" :: rest => some (.unlocked, getBaseTimeUnlockedOp, rest)
  | "update" :: b :: v :: rest =>
    match b.toNat?, parseVal v with
    | some b, some v => if b < two64 then some (.update, .update b v, rest) else none
    | _, _ => none
  | "try_update" :: b :: v :: rest =>
    match b.toNat?, parseVal v with
    | some b, some v => if b < two64 then some (.tryUpdate, .tryUpdate b v, rest) else none
    | _, _ => none
  -- BEGIN track apileft (abt)
  | "sequence" :: rest => some (.sequence, .sequence, rest)
  -- END track apileft (abt)
  | _ => none

/-- One thread program against a script of fed results. -/
def traceLoop (k : Kind) : Nat → Local → List String → List String → List String
  | 0, _, _, acc => acc ++ ["fuel"]
  | fuel + 1, th, script, acc =>
    match fmtEnd k th with
    | some e => acc ++ [e]
    | none =>
      let act := th.next
      match act with
      | .none => acc ++ ["stuck"]
      | .load l _ =>
        match script with
        | [] => acc ++ ["want:" ++ fmtAct act]
        | tok :: rest =>
          match parseVal tok with
          | some v =>
            -- voucher bits are only fed to loads of a voucher word (their parity / order is unknown here)
            if (match l with | .v _ => false | _ => true) && decide (two64 ≤ v) then acc ++ ["bad-script:" ++ fmtAct act] else
            traceLoop k fuel (th.feedLoad chk v) rest (acc ++ [fmtAct act ++ "=" ++ fmtVal v])
          | none => acc ++ ["bad-script:" ++ fmtAct act]
      | .lock =>
        match script with
        | [] => acc ++ ["want:" ++ fmtAct act]
        | tok :: rest =>
          match parseLockRes tok with
          | some .wouldBlock => acc ++ ["bad-script:" ++ fmtAct act]
          | some r => traceLoop k fuel (th.feedLock r) rest (acc ++ [fmtAct act ++ "=" ++ fmtLockRes r])
          | none => acc ++ ["bad-script:" ++ fmtAct act]
      | .tryLock =>
        match script with
        | [] => acc ++ ["want:" ++ fmtAct act]
        | tok :: rest =>
          match parseLockRes tok with
          | some r => traceLoop k fuel (th.feedLock r) rest (acc ++ [fmtAct act ++ "=" ++ fmtLockRes r])
          | none => acc ++ ["bad-script:" ++ fmtAct act]
      | _ => traceLoop k fuel th.feedUnit script (acc ++ [fmtAct act])

inductive Mode where
  | none | sc | ra
  deriving DecidableEq

structure St where
  mode : Mode
  sc : SC.State
  ra : RA.State
  kinds : Nat → Kind
  /-- the object of the `seq` ops -/
  seq : SC.State := SC.init two64

def v0 : Nat := two64

def initSt : St := { mode := .none, sc := SC.init v0, ra := RA.init v0, kinds := fun _ => .snapshot }

def locs : List Loc := [.seq, .b false, .v false, .b true, .v true]

def fmtView (v : View) : String := ",".intercalate (locs.map (fun l => toString (v l)))

def parseScript (s : String) : List String := if s = "-" then [] else s.splitOn ","

def endSuffix (k : Kind) (th : Local) : String :=
  match fmtEnd k th with
  | some e => ";" ++ e
  | none => ""

def stepSc (s : St) (t : Nat) : St × List String :=
  let th := s.sc.thr t
  let act := th.next
  match SC.step chk s.sc (.run t 0) with
  | none => (s, [if act = .lock then "blocked" else "disabled"])
  | some sc' =>
    let th' := sc'.thr t
    let desc := match act with
      | .load l _ => fmtAct act ++ "=" ++ fmtVal (s.sc.mem l)
      | .lock => "lock=" ++ (if s.sc.poisoned then "poisoned" else "ok")
      | .tryLock => "trylock=" ++ (if s.sc.held.isSome then "wouldblock" else if s.sc.poisoned then "poisoned" else "ok")
      | _ => fmtAct act
    ({ s with sc := sc' }, [desc ++ endSuffix (s.kinds t) th'])

def stepRa (s : St) (t ts : Nat) : St × List String :=
  let th := s.ra.thr t
  let act := th.loc.next
  match RA.step chk s.ra (.run t ts) with
  | none => (s, [if act = .lock then "blocked" else "disabled"])
  | some ra' =>
    let th' := ra'.thr t
    let desc := match act with
      | .load l _ =>
        let val := match (s.ra.mem l)[ts]? with | some m => m.val | none => 0
        fmtAct act ++ "@" ++ toString ts ++ "[" ++ toString (th.view l) ++ ".." ++
          toString ((s.ra.mem l).length - 1) ++ "]=" ++ fmtVal val
      | .store l _ _ => fmtAct act ++ "@" ++ toString (s.ra.mem l).length
      | .lock => "lock=" ++ (if s.ra.poisoned then "poisoned" else "ok")
      | .tryLock => "trylock=" ++ (if s.ra.held.isSome then "wouldblock" else if s.ra.poisoned then "poisoned" else "ok")
      | _ => fmtAct act
    ({ s with ra := ra' }, [desc ++ endSuffix (s.kinds t) th'.loc ++ " view=" ++ fmtView th'.view])

-- BEGIN track apileft (abt): `new_default`
/-- `n` own steps of thread 0 (reading the latest message), SC machine. -/
def soloSc (sc : SC.State) : Nat → Option SC.State
  | 0 => some sc
  | n + 1 => match SC.step chk sc (.run 0 0) with
    | some sc' => soloSc sc' n
    | none => none

def soloRa (ra : RA.State) : Nat → Option RA.State
  | 0 => some ra
  | n + 1 =>
    let ts := match (ra.thr 0).loc.next with
      | .load l _ => (ra.mem l).length - 1
      | _ => 0
    match RA.step chk ra (.run 0 ts) with
    | some ra' => soloRa ra' n
    | none => none

/-- What a solo call of `op` (taking `n` steps) returns from the initial state, on both machines
(`model-disagree` if they differ or the call has not finished). -/
def soloInit (k : Kind) (op : Op) (n : Nat) : String :=
  let a := match SC.step chk (SC.init v0) (.start 0 op) with
    | some sc => (soloSc sc n).bind (fun sc' => fmtEnd k (sc'.thr 0))
    | none => none
  let b := match RA.step chk (RA.init v0) (.start 0 op) with
    | some ra => (soloRa ra n).bind (fun ra' => fmtEnd k (ra'.thr 0).loc)
    | none => none
  match a, b with
  | some x, some y => if x = y then x else "model-disagree"
  | _, _ => "model-disagree"

/-- The object `new()` builds, as the model sees it: `SC.init v0` and `RA.init v0` (one initial
message per location, empty views). -/
def describeInit : String :=
  let sc := SC.init v0
  let ra := RA.init v0
  let wordsSc := locs.map (fun l => fmtVal (sc.mem l))
  let wordsRa := locs.map (fun l => match ra.mem l with | [m] => fmtVal m.val | _ => "?")
  let lock := (if sc.held.isSome || ra.held.isSome then "held" else "free") ++ "," ++
    (if sc.poisoned || ra.poisoned then "poisoned" else "clean")
  if wordsSc != wordsRa then "model-disagree" else
  "words=" ++ ",".intercalate wordsSc ++ ";lock=" ++ lock ++ ";sequence:" ++ soloInit .sequence .sequence 1 ++
    ";snapshot:" ++ soloInit .snapshot .snapshot 4
-- END track apileft (abt)
-- BEGIN track traits: plain sequential calls
/-- thread 0 alone, to the end of its call -/
def seqLoop (k : Kind) : Nat → SC.State → SC.State × String
  | 0, sc => (sc, "fuel")
  | fuel + 1, sc =>
    match fmtEnd k (sc.thr 0) with
    | some e => (sc, e)
    | none =>
      match SC.step chk sc (.run 0 0) with
      | some sc' => seqLoop k fuel sc'
      | none => (sc, "stuck")

def seqCall (sc : SC.State) (k : Kind) (op : Op) : SC.State × String :=
  match SC.step chk sc (.start 0 op) with
  | none => (sc, "busy")
  | some sc1 => seqLoop k 64 sc1

def stepSeq (s : St) : List String → Option (St × List String)
  | ["seq", "new"] => some ({ s with seq := SC.init v0 }, ["seq fresh"])
  | ["seq", "default"] => some ({ s with seq := SC.init v0 }, ["seq fresh"])
  | "seq" :: rest =>
    match parseOp rest with
    | some (k, op, []) =>
      if k = .unlocked then some (s, ["bad-op"]) else
      let (sc', e) := seqCall s.seq k op
      some ({ s with seq := sc' }, ["seq " ++ e])
    | _ => some (s, ["bad-op"])
  | _ => none

/-- may `unwinding <ws>` run?  (harness: `seq::seq_safe`) -/
def unwindSafe (_ : St) : List String → Bool
  | "seq" :: rest =>
    match parseOp rest with
    | some (.snapshot, _, []) => true
    | some (_, .update b v, []) => chk b v
    | some (_, .tryUpdate b v, []) => chk b v
    | _ => false
  | _ => false
-- END track traits

def step (s : St) : List String → St × List String
  | ["new_default"] => (s, ["new:" ++ describeInit ++ " default:" ++ describeInit])
  | "trace" :: rest =>
    match parseOp rest with
    | some (k, op, [script]) =>
      let sc := parseScript script
      let th : Local := ({} : Local).start op
      (s, [";".intercalate (traceLoop k (4 * sc.length + 16) th sc [])])
    | _ => (s, ["bad-op"])
  | ["machine", "sc"] => ({ initSt with mode := .sc, seq := s.seq }, ["ok"])
  | ["machine", "ra"] => ({ initSt with mode := .ra, seq := s.seq }, ["ok"])
  | "start" :: t :: rest =>
    match t.toNat?, parseOp rest with
    | some t, some (k, op, []) =>
      if k = .unlocked then (s, ["bad-op"]) else
      match s.mode with
      | .sc =>
        match SC.step chk s.sc (.start t op) with
        | some sc' => ({ s with sc := sc', kinds := upd s.kinds t k }, ["started"])
        | none => (s, ["busy"])
      | .ra =>
        match RA.step chk s.ra (.start t op) with
        | some ra' => ({ s with ra := ra', kinds := upd s.kinds t k }, ["started"])
        | none => (s, ["busy"])
      | .none => (s, ["bad-op"])
    | _, _ => (s, ["bad-op"])
  | ["step", t, ts] =>
    match t.toNat?, ts.toNat?, s.mode with
    | some t, some _, .sc => stepSc s t
    | some t, some ts, .ra => stepRa s t ts
    | _, _, _ => (s, ["bad-op"])
  | ["sync", t, u] =>
    match t.toNat?, u.toNat?, s.mode with
    | some _, some _, .sc => (s, ["synced"])
    | some t, some u, .ra =>
      match RA.step chk s.ra (.sync t u) with
      | some ra' => ({ s with ra := ra' }, ["synced view=" ++ fmtView (ra'.thr t).view])
      | none => (s, ["disabled"])
    | _, _, _ => (s, ["bad-op"])
  | "explore" :: _ => (s, ["explored"])
  | _ => (s, ["bad-op"])

def family : Family :=
  withUnwind
    { σ := St, init := initSt,
      step := fun s ws => match stepSeq s ws with | some r => r | none => step s ws }
    unwindSafe

end Woodpile.Driver.AbtFam

import Woodpile.Driver.Unwind
import Woodpile.Driver.Util
import Woodpile.Driver.Iovec
import Woodpile.Model.EncWorld
import Woodpile.Model.EncWorldPre

/-
Family `codecw`: the HCOBS Encoder / Decoder driving the *structural* iovec
model (C09 lag, C10 streaming footprint, C05 for codec-owned memory).

Ops: `enc_new prod|<maxInit> <maxSub>`, `dec_new …`, `feed b|c|a <payload>`,
`drain_all`, `drain_slices k`, `drain_bytes k`, `drain_read k`, `finish`.
`<payload>` is hex, or `gen:<len>:<seed>:<density>` (a PRNG both sides share).
-/
namespace Woodpile.Driver.CodecWFam
open Woodpile.Driver Woodpile.Arena Woodpile.Iovec Woodpile.Hcobs Woodpile.EncWorld

/-- xorshift64* -/
def xs (x : UInt64) : UInt64 :=
  let x := x ^^^ (x >>> 12)
  let x := x ^^^ (x <<< 25)
  x ^^^ (x >>> 27)

def genBytes (len : Nat) (seed : UInt64) (density : Nat) : List UInt8 :=
  let rec go : Nat → UInt64 → Array UInt8 → Array UInt8
    | 0, _, acc => acc
    | n + 1, x, acc =>
      let x := xs x
      let o := x * 0x2545F4914F6CDD1D
      let sel := ((o >>> 48) &&& 0xFF).toNat
      let b : UInt8 :=
        if sel < density then (if ((o >>> 40) &&& 1) = 0 then 0xFE else 0xFD)
        else (o >>> 56).toUInt8
      go n x (acc.push b)
  (go len (if seed = 0 then 0x9E3779B97F4A7C15 else seed) #[]).toList

def parsePayload (s : String) : Option (List UInt8) :=
  match s.splitOn ":" with
  | ["gen", len, seed, dens] =>
    match len.toNat?, seed.toNat?, dens.toNat? with
    | some l, some sd, some d => some (genBytes l (UInt64.ofNat sd) d)
    | _, _, _ => none
  | _ => parseHex s

inductive Codec where
  | none
  | enc (p : Params) (e : EncW)
  | dec (p : Params) (s : DecState)
  | failed

structure St where
  iv : IovecFam.St
  codec : Codec
  maxLag : Nat := 0
  /-- the codec is the production `Encoder` / `Decoder` (not a hook-H2 one): `ZeroCopySink`, `take_iovec` exist -/
  prodApi : Bool := false

def St.init : St := ⟨IovecFam.St.init, .none, 0, false⟩

def parseParams (ws : List String) : Option Params :=
  match ws with
  | ["prod"] => some ⟨Woodpile.Gen.maxInit, Woodpile.Gen.maxSub, Woodpile.Gen.radix⟩
  | [a, b] => match a.toNat?, b.toNat? with
    | some x, some y => some ⟨x, y, Woodpile.Gen.radix⟩
    | _, _ => none
  | _ => none

def stableLen (v : Iov) : Nat :=
  match v.stableCount with
  | some n => ((v.slices.take n).map (·.len)).foldl (· + ·) 0
  | none => 0

def describe (s : St) : List String :=
  match s.iv.w.iov 0 with
  | some v =>
    IovecFam.describe s.iv none ++ ["G lag=" ++ toString (v.totalSize - stableLen v)]
  | none => IovecFam.describe s.iv none

def fin (s : St) (w : World) (c : Codec) (ret : List String := []) : St × List String :=
  let iv' := ({ s.iv with w := w }).noteCaps
  let s' := { s with iv := iv', codec := c }
  (s', ret ++ describe s')

def panic (s : St) : St × List String := ({ s with iv := { s.iv with dead := true } }, ["panic"])

def errName : DecErr → String
  | .invalidInitialSizeHeader b => "InvalidInitialSizeHeader " ++ toString b.toNat
  | .invalidHeaderByte second b => "InvalidHeaderByte " ++ (if second then "1" else "0") ++ " " ++ toString b.toNat
  | .invalidSubsequentSizeHeader n => "InvalidSubsequentSizeHeader " ++ toString n
  | .cutShort => "CutShort"
  | .missingImplicitTerminator => "MissingImplicitTerminator"

-- (track apileft, helper decw) BEGIN
/-- The decoder after a call returned `Err(e)`: `EncWorld.decResume` (`InitialState`, same iovec). -/
def afterErr (p : Params) (e : DecErr) : Codec := .dec p (decResume (.error e))
-- (track apileft, helper decw) END

def stepRest (s : St) (ws : List String) : St × List String :=
  let w := s.iv.w
  match ws with
  | ["feed", m, payload] =>
    match parsePayload payload with
    | none => (s, ["bad-op"])
    | some bytes =>
      -- `ZeroCopySink for hcobs::Encoder` (through `dyn`): `append_borrow` = `encode`, `append_copy` =
      -- `encode_copy`; only the production `Encoder` implements the trait
      let sinkOk : Bool := match s.codec with | .enc _ _ => s.prodApi | _ => false
      if (m = "sb" || m = "sc") && !sinkOk then (s, ["bad-op"]) else
      let m := if m = "sb" then "b" else if m = "sc" then "c" else m
      if m = "a" then
        -- anchored input read into the codec's OWN arena: `read_n(count = len)` from a slice reader (one
        -- full delivery), then `encode_anchored` / `decode_anchored` = `EncWorld.encodeRead` / `decodeRead`
        match w.iov 0, s.codec with
        | some _, .enc p e =>
          match encodeRead p w 0 e ⟨bytes, [.deliver bytes.length]⟩ bytes.length 4 with
          | some (w2, e', .ok _, _) => fin s w2 (.enc p e')
          | some (_, _, .error _, _) => (s, ["bad-op"])
          | none => panic s
        | some _, .dec p st =>
          match decodeRead p w 0 st ⟨bytes, [.deliver bytes.length]⟩ bytes.length 4 with
          | some (w2, .ok (_, .ok st'), _) => fin s w2 (.dec p st') ["R ok"]
          | some (w2, .ok (_, .error e), _) => fin s w2 (afterErr p e) ["R err " ++ errName e]
          | some (_, .error _, _) => (s, ["bad-op"])
          | none => panic s
        | _, _ => (s, ["bad-op"])
      else
      -- where do the bytes live?
      let place : Option (World × Slice × Method × Option Anchor) :=
        if m = "f" then
          -- anchored input from a FOREIGN arena (detached arena a0 of the world, created on demand)
          if bytes.isEmpty then some (w, ⟨.ext 0, 0, 0⟩, .borrow, none) else
          let w0 := if w.arenas.isEmpty then (w.addArena ⟨none⟩).1 else w
          match w0.arenas.getD 0 none with
          | some ar =>
            if bytes.isEmpty then some (w0, ⟨.ext 0, 0, 0⟩, .borrow, none)
            else
              let (w1, ar', res, _) := w0.readN ar ⟨bytes, [.deliver bytes.length]⟩ bytes.length 4
              let w2 := { w1 with arenas := listSet w1.arenas 0 (some ar') none }
              match res with
              | .ok a => some (w2, a.slice, .borrow, some a.anchor)
              | .error _ => none
          | none => none
        else if m = "c" then some (w, ⟨.ext 0, 0, 0⟩, .copy, none)
        else
          let (w1, id) := w.addExt bytes
          some (w1, ⟨.ext id, 0, bytes.length⟩, .borrow, none)
      match place with
      | none => (s, ["bad-op"])
      | some (w1, base, meth, anchor) =>
        let pushA (w : World) : Option World :=
          match anchor with
          | some a => if bytes.isEmpty then some w else w.pushAnchor 0 a
          | none => some w
        match s.codec with
        | .enc p e =>
          match encFeed p (2 * bytes.length + 2) w1 0 e meth base bytes 0 with
          | some (w2, e') => match pushA w2 with
            | some w3 => fin s w3 (.enc p e')
            | none => panic s
          | none => panic s
        | .dec p st =>
          match decFeed p meth (bytes.length + 1) w1 0 st base bytes 0 with
          | some (w2, .ok st') => match pushA w2 with
            | some w3 => fin s w3 (.dec p st') ["R ok"]
            | none => panic s
          | some (w2, .error e) => match pushA w2 with
            | some w3 => fin s w3 (afterErr p e) ["R err " ++ errName e]
            | none => panic s
          | none => panic s
        | _ => (s, ["bad-op"])
  | ["feed_read", count, attempts, src, script] =>
    -- `encode_read` / `decode_read` with a scripted (possibly faulty) reader: the Model functions
    -- `EncWorld.encodeRead` / `decodeRead` (the ones `Props/C17W`, `C01G`, … are about)
    match count.toNat?, attempts.toNat?, parseHex src, ReadNFam.parseScript script, w.iov 0 with
    | some c, some att, some src, some sc, some _ =>
      match s.codec with
      | .enc p e =>
        match encodeRead p w 0 e ⟨src, sc⟩ c att with
        | some (w2, _, .error k, o) => fin s w2 s.codec ["R ioerr " ++ toString k ++ " reqs=" ++ natList o.reqs]
        | some (w2, e', .ok n, o) => fin s w2 (.enc p e') ["R ok " ++ toString n ++ " reqs=" ++ natList o.reqs]
        | none => panic s
      | .dec p st =>
        match decodeRead p w 0 st ⟨src, sc⟩ c att with
        | some (w2, .error k, o) => fin s w2 s.codec ["R ioerr " ++ toString k ++ " reqs=" ++ natList o.reqs]
        | some (w2, .ok (n, .ok st'), o) =>
          fin s w2 (.dec p st') ["R ok " ++ toString n ++ " reqs=" ++ natList o.reqs]
        | some (w2, .ok (_, .error e), o) =>
          fin s w2 (afterErr p e) ["R err " ++ errName e ++ " reqs=" ++ natList o.reqs]
        | none => panic s
      | _ =>
        match readOwn w 0 ⟨src, sc⟩ c att with
        | some (w2, .error k, o) => fin s w2 s.codec ["R ioerr " ++ toString k ++ " reqs=" ++ natList o.reqs]
        | _ => (s, ["bad-op"])
    | _, _, _, _, _ => (s, ["bad-op"])
  | ["foreign_flush"] =>
    match w.arenas.getD 0 none with
    | some ar => fin s { w with arenas := listSet w.arenas 0 (some (flush ar)) none } s.codec
    | none => fin s w s.codec
  | ["arena_flush"] =>
    match w.iov 0 with
    | some v => fin s (w.setIov 0 (some { v with arena := flush v.arena })) s.codec
    | none => (s, ["bad-op"])
  | ["arena_take_drop"] =>
    match w.iov 0 with
    | some v => fin s (w.setIov 0 (some { v with arena := ⟨none⟩ })) s.codec
    | none => (s, ["bad-op"])
  | ["drain_all"] =>
    match w.consume 0 1000000000 with
    | some (w', n) => fin s w' s.codec ["R " ++ toString n]
    | none => panic s
  | ["drain_slices", k] =>
    match k.toNat? with
    | some k => match w.consume 0 k with
      | some (w', n) => fin s w' s.codec ["R " ++ toString n]
      | none => panic s
    | none => (s, ["bad-op"])
  | ["drain_bytes", k] =>
    match k.toNat? with
    | some k => match w.advance 0 k with
      | some (w', n) => fin s w' s.codec ["R " ++ toString n]
      | none => panic s
    | none => (s, ["bad-op"])
  -- (track apileft, helper decw) BEGIN: `consumer().read(&mut buf[..k])`, `impl Read for ConsumingIovec`
  | ["drain_read", k] =>
    match k.toNat? with
    | some k => match readDrain w 0 k with
      | some (w', bytes) => fin s w' s.codec ["R " ++ toString bytes.length ++ " " ++ IovecFam.fmtBytes bytes]
      | none => panic s
    | none => (s, ["bad-op"])
  -- (track apileft, helper decw) END
  | ["take_iovec"] =>
    -- `Decoder::take_iovec(self)`: the iovec with whatever was decoded so far, no validity check
    match s.codec with
    | .dec _ _ => if s.prodApi then fin s w .none ["R ok"] else (s, ["bad-op"])
    | _ => (s, ["bad-op"])
  | ["finish"] =>
    match s.codec with
    | .enc p e =>
      match encFinish p w 0 e with
      | some w' => fin s w' .none ["R ok"]
      | none => panic s
    | .dec _ st =>
      match Dec.finish st with
      | .ok () => fin s w .none ["R ok"]
      | .error e =>
        -- `finish(self)` consumed the decoder: its iovec is dropped
        match w.dropIov 0 with
        | some w' => fin s w' .failed ["R err " ++ errName e]
        | none => panic s
    | _ => (s, ["bad-op"])
  | _ => (s, ["bad-op"])

-- (track apileft, helper decw) BEGIN
/-- A drain op when there is no iovec to drain (the decoder was consumed by a failing `finish`): the
harness has no consumer to call (`bad-op`); not a panic of the code under test. -/
def stepRest2 (s : St) (ws : List String) : St × List String :=
  let isDrain : Bool := match ws with
    | ["drain_all"] => true
    | ["drain_slices", _] => true
    | ["drain_bytes", _] => true
    | ["drain_read", _] => true
    | _ => false
  if isDrain && (s.iv.w.iov 0).isNone then (s, ["bad-op"]) else stepRest s ws
-- (track apileft, helper decw) END
/-! ### >>> track apileft-prefill: `new_from_iovec` on a richer pre-filled iovec

`enc_from2 <script> <limits…>` / `dec_from2 <script> <limits…>`: the caller builds the iovec with a short
script of real `OwningIovec` calls (`EncWorld.PreOp`, run by `EncWorld.preRun` — the functions
`Props/C01P`, `C09P` are about), then hands it to `new_from_iovec`.  Script = comma list of
`p<hex>` (`push`), `b<hex>` (`push_borrowed`), `c<hex>` (`push_copy`), `r<n>` (`register_patch` of n zero
bytes; caller token number = order of registration), `f<k>:<hex>` (`backfill_or_panic` of caller token k),
`d<k>` (`consume(k)`), `a<k>` (`advance_slices(k)`); `-` = empty script.
`post_fill <k> <hex>`: once the codec has given the iovec back (`finish` / `take_iovec`), the caller fills
placeholder k that was still pending at the hand-over (the codec never exposes the write side of its
iovec, so this is the earliest moment safe code can do it).  The caller's tokens live in `World.brefs`. -/

def parsePreOp (t : String) : Option PreOp :=
  match t.toList with
  | [] => none
  | c :: rest =>
    let arg := String.ofList rest
    if c = 'p' then (parseHex arg).map .push
    else if c = 'b' then (parseHex arg).map .pushBorrowed
    else if c = 'c' then (parseHex arg).map .pushCopy
    else if c = 'r' then arg.toNat?.map .register
    else if c = 'd' then arg.toNat?.map .consume
    else if c = 'a' then arg.toNat?.map .advance
    else if c = 'f' then
      match arg.splitOn ":" with
      | [k, hex] => match k.toNat?, parseHex hex with
        | some k, some bs => some (.fill k bs)
        | _, _ => none
      | _ => none
    else none

def parsePreScript (s : String) : Option (List PreOp) :=
  if s = "-" then some [] else (s.splitOn ",").mapM parsePreOp

def stepFrom2 (s : St) (isEnc : Bool) (script : String) (ps : List String) : St × List String :=
  match parsePreScript script, parseParams ps with
  | some ops, some p =>
    let (w0, _) := s.iv.w.addIov Iov.empty
    match preRun 0 ⟨w0, [], []⟩ ops with
    | none => panic s
    | some st =>
      let w2 : World := { st.w with brefs := st.toks }
      if isEnc then
        match encInit p w2 0 with
        | some (w3, e) => fin { s with prodApi := ps = ["prod"] } w3 (.enc p e)
        | none => panic s
      else fin { s with prodApi := ps = ["prod"] } w2 (.dec p .initial)
  | _, _ => (s, ["bad-op"])

def stepPostFill (s : St) (k hex : String) : St × List String :=
  match s.codec, k.toNat?, parseHex hex, s.iv.w.iov 0 with
  | .none, some k, some bs, some _ =>
    match s.iv.w.brefs[k]? with
    | none => (s, ["bad-op"])
    | some b =>
      match s.iv.w.backfill 0 b bs with
      | some w' => fin s w' .none
      | none => panic s
  | _, _, _, _ => (s, ["bad-op"])

/-! ### <<< track apileft-prefill -/

def step (s : St) (ws : List String) : St × List String :=
  if s.iv.dead then (s, []) else
  let w := s.iv.w
  match ws with
  | "enc_new" :: ps =>
    match parseParams ps with
    | some p =>
      let (w0, _) := w.addIov Iov.empty
      match encInit p w0 0 with
      | some (w1, e) => fin { s with prodApi := ps = ["prod"] } w1 (.enc p e)
      | none => panic s
    | none => (s, ["bad-op"])
  | "dec_new" :: ps =>
    match parseParams ps with
    | some p => let (w0, _) := w.addIov Iov.empty; fin { s with prodApi := ps = ["prod"] } w0 (.dec p .initial)
    | none => (s, ["bad-op"])
  -- `Encoder::default()` = `Encoder::new()`, `Decoder::default()` = `Decoder::new()`
  | ["enc_default"] =>
    let (w0, _) := w.addIov Iov.empty
    match encInit ⟨Woodpile.Gen.maxInit, Woodpile.Gen.maxSub, Woodpile.Gen.radix⟩ w0 0 with
    | some (w1, e) => fin { s with prodApi := true } w1 (.enc ⟨Woodpile.Gen.maxInit, Woodpile.Gen.maxSub, Woodpile.Gen.radix⟩ e)
    | none => panic s
  | ["dec_default"] =>
    let (w0, _) := w.addIov Iov.empty
    fin { s with prodApi := true } w0 (.dec ⟨Woodpile.Gen.maxInit, Woodpile.Gen.maxSub, Woodpile.Gen.radix⟩ .initial)
  -- >>> track apileft-prefill
  | "enc_from2" :: script :: ps => stepFrom2 s true script ps
  | "dec_from2" :: script :: ps => stepFrom2 s false script ps
  | ["post_fill", k, hex] => stepPostFill s k hex
  -- a drain when there is no iovec (before any constructor, or after a failed `finish` consumed the decoder
  -- and its iovec): the harness has nothing to call and answers `bad-op`
  | "drain_all" :: _ => if (w.iov 0).isNone then (s, ["bad-op"]) else stepRest s ws
  | "drain_slices" :: _ => if (w.iov 0).isNone then (s, ["bad-op"]) else stepRest s ws
  | "drain_bytes" :: _ => if (w.iov 0).isNone then (s, ["bad-op"]) else stepRest s ws
  -- <<< track apileft-prefill
  -- `new_from_iovec(iovec)` on an iovec that already holds `prefill` (handed over with `push`)
  | op :: prefill :: ps =>
    if !(op = "enc_from" || op = "dec_from") then stepRest2 s ws else
    match parseHex prefill, parseParams ps with
    | some pre, some p =>
      let (w0, _) := w.addIov Iov.empty
      let (w1, id) := w0.addExt pre
      match w1.push 0 ⟨.ext id, 0, pre.length⟩ with
      | none => panic s
      | some w2 =>
        if op = "enc_from" then
          match encInit p w2 0 with
          | some (w3, e) => fin { s with prodApi := ps = ["prod"] } w3 (.enc p e)
          | none => panic s
        else fin { s with prodApi := ps = ["prod"] } w2 (.dec p .initial)
    | _, _ => (s, ["bad-op"])
  | _ => stepRest2 s ws

/-- `unwinding <ws>`: no op of this vocabulary is specified to panic (the harness wraps any op); an op the
model cannot run (`bad-op`) or panics on is refused (decided on the op's own answer, evaluated once). -/
def family : Family := withUnwindOut { σ := St, init := St.init, step := step } (fun _ _ => true) panicOrBad

end Woodpile.Driver.CodecWFam

import Woodpile.Driver.Util

/-!
Behaviour during unwinding (track traits; harness side: `harness/src/unwind.rs`).

Nothing in the properties depends on whether the calling thread is panicking, so for the
models the two generic op forms are:

* `unwinding <op …>` = `<op …>` (the harness runs the real op from inside a destructor while the
  thread unwinds from a deliberate, caught panic).  Refused with `bad-op` - on both sides, state
  unchanged - unless the family declares the op safe on the current state (`safe`): an op that is
  specified to panic must not be wrapped.
* `scoped_panic <op …> ; <op …> ; …`: the ops run on a FRESH state that is thrown away (the
  harness builds the objects inside a closure that panics, so the unwinder drops them); their
  observations are printed as usual, an op answering `panic` ends the scope early; last line
  `scoped caught`.
-/
namespace Woodpile.Driver

def isPrefixWord (w : String) : Bool := w = "unwinding" || w = "scoped_panic"

/-- splits the words of a `scoped_panic` body at the `;` separators -/
def splitScoped (ws : List String) : List (List String) :=
  let rec go (ws : List String) (cur : List String) (acc : List (List String)) : List (List String) :=
    match ws with
    | [] => (cur.reverse :: acc).reverse
    | w :: rest => if w = ";" then go rest [] (cur.reverse :: acc) else go rest (w :: cur) acc
  (go ws [] []).filter (fun o => !o.isEmpty)

def runScoped (f : Family) : f.σ → List (List String) → List String → List String
  | _, [], acc => acc
  | s, op :: ops, acc =>
    let (s', outs) := f.step s op
    if outs.contains "panic" then acc ++ outs else runScoped f s' ops (acc ++ outs)

/-- The family `f` with the `unwinding` / `scoped_panic` op forms. -/
def withUnwind (f : Family) (safe : f.σ → List String → Bool) : Family :=
  { σ := f.σ
    init := f.init
    step := fun s ws =>
      match ws with
      | "unwinding" :: rest =>
        match rest with
        | [] => (s, ["bad-op"])
        | w :: _ => if isPrefixWord w || !safe s rest then (s, ["bad-op"]) else f.step s rest
      | "scoped_panic" :: rest =>
        let ops := splitScoped rest
        if ops.isEmpty || ops.any (fun o => match o with | w :: _ => isPrefixWord w | [] => true) then (s, ["bad-op"])
        else (s, runScoped f f.init ops [] ++ ["scoped caught"])
      | _ => f.step s ws }

/-- `withUnwind` for families whose refusal rule looks at the op's own answer ("the model does not panic
here"): the wrapped op is run ONCE; when `bad ws outs` holds the state is kept and the answer is `bad-op`.
`pre` is the part of the rule that does not need the answer. -/
def withUnwindOut (f : Family) (pre : f.σ → List String → Bool) (bad : List String → List String → Bool) : Family :=
  { σ := f.σ
    init := f.init
    step := fun s ws =>
      match ws with
      | "unwinding" :: rest =>
        match rest with
        | [] => (s, ["bad-op"])
        | w :: _ =>
          if isPrefixWord w || !pre s rest then (s, ["bad-op"])
          else
            let (s', outs) := f.step s rest
            if bad rest outs then (s, ["bad-op"]) else (s', outs)
      | "scoped_panic" :: rest =>
        let ops := splitScoped rest
        if ops.isEmpty || ops.any (fun o => match o with | w :: _ => isPrefixWord w | [] => true) then (s, ["bad-op"])
        else (s, runScoped f f.init ops [] ++ ["scoped caught"])
      | _ => f.step s ws }

/-- the usual `bad`: the model panicked or did not know the op -/
def panicOrBad (_ : List String) (outs : List String) : Bool := outs.contains "panic" || outs.contains "bad-op"

end Woodpile.Driver

import Woodpile.Driver.Util
import Woodpile.Model.RoughTlv
import Woodpile.Model.RoughTlvApi

/-!
Model drivers for the families `tlv` (C11) and `tlvview` (C12).

`tlvview`:  `I view <hex> <lookups>`  — `MessageView::new` on the bytes and then
every accessor (see `viewObs`).

`tlv`:  `I msg <ctor> <vt> <items>` builds a `MessageWrapper` into the next slot
(`ctor` ∈ new|sorted|slice; `vt` names the Rust value type and is only
validated here; items are `tag:kind:payload` with kind `b`/`o` = borrowed/owned
bytes, `m` = the message in an earlier slot, `v` = a `MessageView` of that
slot's encoding (a received message re-used as a value), `f` = a value whose
`rough_tlv_len` reports the given number and which is never encoded);
`I enc <slot> <sink>` encodes the slot's message and views the result.
-/
namespace Woodpile.Driver.RoughTlvFam
open Woodpile.Driver Woodpile.RoughTlv

/-! ### Shared: observations of a view -/

def optHex : Option (List UInt8) → String
  | none => "none"
  | some bs => toHex bs

def pairStr (p : Nat × List UInt8) : String := toString p.1 ++ ":" ++ toHex p.2

def optPair : Option (Nat × List UInt8) → String
  | none => "none"
  | some p => pairStr p

def b01 (b : Bool) : String := if b then "1" else "0"

def errStr : DecErr → String
  | .impossibleHeader s => "impossibleHeader " ++ toString s
  | .truncatedHeader n s => "truncatedHeader " ++ toString n ++ " " ++ toString s
  | .nonMonotonicOffsets i a b => "nonMonotonicOffsets " ++ toString i ++ " " ++ toString a ++ " " ++ toString b
  | .nonMonotonicTags i a b => "nonMonotonicTags " ++ toString i ++ " " ++ toString a ++ " " ++ toString b
  | .truncatedPayload t s => "truncatedPayload " ++ toString t ++ " " ++ toString s

/-- Everything the harness asks of a `MessageView`; `none` = some call panics. -/
def viewObs (d : List UInt8) (lookups : List Nat) : Option (List String) := do
  match ← View.new d with
  | .error e => pure ["new err " ++ errStr e]
  | .ok v =>
    let n ← v.len
    let empty ← v.isEmpty
    let tags ← v.tags
    let m1 ← v.tagsMatchExactly tags
    let m2 ← v.tagsMatchExactly lookups
    let it ← v.iter
    let idxs := List.range (n + 2) ++ [4294967296, 18446744073709551615]
    let gets ← idxs.mapM (fun i => (v.get i).map (fun r => toString i ++ "=" ++ optPair r))
    let getvs ← idxs.mapM (fun i => (v.getValue i).map (fun r => toString i ++ "=" ++ optHex r))
    let finds ← lookups.mapM (fun w => do
      let ft ← v.findTag w
      let f ← v.find w
      pure (toString w ++ "=" ++ (match ft with | none => "none" | some i => toString i) ++ "/" ++ optHex f))
    pure [
      "new ok n=" ++ toString n ++ " empty=" ++ b01 empty,
      "tags " ++ natList tags ++ " match=" ++ b01 m1 ++ "," ++ b01 m2,
      "iter " ++ (if it.isEmpty then "-" else ";".intercalate (it.map pairStr)),
      "get " ++ " ".intercalate gets,
      "getv " ++ " ".intercalate getvs,
      "find " ++ (if finds.isEmpty then "-" else " ".intercalate finds),
      -- `inner()` / `into_inner()`: the bytes the view was built from (track apigaps)
      "inner " ++ toHex v.inner ++ " " ++ b01 (v.intoInner == v.inner)]

def viewObsOrPanic (d : List UInt8) (lookups : List Nat) : List String :=
  match viewObs d lookups with
  | none => ["panic"]
  | some ls => ls

/-! ### Family `tlvview` -/

def viewStep (s : Unit) : List String → Unit × List String
  | ["view", hex, lk] =>
    match parseHex hex, parseNatList lk with
    | some d, some lookups =>
      if lookups.all (· < 4294967296) then (s, viewObsOrPanic d lookups) else (s, ["bad-op"])
    | _, _ => (s, ["bad-op"])
  -- `Tag` conversions and ordering (track apigaps): `tag <u32> <u32>`
  | ["tag", a, b] =>
    match a.toNat?, b.toNat? with
    | some x, some y =>
      if x < 4294967296 ∧ y < 4294967296 then
        let ta := tagOfU32 x
        let tb := tagOfU32 y
        let ord (o : Ordering) : String := match o with | .lt => "lt" | .eq => "eq" | .gt => "gt"
        (s, ["tag a=" ++ toString (tagValue ta) ++ ":" ++ toHex ta ++ " b=" ++ toString (tagValue tb) ++ ":" ++ toHex tb
              ++ " cmp=" ++ ord (tagCmp ta tb)
              ++ " pcmp=" ++ (match tagPartialCmp ta tb with | some o => ord o | none => "none")
              ++ " new=" ++ toString (tagValue (tagNew ta))])
      else (s, ["bad-op"])
    | _, _ => (s, ["bad-op"])
  | _ => (s, ["bad-op"])

def viewFamily : Family := { σ := Unit, init := (), step := viewStep }

/-! ### Family `tlv` -/

/-- A value as the model sees it: what it writes, what it says its length is,
and whether it is (or contains) a never-encoded fake. -/
structure DVal where
  bytes : List UInt8
  len : Nat
  fake : Bool

structure St where
  slots : Array (Option (Wrapper DVal))

def encErrStr : EncErr → String
  | .nonMonotonicTags i a b => "nonMonotonicTags " ++ toString i ++ " " ++ toString a ++ " " ++ toString b
  | .tooManyElements n => "tooManyElements " ++ toString n
  | .valueTooLarge r s => "valueTooLarge " ++ toString r ++ " " ++ toString s
  | .totalTooLarge c s => "totalTooLarge " ++ toString c ++ " " ++ toString s

def hasFake (w : Wrapper DVal) : Bool := w.entries.any (·.2.fake)

def kindAllowed (vt : String) (k : String) : Bool :=
  match vt with
  | "cow" => k == "b" || k == "o"
  | "str" => k == "b" || k == "o"
  | "ref" => k == "b"
  | "h" => k == "b" || k == "o" || k == "m" || k == "v" || k == "f"
  | _ => false

def parseItem (s : St) (vt : String) (item : String) : Option (Pair DVal) :=
  match item.splitOn ":" with
  | [tag, k, payload] =>
    if !kindAllowed vt k then none else
    match tag.toNat? with
    | none => none
    | some t =>
      if t ≥ 4294967296 then none else
      if k == "b" || k == "o" then
        match parseHex payload with
        | some bs =>
          if vt == "str" && bs.any (· ≥ 128) then none
          else some (UInt32.ofNat t, ⟨bs, bs.length, false⟩)
        | none => none
      else if k == "m" then
        match payload.toNat? with
        | some i =>
          match s.slots[i]? with
          | some (some w) =>
            some (UInt32.ofNat t, ⟨w.bytes DVal.bytes DVal.len, w.tlvLen, hasFake w⟩)
          | _ => none
        | none => none
      else if k == "v" then
        -- `MessageView` of the slot's encoding used as a value: writes its storage, reports its length
        match payload.toNat? with
        | some i =>
          match s.slots[i]? with
          | some (some w) =>
            if hasFake w then none else
            let bs := w.bytes DVal.bytes DVal.len
            some (UInt32.ofNat t, ⟨bs, bs.length, false⟩)
          | _ => none
        | none => none
      else
        match payload.toNat? with
        | some n => if n ≥ 18446744073709551616 then none else some (UInt32.ofNat t, ⟨[], n, true⟩)
        | none => none
  | _ => none

def parseItems (s : St) (vt : String) (items : String) : Option (List (Pair DVal)) :=
  if items = "-" then some [] else (items.splitOn ",").mapM (parseItem s vt)

def tagLookups (tags : List Nat) : List Nat :=
  (tags.map (fun t => [t, (t + 1) % 4294967296])).flatten.eraseDups

def step (s : St) : List String → St × List String
  | ["msg", ctor, vt, items] =>
    match parseItems s vt items with
    | none => (s, ["bad-op"])
    | some es =>
      let r? : Option (Except EncErr (Wrapper DVal)) :=
        match ctor with
        | "new" => some (Wrapper.new DVal.len es)
        | "sorted" => some (Wrapper.newFromSorted DVal.len es)
        | "slice" => some (Wrapper.newFromSlice DVal.len es)
        | _ => none
      match r? with
      | none => (s, ["bad-op"])
      | some (.ok w) => ({ slots := s.slots.push (some w) }, ["ok " ++ toString w.tlvLen])
      | some (.error e) => ({ slots := s.slots.push none }, ["err " ++ encErrStr e])
  | ["enc", slot, sink] =>
    if sink ≠ "iov" ∧ sink ≠ "hcobs" then (s, ["bad-op"]) else
    match slot.toNat? with
    | none => (s, ["bad-op"])
    | some i =>
      match s.slots[i]? with
      | some (some w) =>
        if hasFake w then (s, ["bad-op"]) else
        match w.encode DVal.bytes DVal.len with
        | none => (s, ["panic"])
        | some out =>
          let lookups :=
            match (View.mk out).tags with
            | some tags => tagLookups tags
            | none => []
          match viewObs out lookups with
          | none => (s, ["panic"])
          | some ls => (s, ("bytes " ++ toHex out) :: ls)
      | _ => (s, ["bad-op"])
  | _ => (s, ["bad-op"])

def family : Family := { σ := St, init := ⟨#[]⟩, step := step }

end Woodpile.Driver.RoughTlvFam

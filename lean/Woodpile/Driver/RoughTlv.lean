import Woodpile.Driver.Util
import Woodpile.Driver.IterScript
import Woodpile.Model.RoughTlv
import Woodpile.Model.RoughTlvApi
import Woodpile.Gen.Consts

/-!
Model drivers for the families `tlv` (C11) and `tlvview` (C12).

`tlvview`:  `I view <hex> <lookups>`  — `MessageView::new` on the bytes and then
every accessor (see `viewObs`);  `I viewit <iter|tags> <hex> <script>` — an iterator-protocol
script (`Model/IterScript.lean`) on what `iter()` / `tags().iter()` yield.

`tlv`:  `I msg <ctor> <vt> <items>` builds a `MessageWrapper` into the next slot
(`ctor` ∈ new|sorted|slice; `vt` names the Rust value type and is only
validated here; items are `tag:kind:payload` with kind `b`/`o` = borrowed/owned
bytes, `m` = the message in an earlier slot, `v` = a `MessageView` of that
slot's encoding (a received message re-used as a value), `f` = a value whose
`rough_tlv_len` reports the given number and which is never encoded);
`I msgrun <ctor> <vt> <L> <defect>` is `msg` on a generated list (`runItems`: `L` pairs with empty
values and ascending tags, one defect at a chosen position; the single-defect sweeps);
`I enc <slot> <sink>` encodes the slot's message and views the result; it answers
`calls <b|c><len>,…` (the `ZeroCopySink` calls `encode` makes, in order: method and
length), for sink `hcobs` also `wire <hex>` (what the HCOBS `Encoder` sink holds after
`finish`: the encoder model run on those calls), then `bytes <hex>` and the view lines.
-/
namespace Woodpile.Driver.RoughTlvFam
open Woodpile.Driver Woodpile.RoughTlv

/-! ### Shared: observations of a view -/

def optHex : Option (List UInt8) → String
  | none => "none"
  | some bs => toHex bs

def pairStr (p : Nat × List UInt8) : String := toString p.1 ++ ":" ++ toHex p.2

def optPair : Option (Nat × List UInt8) → String
  | none => "none"
  | some p => pairStr p

def b01 (b : Bool) : String := if b then "1" else "0"

def errStr : DecErr → String
  | .impossibleHeader s => "impossibleHeader " ++ toString s
  | .truncatedHeader n s => "truncatedHeader " ++ toString n ++ " " ++ toString s
  | .nonMonotonicOffsets i a b => "nonMonotonicOffsets " ++ toString i ++ " " ++ toString a ++ " " ++ toString b
  | .nonMonotonicTags i a b => "nonMonotonicTags " ++ toString i ++ " " ++ toString a ++ " " ++ toString b
  | .truncatedPayload t s => "truncatedPayload " ++ toString t ++ " " ++ toString s

/-- Everything the harness asks of a `MessageView`; `none` = some call panics. -/
def viewObs (d : List UInt8) (lookups : List Nat) : Option (List String) := do
  match ← View.new d with
  | .error e => pure ["new err " ++ errStr e]
  | .ok v =>
    let n ← v.len
    let empty ← v.isEmpty
    let tags ← v.tags
    let m1 ← v.tagsMatchExactly tags
    let m2 ← v.tagsMatchExactly lookups
    let it ← v.iter
    let idxs := List.range (n + 2) ++ [4294967296, 18446744073709551615]
    let gets ← idxs.mapM (fun i => (v.get i).map (fun r => toString i ++ "=" ++ optPair r))
    let getvs ← idxs.mapM (fun i => (v.getValue i).map (fun r => toString i ++ "=" ++ optHex r))
    let finds ← lookups.mapM (fun w => do
      let ft ← v.findTag w
      let f ← v.find w
      pure (toString w ++ "=" ++ (match ft with | none => "none" | some i => toString i) ++ "/" ++ optHex f))
    pure [
      "new ok n=" ++ toString n ++ " empty=" ++ b01 empty,
      "tags " ++ natList tags ++ " match=" ++ b01 m1 ++ "," ++ b01 m2,
      "iter " ++ (if it.isEmpty then "-" else ";".intercalate (it.map pairStr)),
      "get " ++ " ".intercalate gets,
      "getv " ++ " ".intercalate getvs,
      "find " ++ (if finds.isEmpty then "-" else " ".intercalate finds),
      -- `inner()` / `into_inner()`: the bytes the view was built from (track apigaps)
      "inner " ++ toHex v.inner ++ " " ++ b01 (v.intoInner == v.inner)]

def viewObsOrPanic (d : List UInt8) (lookups : List Nat) : List String :=
  match viewObs d lookups with
  | none => ["panic"]
  | some ls => ls

/-! ### Family `tlvview` -/

/-- FNV-1a, 64 bit, over the (ASCII) characters of a string; same as `fnv64` in the harness. -/
def fnvStr (s : String) : UInt64 :=
  s.foldl (fun h c => (h ^^^ c.toNat.toUInt64) * 0x100000001b3) 0xcbf29ce484222325

def hex64 (x : UInt64) : String :=
  String.ofList ((List.range 16).map (fun i => hexChar ((x >>> (UInt64.ofNat (60 - 4 * i))).toNat % 16)))

def dedupAdj : List Nat → List Nat
  | a :: b :: rest => if a = b then dedupAdj (b :: rest) else a :: dedupAdj (b :: rest)
  | l => l

/-- The terse observation of `viewt` (messages with hundreds of pairs): the `new` line, count +
digest of the `tags` and `iter` texts of `viewObs`, `get`/`get_value` at a handful of indices,
`find` of the lookups.  `none` = some call panics. -/
def viewTerse (d : List UInt8) (lookups : List Nat) : Option (List String) := do
  match ← View.new d with
  | .error e => pure ["new err " ++ errStr e]
  | .ok v =>
    let n ← v.len
    let empty ← v.isEmpty
    let tags ← v.tags
    let it ← v.iter
    let idxs := dedupAdj [0, n / 2, n - 1, n, n + 1, 4294967296, 18446744073709551615]
    let gets ← idxs.mapM (fun i => do
      let g ← v.get i
      let gv ← v.getValue i
      pure (toString i ++ "=" ++ optPair g ++ "/" ++ optHex gv))
    let finds ← lookups.mapM (fun w => do
      let ft ← v.findTag w
      let f ← v.find w
      pure (toString w ++ "=" ++ (match ft with | none => "none" | some i => toString i) ++ "/" ++ optHex f))
    pure [
      "new ok n=" ++ toString n ++ " empty=" ++ b01 empty,
      "tags #" ++ toString tags.length ++ ":" ++ hex64 (fnvStr (natList tags)),
      "iter #" ++ toString it.length ++ ":" ++ hex64 (fnvStr (if it.isEmpty then "-" else ";".intercalate (it.map pairStr))),
      "get " ++ " ".intercalate gets,
      "find " ++ (if finds.isEmpty then "-" else " ".intercalate finds)]

/-- `viewit <iter|tags> <hex> <script>`: an iterator-protocol script on the list `iter()` yields
(forward only) or on the tags (a slice iterator: double-ended, exact size). -/
def viewItObs (src : String) (d : List UInt8) (steps : List Woodpile.IterScript.Step) : List String :=
  match View.new d with
  | none => ["panic"]
  | some (.error e) => ["new err " ++ errStr e]
  | some (.ok v) =>
    if src = "iter" then
      match v.iter with
      | none => ["panic"]
      | some ps => [IterScriptText.scriptObs (ps.map pairStr) steps false]
    else
      match v.tags with
      | none => ["panic"]
      | some ts => [IterScriptText.scriptObs (ts.map toString) steps true]

def viewStep (s : Unit) : List String → Unit × List String
  | ["viewit", src, hex, script] =>
    if src ≠ "iter" ∧ src ≠ "tags" then (s, ["bad-op"]) else
    match parseHex hex, IterScriptText.parseScript script with
    | some d, some steps => (s, viewItObs src d steps)
    | _, _ => (s, ["bad-op"])
  | ["view", hex, lk] =>
    match parseHex hex, parseNatList lk with
    | some d, some lookups =>
      if lookups.all (· < 4294967296) then (s, viewObsOrPanic d lookups) else (s, ["bad-op"])
    | _, _ => (s, ["bad-op"])
  | ["viewt", hex, lk] =>
    match parseHex hex, parseNatList lk with
    | some d, some lookups =>
      if lookups.all (· < 4294967296) then (s, (viewTerse d lookups).getD ["panic"]) else (s, ["bad-op"])
    | _, _ => (s, ["bad-op"])
  -- `Tag` conversions and ordering (track apigaps): `tag <u32> <u32>`
  | ["tag", a, b] =>
    match a.toNat?, b.toNat? with
    | some x, some y =>
      if x < 4294967296 ∧ y < 4294967296 then
        let ta := tagOfU32 x
        let tb := tagOfU32 y
        let ord (o : Ordering) : String := match o with | .lt => "lt" | .eq => "eq" | .gt => "gt"
        (s, ["tag a=" ++ toString (tagValue ta) ++ ":" ++ toHex ta ++ " b=" ++ toString (tagValue tb) ++ ":" ++ toHex tb
              ++ " cmp=" ++ ord (tagCmp ta tb)
              ++ " pcmp=" ++ (match tagPartialCmp ta tb with | some o => ord o | none => "none")
              ++ " new=" ++ toString (tagValue (tagNew ta))])
      else (s, ["bad-op"])
    | _, _ => (s, ["bad-op"])
  | _ => (s, ["bad-op"])

def viewFamily : Family := { σ := Unit, init := (), step := viewStep }

/-! ### Family `tlv`

The state machine (`TlvSt`, `TlvSt.msg`, the value type `DVal`) lives in the model
(Model/RoughTlv.lean) so that `Props/C11.dval_lawful` is about exactly what runs
here; this file only parses the op words into `Ctor` / `ItemSpec` and prints. -/

def encErrStr : EncErr → String
  | .nonMonotonicTags i a b => "nonMonotonicTags " ++ toString i ++ " " ++ toString a ++ " " ++ toString b
  | .tooManyElements n => "tooManyElements " ++ toString n
  | .valueTooLarge r s => "valueTooLarge " ++ toString r ++ " " ++ toString s
  | .totalTooLarge c s => "totalTooLarge " ++ toString c ++ " " ++ toString s

def kindAllowed (vt : String) (k : String) : Bool :=
  match vt with
  | "cow" => k == "b" || k == "o"
  | "str" => k == "b" || k == "o"
  | "ref" => k == "b"
  | "h" => k == "b" || k == "o" || k == "m" || k == "v" || k == "f"
  | _ => false

/-- Which sink method the Rust value type `vt` uses for a `b`/`o` item:
`Cow::Borrowed` → `append_borrow`, `Cow::Owned` → `append_copy` (`cow`, `str`, the
harness enum `h`); a plain `&[u8]` (`ref`) is always `append_copy`. -/
def methodOf (vt k : String) : Woodpile.Hcobs.Method :=
  if vt == "ref" then .copy else if k == "b" then .borrow else .copy

def parseItem (vt : String) (item : String) : Option (UInt32 × ItemSpec) :=
  match item.splitOn ":" with
  | [tag, k, payload] =>
    if !kindAllowed vt k then none else
    match tag.toNat? with
    | none => none
    | some t =>
      if t ≥ 4294967296 then none else
      if k == "b" || k == "o" then
        match parseHex payload with
        | some bs =>
          if vt == "str" && bs.any (· ≥ 128) then none
          else some (UInt32.ofNat t, .bytes (methodOf vt k) bs)
        | none => none
      else if k == "m" then
        payload.toNat?.map (fun i => (UInt32.ofNat t, .msg i))
      else if k == "v" then
        payload.toNat?.map (fun i => (UInt32.ofNat t, .view i))
      else
        match payload.toNat? with
        | some n => if n ≥ 18446744073709551616 then none else some (UInt32.ofNat t, .fake n)
        | none => none
  | _ => none

def parseItems (vt : String) (items : String) : Option (List (UInt32 × ItemSpec)) :=
  if items = "-" then some [] else (items.splitOn ",").mapM (parseItem vt)

def parseCtor : String → Option Ctor
  | "new" => some .new
  | "sorted" => some .sorted
  | "slice" => some .slice
  | _ => none

def tagLookups (tags : List Nat) : List Nat :=
  (tags.map (fun t => [t, (t + 1) % 4294967296])).flatten.eraseDups

/-- `b<len>` = `append_borrow` of `len` bytes, `c<len>` = `append_copy`. -/
def callStr (p : Piece) : String :=
  (match p.1 with | .borrow => "b" | .copy => "c") ++ toString p.2.length

def callsStr (cs : List Piece) : String :=
  if cs.isEmpty then "-" else ",".intercalate (cs.map callStr)

def prodParams : Woodpile.Hcobs.Params := ⟨Woodpile.Gen.maxInit, Woodpile.Gen.maxSub, Woodpile.Gen.radix⟩

/-- The defect of a `msgrun` op (see `runItems`). -/
inductive Defect where
  | none
  | descent (i : Nat)
  | equal (i : Nat)
  | fake (i : Nat) (len : Nat)
  /-- the last pair carries the tag of pair `j`; values `62` (pair `j`) and `61` (the late pair) -/
  | late (j : Nat)

def parseDefect (s : String) : Option Defect :=
  if s = "-" then some .none
  else
    let rest := (s.drop 1).toString
    if s.startsWith "d" then rest.toNat?.map .descent
    else if s.startsWith "e" then rest.toNat?.map .equal
    else if s.startsWith "t" then rest.toNat?.map .late
    else if s.startsWith "f" then
      match rest.splitOn ":" with
      | [i, len] =>
        match i.toNat?, len.toNat? with
        | some i, some len => if len ≥ 18446744073709551616 then none else some (.fake i len)
        | _, _ => none
      | _ => none
    else none

/-- The list of `msgrun <ctor> <vt> <L> <defect>` (same as the harness' `msgrun_items`): `L` pairs with
empty values handed over as `vt` hands over a borrowed value, tags `10 + 2j`, and one defect:
the tags of pairs `i`, `i+1` swapped / pair `i+1` carrying the tag of pair `i` / pair `i` a
value that only reports a length.  `none` = malformed. -/
def runItems (vt : String) (l : Nat) (d : Defect) : Option (List (UInt32 × ItemSpec)) :=
  let tag (j : Nat) : Nat :=
    match d with
    | .descent i => if j = i then 10 + 2 * (i + 1) else if j = i + 1 then 10 + 2 * i else 10 + 2 * j
    | .equal i => if j = i + 1 then 10 + 2 * i else 10 + 2 * j
    | .late i => if j + 1 = l then 10 + 2 * i else 10 + 2 * j
    | _ => 10 + 2 * j
  let item (j : Nat) : ItemSpec :=
    match d with
    | .fake i len => if j = i then .fake len else .bytes (methodOf vt "b") []
    | .late i => if j = i then .bytes (methodOf vt "b") [0x62]
                 else if j + 1 = l then .bytes (methodOf vt "b") [0x61] else .bytes (methodOf vt "b") []
    | _ => .bytes (methodOf vt "b") []
  let ok : Bool :=
    kindAllowed vt "b" && l ≤ 100000 &&
    (match d with
     | .none => true
     | .descent i => i + 1 < l
     | .equal i => i + 1 < l
     | .late i => 2 ≤ l && i + 1 < l
     | .fake i _ => i < l && vt == "h")
  if ok then some ((List.range l).map (fun j => (UInt32.ofNat (tag j), item j))) else none

def step (s : TlvSt) : List String → TlvSt × List String
  | ["msgrun", ctor, vt, l, defect] =>
    match parseCtor ctor, l.toNat?, parseDefect defect with
    | some c, some l, some d =>
      match runItems vt l d with
      | none => (s, ["bad-op"])
      | some its =>
        match s.msg c its with
        | none => (s, ["bad-op"])
        | some (s', .ok w) => (s', ["ok " ++ toString w.tlvLen])
        | some (s', .error e) => (s', ["err " ++ encErrStr e])
    | _, _, _ => (s, ["bad-op"])
  | ["msg", ctor, vt, items] =>
    match parseCtor ctor, parseItems vt items with
    | some c, some its =>
      match s.msg c its with
      | none => (s, ["bad-op"])
      | some (s', .ok w) => (s', ["ok " ++ toString w.tlvLen])
      | some (s', .error e) => (s', ["err " ++ encErrStr e])
    | _, _ => (s, ["bad-op"])
  | ["enc", slot, sink] =>
    if sink ≠ "iov" ∧ sink ≠ "hcobs" then (s, ["bad-op"]) else
    match slot.toNat? with
    | none => (s, ["bad-op"])
    | some i =>
      match s.slots[i]? with
      | some (some w) =>
        if hasFake w then (s, ["bad-op"]) else
        match w.encodePieces DVal.calls DVal.len with
        | none => (s, ["panic"])
        | some cs =>
          let out := flat cs
          let lookups :=
            match (View.mk out).tags with
            | some tags => tagLookups tags
            | none => []
          -- the `hcobs::Encoder` sink: the encoder model fed these calls by these methods
          let wire := if sink = "hcobs" then
              ["wire " ++ toHex (Woodpile.Hcobs.Enc.output prodParams cs).bytes] else []
          match viewObs out lookups with
          | none => (s, ["panic"])
          | some ls => (s, ("calls " ++ callsStr cs) :: wire ++ ("bytes " ++ toHex out) :: ls)
      | _ => (s, ["bad-op"])
  | _ => (s, ["bad-op"])

def family : Family := { σ := TlvSt, init := TlvSt.init, step := step }

end Woodpile.Driver.RoughTlvFam

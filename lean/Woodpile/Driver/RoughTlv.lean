import Woodpile.Driver.Util
import Woodpile.Model.RoughTlv
import Woodpile.Model.RoughTlvApi
import Woodpile.Gen.Consts

/-!
Model drivers for the families `tlv` (C11) and `tlvview` (C12).

`tlvview`:  `I view <hex> <lookups>`  — `MessageView::new` on the bytes and then
every accessor (see `viewObs`).

`tlv`:  `I msg <ctor> <vt> <items>` builds a `MessageWrapper` into the next slot
(`ctor` ∈ new|sorted|slice; `vt` names the Rust value type and is only
validated here; items are `tag:kind:payload` with kind `b`/`o` = borrowed/owned
bytes, `m` = the message in an earlier slot, `v` = a `MessageView` of that
slot's encoding (a received message re-used as a value), `f` = a value whose
`rough_tlv_len` reports the given number and which is never encoded);
`I enc <slot> <sink>` encodes the slot's message and views the result; it answers
`calls <b|c><len>,…` (the `ZeroCopySink` calls `encode` makes, in order: method and
length), for sink `hcobs` also `wire <hex>` (what the HCOBS `Encoder` sink holds after
`finish`: the encoder model run on those calls), then `bytes <hex>` and the view lines.
-/
namespace Woodpile.Driver.RoughTlvFam
open Woodpile.Driver Woodpile.RoughTlv

/-! ### Shared: observations of a view -/

def optHex : Option (List UInt8) → String
  | none => "none"
  | some bs => toHex bs

def pairStr (p : Nat × List UInt8) : String := toString p.1 ++ ":" ++ toHex p.2

def optPair : Option (Nat × List UInt8) → String
  | none => "none"
  | some p => pairStr p

def b01 (b : Bool) : String := if b then "1" else "0"

def errStr : DecErr → String
  | .impossibleHeader s => "impossibleHeader " ++ toString s
  | .truncatedHeader n s => "truncatedHeader " ++ toString n ++ " " ++ toString s
  | .nonMonotonicOffsets i a b => "nonMonotonicOffsets " ++ toString i ++ " " ++ toString a ++ " " ++ toString b
  | .nonMonotonicTags i a b => "nonMonotonicTags " ++ toString i ++ " " ++ toString a ++ " " ++ toString b
  | .truncatedPayload t s => "truncatedPayload " ++ toString t ++ " " ++ toString s

/-- Everything the harness asks of a `MessageView`; `none` = some call panics. -/
def viewObs (d : List UInt8) (lookups : List Nat) : Option (List String) := do
  match ← View.new d with
  | .error e => pure ["new err " ++ errStr e]
  | .ok v =>
    let n ← v.len
    let empty ← v.isEmpty
    let tags ← v.tags
    let m1 ← v.tagsMatchExactly tags
    let m2 ← v.tagsMatchExactly lookups
    let it ← v.iter
    let idxs := List.range (n + 2) ++ [4294967296, 18446744073709551615]
    let gets ← idxs.mapM (fun i => (v.get i).map (fun r => toString i ++ "=" ++ optPair r))
    let getvs ← idxs.mapM (fun i => (v.getValue i).map (fun r => toString i ++ "=" ++ optHex r))
    let finds ← lookups.mapM (fun w => do
      let ft ← v.findTag w
      let f ← v.find w
      pure (toString w ++ "=" ++ (match ft with | none => "none" | some i => toString i) ++ "/" ++ optHex f))
    pure [
      "new ok n=" ++ toString n ++ " empty=" ++ b01 empty,
      "tags " ++ natList tags ++ " match=" ++ b01 m1 ++ "," ++ b01 m2,
      "iter " ++ (if it.isEmpty then "-" else ";".intercalate (it.map pairStr)),
      "get " ++ " ".intercalate gets,
      "getv " ++ " ".intercalate getvs,
      "find " ++ (if finds.isEmpty then "-" else " ".intercalate finds),
      -- `inner()` / `into_inner()`: the bytes the view was built from (track apigaps)
      "inner " ++ toHex v.inner ++ " " ++ b01 (v.intoInner == v.inner)]

def viewObsOrPanic (d : List UInt8) (lookups : List Nat) : List String :=
  match viewObs d lookups with
  | none => ["panic"]
  | some ls => ls

/-! ### Family `tlvview` -/

def viewStep (s : Unit) : List String → Unit × List String
  | ["view", hex, lk] =>
    match parseHex hex, parseNatList lk with
    | some d, some lookups =>
      if lookups.all (· < 4294967296) then (s, viewObsOrPanic d lookups) else (s, ["bad-op"])
    | _, _ => (s, ["bad-op"])
  -- `Tag` conversions and ordering (track apigaps): `tag <u32> <u32>`
  | ["tag", a, b] =>
    match a.toNat?, b.toNat? with
    | some x, some y =>
      if x < 4294967296 ∧ y < 4294967296 then
        let ta := tagOfU32 x
        let tb := tagOfU32 y
        let ord (o : Ordering) : String := match o with | .lt => "lt" | .eq => "eq" | .gt => "gt"
        (s, ["tag a=" ++ toString (tagValue ta) ++ ":" ++ toHex ta ++ " b=" ++ toString (tagValue tb) ++ ":" ++ toHex tb
              ++ " cmp=" ++ ord (tagCmp ta tb)
              ++ " pcmp=" ++ (match tagPartialCmp ta tb with | some o => ord o | none => "none")
              ++ " new=" ++ toString (tagValue (tagNew ta))])
      else (s, ["bad-op"])
    | _, _ => (s, ["bad-op"])
  | _ => (s, ["bad-op"])

def viewFamily : Family := { σ := Unit, init := (), step := viewStep }

/-! ### Family `tlv`

The state machine (`TlvSt`, `TlvSt.msg`, the value type `DVal`) lives in the model
(Model/RoughTlv.lean) so that `Props/C11.dval_lawful` is about exactly what runs
here; this file only parses the op words into `Ctor` / `ItemSpec` and prints. -/

def encErrStr : EncErr → String
  | .nonMonotonicTags i a b => "nonMonotonicTags " ++ toString i ++ " " ++ toString a ++ " " ++ toString b
  | .tooManyElements n => "tooManyElements " ++ toString n
  | .valueTooLarge r s => "valueTooLarge " ++ toString r ++ " " ++ toString s
  | .totalTooLarge c s => "totalTooLarge " ++ toString c ++ " " ++ toString s

def kindAllowed (vt : String) (k : String) : Bool :=
  match vt with
  | "cow" => k == "b" || k == "o"
  | "str" => k == "b" || k == "o"
  | "ref" => k == "b"
  | "h" => k == "b" || k == "o" || k == "m" || k == "v" || k == "f"
  | _ => false

/-- Which sink method the Rust value type `vt` uses for a `b`/`o` item:
`Cow::Borrowed` → `append_borrow`, `Cow::Owned` → `append_copy` (`cow`, `str`, the
harness enum `h`); a plain `&[u8]` (`ref`) is always `append_copy`. -/
def methodOf (vt k : String) : Woodpile.Hcobs.Method :=
  if vt == "ref" then .copy else if k == "b" then .borrow else .copy

def parseItem (vt : String) (item : String) : Option (UInt32 × ItemSpec) :=
  match item.splitOn ":" with
  | [tag, k, payload] =>
    if !kindAllowed vt k then none else
    match tag.toNat? with
    | none => none
    | some t =>
      if t ≥ 4294967296 then none else
      if k == "b" || k == "o" then
        match parseHex payload with
        | some bs =>
          if vt == "str" && bs.any (· ≥ 128) then none
          else some (UInt32.ofNat t, .bytes (methodOf vt k) bs)
        | none => none
      else if k == "m" then
        payload.toNat?.map (fun i => (UInt32.ofNat t, .msg i))
      else if k == "v" then
        payload.toNat?.map (fun i => (UInt32.ofNat t, .view i))
      else
        match payload.toNat? with
        | some n => if n ≥ 18446744073709551616 then none else some (UInt32.ofNat t, .fake n)
        | none => none
  | _ => none

def parseItems (vt : String) (items : String) : Option (List (UInt32 × ItemSpec)) :=
  if items = "-" then some [] else (items.splitOn ",").mapM (parseItem vt)

def parseCtor : String → Option Ctor
  | "new" => some .new
  | "sorted" => some .sorted
  | "slice" => some .slice
  | _ => none

def tagLookups (tags : List Nat) : List Nat :=
  (tags.map (fun t => [t, (t + 1) % 4294967296])).flatten.eraseDups

/-- `b<len>` = `append_borrow` of `len` bytes, `c<len>` = `append_copy`. -/
def callStr (p : Piece) : String :=
  (match p.1 with | .borrow => "b" | .copy => "c") ++ toString p.2.length

def callsStr (cs : List Piece) : String :=
  if cs.isEmpty then "-" else ",".intercalate (cs.map callStr)

def prodParams : Woodpile.Hcobs.Params := ⟨Woodpile.Gen.maxInit, Woodpile.Gen.maxSub, Woodpile.Gen.radix⟩

def step (s : TlvSt) : List String → TlvSt × List String
  | ["msg", ctor, vt, items] =>
    match parseCtor ctor, parseItems vt items with
    | some c, some its =>
      match s.msg c its with
      | none => (s, ["bad-op"])
      | some (s', .ok w) => (s', ["ok " ++ toString w.tlvLen])
      | some (s', .error e) => (s', ["err " ++ encErrStr e])
    | _, _ => (s, ["bad-op"])
  | ["enc", slot, sink] =>
    if sink ≠ "iov" ∧ sink ≠ "hcobs" then (s, ["bad-op"]) else
    match slot.toNat? with
    | none => (s, ["bad-op"])
    | some i =>
      match s.slots[i]? with
      | some (some w) =>
        if hasFake w then (s, ["bad-op"]) else
        match w.encodePieces DVal.calls DVal.len with
        | none => (s, ["panic"])
        | some cs =>
          let out := flat cs
          let lookups :=
            match (View.mk out).tags with
            | some tags => tagLookups tags
            | none => []
          -- the `hcobs::Encoder` sink: the encoder model fed these calls by these methods
          let wire := if sink = "hcobs" then
              ["wire " ++ toHex (Woodpile.Hcobs.Enc.output prodParams cs).bytes] else []
          match viewObs out lookups with
          | none => (s, ["panic"])
          | some ls => (s, ("calls " ++ callsStr cs) :: wire ++ ("bytes " ++ toHex out) :: ls)
      | _ => (s, ["bad-op"])
  | _ => (s, ["bad-op"])

def family : Family := { σ := TlvSt, init := TlvSt.init, step := step }

end Woodpile.Driver.RoughTlvFam

import Woodpile.Driver.Util
import Woodpile.Driver.ReadN
import Woodpile.Model.Iovec
import Woodpile.Model.IovecApi
import Woodpile.Gen.Consts

/-
Family `iovec`: histories over OwningIovec / ConsumingIovec / ByteArena /
AnchoredSlice objects (C03, C04, C05, C09 structural, C10, C20).

Handles are assigned in creation order per kind (v = iovec, a = detached
arena, s = anchored slice, b = backref token); the harness assigns the same.
After every op both sides print every live iovec (abstract line `A`,
structural line `S`), every live anchored slice (`T`), and the live chunk set
(`L`).
-/
namespace Woodpile.Driver.IovecFam
open Woodpile.Driver Woodpile.Arena Woodpile.Iovec

def prodPolicy : Policy := ⟨Woodpile.Gen.smallCopy, Woodpile.Gen.maxOppCopy⟩
def prodTuning : Tuning := ⟨Woodpile.Gen.bumpSeq, Woodpile.Gen.bumpFactor⟩

def fmtSlice (s : Slice) : String :=
  (match s.region with
   | .chunk k => "c" ++ toString k
   | .ext b => "e" ++ toString b) ++ ":" ++ toString s.off ++ "+" ++ toString s.len

def fmtSlices (l : List Slice) : String :=
  if l.isEmpty then "-" else ",".intercalate (l.map fmtSlice)

/-- capacity of chunk `k`: recorded when it was allocated -/
structure St where
  w : World
  caps : List Nat
  dead : Bool := false

def St.init : St := ⟨World.init prodPolicy prodTuning, [], false⟩

/-- record capacities of chunks allocated since the last call (from caches that name them) -/
def St.noteCaps (s : St) : St :=
  let note (caps : List Nat) (a : Arena) : List Nat :=
    match a.cache with
    | some c => if caps.getD c.chunk 0 = 0 then listSet caps c.chunk c.cap 0 else caps
    | none => caps
  let caps := s.w.iovs.foldl (fun acc o => match o with | some v => note acc v.arena | none => acc) s.caps
  let caps := s.w.arenas.foldl (fun acc o => match o with | some a => note acc a | none => acc) caps
  { s with caps := caps }

def fnv64 (bs : List UInt8) : UInt64 :=
  bs.foldl (fun h b => (h ^^^ b.toUInt64) * 0x100000001b3) 0xcbf29ce484222325

def hex64 (x : UInt64) : String :=
  String.ofList ((List.range 16).map (fun i => hexChar ((x >>> (UInt64.ofNat (60 - 4 * i))).toNat % 16)))

def digest (bs : List UInt8) : String := "#" ++ toString bs.length ++ ":" ++ hex64 (fnv64 bs)

def stableBytes (w : World) (v : Iov) (full : Bool) : String :=
  match v.stableCount with
  | none => "PANIC"
  | some n =>
    let bs := (v.slices.take n).flatMap w.sliceBytes
    if (full && bs.length ≤ 4096) || bs.length ≤ 16 then toHex bs else digest bs

def describe (s : St) (touched : Option Nat := none) : List String :=
  let w := s.w
  let iovLines := (w.iovs.zipIdx).flatMap (fun (o, i) =>
    match o with
    | none => []
    | some v =>
      let n := (v.stableCount).getD 0
      ["A v" ++ toString i ++ " size=" ++ toString v.totalSize ++ " pend=" ++ (if v.hasPending then "1" else "0")
         ++ " stable=" ++ stableBytes w v (touched = some i),
       "S v" ++ toString i ++ " n=" ++ toString v.slices.length ++ " stable=" ++ fmtSlices (v.slices.take n)
         ++ " rem=" ++ toString v.arena.remaining])
  let sliceLines := (w.aslices.zipIdx).flatMap (fun (o, i) =>
    match o with
    | none => []
    | some a => ["T s" ++ toString i ++ " at=" ++ (if a.slice.len = 0 then "-" else fmtSlice a.slice)
                   ++ " bytes=" ++ (if a.slice.len = 0 then "-" else digest (w.sliceBytes a.slice))])
  let arenaLines := (w.arenas.zipIdx).flatMap (fun (o, i) =>
    match o with
    | none => []
    | some a => ["S a" ++ toString i ++ " rem=" ++ toString a.remaining])
  let live := w.liveChunks
  let liveLine := "L live=" ++ (if live.isEmpty then "-" else
    ",".intercalate (live.map (fun k => "c" ++ toString k)))
  iovLines ++ sliceLines ++ arenaLines ++ [liveLine]

def parseHexList (s : String) : Option (List (List UInt8)) :=
  if s = "-" then some [] else (s.splitOn "|").mapM parseHex

def panic (s : St) : St × List String := ({ s with dead := true }, ["panic"])

def ok (s : St) (w : World) (ret : List String := []) (touched : Option Nat := none) : St × List String :=
  let s' := ({ s with w := w }).noteCaps
  (s', ret ++ describe s' touched)

def handle (pfx : Char) (t : String) : Option Nat :=
  match t.toList with
  | c :: rest => if c = pfx then (String.ofList rest).toNat? else none
  | [] => none


/-! ### Public-API completion (track `apigaps`): op words for the methods of `Model/IovecApi.lean`

`stepApi` answers `none` for every word it does not know; `step` below tries it first. -/

def fmtBytes (bs : List UInt8) : String := if bs.length ≤ 16 then toHex bs else digest bs

/-- register one fresh caller buffer per hex string, return the borrowed slices covering them -/
def lendBufs (w : World) (bufs : List (List UInt8)) : World × List Slice := w.addExts bufs

/-- the slice argument of `is_last`: `s<k>` = anchored slice k, `f<i>` / `l<i>` = first / last slice of
iovec i's stable prefix; `some none` = there is no such slice -/
def sliceArg (w : World) (t : String) : Option (Option Slice) :=
  match handle 's' t, handle 'f' t, handle 'l' t with
  | some k, _, _ => (w.aslice k).map (fun a => some a.slice)
  | none, some i, _ => match w.iov i with
    | some v => v.stablePrefix.map (·.head?)
    | none => none
  | none, none, some i => match w.iov i with
    | some v => v.stablePrefix.map (·.getLast?)
    | none => none
  | _, _, _ => none

def stepApi (s : St) (ws : List String) : Option (St × List String) :=
  let w := s.w
  let bad : Option (St × List String) := some (s, ["bad-op"])
  match ws with
  | ["new_default"] => let (w', _) := w.addIov Iov.empty; some (ok s w')
  | ["s_default"] => let (w', _) := w.addASlice ASlice.empty; some (ok s w')
  | ["bref_default", v] =>
    match handle 'v' v with
    | some i => match w.iov i with
      | some _ => let (w', _) := w.addBref none; some (ok s w' ["R len=0"] (touched := some i))
      | none => bad
    | none => bad
  | ["a_clone", x] =>
    match handle 'a' x, handle 'v' x with
    | some j, _ => match w.arena j with
      | some ar => let (w', _) := w.addArena (arenaClone ar); some (ok s w')
      | none => bad
    | none, some i => match w.iov i with
      | some v => let (w', _) := w.addArena (arenaClone v.arena); some (ok s w' (touched := some i))
      | none => bad
    | _, _ => bad
  | [op, hexes] =>
    if op = "from_iter" || op = "from_iter_ref" then
      match parseHexList hexes with
      | some bufs =>
        let (w', slices) := lendBufs w bufs
        let (w'', _) := if op = "from_iter" then w'.fromIter slices else w'.fromIterRef slices
        some (ok s w'')
      | none => bad
    else
    match handle 'v' hexes with
    | some i =>
      match w.iov i with
      | none => if op = "front" || op = "iter" || op = "try_stable" || op = "sc_pop" then bad else none
      | some v =>
        if op = "front" then
          match v.front with
          | some none => some (ok s w ["R front=none"] (touched := some i))
          | some (some sl) => some (ok s w ["R front=" ++ fmtSlice sl ++ " bytes=" ++ fmtBytes (w.sliceBytes sl)] (touched := some i))
          | none => some (panic s)
        else if op = "iter" then
          match v.iter with
          | some ss => some (ok s w ["R iter n=" ++ toString ss.length ++ " at=" ++ fmtSlices ss ++ " bytes="
              ++ fmtBytes (ss.flatMap w.sliceBytes)] (touched := some i))
          | none => some (panic s)
        else if op = "try_stable" then
          some (ok s w ["R " ++ (if v.tryStable then "ok" else "err") ++ " len=" ++ toString v.slices.length
            ++ " size=" ++ toString v.totalSize] (touched := some i))
        else if op = "sc_pop" then
          match w.scPop i with
          | some (st, w') => some (ok s w' ["R " ++ (if st then "ok" else "err")] (touched := some i))
          | none => some (panic s)
        else none
    | none => none
  | ["new_from_slices_arena", a, hexes] =>
    match handle 'a' a, parseHexList hexes with
    | some j, some bufs =>
      let (w', slices) := lendBufs w bufs
      match w'.newFromSlicesArena j slices with
      | some (w'', _) => some (ok s w'')
      | none => bad
    | _, _ => bad
  | ["is_last", x, t] =>
    match sliceArg w t with
    | none => bad
    | some none =>
      -- the arena handle must still be valid
      match handle 'v' x, handle 'a' x with
      | some i, _ => if (w.iov i).isSome then some (ok s w ["R none"]) else bad
      | none, some j => if (w.arena j).isSome then some (ok s w ["R none"]) else bad
      | _, _ => bad
    | some (some sl) =>
      let r := match handle 'v' x, handle 'a' x with
        | some i, _ => w.isLastIov i sl
        | none, some j => w.isLastArena j sl
        | _, _ => none
      match r with
      | some b => some (ok s w ["R " ++ (if b then "1" else "0")])
      | none => bad
  | [op, v, arg] =>
    match handle 'v' v with
    | none => none
    | some i =>
      if !(op = "flatten_into" || op = "stable" || op = "sc_consume" || op = "sc_advance" || op = "sc_read"
            || op = "c_reserve") then none else
      match w.iov i with
      | none => bad
      | some iv =>
        if op = "flatten_into" then
          match parseHex arg with
          | some dst =>
            match w.flattenInto iv dst with
            | some (okf, bytes) => some (ok s w ["R " ++ (if okf then "ok " else "err ") ++ fmtBytes bytes] (touched := some i))
            | none => some (panic s)
          | none => bad
        else if op = "stable" then
          match parseHex arg with
          | some dst =>
            if iv.tryStable then
              match w.stableIovs iv, w.stableFlatten iv, w.stableFlattenInto iv dst with
              | some ss, some fl, some into =>
                some (ok s w ["R ok iovs=" ++ fmtSlices ss ++ " flat=" ++ fmtBytes fl ++ " into=" ++ fmtBytes into] (touched := some i))
              | _, _, _ => some (panic s)
            else
              match iv.stablePrefix with
              | some ss => some (ok s w ["R err size=" ++ toString iv.totalSize ++ " iovs=" ++ fmtSlices ss] (touched := some i))
              | none => some (panic s)
          | none => bad
        else
          match arg.toNat? with
          | none => bad
          | some k =>
            if op = "sc_consume" then
              match w.scConsume i k with
              | some (st, w', n) => some (ok s w' ["R " ++ (if st then "ok " else "err ") ++ toString n] (touched := some i))
              | none => some (panic s)
            else if op = "sc_advance" then
              match w.scAdvance i k with
              | some (st, w', n) => some (ok s w' ["R " ++ (if st then "ok " else "err ") ++ toString n] (touched := some i))
              | none => some (panic s)
            else if op = "sc_read" then
              match w.scRead i k with
              | some (st, w', bytes) => some (ok s w' ["R " ++ (if st then "ok " else "err ") ++ toHex bytes] (touched := some i))
              | none => some (panic s)
            else
              -- c_reserve: `consumer().arena().ensure_capacity(k)`
              let (a', nx) := ensureCapacity w.tun iv.arena w.next k
              some (ok s ({ w with next := nx }.setIov i (some { iv with arena := a' })) (touched := some i))
  | [op, v, mode, hex] =>
    if !(op = "sink_copy" || op = "sink_borrow") then none else
    if !(mode = "dyn" || mode = "ref" || mode = "refdyn") then bad else
    match handle 'v' v, parseHex hex with
    | some i, some bs =>
      if (w.iov i).isNone then bad else
      if op = "sink_copy" then
        match w.appendCopy i bs with
        | some w' => some (ok s w' (touched := some i))
        | none => some (panic s)
      else
        let (w1, id) := w.addExt bs
        match w1.appendBorrow i ⟨.ext id, 0, bs.length⟩ with
        | some w' => some (ok s w' (touched := some i))
        | none => some (panic s)
    | _, _ => bad
  | _ => none

def step (s : St) (ws : List String) : St × List String :=
  if s.dead then (s, []) else
  match stepApi s ws with
  | some r => r
  | none =>
  let w := s.w
  match ws with
  | ["new"] => let (w', _) := w.addIov Iov.empty; ok s w'
  | ["new_arena"] => let (w', _) := w.addArena ⟨none⟩; ok s w'
  | ["new_from_arena", a] =>
    match handle 'a' a with
    | some ai =>
      match w.arenas.getD ai none with
      | some ar =>
        let (w', _) := ({ w with arenas := listSet w.arenas ai none none }).addIov { Iov.empty with arena := ar }
        ok s w'
      | none => (s, ["bad-op"])
    | none => (s, ["bad-op"])
  | ["new_from_slices", hexes] =>
    match parseHexList hexes with
    | some bufs =>
      let (w', slices) := bufs.foldl (fun (acc : World × List Slice) bs =>
        let (w1, id) := acc.1.addExt bs
        (w1, acc.2 ++ [⟨.ext id, 0, bs.length⟩])) (w, [])
      let (w'', _) := w'.newFromSlices slices ⟨none⟩
      ok s w''
    | none => (s, ["bad-op"])
  | [op, v, hex] =>
    match handle 'v' v, handle 'a' v, handle 's' v with
    | some i, _, _ =>
      match op with
      | "push" | "push_borrowed" | "push_copy" | "register" | "extend" =>
        if op = "extend" then
          match parseHexList hex with
          | some bufs =>
            let (w', slices) := bufs.foldl (fun (acc : World × List Slice) bs =>
              let (w1, id) := acc.1.addExt bs
              (w1, acc.2 ++ [⟨.ext id, 0, bs.length⟩])) (w, [])
            match w'.extend i slices with
            | some w'' => ok s w'' (touched := some i)
            | none => panic s
          | none => (s, ["bad-op"])
        else
        match parseHex hex with
        | some bs =>
          if op = "push_copy" then
            match w.pushCopy i bs with | some w' => ok s w' (touched := some i) | none => panic s
          else if op = "register" then
            match w.registerPatch i bs with
            | some (w', b) => let (w'', _) := w'.addBref b; ok s w'' ["R len=" ++ toString (match b with | some (_, info) => info.len | none => 0)] (touched := some i)
            | none => panic s
          else
            let (w1, id) := w.addExt bs
            let sl : Slice := ⟨.ext id, 0, bs.length⟩
            let r := if op = "push" then w1.push i sl else w1.pushBorrowed i sl
            match r with | some w' => ok s w' (touched := some i) | none => panic s
        | none => (s, ["bad-op"])
      | "consume" | "advance" | "read" | "reserve" =>
        match hex.toNat? with
        | some k =>
          if op = "consume" then
            match w.consume i k with | some (w', n) => ok s w' ["R " ++ toString n] (touched := some i) | none => panic s
          else if op = "advance" then
            match w.advance i k with | some (w', n) => ok s w' ["R " ++ toString n] (touched := some i) | none => panic s
          else if op = "read" then
            match World.readInto (k + 2) w i k [] with
            | some (w', bytes) => ok s w' ["R " ++ toHex bytes] (touched := some i)
            | none => panic s
          else
            match w.iov i with
            | some v =>
              let (a', nx) := ensureCapacity w.tun v.arena w.next k
              ok s ({ w with next := nx }.setIov i (some { v with arena := a' })) (touched := some i)
            | none => (s, ["bad-op"])
        | none => (s, ["bad-op"])
      | "push_aslice" =>
        match handle 's' hex with
        | some si =>
          match w.aslices.getD si none with
          | some a =>
            let w0 := { w with aslices := listSet w.aslices si none none }
            if a.slice.len = 0 then ok s w0 (touched := some i)   -- skipped entirely: no push, anchor dropped
            else
              match w0.push i a.slice with
              | some w1 => match w1.pushAnchor i a.anchor with
                | some w2 => ok s w2 (touched := some i)
                | none => panic s
              | none => panic s
          | none => (s, ["bad-op"])
        | none => (s, ["bad-op"])
      | "swap_arena" =>
        match handle 'a' hex with
        | some ai =>
          match w.iov i, w.arenas.getD ai none with
          | some v, some ar =>
            ok s ({ w with arenas := listSet w.arenas ai (some v.arena) none }.setIov i (some { v with arena := ar })) (touched := some i)
          | _, _ => (s, ["bad-op"])
        | none => (s, ["bad-op"])
      | _ => (s, ["bad-op"])
    | none, some ai, _ =>
      match op, hex.toNat?, w.arenas.getD ai none with
      | "a_reserve", some k, some ar =>
        let (a', nx) := ensureCapacity w.tun ar w.next k
        ok s { w with next := nx, arenas := listSet w.arenas ai (some a') none }
      | _, _, _ => (s, ["bad-op"])
    | none, none, some si =>
      match hex.toNat?, w.aslices.getD si none with
      | some k, some a =>
        match op with
        | "s_skip" => let (a', n) := a.skipPrefix k; ok s { w with aslices := listSet w.aslices si (some a') none } ["R " ++ toString n]
        | "s_dropsuf" => let (a', n) := a.dropSuffix k; ok s { w with aslices := listSet w.aslices si (some a') none } ["R " ++ toString n]
        | "s_split" =>
          let (l, r) := a.splitAt k
          let w0 := { w with aslices := listSet w.aslices si none none }
          let (w1, _) := w0.addASlice l
          let (w2, _) := w1.addASlice r
          ok s w2
        | _ => (s, ["bad-op"])
      | _, _ => (s, ["bad-op"])
    | _, _, _ => (s, ["bad-op"])
  | ["backfill", v, b, hex] =>
    match handle 'v' v, handle 'b' b, parseHex hex with
    | some i, some bi, some bs =>
      if bi < w.brefs.length then
        let tok := w.brefs.getD bi none
        -- an own, still-pending placeholder with a source of the wrong size: the harness catches
        -- this documented panic and keeps going; `backfill_or_panic` checks the size first, so
        -- nothing has changed
        let wrongSize : Bool := match tok, w.iov i with
          | some (key, info), some v => info.len ≠ bs.length && v.backrefs.any (fun e => e == (key, info))
          | _, _ => false
        if wrongSize then ok s w ["R panicked"] (touched := some i)
        else
        match w.backfill i tok bs with
        | some w' => ok s w' (touched := some i)
        | none => panic s
      else (s, ["bad-op"])
    | _, _, _ => (s, ["bad-op"])
  | [op, x] =>
    match handle 'v' x, handle 'a' x, handle 's' x with
    | some i, _, _ =>
      match op with
      | "pop" =>
        match w.consume i 1 with
        | some (w', 1) => ok s w' (touched := some i)
        | _ => panic s
      | "clear" => match w.clear i with | some w' => ok s w' (touched := some i) | none => (s, ["bad-op"])
      | "take" => match w.take i with | some (w', _) => ok s w' (touched := some i) | none => (s, ["bad-op"])
      | "clone" => match w.clone i with | some (w', _) => ok s w' (touched := some i) | none => (s, ["bad-op"])
      | "drop" => match w.dropIov i with | some w' => ok s w' (touched := some i) | none => (s, ["bad-op"])
      | "flush" =>
        match w.iov i with
        | some v => ok s (w.setIov i (some { v with arena := flush v.arena })) (touched := some i)
        | none => (s, ["bad-op"])
      | "take_arena" =>
        match w.iov i with
        | some v => let (w', _) := (w.setIov i (some { v with arena := ⟨none⟩ })).addArena v.arena; ok s w' (touched := some i)
        | none => (s, ["bad-op"])
      | _ => (s, ["bad-op"])
    | none, some ai, _ =>
      match op, w.arenas.getD ai none with
      | "a_flush", some ar => ok s { w with arenas := listSet w.arenas ai (some (flush ar)) none }
      | "drop_arena", some _ => ok s { w with arenas := listSet w.arenas ai none none }
      | _, _ => (s, ["bad-op"])
    | none, none, some si =>
      match op, w.aslices.getD si none with
      | "s_take", some a =>
        let w0 := { w with aslices := listSet w.aslices si (some ASlice.empty) none }
        let (w1, _) := w0.addASlice a
        ok s w1
      | "s_clone", some a => let (w1, _) := w.addASlice a; ok s w1
      | "s_drop", some _ => ok s { w with aslices := listSet w.aslices si none none }
      | _, _ => (s, ["bad-op"])
    | _, _, _ => (s, ["bad-op"])
  | ["read_n", x, count, attempts, src, script] =>
    match count.toNat?, attempts.toNat?, parseHex src, ReadNFam.parseScript script with
    | some c, some att, some src, some sc =>
      let run (ar : Arena) (store : World → Arena → World) (touched : Option Nat) : St × List String :=
        let (w1, ar', res, o) := w.readN ar ⟨src, sc⟩ c att
        let w2 := store w1 ar'
        match res with
        | .ok a => let (w3, _) := w2.addASlice a; ok s w3 ["R ok reqs=" ++ natList o.reqs] touched
        | .error k => ok s w2 ["R err " ++ toString k ++ " reqs=" ++ natList o.reqs] touched
      match handle 'v' x, handle 'a' x with
      | some i, _ =>
        match w.iov i with
        | some v => run v.arena (fun w1 ar' => match w1.iov i with
            | some v1 => w1.setIov i (some { v1 with arena := ar' })
            | none => w1) (some i)
        | none => (s, ["bad-op"])
      | none, some ai =>
        match w.arenas.getD ai none with
        | some ar => run ar (fun w1 ar' => { w1 with arenas := listSet w1.arenas ai (some ar') none }) none
        | none => (s, ["bad-op"])
      | _, _ => (s, ["bad-op"])
    | _, _, _, _ => (s, ["bad-op"])
  | _ => (s, ["bad-op"])

def family : Family := { σ := St, init := St.init, step := step }

end Woodpile.Driver.IovecFam

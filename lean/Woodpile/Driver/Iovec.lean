import Woodpile.Driver.Util
import Woodpile.Driver.ReadN
import Woodpile.Model.IovecOps
import Woodpile.Model.IovecApi
import Woodpile.Model.IovecApi2
import Woodpile.Gen.Consts
import Woodpile.Driver.Unwind

/-
Family `iovec`: histories over OwningIovec / ConsumingIovec / ByteArena /
AnchoredSlice objects (C03, C04, C05, C09 structural, C10, C20).

Handles are assigned in creation order per kind (v = iovec, a = detached
arena, s = anchored slice, b = backref token); the harness assigns the same.
After every op both sides print every live iovec (abstract line `A`,
structural line `S`), every live anchored slice (`T`), and the live chunk set
(`L`).
-/
namespace Woodpile.Driver.IovecFam
open Woodpile.Driver Woodpile.Arena Woodpile.Iovec

def prodPolicy : Policy := ⟨Woodpile.Gen.smallCopy, Woodpile.Gen.maxOppCopy⟩
def prodTuning : Tuning := ⟨Woodpile.Gen.bumpSeq, Woodpile.Gen.bumpFactor⟩

def fmtSlice (s : Slice) : String :=
  (match s.region with
   | .chunk k => "c" ++ toString k
   | .ext b => "e" ++ toString b) ++ ":" ++ toString s.off ++ "+" ++ toString s.len

def fmtSlices (l : List Slice) : String :=
  if l.isEmpty then "-" else ",".intercalate (l.map fmtSlice)

/-- capacity of chunk `k`: recorded when it was allocated -/
structure St where
  w : World
  caps : List Nat
  dead : Bool := false
  /-- (track sraw) detached slices whose bytes some iovec borrows un-anchored (`push_sraw`): the caller
  can no longer move or mutate them (the borrow checker's rule; the harness keeps the same list) -/
  pinned : List Nat := []

def St.init : St := ⟨World.init prodPolicy prodTuning, [], false, []⟩

/-- record capacities of chunks allocated since the last call (from caches that name them) -/
def St.noteCaps (s : St) : St :=
  let note (caps : List Nat) (a : Arena) : List Nat :=
    match a.cache with
    | some c => if caps.getD c.chunk 0 = 0 then listSet caps c.chunk c.cap 0 else caps
    | none => caps
  let caps := s.w.iovs.foldl (fun acc o => match o with | some v => note acc v.arena | none => acc) s.caps
  let caps := s.w.arenas.foldl (fun acc o => match o with | some a => note acc a | none => acc) caps
  { s with caps := caps }

def fnv64 (bs : List UInt8) : UInt64 :=
  bs.foldl (fun h b => (h ^^^ b.toUInt64) * 0x100000001b3) 0xcbf29ce484222325

def hex64 (x : UInt64) : String :=
  String.ofList ((List.range 16).map (fun i => hexChar ((x >>> (UInt64.ofNat (60 - 4 * i))).toNat % 16)))

def digest (bs : List UInt8) : String := "#" ++ toString bs.length ++ ":" ++ hex64 (fnv64 bs)

def stableBytes (w : World) (v : Iov) (full : Bool) : String :=
  match v.stableCount with
  | none => "PANIC"
  | some n =>
    let bs := (v.slices.take n).flatMap w.sliceBytes
    if (full && bs.length ≤ 4096) || bs.length ≤ 16 then toHex bs else digest bs

def describe (s : St) (touched : Option Nat := none) : List String :=
  let w := s.w
  let iovLines := (w.iovs.zipIdx).flatMap (fun (o, i) =>
    match o with
    | none => []
    | some v =>
      let n := (v.stableCount).getD 0
      ["A v" ++ toString i ++ " size=" ++ toString v.totalSize ++ " pend=" ++ (if v.hasPending then "1" else "0")
         ++ " stable=" ++ stableBytes w v (touched = some i),
       "S v" ++ toString i ++ " n=" ++ toString v.slices.length ++ " stable=" ++ fmtSlices (v.slices.take n)
         ++ " rem=" ++ toString v.arena.remaining])
  let sliceLines := (w.aslices.zipIdx).flatMap (fun (o, i) =>
    match o with
    | none => []
    | some a => ["T s" ++ toString i ++ " at=" ++ (if a.slice.len = 0 then "-" else fmtSlice a.slice)
                   ++ " bytes=" ++ (if a.slice.len = 0 then "-" else digest (w.sliceBytes a.slice))])
  let arenaLines := (w.arenas.zipIdx).flatMap (fun (o, i) =>
    match o with
    | none => []
    | some a => ["S a" ++ toString i ++ " rem=" ++ toString a.remaining])
  let live := w.liveChunks
  let liveLine := "L live=" ++ (if live.isEmpty then "-" else
    ",".intercalate (live.map (fun k => "c" ++ toString k)))
  iovLines ++ sliceLines ++ arenaLines ++ [liveLine]

def parseHexList (s : String) : Option (List (List UInt8)) :=
  if s = "-" then some [] else (s.splitOn "|").mapM parseHex

def panic (s : St) : St × List String := ({ s with dead := true }, ["panic"])

def ok (s : St) (w : World) (ret : List String := []) (touched : Option Nat := none) : St × List String :=
  let s' := ({ s with w := w }).noteCaps
  (s', ret ++ describe s' touched)

def handle (pfx : Char) (t : String) : Option Nat :=
  match t.toList with
  | c :: rest => if c = pfx then (String.ofList rest).toNat? else none
  | [] => none


/-! ### Op words → `WOp` → `World.step`

The theorems of C05 / C10 / C20 (and, through `Props/C05G`, the world-level reading of C03 / C04)
are about `Woodpile.Iovec.World.step : World → WOp → Option World`.  The driver therefore does not
wire the model functions a second time: it PARSES an op line into `WOp`s and computes the next
world with `World.step` / `World.run` itself.  What is left here is presentation: the returned-value
line (`R …`, computed on the pre-state with the same model function the step uses), the
classification of `World.step = none` (ill-formed handle → `bad-op`, world kept, exactly as the
harness answers; the documented wrong-size `backfill_or_panic` panic that the harness catches →
`R panicked`, world kept; anything else → `panic`), and `describe`. -/

/-- Op words that have a `WOp` constructor (pure syntax; `none` = not such a word / malformed). -/
def parseWOp (ws : List String) : Option WOp :=
  match ws with
  | ["new"] => some .new
  | ["new_arena"] => some .newArena
  | ["new_from_arena", a] => (handle 'a' a).map .newFromArena
  | ["new_from_slices", hexes] => (parseHexList hexes).map .newFromSlices
  | ["backfill", v, b, hex] =>
    match handle 'v' v, handle 'b' b, parseHex hex with
    | some i, some bi, some bs => some (.backfill i bi bs)
    | _, _, _ => none
  | ["read_n", x, count, attempts, src, script] =>
    match count.toNat?, attempts.toNat?, parseHex src, ReadNFam.parseScript script with
    | some c, some att, some src, some sc =>
      if att = 0 then none      -- `NonZeroUsize`: the harness rejects the line
      else match handle 'v' x, handle 'a' x with
        | some i, _ => some (.readNIov i c att src sc)
        | none, some j => some (.readNArena j c att src sc)
        | _, _ => none
    | _, _, _, _ => none
  | [op, x, arg] =>
    match handle 'v' x, handle 'a' x, handle 's' x with
    | some i, _, _ =>
      match op with
      | "push" => (parseHex arg).map (.push i)
      | "push_borrowed" => (parseHex arg).map (.pushBorrowed i)
      | "push_copy" => (parseHex arg).map (.pushCopy i)
      | "register" => (parseHex arg).map (.register i)
      | "extend" => (parseHexList arg).map (.extend i)
      | "consume" => arg.toNat?.map (.consume i)
      | "advance" => arg.toNat?.map (.advance i)
      | "read" => arg.toNat?.map (.read i)
      | "reserve" => arg.toNat?.map (.reserve i)
      | "push_aslice" => (handle 's' arg).map (.pushASlice i)
      | "swap_arena" => (handle 'a' arg).map (.swapArena i)
      | _ => none
    | none, some j, _ =>
      match op with
      | "a_reserve" => arg.toNat?.map (.aReserve j)
      | _ => none
    | none, none, some k =>
      match op with
      | "s_skip" => arg.toNat?.map (.sSkip k)
      | "s_dropsuf" => arg.toNat?.map (.sDropSuf k)
      | "s_split" => arg.toNat?.map (.sSplit k)
      | _ => none
    | _, _, _ => none
  | [op, x] =>
    match handle 'v' x, handle 'a' x, handle 's' x with
    | some i, _, _ =>
      match op with
      | "pop" => some (.pop i)
      | "clear" => some (.clear i)
      | "take" => some (.take i)
      | "clone" => some (.clone i)
      | "drop" => some (.drop i)
      | "flush" => some (.flush i)
      | "take_arena" => some (.takeArena i)
      | _ => none
    | none, some j, _ =>
      match op with
      | "a_flush" => some (.aFlush j)
      | "drop_arena" => some (.dropArena j)
      | _ => none
    | none, none, some k =>
      match op with
      | "s_take" => some (.sTake k)
      | "s_clone" => some (.sClone k)
      | "s_drop" => some (.sDrop k)
      | _ => none
    | _, _, _ => none
  | _ => none

/-- The iovec whose stable bytes are printed in full after the op (the harness's `touched`). -/
def touchedOf : WOp → Option Nat
  | .push i _ | .pushBorrowed i _ | .pushCopy i _ | .register i _ | .extend i _ | .consume i _ | .advance i _
  | .read i _ | .reserve i _ | .pushASlice i _ | .swapArena i _ | .backfill i _ _ | .pop i | .clear i | .take i
  | .clone i | .drop i | .flush i | .takeArena i | .readNIov i _ _ _ _ => some i
  | _ => none

/-- The returned-value observation of an op, computed on the pre-state (printed only when the op has a
successor state). -/
def retLines (w : World) : WOp → List String
  | .register i pat =>
    ["R len=" ++ toString (match w.registerPatch i pat with | some (_, some (_, info)) => info.len | _ => 0)]
  | .consume i k => match w.consume i k with | some (_, n) => ["R " ++ toString n] | none => []
  | .advance i k => match w.advance i k with | some (_, n) => ["R " ++ toString n] | none => []
  | .read i k => match World.readInto (k + 2) w i k [] with | some (_, bytes) => ["R " ++ toHex bytes] | none => []
  | .sSkip k n => match w.aslice k with | some a => ["R " ++ toString (a.skipPrefix n).2] | none => []
  | .sDropSuf k n => match w.aslice k with | some a => ["R " ++ toString (a.dropSuffix n).2] | none => []
  | .readNIov i c att src sc =>
    match w.iov i with
    | some v =>
      let (_, _, res, o) := w.readN v.arena ⟨src, sc⟩ c att
      match res with
      | .ok _ => ["R ok reqs=" ++ natList o.reqs]
      | .error k => ["R err " ++ toString k ++ " reqs=" ++ natList o.reqs]
    | none => []
  | .readNArena j c att src sc =>
    match w.arena j with
    | some ar =>
      let (_, _, res, o) := w.readN ar ⟨src, sc⟩ c att
      match res with
      | .ok _ => ["R ok reqs=" ++ natList o.reqs]
      | .error k => ["R err " ++ toString k ++ " reqs=" ++ natList o.reqs]
    | none => []
  | _ => []

/-- `backfill_or_panic` with a source of the wrong size, for ANY token (own, foreign, stale or the
empty token): a documented panic that the harness catches (`catch_unwind`) to keep the case going.
The real function compares the sizes before it looks anything up, so nothing has changed; the
harness prints the state after the caught panic and it is compared with the unchanged world. -/
def caughtPanic (w : World) : WOp → Bool
  | .backfill _ bi bs =>
    match w.brefs.getD bi none with
    | some (_, info) => info.len ≠ bs.length
    | none => !bs.isEmpty
  | _ => false

/-- One parsed op: the next world is `World.step`'s. -/
def stepWOp (s : St) (op : WOp) : St × List String :=
  match s.w.step op with
  | some w' => ok s w' (retLines s.w op) (touchedOf op)
  | none =>
    if !(WOp.handlesOk s.w op) then (s, ["bad-op"])
    else if caughtPanic s.w op then ok s s.w ["R panicked"] (touchedOf op)
    else panic s

/-! ### Public-API completion (track `apigaps`): op words for the methods of `Model/IovecApi.lean`

State-changing words are run as the `WOp` history they are equal to (`Props/C05A`: the model
functions of `Model/IovecApi.lean` are those `World.step`s); read-only words print what the model
function returns.  `stepApi` answers `none` for every word it does not know. -/

def fmtBytes (bs : List UInt8) : String := if bs.length ≤ 16 then toHex bs else digest bs

/-- the slice argument of `is_last`: `s<k>` = anchored slice k, `f<i>` / `l<i>` = first / last slice of
iovec i's stable prefix; `some none` = there is no such slice -/
def sliceArg (w : World) (t : String) : Option (Option Slice) :=
  match handle 's' t, handle 'f' t, handle 'l' t with
  | some k, _, _ => (w.aslice k).map (fun a => some a.slice)
  | none, some i, _ => match w.iov i with
    | some v => v.stablePrefix.map (·.head?)
    | none => none
  | none, none, some i => match w.iov i with
    | some v => v.stablePrefix.map (·.getLast?)
    | none => none
  | _, _, _ => none

/-- run a `WOp` history that an API word stands for (handles already checked) -/
def runApi (s : St) (ops : List WOp) (ret : List String) (touched : Option Nat) : St × List String :=
  match s.w.run ops with
  | some w' => ok s w' ret touched
  | none => panic s

def stepApi (s : St) (ws : List String) : Option (St × List String) :=
  let w := s.w
  let bad : Option (St × List String) := some (s, ["bad-op"])
  match ws with
  | ["new_default"] => some (runApi s [.new] [] none)                       -- `OwningIovec::default()`
  | ["s_default"] => let (w', _) := w.addASlice ASlice.empty; some (ok s w')  -- `AnchoredSlice::default()`
  | ["bref_default", v] =>                                                  -- `Backref::default()`
    match handle 'v' v with
    | some i => if (w.iov i).isSome then some (runApi s [.register i []] ["R len=0"] (some i)) else bad
    | none => bad
  | ["a_clone", x] =>                                                       -- `ByteArena::clone()`
    match handle 'a' x, handle 'v' x with
    | some j, _ => if (w.arena j).isSome then some (runApi s [.newArena] [] none) else bad
    | none, some i => if (w.iov i).isSome then some (runApi s [.newArena] [] (some i)) else bad
    | _, _ => bad
  -- track apileft (`Model/IovecApi2.lean`; `Props/C05B`): values safe code gets from `Default` only
  | ["a_default"] => some (runApi s [.newArena] [] none)                    -- `ByteArena::default()`
  | ["is_empty", v] =>                                                      -- `OwningIovec::is_empty()` / `len()`
    match handle 'v' v with
    | some i => match w.iov i with
      | some iv => some (ok s w ["R " ++ (if iv.slices.isEmpty then "1" else "0") ++ " len=" ++ toString iv.slices.length] (some i))
      | none => bad
    | none => bad
  | ["push_anchor_default", v, n] =>                                        -- `push_anchor(Default::default())`
    match handle 'v' v, n.toNat? with
    | some i, some n =>
      match w.pushAnchorDefault i n with
      | some w' => some (ok s w' [] (some i))
      | none => bad
    | _, _ => bad
  | [op, hexes] =>
    if op = "from_iter" || op = "from_iter_ref" then
      match parseHexList hexes with
      | some bufs => some (runApi s [.newFromSlices bufs] [] none)
      | none => bad
    else
    match handle 'v' hexes with
    | some i =>
      match w.iov i with
      | none => if op = "front" || op = "iter" || op = "try_stable" || op = "sc_pop" then bad else none
      | some v =>
        if op = "front" then
          match v.front with
          | some none => some (ok s w ["R front=none"] (touched := some i))
          | some (some sl) => some (ok s w ["R front=" ++ fmtSlice sl ++ " bytes=" ++ fmtBytes (w.sliceBytes sl)] (touched := some i))
          | none => some (panic s)
        else if op = "iter" then
          match v.iter with
          | some ss => some (ok s w ["R iter n=" ++ toString ss.length ++ " at=" ++ fmtSlices ss ++ " bytes="
              ++ fmtBytes (ss.flatMap w.sliceBytes)] (touched := some i))
          | none => some (panic s)
        else if op = "try_stable" then
          some (ok s w ["R " ++ (if v.tryStable then "ok" else "err") ++ " len=" ++ toString v.slices.length
            ++ " size=" ++ toString v.totalSize] (touched := some i))
        else if op = "sc_pop" then
          some (runApi s [.pop i] ["R " ++ (if v.tryStable then "ok" else "err")] (some i))
        else none
    | none => none
  | ["new_from_slices_arena", a, hexes] =>
    match handle 'a' a, parseHexList hexes with
    | some j, some bufs =>
      if (w.arena j).isSome then some (runApi s [.newFromArena j, .extend w.iovs.length bufs] [] none) else bad
    | _, _ => bad
  | ["is_last", x, t] =>
    match sliceArg w t with
    | none => bad
    | some none =>
      -- the arena handle must still be valid
      match handle 'v' x, handle 'a' x with
      | some i, _ => if (w.iov i).isSome then some (ok s w ["R none"]) else bad
      | none, some j => if (w.arena j).isSome then some (ok s w ["R none"]) else bad
      | _, _ => bad
    | some (some sl) =>
      let r := match handle 'v' x, handle 'a' x with
        | some i, _ => w.isLastIov i sl
        | none, some j => w.isLastArena j sl
        | _, _ => none
      match r with
      | some b => some (ok s w ["R " ++ (if b then "1" else "0")])
      | none => bad
  | [op, v, arg] =>
    match handle 'v' v with
    | none => none
    | some i =>
      if !(op = "flatten_into" || op = "stable" || op = "sc_consume" || op = "sc_advance" || op = "sc_read"
            || op = "c_reserve") then none else
      match w.iov i with
      | none => bad
      | some iv =>
        if op = "flatten_into" then
          match parseHex arg with
          | some dst =>
            match w.flattenInto iv dst with
            | some (okf, bytes) => some (ok s w ["R " ++ (if okf then "ok " else "err ") ++ fmtBytes bytes] (touched := some i))
            | none => some (panic s)
          | none => bad
        else if op = "stable" then
          match parseHex arg with
          | some dst =>
            if iv.tryStable then
              match w.stableIovs iv, w.stableFlatten iv, w.stableFlattenInto iv dst with
              | some ss, some fl, some into =>
                some (ok s w ["R ok iovs=" ++ fmtSlices ss ++ " flat=" ++ fmtBytes fl ++ " into=" ++ fmtBytes into] (touched := some i))
              | _, _, _ => some (panic s)
            else
              match iv.stablePrefix with
              | some ss => some (ok s w ["R err size=" ++ toString iv.totalSize ++ " iovs=" ++ fmtSlices ss] (touched := some i))
              | none => some (panic s)
          | none => bad
        else
          match arg.toNat? with
          | none => bad
          | some k =>
            let side := if iv.tryStable then "R ok " else "R err "
            if op = "sc_consume" then
              match w.scConsume i k with
              | some (_, _, n) => some (runApi s [.consume i k] [side ++ toString n] (some i))
              | none => some (panic s)
            else if op = "sc_advance" then
              match w.scAdvance i k with
              | some (_, _, n) => some (runApi s [.advance i k] [side ++ toString n] (some i))
              | none => some (panic s)
            else if op = "sc_read" then
              match w.scRead i k with
              | some (_, _, bytes) => some (runApi s [.read i k] [side ++ toHex bytes] (some i))
              | none => some (panic s)
            else
              -- c_reserve: `consumer().arena().ensure_capacity(k)`
              some (runApi s [.reserve i k] [] (some i))
  | [op, v, mode, hex] =>
    if !(op = "sink_copy" || op = "sink_borrow") then none else
    if !(mode = "dyn" || mode = "ref" || mode = "refdyn") then bad else
    match handle 'v' v, parseHex hex with
    | some i, some bs =>
      if (w.iov i).isNone then bad else
      -- `ZeroCopySink::append_copy` = `push_copy`, `append_borrow` = `push`
      some (runApi s [if op = "sink_copy" then .pushCopy i bs else .push i bs] [] (some i))
    | _, _ => bad
  | _ => none

/-! ### Track traits: `Clone::clone_from`, ops made while unwinding

`clone_from v<d> v<s>` is `dst.clone_from(&src)` on two distinct live iovecs; the harness then moves
the destination object to a fresh handle, so the model side is the plain history `clone s` (new
handle), `drop d`.  Likewise `s_clone_from` = `sClone`, `sDrop` and `a_clone_from` = `newArena`
(`ByteArena::clone` cannot clone the allocation cache), `dropArena`. -/
def stepTraits (s : St) (ws : List String) : Option (St × List String) :=
  let w := s.w
  let bad : Option (St × List String) := some (s, ["bad-op"])
  match ws with
  | ["dbg"] => some (ok s w [] none)       -- `Debug` of every live object: no effect
  | ["clone_from", d, src] =>
    match handle 'v' d, handle 'v' src with
    | some d, some i =>
      if d ≠ i && (w.iov d).isSome && (w.iov i).isSome then some (runApi s [.clone i, .drop d] [] (some w.iovs.length)) else bad
    | _, _ => bad
  | ["s_clone_from", d, src] =>
    match handle 's' d, handle 's' src with
    | some d, some i =>
      if d ≠ i && (w.aslice d).isSome && (w.aslice i).isSome then some (runApi s [.sClone i, .sDrop d] [] none) else bad
    | _, _ => bad
  | ["a_clone_from", d, src] =>
    match handle 'a' d, handle 'a' src with
    | some d, some i =>
      if d ≠ i && (w.arena d).isSome && (w.arena i).isSome then some (runApi s [.newArena, .dropArena d] [] none) else bad
    | _, _ => bad
  | _ => none

/-! ### Track sraw: RAW pushes of arena-resident bytes

`push_sraw v<i> s<k>` = `iov.push(aslice.slice())`, `push_sraw_borrowed v<i> s<k>` =
`iov.push_borrowed(aslice.slice())`: the bytes of the detached anchored slice `s<k>` go in as a plain
borrowed slice, the `AnchoredSlice` object stays where it is (handle `s<k>` stays live and keeps its
chunk in the derived live set through its own anchor; the iovec gets no anchor).  The model is the
EXISTING `World.push` / `World.pushBorrowed` applied to the slice `(chunk c, off, len)` read from
`w.aslices[k]` - what `WOp.pushAt` / `WOp.pushBorrowedAt` do for a caller buffer, with a chunk region.

This is a DRIVER-level op, not a `WOp` constructor (a constructor would force every per-op theorem of
C03W / C04W / C05 / C10 / C20W to be re-proved, and `C20W.reachable_base` - no detached slice over a
pending range - to be restated): histories that contain these words are COMPARED with the real crate
(correspondence + direct oracles), not covered by the `List WOp` theorems.  No new theorem.

Borrow discipline: after a raw push `s<k>` is borrowed for the iovec's lifetime parameter, so the ops
that move or mutate it no longer type-check in Rust; both sides answer `bad-op` for them
(`harness/src/fam_iovec/sraw.rs`: `sraw_refuses`). -/

/-- the detached slice an op word would move or mutate -/
def movesSlice (ws : List String) : Option Nat :=
  match ws with
  | ["push_aslice", _, t] => handle 's' t
  | [op, t, _] =>
    if op = "s_skip" || op = "s_dropsuf" || op = "s_split" || op = "s_clone_from" then handle 's' t else none
  | [op, t] => if op = "s_take" || op = "s_drop" then handle 's' t else none
  | _ => none

def stepSraw (s : St) (ws : List String) : Option (St × List String) :=
  match movesSlice ws with
  | some k => if s.pinned.contains k then some (s, ["bad-op"]) else none
  | none =>
    match ws with
    | [op, v, t] =>
      if !(op = "push_sraw" || op = "push_sraw_borrowed") then none else
      match handle 'v' v, handle 's' t with
      | some i, some k =>
        match s.w.iov i, s.w.aslice k with
        | some _, some a =>
          let s1 := { s with pinned := if s.pinned.contains k then s.pinned else k :: s.pinned }
          match (if op = "push_sraw" then s.w.push i a.slice else s.w.pushBorrowed i a.slice) with
          | some w' => some (ok s1 w' [] (some i))
          | none => some (panic s)
        | _, _ => some (s, ["bad-op"])
      | _, _ => some (s, ["bad-op"])
    | _ => none

def step (s : St) (ws : List String) : St × List String :=
  if s.dead then (s, []) else
  match stepSraw s ws with
  | some r => r
  | none =>
  match stepTraits s ws with
  | some r => r
  | none =>
  match stepApi s ws with
  | some r => r
  | none =>
    match parseWOp ws with
    | some op => stepWOp s op
    | none => (s, ["bad-op"])

/-- `unwinding <ws>`: only `pop` / `sc_pop` / `backfill` can panic in this vocabulary; they are accepted when
they do not (harness: `IovecExec::unwind_safe_words`), decided on the op's own answer. -/
def family : Family :=
  withUnwindOut { σ := St, init := St.init, step := step } (fun s _ => !s.dead)
    (fun ws outs =>
      match ws with
      | op :: _ =>
        (op = "pop" || op = "sc_pop" || op = "backfill") &&
          (outs.contains "panic" || outs.contains "R panicked" || outs.contains "bad-op")
      | [] => true)

end Woodpile.Driver.IovecFam

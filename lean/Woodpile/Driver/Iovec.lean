import Woodpile.Driver.Util
import Woodpile.Driver.ReadN
import Woodpile.Model.Iovec
import Woodpile.Gen.Consts

/-
Family `iovec`: histories over OwningIovec / ConsumingIovec / ByteArena /
AnchoredSlice objects (C03, C04, C05, C09 structural, C10, C20).

Handles are assigned in creation order per kind (v = iovec, a = detached
arena, s = anchored slice, b = backref token); the harness assigns the same.
After every op both sides print every live iovec (abstract line `A`,
structural line `S`), every live anchored slice (`T`), and the live chunk set
(`L`).
-/
namespace Woodpile.Driver.IovecFam
open Woodpile.Driver Woodpile.Arena Woodpile.Iovec

def prodPolicy : Policy := ⟨Woodpile.Gen.smallCopy, Woodpile.Gen.maxOppCopy⟩
def prodTuning : Tuning := ⟨Woodpile.Gen.bumpSeq, Woodpile.Gen.bumpFactor⟩

def fmtSlice (s : Slice) : String :=
  (match s.region with
   | .chunk k => "c" ++ toString k
   | .ext b => "e" ++ toString b) ++ ":" ++ toString s.off ++ "+" ++ toString s.len

def fmtSlices (l : List Slice) : String :=
  if l.isEmpty then "-" else ",".intercalate (l.map fmtSlice)

/-- capacity of chunk `k`: recorded when it was allocated -/
structure St where
  w : World
  caps : List Nat
  dead : Bool := false

def St.init : St := ⟨World.init prodPolicy prodTuning, [], false⟩

/-- record capacities of chunks allocated since the last call (from caches that name them) -/
def St.noteCaps (s : St) : St :=
  let note (caps : List Nat) (a : Arena) : List Nat :=
    match a.cache with
    | some c => if caps.getD c.chunk 0 = 0 then listSet caps c.chunk c.cap 0 else caps
    | none => caps
  let caps := s.w.iovs.foldl (fun acc o => match o with | some v => note acc v.arena | none => acc) s.caps
  let caps := s.w.arenas.foldl (fun acc o => match o with | some a => note acc a | none => acc) caps
  { s with caps := caps }

def fnv64 (bs : List UInt8) : UInt64 :=
  bs.foldl (fun h b => (h ^^^ b.toUInt64) * 0x100000001b3) 0xcbf29ce484222325

def hex64 (x : UInt64) : String :=
  String.ofList ((List.range 16).map (fun i => hexChar ((x >>> (UInt64.ofNat (60 - 4 * i))).toNat % 16)))

def digest (bs : List UInt8) : String := "#" ++ toString bs.length ++ ":" ++ hex64 (fnv64 bs)

def stableBytes (w : World) (v : Iov) (full : Bool) : String :=
  match v.stableCount with
  | none => "PANIC"
  | some n =>
    let bs := (v.slices.take n).flatMap w.sliceBytes
    if (full && bs.length ≤ 4096) || bs.length ≤ 16 then toHex bs else digest bs

def describe (s : St) (touched : Option Nat := none) : List String :=
  let w := s.w
  let iovLines := (w.iovs.zipIdx).flatMap (fun (o, i) =>
    match o with
    | none => []
    | some v =>
      let n := (v.stableCount).getD 0
      ["A v" ++ toString i ++ " size=" ++ toString v.totalSize ++ " pend=" ++ (if v.hasPending then "1" else "0")
         ++ " stable=" ++ stableBytes w v (touched = some i),
       "S v" ++ toString i ++ " n=" ++ toString v.slices.length ++ " stable=" ++ fmtSlices (v.slices.take n)
         ++ " rem=" ++ toString v.arena.remaining])
  let sliceLines := (w.aslices.zipIdx).flatMap (fun (o, i) =>
    match o with
    | none => []
    | some a => ["T s" ++ toString i ++ " at=" ++ (if a.slice.len = 0 then "-" else fmtSlice a.slice)
                   ++ " bytes=" ++ (if a.slice.len = 0 then "-" else digest (w.sliceBytes a.slice))])
  let arenaLines := (w.arenas.zipIdx).flatMap (fun (o, i) =>
    match o with
    | none => []
    | some a => ["S a" ++ toString i ++ " rem=" ++ toString a.remaining])
  let live := w.liveChunks
  let liveLine := "L live=" ++ (if live.isEmpty then "-" else
    ",".intercalate (live.map (fun k => "c" ++ toString k)))
  iovLines ++ sliceLines ++ arenaLines ++ [liveLine]

def parseHexList (s : String) : Option (List (List UInt8)) :=
  if s = "-" then some [] else (s.splitOn "|").mapM parseHex

def panic (s : St) : St × List String := ({ s with dead := true }, ["panic"])

def ok (s : St) (w : World) (ret : List String := []) (touched : Option Nat := none) : St × List String :=
  let s' := ({ s with w := w }).noteCaps
  (s', ret ++ describe s' touched)

def handle (pfx : Char) (t : String) : Option Nat :=
  match t.toList with
  | c :: rest => if c = pfx then (String.ofList rest).toNat? else none
  | [] => none

def step (s : St) (ws : List String) : St × List String :=
  if s.dead then (s, []) else
  let w := s.w
  match ws with
  | ["new"] => let (w', _) := w.addIov Iov.empty; ok s w'
  | ["new_arena"] => let (w', _) := w.addArena ⟨none⟩; ok s w'
  | ["new_from_arena", a] =>
    match handle 'a' a with
    | some ai =>
      match w.arenas.getD ai none with
      | some ar =>
        let (w', _) := ({ w with arenas := listSet w.arenas ai none none }).addIov { Iov.empty with arena := ar }
        ok s w'
      | none => (s, ["bad-op"])
    | none => (s, ["bad-op"])
  | ["new_from_slices", hexes] =>
    match parseHexList hexes with
    | some bufs =>
      let (w', slices) := bufs.foldl (fun (acc : World × List Slice) bs =>
        let (w1, id) := acc.1.addExt bs
        (w1, acc.2 ++ [⟨.ext id, 0, bs.length⟩])) (w, [])
      let (w'', _) := w'.newFromSlices slices ⟨none⟩
      ok s w''
    | none => (s, ["bad-op"])
  | [op, v, hex] =>
    match handle 'v' v, handle 'a' v, handle 's' v with
    | some i, _, _ =>
      match op with
      | "push" | "push_borrowed" | "push_copy" | "register" | "extend" =>
        if op = "extend" then
          match parseHexList hex with
          | some bufs =>
            let (w', slices) := bufs.foldl (fun (acc : World × List Slice) bs =>
              let (w1, id) := acc.1.addExt bs
              (w1, acc.2 ++ [⟨.ext id, 0, bs.length⟩])) (w, [])
            match w'.extend i slices with
            | some w'' => ok s w'' (touched := some i)
            | none => panic s
          | none => (s, ["bad-op"])
        else
        match parseHex hex with
        | some bs =>
          if op = "push_copy" then
            match w.pushCopy i bs with | some w' => ok s w' (touched := some i) | none => panic s
          else if op = "register" then
            match w.registerPatch i bs with
            | some (w', b) => let (w'', _) := w'.addBref b; ok s w'' ["R len=" ++ toString (match b with | some (_, info) => info.len | none => 0)] (touched := some i)
            | none => panic s
          else
            let (w1, id) := w.addExt bs
            let sl : Slice := ⟨.ext id, 0, bs.length⟩
            let r := if op = "push" then w1.push i sl else w1.pushBorrowed i sl
            match r with | some w' => ok s w' (touched := some i) | none => panic s
        | none => (s, ["bad-op"])
      | "consume" | "advance" | "read" | "reserve" =>
        match hex.toNat? with
        | some k =>
          if op = "consume" then
            match w.consume i k with | some (w', n) => ok s w' ["R " ++ toString n] (touched := some i) | none => panic s
          else if op = "advance" then
            match w.advance i k with | some (w', n) => ok s w' ["R " ++ toString n] (touched := some i) | none => panic s
          else if op = "read" then
            match World.readInto (k + 2) w i k [] with
            | some (w', bytes) => ok s w' ["R " ++ toHex bytes] (touched := some i)
            | none => panic s
          else
            match w.iov i with
            | some v =>
              let (a', nx) := ensureCapacity w.tun v.arena w.next k
              ok s ({ w with next := nx }.setIov i (some { v with arena := a' })) (touched := some i)
            | none => (s, ["bad-op"])
        | none => (s, ["bad-op"])
      | "push_aslice" =>
        match handle 's' hex with
        | some si =>
          match w.aslices.getD si none with
          | some a =>
            let w0 := { w with aslices := listSet w.aslices si none none }
            if a.slice.len = 0 then ok s w0 (touched := some i)   -- skipped entirely: no push, anchor dropped
            else
              match w0.push i a.slice with
              | some w1 => match w1.pushAnchor i a.anchor with
                | some w2 => ok s w2 (touched := some i)
                | none => panic s
              | none => panic s
          | none => (s, ["bad-op"])
        | none => (s, ["bad-op"])
      | "swap_arena" =>
        match handle 'a' hex with
        | some ai =>
          match w.iov i, w.arenas.getD ai none with
          | some v, some ar =>
            ok s ({ w with arenas := listSet w.arenas ai (some v.arena) none }.setIov i (some { v with arena := ar })) (touched := some i)
          | _, _ => (s, ["bad-op"])
        | none => (s, ["bad-op"])
      | _ => (s, ["bad-op"])
    | none, some ai, _ =>
      match op, hex.toNat?, w.arenas.getD ai none with
      | "a_reserve", some k, some ar =>
        let (a', nx) := ensureCapacity w.tun ar w.next k
        ok s { w with next := nx, arenas := listSet w.arenas ai (some a') none }
      | _, _, _ => (s, ["bad-op"])
    | none, none, some si =>
      match hex.toNat?, w.aslices.getD si none with
      | some k, some a =>
        match op with
        | "s_skip" => let (a', n) := a.skipPrefix k; ok s { w with aslices := listSet w.aslices si (some a') none } ["R " ++ toString n]
        | "s_dropsuf" => let (a', n) := a.dropSuffix k; ok s { w with aslices := listSet w.aslices si (some a') none } ["R " ++ toString n]
        | "s_split" =>
          let (l, r) := a.splitAt k
          let w0 := { w with aslices := listSet w.aslices si none none }
          let (w1, _) := w0.addASlice l
          let (w2, _) := w1.addASlice r
          ok s w2
        | _ => (s, ["bad-op"])
      | _, _ => (s, ["bad-op"])
    | _, _, _ => (s, ["bad-op"])
  | ["backfill", v, b, hex] =>
    match handle 'v' v, handle 'b' b, parseHex hex with
    | some i, some bi, some bs =>
      if bi < w.brefs.length then
        let tok := w.brefs.getD bi none
        -- a source of the wrong size (for ANY token: own, foreign, stale or empty): the harness
        -- catches this documented panic and keeps going; `backfill_or_panic` compares the sizes
        -- before it looks anything up, so nothing has changed
        let wrongSize : Bool := match tok with
          | some (_, info) => info.len ≠ bs.length
          | none => !bs.isEmpty
        if wrongSize then ok s w ["R panicked"] (touched := some i)
        else
        match w.backfill i tok bs with
        | some w' => ok s w' (touched := some i)
        | none => panic s
      else (s, ["bad-op"])
    | _, _, _ => (s, ["bad-op"])
  | [op, x] =>
    match handle 'v' x, handle 'a' x, handle 's' x with
    | some i, _, _ =>
      match op with
      | "pop" =>
        match w.consume i 1 with
        | some (w', 1) => ok s w' (touched := some i)
        | _ => panic s
      | "clear" => match w.clear i with | some w' => ok s w' (touched := some i) | none => (s, ["bad-op"])
      | "take" => match w.take i with | some (w', _) => ok s w' (touched := some i) | none => (s, ["bad-op"])
      | "clone" => match w.clone i with | some (w', _) => ok s w' (touched := some i) | none => (s, ["bad-op"])
      | "drop" => match w.dropIov i with | some w' => ok s w' (touched := some i) | none => (s, ["bad-op"])
      | "flush" =>
        match w.iov i with
        | some v => ok s (w.setIov i (some { v with arena := flush v.arena })) (touched := some i)
        | none => (s, ["bad-op"])
      | "take_arena" =>
        match w.iov i with
        | some v => let (w', _) := (w.setIov i (some { v with arena := ⟨none⟩ })).addArena v.arena; ok s w' (touched := some i)
        | none => (s, ["bad-op"])
      | _ => (s, ["bad-op"])
    | none, some ai, _ =>
      match op, w.arenas.getD ai none with
      | "a_flush", some ar => ok s { w with arenas := listSet w.arenas ai (some (flush ar)) none }
      | "drop_arena", some _ => ok s { w with arenas := listSet w.arenas ai none none }
      | _, _ => (s, ["bad-op"])
    | none, none, some si =>
      match op, w.aslices.getD si none with
      | "s_take", some a =>
        let w0 := { w with aslices := listSet w.aslices si (some ASlice.empty) none }
        let (w1, _) := w0.addASlice a
        ok s w1
      | "s_clone", some a => let (w1, _) := w.addASlice a; ok s w1
      | "s_drop", some _ => ok s { w with aslices := listSet w.aslices si none none }
      | _, _ => (s, ["bad-op"])
    | _, _, _ => (s, ["bad-op"])
  | ["read_n", x, count, attempts, src, script] =>
    match count.toNat?, attempts.toNat?, parseHex src, ReadNFam.parseScript script with
    | some c, some att, some src, some sc =>
      let run (ar : Arena) (store : World → Arena → World) (touched : Option Nat) : St × List String :=
        let (w1, ar', res, o) := w.readN ar ⟨src, sc⟩ c att
        let w2 := store w1 ar'
        match res with
        | .ok a => let (w3, _) := w2.addASlice a; ok s w3 ["R ok reqs=" ++ natList o.reqs] touched
        | .error k => ok s w2 ["R err " ++ toString k ++ " reqs=" ++ natList o.reqs] touched
      match handle 'v' x, handle 'a' x with
      | some i, _ =>
        match w.iov i with
        | some v => run v.arena (fun w1 ar' => match w1.iov i with
            | some v1 => w1.setIov i (some { v1 with arena := ar' })
            | none => w1) (some i)
        | none => (s, ["bad-op"])
      | none, some ai =>
        match w.arenas.getD ai none with
        | some ar => run ar (fun w1 ar' => { w1 with arenas := listSet w1.arenas ai (some ar') none }) none
        | none => (s, ["bad-op"])
      | _, _ => (s, ["bad-op"])
    | _, _, _, _ => (s, ["bad-op"])
  | _ => (s, ["bad-op"])

def family : Family := { σ := St, init := St.init, step := step }

end Woodpile.Driver.IovecFam

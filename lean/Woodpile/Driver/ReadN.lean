import Woodpile.Driver.Util
import Woodpile.Driver.Unwind
import Woodpile.Model.ReadN
import Woodpile.Gen.Consts

namespace Woodpile.Driver.ReadNFam
open Woodpile.Driver Woodpile.Arena Woodpile.ReadN

def prodTuning : Tuning := { seq := Woodpile.Gen.bumpSeq, factor := Woodpile.Gen.bumpFactor }

structure St where
  arena : Arena
  next : Nat

def parseEv (s : String) : Option Ev :=
  match s.toList with
  | 'd' :: rest => (String.ofList rest).toNat?.map Ev.deliver
  | ['e'] => some Ev.eof
  | 'x' :: rest => (String.ofList rest).toNat?.map Ev.err
  | _ => none

def parseScript (s : String) : Option (List Ev) :=
  if s = "-" then some [] else (s.splitOn ",").mapM parseEv

def fmtOut (o : Out) (a : Arena) : String :=
  let head := match o.res with
    | .ok bs => "ok " ++ toHex bs
    | .err k => "err " ++ toString k
  head ++ " reqs=" ++ natList o.reqs ++ " left=" ++ toString o.reader.script.length
    ++ " srcleft=" ++ toString o.reader.src.length ++ " rem=" ++ toString a.remaining

def step (s : St) : List String → St × List String
  | ["reserve", n] =>
    match n.toNat? with
    | some n =>
      let (a, nx) := ensureCapacity prodTuning s.arena s.next n
      ({ arena := a, next := nx }, ["rem=" ++ toString a.remaining])
    | none => (s, ["bad-op"])
  | ["flush"] => ({ s with arena := flush s.arena }, ["rem=0"])
  | ["readn", count, attempts, src, script] =>
    match count.toNat?, attempts.toNat?, parseHex src, parseScript script with
    | some c, some att, some src, some sc =>
      let (o, a, nx, _, _) := readN prodTuning s.arena s.next ⟨src, sc⟩ c att
      ({ arena := a, next := nx }, [fmtOut o a])
    | _, _, _, _ => (s, ["bad-op"])
  | _ => (s, ["bad-op"])

/-- every op of this family is panic-free: all may be wrapped in `unwinding` (`Driver/Unwind.lean`) -/
def family : Family := withUnwind { σ := St, init := ⟨⟨none⟩, 0⟩, step := step } (fun _ _ => true)

end Woodpile.Driver.ReadNFam

import Woodpile.Driver.Util
import Woodpile.Driver.IterScript
import Woodpile.Model.SortedDeque
import Woodpile.Model.DequeTraits
import Woodpile.Driver.Unwind
import Woodpile.Driver.SlidingDeque

/-!
Model driver for family `sorted` (C16).  Items are `key:value` with `value = -` for an
erased item.  Op vocabulary:

  conv pair|whole      (first op of a case) choose the convention: `(u32, Option<u32>)` pairs
                       keyed by the first component, or a whole-item type ordered
                       lexicographically (the crate's `TestItem`); resets the deque
  push k v | find k v | remove k v      (`find`/`remove`: the pair convention looks at `k` only)
  pop_first | pop_last | first | last | is_empty | iter | clear
  new k:v,k:v,...      `SortedDeque::new(container, ())`
  at n <op>            restart from snapshot n, run <op>, record snapshot n+1 (as in `sdeque`)
  iterscript <script>  iterator-protocol script (`Model/IterScript.lean`) on `iter()`; no state change

Every op answers one line: the return value, then `iter()`, `first()`, `last()`, `is_empty()`
and `find` of the probe keys 0..5 (whole-item convention: `(k, 10k+1)` and `(k, None)`),
all evaluated on the state after the op.

`conv pair digest` / `conv whole digest` (large deques): the line is reduced to the return
value, `first()`, `last()`, `is_empty()`, and `iter` returns `#<count>:<FNV-1a 64 of the item
list as text>` (see harness/src/fam_sorted.rs).

Standard traits over several object instances (track traits; `Model/DequeTraits.lean`, theorems
`Props/C16T.lean`): `dnew | ddefault | dstore k | dload k | dswap k | dclone_from k | dclone_into k |
dtake k | ddebug` run `DequeTraits.mstep` with `sortedTraits` and answer the usual line of the object
written (`nohandle` for a missing handle).  `unwinding <op>` (`Driver/Unwind.lean`) is accepted for
ops that do not panic on the current state (never for `at` / `new` / `conv`).
-/
namespace Woodpile.Driver.SortedDequeFam
open Woodpile.Driver Woodpile.SortedDeque

abbrev Item := Nat × Option Nat

structure Conv where
  κ : Type
  c : Cmp Item κ
  mkKey : Nat → Option Nat → κ
  probes : List κ
  /-- is this value representable (`NonZeroU32` in the whole-item type)? -/
  okVal : Option Nat → Bool

def probeVal (k : Nat) : Option Nat := some (10 * k + 1)

def pairConv : Conv :=
  { κ := Nat, c := pairCmp, mkKey := fun k _ => k, probes := [0, 1, 2, 3, 4, 5], okVal := fun _ => true }

def wholeConv : Conv :=
  { κ := Item, c := wholeCmp, mkKey := fun k v => (k, v),
    probes := [0, 1, 2, 3, 4, 5].map (fun k => (k, probeVal k)) ++ [0, 1, 2, 3, 4, 5].map (fun k => (k, none)),
    okVal := fun v => v != some 0 }

def fmtItem (x : Item) : String :=
  toString x.1 ++ ":" ++ (match x.2 with | none => "-" | some v => toString v)

def fmtOpt : Option Item → String
  | none => "none"
  | some x => fmtItem x

def fmtList (l : List Item) : String :=
  if l.isEmpty then "-" else ",".intercalate (l.map fmtItem)

def fmtRet : Ret Item → String
  | .unit => "()"
  | .item o => fmtOpt o
  | .flag b => if b then "1" else "0"
  | .items l => fmtList l

/-- FNV-1a, 64 bit, over the (ASCII) characters of a string; same as `fnv64` in the harness. -/
def fnvStr (s : String) : UInt64 :=
  s.foldl (fun h c => (h ^^^ c.toNat.toUInt64) * 0x100000001b3) 0xcbf29ce484222325

def hex64 (x : UInt64) : String :=
  String.ofList ((List.range 16).map (fun i => hexChar ((x >>> (UInt64.ofNat (60 - 4 * i))).toNat % 16)))

def fmtListDigest (l : List Item) : String :=
  "#" ++ toString l.length ++ ":" ++ hex64 (fnvStr (fmtList l))

def fmtRetDigest : Ret Item → String
  | .items l => fmtListDigest l
  | r => fmtRet r

def parseVal (s : String) : Option (Option Nat) :=
  if s = "-" then some none else s.toNat?.map some

def parseItem (s : String) : Option Item :=
  match s.splitOn ":" with
  | [k, v] =>
    match k.toNat?, parseVal v with
    | some k, some v => some (k, v)
    | _, _ => none
  | _ => none

def parseItems (s : String) : Option (List Item) :=
  if s = "-" then some [] else (s.splitOn ",").mapM parseItem

inductive Cmd (κ : Type) where
  | new (l : List Item)
  | op (o : Op Item κ)

def parseCmd (cv : Conv) : List String → Option (Cmd cv.κ)
  | ["new", l] =>
    match parseItems l with
    | some l => if l.all (fun x => cv.okVal x.2) then some (.new l) else none
    | none => none
  | ["push", k, v] =>
    match k.toNat?, parseVal v with
    | some k, some v => if cv.okVal v then some (.op (.push (k, v))) else none
    | _, _ => none
  | ["find", k, v] =>
    match k.toNat?, parseVal v with
    | some k, some v => if cv.okVal v then some (.op (.find (cv.mkKey k v))) else none
    | _, _ => none
  | ["remove", k, v] =>
    match k.toNat?, parseVal v with
    | some k, some v => if cv.okVal v then some (.op (.remove (cv.mkKey k v))) else none
    | _, _ => none
  | ["pop_first"] => some (.op .popFirst)
  | ["pop_last"] => some (.op .popLast)
  | ["first"] => some (.op .first)
  | ["last"] => some (.op .last)
  | ["is_empty"] => some (.op .isEmpty)
  | ["iter"] => some (.op .iter)
  | ["clear"] => some (.op .clear)
  | _ => none

/-- `none` = panic. -/
def exec (cv : Conv) (digest : Bool) (s : SortedDeque Item) : Cmd cv.κ → Option (String × SortedDeque Item)
  | .new l => some ("()", SortedDeque.new l)
  | .op o => (step cv.c s o).map fun (r, s') => (if digest then fmtRetDigest r else fmtRet r, s')

/-- The observation line on the state after the op (`none` = one of the reads panicked). -/
def observe (cv : Conv) (digest : Bool) (r : String) (s : SortedDeque Item) : Option String := do
  let f ← s.first cv.c
  let l ← s.last cv.c
  let e ← s.isEmpty cv.c
  if digest then
    return r ++ " first=" ++ fmtOpt f ++ " last=" ++ fmtOpt l ++ " empty=" ++ (if e then "1" else "0")
  let it ← s.iter cv.c
  let ps ← cv.probes.mapM (fun k => s.find cv.c k)
  pure (r ++ " iter=" ++ fmtList it ++ " first=" ++ fmtOpt f ++ " last=" ++ fmtOpt l
    ++ " empty=" ++ (if e then "1" else "0") ++ " probe=" ++ ",".intercalate (ps.map fmtOpt))

structure St where
  whole : Bool
  digest : Bool := false
  cur : Option (SortedDeque Item)
  snaps : List (SortedDeque Item)
  /-- further object instances `d0, d1, …` (handle ops) -/
  objs : List (SortedDeque Item) := []

/-- the handle ops; `none` = not one of them -/
def stepTraits (cv : Conv) (st : St) (ws : List String) : Option (St × List String) :=
  match SlidingDequeFam.parseMOp ws with
  | none => none
  | some mop =>
    match st.cur with
    | none => some (st, ["dead"])
    | some s =>
      let show1 (st' : St) (shown : SortedDeque Item) : St × List String :=
        match observe cv st.digest "()" shown with
        | none => ({ st with cur := none }, ["panic"])
        | some line => (st', [line])
      match mop with
      | none => some (show1 st s)      -- `ddebug`: reads only
      | some op =>
        match Woodpile.DequeTraits.mstep (Woodpile.DequeTraits.sortedTraits Item) ⟨s, st.objs⟩ op with
        | .nohandle => some (st, ["nohandle"])
        | .panic => some ({ st with cur := none }, ["panic"])
        | .ok shown m' => some (show1 { st with cur := some m'.cur, objs := m'.objs } shown)

def initSt (whole : Bool) (digest : Bool := false) : St :=
  { whole := whole, digest := digest, cur := some SortedDeque.empty, snaps := [SortedDeque.empty] }

def stepWith (cv : Conv) (st : St) (ws : List String) : St × List String :=
  match ws with
  | "at" :: k :: rest =>
    match k.toNat?, parseCmd cv rest with
    | some k, some c =>
      match st.snaps[k]? with
      | none => (st, ["nosnap"])
      | some s0 =>
        match exec cv st.digest s0 c with
        | none =>
          -- specified panic of a non-increasing push: caught, the deque is unchanged (see below)
          match c, (step cv.c s0 .isEmpty) with
          | .op (.push _), some (r, _) =>
            match observe cv st.digest (if st.digest then fmtRetDigest r else fmtRet r) s0 with
            | some line => ({ st with cur := some s0, snaps := st.snaps.take (k + 1) ++ [s0] }, ["panic", line])
            | none => ({ st with cur := none, snaps := st.snaps.take (k + 1) }, ["panic", "panic"])
          | _, _ => ({ st with cur := none, snaps := st.snaps.take (k + 1) }, ["panic"])
        | some (r, s') =>
          match observe cv st.digest r s' with
          | none => ({ st with cur := none, snaps := st.snaps.take (k + 1) }, ["panic"])
          | some line => ({ st with cur := some s', snaps := st.snaps.take (k + 1) ++ [s'] }, [line])
    | _, _ => (st, ["bad-op"])
  | ["iterscript", script] =>
    -- `SortedDeque::iter()`: forward only; the list `iter` gives; no state change
    match st.cur with
    | none => (st, ["dead"])
    | some s =>
      match IterScriptText.parseScript script, s.iter cv.c with
      | none, _ => (st, ["bad-op"])
      | some _, none => ({ st with cur := none }, ["panic"])
      | some steps, some l => (st, [IterScriptText.scriptObs (l.map fmtItem) steps false])
  | _ =>
    match stepTraits cv st ws with
    | some r => r
    | none =>
    match st.cur with
    | none => (st, ["dead"])
    | some s =>
      match parseCmd cv ws with
      | none => (st, ["bad-op"])
      | some c =>
        match exec cv st.digest s c with
        | none =>
          -- the only panic of a lawful history is the specified one of a non-increasing push; the
          -- harness catches it and keeps using the deque, which must be unchanged: observe `s` again
          -- (through `is_empty`, like the harness) and go on
          match c, (step cv.c s .isEmpty) with
          | .op (.push _), some (r, _) =>
            match observe cv st.digest (if st.digest then fmtRetDigest r else fmtRet r) s with
            | some line => (st, ["panic", line])
            | none => ({ st with cur := none }, ["panic", "panic"])
          | _, _ => ({ st with cur := none }, ["panic"])
        | some (r, s') =>
          match observe cv st.digest r s' with
          | none => ({ st with cur := none }, ["panic"])
          | some line => ({ st with cur := some s' }, [line])

def stepLine (st : St) (ws : List String) : St × List String :=
  match ws with
  | ["conv", "pair"] => (initSt false, ["conv pair"])
  | ["conv", "whole"] => (initSt true, ["conv whole"])
  | ["conv", "pair", "digest"] => (initSt false true, ["conv pair digest"])
  | ["conv", "whole", "digest"] => (initSt true true, ["conv whole digest"])
  | _ => if st.whole then stepWith wholeConv st ws else stepWith pairConv st ws

/-- may `unwinding <ws>` run?  (harness: `Runner::unwind_safe`): never `at` / `new` / `conv` / `iterscript`, and
only when the op does not panic on the current state (decided on the op's own answer, evaluated once) -/
def unwindPre (st : St) (ws : List String) : Bool :=
  match ws with
  | "at" :: _ => false
  | "new" :: _ => false
  | "conv" :: _ => false
  | "iterscript" :: _ => false
  | _ => st.cur.isSome

def family : Family := withUnwindOut { σ := St, init := initSt false, step := stepLine } unwindPre panicOrBad

end Woodpile.Driver.SortedDequeFam

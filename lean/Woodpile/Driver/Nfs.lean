import Woodpile.Driver.Unwind
import Woodpile.Driver.Util
import Woodpile.Model.NfsVoucher

/-! Model driver for family `nfs` (C19): the nfs_voucher module under real
files.  The harness generates *abstract* operations (`add 3`, `obs 2`,
`scan wait`, …) — echoed here — runs them on the real module in a forked
process, and reports what the operating system answered in a late-bound input
line (`add@`, `obs@`, …), on which the model computes its observation.

Answers: `E` open failed, `U` update failed, `X` the harness could not open
the file (no module call), `S:<dev>:<ctime_s>:<ctime_ns>` a successful stat.
Answer tables: `<file id>=<answer>,…` or `-`.  A rate-limiter field `?` means
the harness could not tell (timing); the case is abandoned on both sides. -/
namespace Woodpile.Driver.NfsFam
open Woodpile.Driver Woodpile.NfsVoucher

structure DSt where
  st : St
  dead : Bool

def parseAns (s : String) : Option FileAns :=
  if s = "E" then some .openErr
  else if s = "U" then some .updErr
  else match s.splitOn ":" with
    | ["S", d, cs, cns] =>
      match d.toNat?, cs.toInt?, cns.toInt? with
      | some d, some cs, some cns => some (.stat ⟨d, cs, cns⟩)
      | _, _, _ => none
    | _ => none

def parseTable (s : String) : Option (List (Nat × FileAns)) :=
  if s = "-" then some []
  else (s.splitOn ",").mapM fun kv =>
    match kv.splitOn "=" with
    | [k, a] =>
      match k.toNat?, parseAns a with
      | some k, some a => some (k, a)
      | _, _ => none
    | _ => none

def fmtRet : Ret → String
  | .unit => "ok"
  | .ioErr => "err"
  | .observed _ none => "none"
  | .observed _ (some (t, v)) => "some " ++ toString t.toNat ++ " " ++ toString v.toNat
  | .pair b v => "pair " ++ toString b.toNat ++ " " ++ toString v.toNat
  | .bool b => "bool " ++ (if b then "1" else "0")
  | .panic => "panic"

def apply (d : DSt) (c : Call) : DSt × List String :=
  let (st', r) := step d.st c
  ({ d with st := st' },
   [fmtRet r ++ " | base=" ++ toString st'.base.toNat ++ " v=" ++ toString st'.voucher.toNat])

def parseRl (s : String) : Option Bool :=
  if s = "0" then some false else if s = "1" then some true else none

def abstractOps : List String :=
  ["mk", "touch", "sleep", "link", "kill", "add", "obs", "mobs", "scan", "get", "sr", "pub", "euid"]

def step' (d : DSt) (ws : List String) : DSt × List String :=
  match ws with
  | [] => (d, ["bad-op"])
  | op :: args =>
    if d.dead then
      -- abandoned case: abstract operations are acknowledged, nothing else happens
      (d, if op.endsWith "@" then ["bad-op"] else ["dead"])
    else if abstractOps.contains op then (d, [" ".intercalate ws])
    else if op.endsWith "@" && args.head? == some "?" then
      -- the harness could not determine an input of this call (timing): abandon the case
      ({ d with dead := true }, ["ambiguous"])
    else match op, args with
      | "unl", [] => apply d .getUnlocked
      | "add@", [fid, a] =>
        match fid.toNat?, parseAns a with
        | some fid, some a => apply d (.addTrusted fid a)
        | _, _ => (d, ["bad-op"])
      | "obs@", ["X"] => (d, ["noopen"])
      | "obs@", [a] =>
        match parseAns a with
        | some a => apply d (.observe a)
        | none => (d, ["bad-op"])
      | "mobs@", ["X"] => (d, ["noopen"])
      | "mobs@", [rl, now, a] =>
        match parseRl rl, now.toInt?, parseAns a with
        | some rl, some now, some a => apply d (.maybeObserve rl now a)
        | _, _, _ => (d, ["bad-op"])
      | "scan@", [rl, now, tbl] =>
        match parseRl rl, now.toInt?, parseTable tbl with
        | some rl, some now, some tbl => apply d (.scan rl now tbl)
        | _, _, _ => (d, ["bad-op"])
      | "get@", [now, tbl] =>
        match now.toInt?, parseTable tbl with
        | some now, some tbl => apply d (.getBaseTime now tbl)
        | _, _ => (d, ["bad-op"])
      | "sr@", [leeway, now] =>
        match (if leeway = "-" then some none else leeway.toNat?.map some), now.toInt? with
        | some l, some now => apply d (.shouldRefresh l false now)
        | _, _ => (d, ["bad-op"])
      | _, _ => (d, ["bad-op"])

/-- `unwinding <module call>` (`Driver/Unwind.lean`; the harness child makes the call while its thread
unwinds): accepted for the calls that are specified not to panic. -/
def unwindSafe (_ : DSt) : List String → Bool
  | op :: _ => ["obs", "mobs", "scan", "get", "sr", "unl"].contains op
  | [] => false

def family : Family := withUnwind { σ := DSt, init := ⟨init, false⟩, step := step' } unwindSafe

end Woodpile.Driver.NfsFam

/-
Line-protocol helpers shared by all model drivers (not part of any model).
-/
namespace Woodpile.Driver

def hexDigit (c : Char) : Option Nat :=
  if '0' ≤ c ∧ c ≤ '9' then some (c.toNat - '0'.toNat)
  else if 'a' ≤ c ∧ c ≤ 'f' then some (c.toNat - 'a'.toNat + 10)
  else if 'A' ≤ c ∧ c ≤ 'F' then some (c.toNat - 'A'.toNat + 10)
  else none

/-- `TTxN` (the text after the `~` / `*` of a run token): the byte `TT` and the count `N`. -/
def parseRun (s : String) : Option (Nat × Nat) :=
  match s.splitOn "x" with
  | [t, n] =>
    match t.toList, n.toNat? with
    | [a, b], some k =>
      match hexDigit a, hexDigit b with
      | some x, some y => some (16 * x + y, k)
      | _, _ => none
    | _, _ => none
  | _ => none

/-- One part of a byte-string token: `"-"` (empty), an even-length hex string, the run
`~TTxN` (the N bytes TT, TT+1, ... wrapping) or the constant run `*TTxN` (N copies of TT);
same forms as the harness (`util::from_hex`). -/
def parseHexPart (s : String) : Option (List UInt8) :=
  if s = "-" then some []
  else if s.startsWith "~" then
    (parseRun (s.drop 1).toString).map
      (fun (t, k) => (List.range k).map (fun i => UInt8.ofNat ((t + i) % 256)))
  else if s.startsWith "*" then
    (parseRun (s.drop 1).toString).map (fun (t, k) => List.replicate k (UInt8.ofNat t))
  else
    let rec go (cs : List Char) (acc : Array UInt8) : Option (List UInt8) :=
      match cs with
      | [] => some acc.toList
      | a :: b :: rest =>
        match hexDigit a, hexDigit b with
        | some x, some y => go rest (acc.push (UInt8.ofNat (16 * x + y)))
        | _, _ => none
      | _ => none
    go s.toList #[]

/-- Parses a byte-string token: one part (see `parseHexPart`) or several joined by `+`
(`fe+*41x65535+fd`). -/
def parseHex (s : String) : Option (List UInt8) :=
  if s.contains '+' then
    ((s.splitOn "+").mapM parseHexPart).map List.flatten
  else parseHexPart s

def hexChar (n : Nat) : Char :=
  if n < 10 then Char.ofNat ('0'.toNat + n) else Char.ofNat ('a'.toNat + n - 10)

def toHex (bs : List UInt8) : String :=
  if bs.isEmpty then "-"
  else
    String.ofList (bs.foldr (fun b acc => hexChar (b.toNat / 16) :: hexChar (b.toNat % 16) :: acc) [])

def natList (xs : List Nat) : String :=
  if xs.isEmpty then "-" else ",".intercalate (xs.map toString)

def parseNatList (s : String) : Option (List Nat) :=
  if s = "-" then some [] else (s.splitOn ",").mapM String.toNat?

def words (line : String) : List String :=
  (line.trimAscii.toString.splitOn " ").filter (· ≠ "")

/-- A family driver: a state, its initial value (one per case), and a step
from an `I` line's words to output `O` lines. -/
structure Family where
  σ : Type
  init : σ
  step : σ → List String → σ × List String

partial def runFamily (f : Family) : IO Unit := do
  let stdin ← IO.getStdin
  let stdout ← IO.getStdout
  let rec loop (s : f.σ) : IO Unit := do
    let line ← stdin.getLine
    if line.isEmpty then return ()
    match words line with
    | "C" :: rest =>
      stdout.putStrLn ("C " ++ " ".intercalate rest)
      loop f.init
    | "I" :: ws =>
      let (s', outs) := f.step s ws
      for o in outs do stdout.putStrLn ("O " ++ o)
      loop s'
    | _ => loop s
  loop f.init
  stdout.flush

end Woodpile.Driver

import Woodpile.Driver.Unwind
import Woodpile.Driver.Util
import Woodpile.Model.Stream
import Woodpile.Model.StreamP
import Woodpile.Gen.Consts

/-!
Model drivers for the families `chunker` (C08) and `reader` (C06).

Ops shared by both families
* `stream <hex>`   : the bytes the reader has left to deliver (replaces the source)
* `script <evs>`   : the reader's scripted answers, comma separated:
                     `d<k>` (deliver up to k bytes), `e` (zero-byte read), `x<kind>`
                     (error; kind 0 = Interrupted), each optionally followed by `*<n>`
                     (repeat n times); `-` = empty.  An exhausted script answers EOF forever.
family `chunker`
* `block <n>`      : io_block_size for the following pumps
* `pump`           : one `StreamChunker::pump`
family `reader`
* `block none|<n>` : io_block_size
* `judge keepgoing` | `judge std <max> <limit|none>` | `judge list <verdicts>` (letters k/s/x)
* `next`           : one `next_record_bytes`
-/
namespace Woodpile.Driver.StreamFam
open Woodpile.Driver Woodpile.Arena Woodpile.ReadN Woodpile.Stream

def prodTuning : Tuning := { seq := Woodpile.Gen.bumpSeq, factor := Woodpile.Gen.bumpFactor }

def parseEv1 (s : String) : Option Ev :=
  match s.toList with
  | 'd' :: rest => (String.ofList rest).toNat?.map Ev.deliver
  | ['e'] => some Ev.eof
  | 'x' :: rest => (String.ofList rest).toNat?.map Ev.err
  | _ => none

def parseEvRep (s : String) : Option (List Ev) :=
  match s.splitOn "*" with
  | [e] => (parseEv1 e).map ([·])
  | [e, n] =>
    match parseEv1 e, n.toNat? with
    | some ev, some k => some (List.replicate k ev)
    | _, _ => none
  | _ => none

def parseScript (s : String) : Option (List Ev) :=
  if s = "-" then some [] else ((s.splitOn ",").mapM parseEvRep).map List.flatten

def fmtTail (r : Reader) (reqs : List Nat) : String :=
  " reqs=" ++ natList reqs ++ " left=" ++ toString r.script.length ++ " srcleft=" ++ toString r.src.length

/-! #### chunker -/

structure CSt where
  chunker : Chunker
  mem : Mem
  reader : Reader
  block : Nat

def fmtPump (o : PumpOut) : String :=
  match o.res with
  | .ok (.sentinel off) => "sentinel " ++ toString off ++ fmtTail o.reader o.reqs
  | .ok .eof => "eof" ++ fmtTail o.reader o.reqs
  | .ok (.data off bs) => "data " ++ toString off ++ " " ++ toHex bs ++ fmtTail o.reader o.reqs
  | .ioerr k => "ioerr " ++ toString k ++ fmtTail o.reader o.reqs
  | .panic => "panic"

def cinit : CSt := ⟨Chunker.new, Mem.fresh, ⟨[], []⟩, 0⟩

/-- one pump; the flag says whether it returned `Eof` -/
def pumpOnce (s : CSt) : CSt × String × Bool :=
  let o := pump Woodpile.Gen.minBlock prodTuning s.block s.chunker s.mem s.reader
  ({ s with chunker := o.chunker, mem := o.mem, reader := o.reader }, fmtPump o,
    o.res == .ok .eof)

def drainLoop : Nat → CSt → Array String → CSt × Array String
  | 0, s, acc => (s, acc)
  | n + 1, s, acc =>
    let (s', o, eof) := pumpOnce s
    if eof then (s', acc.push o) else drainLoop n s' (acc.push o)

def pumpTimes : Nat → CSt → Array String → CSt × Array String
  | 0, s, acc => (s, acc)
  | n + 1, s, acc => let (s', o, _) := pumpOnce s; pumpTimes n s' (acc.push o)

def cstep (s : CSt) : List String → CSt × List String
  | ["stream", h] =>
    match parseHex h with
    | some bs => ({ s with reader := { s.reader with src := bs } }, ["ok"])
    | none => (s, ["bad-op"])
  | ["script", sc] =>
    match parseScript sc with
    | some evs => ({ s with reader := { s.reader with script := evs } }, ["ok"])
    | none => (s, ["bad-op"])
  | ["block", n] =>
    match n.toNat? with
    | some b => ({ s with block := b }, ["ok"])
    | none => (s, ["bad-op"])
  | ["pump"] => let (s', o, _) := pumpOnce s; (s', [o])
  | ["drain", mx, extra] =>
    match mx.toNat?, extra.toNat? with
    | some mx, some extra =>
      let (s1, outs1) := drainLoop mx s #[]
      let (s2, outs2) := pumpTimes extra s1 outs1
      (s2, outs2.toList)
    | _, _ => (s, ["bad-op"])
  | ["reset"] => (cinit, ["ok"])
  -- `Clone` / `Default` (track apileft): the model is a function of the chunker VALUE, so replacing the
  -- object by its clone, running a clone beside it, or building one through `Default` changes nothing
  | ["clone_swap", m] => if m = "keep" || m = "drop" then (s, ["ok"]) else (s, ["bad-op"])
  | ["fork"] => (s, ["ok"])
  | ["check_default"] => (s, ["ok"])
  | _ => (s, ["bad-op"])

/-- `pump` never panics: every op may be wrapped in `unwinding` (`Driver/Unwind.lean`) -/
def chunkerFamily : Family :=
  withUnwindOut { σ := CSt, init := cinit, step := cstep } (fun _ _ => true) panicOrBad

/-! #### reader -/

structure RSt where
  rd : RdState
  reader : Reader
  block : Option Nat
  judge : Judge

def parseVerdicts (s : String) : Option (List Action) :=
  if s = "-" then some []
  else s.toList.mapM fun c =>
    if c = 'k' then some Action.keepGoing
    else if c = 's' then some Action.skipRecord
    else if c = 'x' then some Action.stop
    else none

def fmtNext (res : NextRes) (s : RdState) (r : Reader) : String :=
  let head := match res with
    | .some bs a b => "some " ++ toHex bs ++ " " ++ toString a ++ ".." ++ toString b
    | .none => "none"
    | .ioerr k => "ioerr " ++ toString k
    | .panic => "panic"
  head ++ " last_sentinel=" ++ toString s.lastSentinel
    ++ " left=" ++ toString r.script.length ++ " srcleft=" ++ toString r.src.length

def rinit : RSt := ⟨RdState.new, ⟨[], []⟩, none, keepGoingJudge⟩

/-- one call; `none` = panic; the flag says whether it returned `None` or an error -/
def nextOnce (s : RSt) : Option (RSt × String × Bool) :=
  -- `nextP`: `next_record_bytes` with the panic-aware decoder (`Model/StreamP.lean`); equal to
  -- `next` by `Props/C06U.reader_never_trips_decoder`
  let o := nextP Woodpile.Gen.minBlock prodTuning prod s.judge s.block s.rd s.reader
  match o.1 with
  | .panic => none
  | res =>
    let ended := match res with
      | .some .. => false
      | _ => true
    some ({ s with rd := o.2.1, reader := o.2.2 }, fmtNext res o.2.1 o.2.2, ended)

def nextAllLoop : Nat → RSt → Array String → Option (RSt × Array String)
  | 0, s, acc => some (s, acc)
  | n + 1, s, acc =>
    match nextOnce s with
    | none => none
    | some (s', o, ended) => if ended then some (s', acc.push o) else nextAllLoop n s' (acc.push o)

def nextTimes : Nat → RSt → Array String → Option (RSt × Array String)
  | 0, s, acc => some (s, acc)
  | n + 1, s, acc =>
    match nextOnce s with
    | none => none
    | some (s', o, _) => nextTimes n s' (acc.push o)

def rstep (s : RSt) : List String → RSt × List String
  | ["stream", h] =>
    match parseHex h with
    | some bs => ({ s with reader := { s.reader with src := bs } }, ["ok"])
    | none => (s, ["bad-op"])
  | ["script", sc] =>
    match parseScript sc with
    | some evs => ({ s with reader := { s.reader with script := evs } }, ["ok"])
    | none => (s, ["bad-op"])
  | ["block", n] =>
    if n = "none" then ({ s with block := none }, ["ok"])
    else match n.toNat? with
      | some b => ({ s with block := some b }, ["ok"])
      | none => (s, ["bad-op"])
  | ["judge", "keepgoing"] => ({ s with judge := keepGoingJudge }, ["ok"])
  | ["judge", "std", mx, lim] =>
    match mx.toNat?, (if lim = "none" then some none else lim.toNat?.map some) with
    | some m, some l => ({ s with judge := chunkJudge m l }, ["ok"])
    | _, _ => (s, ["bad-op"])
  | ["judge", "list", vs] =>
    match parseVerdicts vs with
    -- the list is consumed from the point where it is installed
    | some l =>
      let base := s.rd.hist.length
      ({ s with judge := fun h c => listJudge l (h.drop base) c }, ["ok"])
    | none => (s, ["bad-op"])
  | ["next"] =>
    match nextOnce s with
    | none => (s, ["panic"])
    | some (s', o, _) => (s', [o])
  | ["nextall", mx, extra] =>
    match mx.toNat?, extra.toNat? with
    | some mx, some extra =>
      -- a panic loses the observations of the whole op (the harness prints `O panic` only)
      match nextAllLoop mx s #[] with
      | none => (s, ["panic"])
      | some (s1, outs1) =>
        match nextTimes extra s1 outs1 with
        | none => (s, ["panic"])
        | some (s2, outs2) => (s2, outs2.toList)
    | _, _ => (s, ["bad-op"])
  | ["reset"] => (rinit, ["ok"])
  -- `Clone` / `Default` (track apileft), as for the chunker
  | ["clone_swap", m] => if m = "keep" || m = "drop" then (s, ["ok"]) else (s, ["bad-op"])
  | ["fork"] => (s, ["ok"])
  | ["check_default"] => (s, ["ok"])
  | _ => (s, ["bad-op"])

/-- The reader family with the `unwinding` / `scoped_panic` forms (track traits).  `next` / `nextall`
trip a documented assertion when the judge answers SkipRecord on an empty range, so they are wrapped
only under the always-KeepGoing judge (the flag follows the `judge` / `reset` op words, exactly as
`ReaderExec::unwind_safe` reads the harness's judge). -/
def readerFamily : Family :=
  withUnwind
    { σ := RSt × Bool, init := (rinit, true),
      step := fun (s, kg) ws =>
        let kg' := match ws with
          | ["judge", "keepgoing"] => true
          | ["judge", "std", _, _] => if (rstep s ws).2 = ["ok"] then false else kg
          | ["judge", "list", _] => if (rstep s ws).2 = ["ok"] then false else kg
          | ["reset"] => true
          | _ => kg
        let (s', outs) := rstep s ws
        ((s', kg'), outs) }
    (fun (_, kg) ws =>
      match ws with
      | ["next"] => kg
      | "nextall" :: _ => kg
      | _ => true)

end Woodpile.Driver.StreamFam

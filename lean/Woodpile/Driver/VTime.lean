import Woodpile.Driver.Unwind
import Woodpile.Driver.Util
import Woodpile.Model.VouchedTime
import Woodpile.Model.VouchedTimeApi

/-! Model driver for family `vtime` (C14): `VouchedTime::{check,new,get_local_time,now}`
and the raffle arithmetic.  Numbers are decimal; local times are signed
nanoseconds since the epoch; base times and vouchers are `u64`s. -/
namespace Woodpile.Driver.VTimeFam
open Woodpile.Driver Woodpile.Raffle Woodpile.VouchedTime

def parseU64 (s : String) : Option UInt64 :=
  match s.toNat? with
  | some n => if n < 2 ^ 64 then some (UInt64.ofNat n) else none
  | none => none

def errName : Err → String
  | .badVoucher => "bad-voucher"
  | .beforeEpoch => "before-epoch"
  | .outOfRange => "out-of-range"
  | .tooFarAhead => "too-far-ahead"
  | .tooFarBehind => "too-far-behind"
  | .provider => "provider"

def fmtVerdict : Verdict → String
  | .ok => "ok"
  | .err e => "err " ++ errName e

/-- A successful constructor is followed (in the harness) by `get_local_time`
and `check_or_die` on the value; `lt=` is what `get_local_time` returned. -/
def fmtNew (r : NewRes) : String :=
  match r with
  | .ok vt =>
    match getLocalTime prodCfg vt with
    | some lt => "ok lt=" ++ toString lt
    | none => "panic"
  | .err e => "err " ++ errName e
  | .panic => "panic"

def vouchParams (which : String) : Option VouchParams :=
  if which = "nfs" then some nfsVouch else if which = "abt" then some abtVouch else none

def step (_ : Unit) : List String → Unit × List String
  | ["limits"] =>
    ((), ["min=" ++ toString minLocalNs ++ " max=" ++ toString maxLocalNs
          ++ " fwd=" ++ toString prodCfg.fwdMs ++ " back=" ++ toString prodCfg.backMs])
  | ["vouch", which, value] =>
    match vouchParams which, parseU64 value with
    | some p, some x =>
      match vouch? p x with
      | some v => ((), ["v=" ++ toString v.toNat])
      | none => ((), ["panic"])
    | _, _ => ((), ["bad-op"])
  | ["rcheck", value, voucher] =>
    match parseU64 value, parseU64 voucher with
    | some x, some v => ((), ["ok=" ++ (if Raffle.check baseTimeCheck x v then "1" else "0")])
    | _, _ => ((), ["bad-op"])
  | ["check", ns, base, voucher] =>
    match ns.toInt?, parseU64 base, parseU64 voucher with
    | some ns, some b, some v => ((), [fmtVerdict (check prodCfg ns b v)])
    | _, _, _ => ((), ["bad-op"])
  | ["new", ns, base, voucher] =>
    match ns.toInt?, parseU64 base, parseU64 voucher with
    | some ns, some b, some v => ((), [fmtNew (new prodCfg ns b v)])
    | _, _, _ => ((), ["bad-op"])
  -- `now <delta_ms> <voucher kind>`: the harness calls the real `now()`; the clock
  -- reading and the provider's answer are only known afterwards and arrive in a
  -- late-bound `nowat` line.
  | ["now", _, _] => ((), ["now"])
  | ["nowat", clock, "fail"] =>
    match clock.toInt? with
    | some clock => ((), [fmtNew (now prodCfg clock (fun _ => none))])
    | none => ((), ["bad-op"])
  | ["nowat", clock, base, voucher] =>
    match clock.toInt?, parseU64 base, parseU64 voucher with
    | some clock, some b, some v => ((), [fmtNew (now prodCfg clock (fun _ => some (b, v)))])
    | _, _, _ => ((), ["bad-op"])
  -- the `_or_die` constructors (track apigaps): same inputs, an `Err` becomes a panic
  | ["new_or_die", ns, base, voucher] =>
    match ns.toInt?, parseU64 base, parseU64 voucher with
    | some ns, some b, some v => ((), [fmtNew (newOrDie prodCfg ns b v)])
    | _, _, _ => ((), ["bad-op"])
  | ["now_or_die", _, _] => ((), ["now"])
  | ["nowat_or_die", clock, "fail"] =>
    match clock.toInt? with
    | some clock => ((), [fmtNew (nowOrDie prodCfg clock (fun _ => none))])
    | none => ((), ["bad-op"])
  | ["nowat_or_die", clock, base, voucher] =>
    match clock.toInt?, parseU64 base, parseU64 voucher with
    | some clock, some b, some v => ((), [fmtNew (nowOrDie prodCfg clock (fun _ => some (b, v)))])
    | _, _, _ => ((), ["bad-op"])
  | _ => ((), ["bad-op"])

/-- every op may be wrapped in `unwinding` (`Driver/Unwind.lean`): the harness ops catch their specified panics themselves -/
def family : Family := withUnwind { σ := Unit, init := (), step := step } (fun _ _ => true)

end Woodpile.Driver.VTimeFam

import Woodpile.Driver.Util
import Woodpile.Driver.Stream
import Woodpile.Model.StreamWorld

/-!
Model drivers for the families `chunkerw` and `readerw` (C05, track `rdrworld`): the WORLD-level model of
`StreamChunker::pump` / `StreamReader::next_record_bytes` (`Model/StreamWorld.lean`).  Same op vocabulary as
the families `chunker` / `reader` (`Driver/Stream.lean`), same observation lines, plus the PLACEMENT of every
slice handed out (chunk ordinal in allocation order, offset, length) and the derived live set.

family `chunkerw` (the chunker reads into a detached arena the caller owns; every `Data` chunk handed out
is KEPT by the caller until released)
* `stream` / `script` / `block <n>` / `reset` : as `chunker`
* `pump` / `drain <max> <extra>`              : as `chunker`; a `data` line ends in ` at=c<k>:<off>+<len>`;
                                                 each op ends with `L live=…` and `H held=<n>`
* `release <n>`                                : the caller drops the `n` oldest chunks it still holds
family `readerw`
* `stream` / `script` / `block` / `judge …` / `reset` : as `reader`
* `next` / `nextall <max> <extra>`             : as `reader`; after each call `R slices=…` (the record's slices,
                                                 for `some`) and `L live=…`
-/
namespace Woodpile.Driver.StreamWorldFam
open Woodpile.Driver Woodpile.Arena Woodpile.ReadN Woodpile.Stream Woodpile.Iovec Woodpile.StreamWorld
open Woodpile.Driver.StreamFam (parseScript fmtTail parseVerdicts)

def prodPolicy : Policy := ⟨Woodpile.Gen.smallCopy, Woodpile.Gen.maxOppCopy⟩
def prodTuning : Tuning := ⟨Woodpile.Gen.bumpSeq, Woodpile.Gen.bumpFactor⟩

def fmtSlice (s : Slice) : String :=
  (match s.region with
   | .chunk k => "c" ++ toString k
   | .ext b => "e" ++ toString b) ++ ":" ++ toString s.off ++ "+" ++ toString s.len

def fmtSlices (l : List Slice) : String :=
  if l.isEmpty then "-" else ",".intercalate (l.map fmtSlice)

def liveLine (w : World) : String :=
  let live := w.liveChunks
  "L live=" ++ (if live.isEmpty then "-" else ",".intercalate (live.map (fun k => "c" ++ toString k)))

/-! #### chunkerw -/

structure CSt where
  w : World
  c : ChunkerW
  reader : Reader
  block : Nat
  /-- handles of the `Data` chunks the caller still holds, oldest first -/
  held : List Nat
  dead : Bool

def cinit : CSt :=
  -- the caller's `ByteArena::new()` (detached arena 0) and a default `StreamChunker`
  let w0 := ((World.init prodPolicy prodTuning).addArena ⟨none⟩).1
  let (w1, c) := ChunkerW.create w0
  ⟨w1, c, ⟨[], []⟩, 0, [], false⟩

/-- one pump: the new state, the observation line, whether it returned `Eof`; `none` = panic -/
def pumpOnce (s : CSt) : Option (CSt × String × Bool) :=
  match pumpW Woodpile.Gen.minBlock (.arena 0) s.block ⟨s.w, s.c, s.reader, []⟩ with
  | none => none
  | some (res, o) =>
    let s' := { s with w := o.w, c := o.c, reader := o.r }
    match res with
    | .ok (.sentinel off) => some (s', "sentinel " ++ toString off ++ fmtTail o.r o.reqs, false)
    | .ok .eof => some (s', "eof" ++ fmtTail o.r o.reqs, true)
    | .ok (.data off h) =>
      match o.w.aslice h with
      | some a =>
        some ({ s' with held := s'.held ++ [h] },
          "data " ++ toString off ++ " " ++ toHex (o.w.sliceBytes a.slice) ++ fmtTail o.r o.reqs ++ " at=" ++ fmtSlice a.slice,
          false)
      | none => none
    | .ioerr k => some (s', "ioerr " ++ toString k ++ fmtTail o.r o.reqs, false)
    | .panic => none

def tailLines (s : CSt) : List String := [liveLine s.w, "H held=" ++ toString s.held.length]

def drainLoop : Nat → CSt → Array String → Option (CSt × Array String)
  | 0, s, acc => some (s, acc)
  | n + 1, s, acc =>
    match pumpOnce s with
    | none => none
    | some (s', o, eof) => if eof then some (s', acc.push o) else drainLoop n s' (acc.push o)

def pumpTimes : Nat → CSt → Array String → Option (CSt × Array String)
  | 0, s, acc => some (s, acc)
  | n + 1, s, acc =>
    match pumpOnce s with
    | none => none
    | some (s', o, _) => pumpTimes n s' (acc.push o)

def releaseN : Nat → CSt → Option CSt
  | 0, s => some s
  | n + 1, s =>
    match s.held with
    | [] => some s
    | h :: rest =>
      match s.w.step (.sDrop h) with
      | some w' => releaseN n { s with w := w', held := rest }
      | none => none

def cstep (s : CSt) (ws : List String) : CSt × List String :=
  if s.dead then (s, ["bad-op"]) else
  match ws with
  | ["stream", h] =>
    match parseHex h with
    | some bs => ({ s with reader := { s.reader with src := bs } }, ["ok"])
    | none => (s, ["bad-op"])
  | ["script", sc] =>
    match parseScript sc with
    | some evs => ({ s with reader := { s.reader with script := evs } }, ["ok"])
    | none => (s, ["bad-op"])
  | ["block", n] =>
    match n.toNat? with
    | some b => ({ s with block := b }, ["ok"])
    | none => (s, ["bad-op"])
  | ["pump"] =>
    match pumpOnce s with
    | some (s', o, _) => (s', o :: tailLines s')
    | none => ({ s with dead := true }, ["panic"])
  | ["drain", mx, extra] =>
    match mx.toNat?, extra.toNat? with
    | some mx, some extra =>
      match drainLoop mx s #[] with
      | none => ({ s with dead := true }, ["panic"])
      | some (s1, outs1) =>
        match pumpTimes extra s1 outs1 with
        | none => ({ s with dead := true }, ["panic"])
        | some (s2, outs2) => (s2, outs2.toList ++ tailLines s2)
    | _, _ => (s, ["bad-op"])
  | ["release", n] =>
    match n.toNat? with
    | some k =>
      match releaseN k s with
      | some s' => (s', "ok" :: tailLines s')
      | none => ({ s with dead := true }, ["panic"])
    | none => (s, ["bad-op"])
  | ["reset"] => (cinit, ["ok"])
  | _ => (s, ["bad-op"])

def chunkerwFamily : Family := { σ := CSt, init := cinit, step := cstep }

/-! #### readerw -/

structure RSt where
  x : RdSt
  block : Option Nat
  judge : Judge
  dead : Bool

def rinit : RSt := ⟨RdSt.new prodPolicy prodTuning, none, keepGoingJudge, false⟩

def fmtNext (res : NextResW) (x : RdSt) : List String :=
  let tail := " last_sentinel=" ++ toString x.s.lastSentinel
    ++ " left=" ++ toString x.r.script.length ++ " srcleft=" ++ toString x.r.src.length
  match res with
  | .some a b =>
    match x.w.iov x.s.iov with
    | some v =>
      ["some " ++ toHex (v.slices.flatMap x.w.sliceBytes) ++ " " ++ toString a ++ ".." ++ toString b ++ tail,
       "R slices=" ++ fmtSlices v.slices, liveLine x.w]
    | none => ["panic"]
  | .none => ["none" ++ tail, liveLine x.w]
  | .ioerr k => ["ioerr " ++ toString k ++ tail, liveLine x.w]
  | .panic => ["panic"]

/-- one call; `none` = panic; the flag says whether it returned `None` or an error -/
def nextOnce (s : RSt) : Option (RSt × List String × Bool) :=
  match nextW Woodpile.Gen.minBlock Woodpile.Stream.prod s.judge s.block s.x with
  | none => none
  | some (.panic, _) => none
  | some (res, x') =>
    let ended := match res with
      | .some .. => false
      | _ => true
    some ({ s with x := x' }, fmtNext res x', ended)

def nextAllLoop : Nat → RSt → Array String → Option (RSt × Array String)
  | 0, s, acc => some (s, acc)
  | n + 1, s, acc =>
    match nextOnce s with
    | none => none
    | some (s', o, ended) => if ended then some (s', acc ++ o.toArray) else nextAllLoop n s' (acc ++ o.toArray)

def nextTimes : Nat → RSt → Array String → Option (RSt × Array String)
  | 0, s, acc => some (s, acc)
  | n + 1, s, acc =>
    match nextOnce s with
    | none => none
    | some (s', o, _) => nextTimes n s' (acc ++ o.toArray)

def setReader (s : RSt) (r : Reader) : RSt := { s with x := { s.x with r := r } }

def rstep (s : RSt) (ws : List String) : RSt × List String :=
  if s.dead then (s, ["bad-op"]) else
  match ws with
  | ["stream", h] =>
    match parseHex h with
    | some bs => (setReader s { s.x.r with src := bs }, ["ok"])
    | none => (s, ["bad-op"])
  | ["script", sc] =>
    match parseScript sc with
    | some evs => (setReader s { s.x.r with script := evs }, ["ok"])
    | none => (s, ["bad-op"])
  | ["block", n] =>
    if n = "none" then ({ s with block := none }, ["ok"])
    else match n.toNat? with
      | some b => ({ s with block := some b }, ["ok"])
      | none => (s, ["bad-op"])
  | ["judge", "keepgoing"] => ({ s with judge := keepGoingJudge }, ["ok"])
  | ["judge", "std", mx, lim] =>
    match mx.toNat?, (if lim = "none" then some none else lim.toNat?.map some) with
    | some m, some l => ({ s with judge := chunkJudge m l }, ["ok"])
    | _, _ => (s, ["bad-op"])
  | ["judge", "list", vs] =>
    match parseVerdicts vs with
    | some l =>
      let base := s.x.s.hist.length
      ({ s with judge := fun h c => listJudge l (h.drop base) c }, ["ok"])
    | none => (s, ["bad-op"])
  | ["next"] =>
    match nextOnce s with
    | none => ({ s with dead := true }, ["panic"])
    | some (s', o, _) => (s', o)
  | ["nextall", mx, extra] =>
    match mx.toNat?, extra.toNat? with
    | some mx, some extra =>
      match nextAllLoop mx s #[] with
      | none => ({ s with dead := true }, ["panic"])
      | some (s1, outs1) =>
        match nextTimes extra s1 outs1 with
        | none => ({ s with dead := true }, ["panic"])
        | some (s2, outs2) => (s2, outs2.toList)
    | _, _ => (s, ["bad-op"])
  | ["reset"] => (rinit, ["ok"])
  | _ => (s, ["bad-op"])

def readerwFamily : Family := { σ := RSt, init := rinit, step := rstep }

end Woodpile.Driver.StreamWorldFam

import Woodpile.Driver.Util
import Woodpile.Driver.IterScript
import Woodpile.Model.SlidingDeque
import Woodpile.Model.ZDeque
import Woodpile.Model.DequeTraits
import Woodpile.Driver.Unwind

/-!
Model driver for family `sdeque` (C15).  Op vocabulary (values are `u32`s in decimal):

  push v | front | back | pop_front | pop_back | advance n | clear | slide
  wfront v | wback v | wat i v | from v1,v2,... (`SlidingDeque::from(container)`)
  at k <op>   restart from snapshot k (snapshot 0 = the fresh deque), run <op>, record the
              result as snapshot k+1 (see harness/src/fam_sdeque.rs)
  iterscript <script>   iterator-protocol script (`Model/IterScript.lean`) on the iterator of the
              `Deref` slice (the list `deref` gives); no state change

Every op answers two identical `O` lines, `vec …` and `small …`: the harness runs the op
on a `SlidingVec<u32>` and on a `SlidingSmallVec<[u32; 4]>`, and both must behave like
the one model.

Zero-sized items (a `SlidingDeque<Vec<()>>` and one over a length-publishing wrapper, with
container lengths up to `usize::MAX`):

  zfrom n | zadvance n | zpop_front | zpop_back | zpush | zfront | zback | zslide | zclear | zlen

replayed on the length-only model `ZDeque` (`Woodpile/Model/ZDeque.lean`; proved to be the
image of the list model under `length` in `Woodpile/Proofs/ZDeque.lean`, pinned by C15), so
no list of 2^64 units is ever built.  Answers `zvec <ret> len=<len>` and
`zprobe <ret> len=<len> backing=<container length>`.  `zpush` onto a container that already
holds `usize::MAX` units answers `cap` and is not executed (std specifies a
capacity-overflow panic for `Vec::<()>::push` there; `usize` is 64 bits).

Standard traits over several object instances (track traits; `Model/DequeTraits.lean`, theorems
`Props/C15T.lean`): next to the current deque the state holds objects `d0, d1, …`;

  dnew | ddefault | dstore k | dload k | dswap k | dclone_from k | dclone_into k | dtake k | ddebug

run `DequeTraits.mstep` (`clone_from dst src` = `dst := src`); they answer the view of the object
written, or `nohandle`.  `unwinding <op>` / `scoped_panic …`: see `Driver/Unwind.lean` (every op of
this family is specified not to panic, so every op may be wrapped).
-/
namespace Woodpile.Driver.SlidingDequeFam
open Woodpile.Driver Woodpile.SlidingDeque

def fmtRet : Ret Nat → String
  | .unit => "()"
  | .item none => "none"
  | .item (some v) => "some:" ++ toString v
  | .count n => "n=" ++ toString n
  | .wrote b => if b then "w=1" else "w=0"

def parseOp : List String → Option (Op Nat)
  | ["push", v] => v.toNat?.map Op.pushBack
  | ["front"] => some .front
  | ["back"] => some .back
  | ["pop_front"] => some .popFront
  | ["pop_back"] => some .popBack
  | ["advance", n] => n.toNat?.map Op.advance
  | ["clear"] => some .clear
  | ["slide"] => some .slide
  | ["wfront", v] => v.toNat?.map Op.setFront
  | ["wback", v] => v.toNat?.map Op.setBack
  | ["wat", i, v] =>
    match i.toNat?, v.toNat? with
    | some i, some v => some (.setAt i v)
    | _, _ => none
  | _ => none

def both (s : String) : List String := ["vec " ++ s, "small " ++ s]

/-- Return value, the whole `Deref` view, `len()`. -/
def fmtObs (r : String) (s : SDeque Nat) : List String :=
  match s.deref with
  | none => ["panic"]
  | some v => both (r ++ " view=" ++ natList v ++ " len=" ++ toString v.length)

inductive Cmd where
  | ofList (l : List Nat)
  | op (o : Op Nat)

def parseCmd : List String → Option Cmd
  | ["from", l] => (parseNatList l).map Cmd.ofList
  | ws => (parseOp ws).map Cmd.op

/-- `none` = panic. -/
def exec (s : SDeque Nat) : Cmd → Option (String × SDeque Nat)
  | .ofList l => some ("()", SDeque.ofList l)
  | .op o => (step s o).map fun (r, s') => (fmtRet r, s')

/-! ### zero-sized items -/

/-- `usize::MAX` (64-bit). -/
def usizeMax : Nat := 18446744073709551615

inductive ZCmd where
  | ofLen (n : Nat)
  | op (o : ZOp)
  | len

def parseUsize (s : String) : Option Nat :=
  match s.toNat? with
  | some n => if n ≤ usizeMax then some n else none
  | none => none

def parseZCmd : List String → Option ZCmd
  | ["zfrom", n] => (parseUsize n).map ZCmd.ofLen
  | ["zadvance", n] => (parseUsize n).map fun n => .op (.advance n)
  | ["zpop_front"] => some (.op .popFront)
  | ["zpop_back"] => some (.op .popBack)
  | ["zpush"] => some (.op .pushBack)
  | ["zfront"] => some (.op .front)
  | ["zback"] => some (.op .back)
  | ["zslide"] => some (.op .slide)
  | ["zclear"] => some (.op .clear)
  | ["zlen"] => some .len
  | _ => none

def fmtZRet : ZRet → String
  | .unit => "()"
  | .has b => if b then "some" else "none"
  | .count n => "n=" ++ toString n

/-- Return value, `len()` (through `deref`, as the harness reads it), backing length. -/
def fmtZObs (r : String) (z : ZDeque) : List String :=
  match z.deref with
  | none => ["panic"]
  | some n =>
    ["zvec " ++ r ++ " len=" ++ toString n,
     "zprobe " ++ r ++ " len=" ++ toString n ++ " backing=" ++ toString z.len]

/-- `none` = panic. -/
def zexec (z : ZDeque) : ZCmd → Option (String × ZDeque)
  | .ofLen n => some ("()", ZDeque.ofLen n)
  | .len => some ("()", z)
  | .op o => (zstep z o).map fun (r, z') => (fmtZRet r, z')

/-- `cur = none` after a panic (every later op answers `dead`); `snaps` are the
snapshots of `at k <op>` (`snaps[0]` = the fresh deque); `z` is the deque of
zero-sized items. -/
structure St where
  cur : Option (SDeque Nat)
  snaps : List (SDeque Nat)
  z : ZDeque := ZDeque.ofLen 0
  /-- further object instances `d0, d1, …` (handle ops) -/
  objs : List (SDeque Nat) := []

open Woodpile.DequeTraits in
def parseMOp : List String → Option (Option MOp)
  | ["dnew"] => some (some .new)
  | ["ddefault"] => some (some .default)
  | ["dstore", k] => k.toNat?.map (fun k => some (.store k))
  | ["dload", k] => k.toNat?.map (fun k => some (.load k))
  | ["dswap", k] => k.toNat?.map (fun k => some (.swap k))
  | ["dclone_from", k] => k.toNat?.map (fun k => some (.cloneFrom k))
  | ["dclone_into", k] => k.toNat?.map (fun k => some (.cloneInto k))
  | ["dtake", k] => k.toNat?.map (fun k => some (.take k))
  | ["ddebug"] => some none
  | _ => none

/-- the handle ops; `none` = not one of them -/
def stepTraits (st : St) (ws : List String) : Option (St × List String) :=
  match parseMOp ws with
  | none => none
  | some mop =>
    match st.cur with
    | none => some (st, ["dead"])
    | some s =>
      match mop with
      | none => some (st, fmtObs "()" s)      -- `ddebug`: reads only
      | some op =>
        match Woodpile.DequeTraits.mstep (Woodpile.DequeTraits.sdequeTraits Nat) ⟨s, st.objs⟩ op with
        | .nohandle => some (st, ["nohandle"])
        | .panic => some ({ st with cur := none }, ["panic"])
        | .ok shown m' =>
          match fmtObs "()" shown with
          | ["panic"] => some ({ st with cur := none }, ["panic"])
          | lines => some ({ st with cur := some m'.cur, objs := m'.objs }, lines)

def stepLine (st : St) (ws : List String) : St × List String :=
  match st.cur with
  | none => (st, ["dead"])
  | some s =>
    match ws with
    | "at" :: k :: rest =>
      match k.toNat?, parseCmd rest with
      | some k, some c =>
        match st.snaps[k]? with
        | none => (st, ["nosnap"])
        | some s0 =>
          match exec s0 c with
          | none => ({ st with cur := none, snaps := st.snaps.take (k + 1) }, ["panic"])
          | some (r, s') => ({ st with cur := some s', snaps := st.snaps.take (k + 1) ++ [s'] }, fmtObs r s')
      | _, _ => (st, ["bad-op"])
    | ["iterscript", script] =>
      -- the iterator of the `Deref` slice: double-ended, exact size; the deque is not changed
      match IterScriptText.parseScript script, s.deref with
      | none, _ => (st, ["bad-op"])
      | some _, none => ({ st with cur := none }, ["panic"])
      | some steps, some v => (st, both (IterScriptText.scriptObs (v.map toString) steps true))
    | _ =>
      match parseCmd ws, parseZCmd ws with
      | some c, _ =>
        match exec s c with
        | none => ({ st with cur := none }, ["panic"])
        | some (r, s') => ({ st with cur := some s' }, fmtObs r s')
      | none, some zc =>
        match zc with
        | .op .pushBack =>
          if st.z.len ≥ usizeMax then (st, ["cap"])
          else
            match zexec st.z zc with
            | none => ({ st with cur := none }, ["panic"])
            | some (r, z') => ({ st with z := z' }, fmtZObs r z')
        | _ =>
          match zexec st.z zc with
          | none => ({ st with cur := none }, ["panic"])
          | some (r, z') => ({ st with z := z' }, fmtZObs r z')
      | none, none => (st, ["bad-op"])

def family : Family :=
  withUnwind
    { σ := St, init := { cur := SDeque.new, snaps := [SDeque.empty] },
      step := fun st ws => match stepTraits st ws with | some r => r | none => stepLine st ws }
    (fun _ _ => true)

end Woodpile.Driver.SlidingDequeFam

import Woodpile.Driver.Util
import Woodpile.Model.IterScript

/-!
Text form of the iterator-protocol scripts (same as `harness/src/iterscript.rs`): steps joined
by `,`

  n  next      t<k> nth(k)     h  size_hint    y<k> by_ref().take(k).collect()
  s<k> skip(k) k<k> take(k)    b  next_back    u<k> nth_back(k)    r  rev    e  len
  c  count     l  last         a  collect      f  fold             p<s>.<m> step_by(s).take(m).collect()

(`c l a f p` only as the last step), and of the answers: one entry `<token>=<answer>` per step
(an adapter: the token alone), joined by blanks after `it `.
-/
namespace Woodpile.Driver.IterScriptText
open Woodpile.Driver Woodpile.IterScript

def parseStep (tok : String) : Option Step :=
  let rest := (tok.drop 1).toString
  let num : Option Nat := if rest.isEmpty then none else rest.toNat?
  let plain := rest.isEmpty
  if tok.startsWith "n" then (if plain then some .next else none)
  else if tok.startsWith "t" then num.map .nth
  else if tok.startsWith "h" then (if plain then some .hint else none)
  else if tok.startsWith "y" then num.map .byRefTake
  else if tok.startsWith "s" then num.map .skip
  else if tok.startsWith "k" then num.map .take
  else if tok.startsWith "b" then (if plain then some .nextBack else none)
  else if tok.startsWith "u" then num.map .nthBack
  else if tok.startsWith "r" then (if plain then some .rev else none)
  else if tok.startsWith "e" then (if plain then some .len else none)
  else if tok.startsWith "c" then (if plain then some .count else none)
  else if tok.startsWith "l" then (if plain then some .last else none)
  else if tok.startsWith "a" then (if plain then some .collect else none)
  else if tok.startsWith "f" then (if plain then some .fold else none)
  else if tok.startsWith "p" then
    match rest.splitOn "." with
    | [s, m] =>
      match s.toNat?, m.toNat? with
      | some s, some m => if s = 0 then none else some (.stepByTake s m)
      | _, _ => none
    | _ => none
  else none

/-- Nothing may follow a consuming step. -/
def wellFormed : List Step → Bool
  | [] => true
  | [_] => true
  | st :: rest => !st.terminal && wellFormed rest

/-- machine-size arguments only (`usize`) -/
def argOk : Step → Bool
  | .nth k | .byRefTake k | .skip k | .take k | .nthBack k => k < 18446744073709551616
  | .stepByTake s m => s < 18446744073709551616 && m < 18446744073709551616
  | _ => true

def parseScript (s : String) : Option (List Step) :=
  if s = "-" then some []
  else
    match (s.splitOn ",").mapM parseStep with
    | some steps => if wellFormed steps && steps.all argOk then some steps else none
    | none => none

def usesDoubleEnded (steps : List Step) : Bool :=
  steps.any (fun st => match st with | .nextBack | .nthBack _ | .rev | .len => true | _ => false)

def token : Step → String
  | .next => "n"
  | .nth k => "t" ++ toString k
  | .hint => "h"
  | .byRefTake k => "y" ++ toString k
  | .skip k => "s" ++ toString k
  | .take k => "k" ++ toString k
  | .nextBack => "b"
  | .nthBack k => "u" ++ toString k
  | .rev => "r"
  | .len => "e"
  | .count => "c"
  | .last => "l"
  | .collect => "a"
  | .fold => "f"
  | .stepByTake s m => "p" ++ toString s ++ "." ++ toString m

def fmtList (l : List String) : String :=
  if l.isEmpty then "[-]" else "[" ++ ";".intercalate l ++ "]"

/-- `exact = false` (an iterator without `ExactSizeIterator`): any `size_hint` that bounds the
number of remaining items is lawful; the harness prints `h=ok` for such an answer. -/
def fmtObs (st : Step) (o : Obs String) (exact : Bool := true) : String :=
  match o with
  | .unit => token st
  | .item none => token st ++ "=none"
  | .item (some x) => token st ++ "=" ++ x
  | .num n =>
    match st with
    | .hint => if exact then token st ++ "=" ++ toString n ++ ".." ++ toString n else "h=ok"
    | _ => token st ++ "=" ++ toString n
  | .items l => token st ++ "=" ++ fmtList l

/-- The observation line of a script on the iterator that yields `items` (already formatted).
`de = false`: a forward-only iterator without exact size hints; a script asking it for a
double-ended method is answered `it no-such-method <token>` (first such step), as the harness does. -/
def scriptObs (items : List String) (steps : List Step) (de : Bool) : String :=
  let firstDe := steps.find? (fun st => match st with | .nextBack | .nthBack _ | .rev | .len => true | _ => false)
  match de, firstDe with
  | false, some st =>
    -- the harness runs the steps before it; only the refusal is printed
    "it no-such-method " ++ token st
  | _, _ =>
    let obs := run items steps
    let entries := (steps.zip obs).map (fun (st, o) => fmtObs st o de)
    "it " ++ (if entries.isEmpty then "-" else " ".intercalate entries)

end Woodpile.Driver.IterScriptText

import Woodpile.Driver.Util

/-
Track `scale`: a WRAPPER around an existing family driver for the large-magnitude /
long-history generator profiles (harness/src/scale_*.rs; harness side: `scale_common.rs`).

The wrapped driver replays every ordinary op word unchanged.  The wrapper adds

* `terse`            from here on every observation line longer than 160 characters is replaced
                     by `<first word> [<second word>] ~<length>:<FNV-1a of the line>`
                     (a 65536-slice `S` line is ~1 MB; both sides digest the same text);
* `quiet`            from here on NOTHING is observed for the rest of the case: the harness still
                     runs the ops and its direct oracles, the model does not replay them
                     (cases whose list-based model would take minutes: 2^20 EINTR bursts, 65536 slices);
                     ops of such magnitudes switch to `quiet` by themselves (`autoQuiet`);
* `rep <k> <op> [; <op> …]`   the op(s) k times (iteration i = 0..k-1); in every word `{i}` is
                     replaced by i, `{r}` by k-1-i, `{Ai+B}` / `{Ar+B}` by the affine value, and the tag
                     of a run token `~TTxN` is advanced by i; only the observations of the last
                     iteration are kept (a `bad-op` / `panic` of any iteration ends the op);
* `extendrun <v> <k> <~TTxN>` = `extend <v> t0|t1|…` with k run tokens (tags TT, TT+1, …);
* `newrun <k> <~TTxN>`        = `new_from_slices t0|t1|…`;
* `msgrun <ctor> <vt> <k> <tag0> <step>[r] <kind> <len>` = `msg <ctor> <vt> <k items>` (family tlv): tags tag0,
                     tag0+step, … (`r`: laid out in descending order), every value `len` copies of one letter;
* `viewrun <k> <tag0> <step>[r] <len> <lookups>` = `view <wire of those k pairs> <lookups>` (family tlvview);
* `scoped_panic <owner> <how> <n>`   harness only: objects owned by a closure that panics under
                     `catch_unwind` (dropped by the unwinder); nothing of the modelled world changes,
                     the observation is `P caught`;
* `must <op …>`     the op itself; the harness reports a panic of it as a violation (cases that use it make
                     sure the op is valid: a pending placeholder of the iovec, a source of its size);
* a word containing `+` is a concatenation of payload tokens (hex, `-`, `~TTxN`, each optionally
  `*<k>` = repeated k times) and is expanded to plain hex before the wrapped driver sees it.

Core Lean only (linked into the native driver).
-/
namespace Woodpile.Driver.ScaleFam
open Woodpile.Driver

structure Flags where
  terse : Bool := false
  quiet : Bool := false

def fnvStr (s : String) : UInt64 :=
  s.toList.foldl (fun h c => (h ^^^ (UInt64.ofNat c.toNat)) * 0x100000001b3) 0xcbf29ce484222325

def hex64 (x : UInt64) : String :=
  String.ofList ((List.range 16).map (fun i => hexChar ((x >>> (UInt64.ofNat (60 - 4 * i))).toNat % 16)))

/-- the digest form of an over-long observation line -/
def terseLine (l : String) : String :=
  if l.length ≤ 160 then l
  else
    let ws := l.splitOn " "
    let head := match ws with
      | a :: b :: _ => if b.length ≤ 24 then a ++ " " ++ b else a
      | a :: _ => if a.length ≤ 24 then a else ""
      | [] => ""
    head ++ " ~" ++ toString l.length ++ ":" ++ hex64 (fnvStr l)

/-- `~TTxN` with the tag advanced by `i` (anything else is returned unchanged) -/
def shiftTag (w : String) (i : Nat) : String :=
  if w.startsWith "~" then
    match (w.drop 1).toString.splitOn "x" with
    | [t, n] =>
      match t.toList, n.toNat? with
      | [a, b], some k =>
        match hexDigit a, hexDigit b with
        | some x, some y =>
          let tag := (16 * x + y + i) % 256
          "~" ++ String.ofList [hexChar (tag / 16), hexChar (tag % 16)] ++ "x" ++ toString k
        | _, _ => w
      | _, _ => w
    | _ => w
  else w

/-- value of the inside of a `{…}` pattern: `[A](i|r)[+B]` -/
def evalPat (p : String) (i k : Nat) : Option Nat :=
  let (lhs, b) : String × Option Nat := match p.splitOn "+" with
    | [l] => (l, some 0)
    | [l, r] => (l, r.toNat?)
    | _ => ("", none)
  match b with
  | none => none
  | some b =>
    let cs := lhs.toList
    match cs.getLast? with
    | some v =>
      let x : Option Nat := if v = 'i' then some i else if v = 'r' then some (k - 1 - i) else none
      let aStr := String.ofList cs.dropLast
      let a : Option Nat := if aStr.isEmpty then some 1 else aStr.toNat?
      match x, a with
      | some x, some a => some (a * x + b)
      | _, _ => none
    | none => none

/-- replaces every `{…}` pattern of `w` (unparsable patterns are left as they are) -/
def substPats (w : String) (i k : Nat) : String :=
  let rec go (fuel : Nat) (cs : List Char) (acc : List Char) : List Char :=
    match fuel with
    | 0 => acc.reverse ++ cs
    | fuel + 1 =>
      match cs with
      | [] => acc.reverse
      | '{' :: rest =>
        let inner := rest.takeWhile (· ≠ '}')
        let after := rest.dropWhile (· ≠ '}')
        match after with
        | '}' :: tail =>
          match evalPat (String.ofList inner) i k with
          | some v => go fuel tail ((toString v).toList.reverse ++ acc)
          | none => go fuel tail (('}' :: inner.reverse) ++ ('{' :: acc))
        | _ => acc.reverse ++ cs
      | c :: rest => go fuel rest (c :: acc)
  String.ofList (go (w.length + 1) w.toList [])

def substWord (w : String) (i k : Nat) : String :=
  substPats (shiftTag w i) i k

/-- one part of a `+` concatenation: a payload token, optionally `*<k>` -/
def partBytes (p : String) : Option (List UInt8) :=
  match p.splitOn "*" with
  | [t] => parseHex t
  | [t, k] =>
    match parseHex t, k.toNat? with
    | some bs, some k => some ((List.replicate k bs).flatten)
    | _, _ => none
  | _ => none

def expandWord (w : String) : String :=
  if w.contains '+' then
    match (w.splitOn "+").mapM partBytes with
    | some parts => toHex parts.flatten
    | none => w
  else w

def runTokens (k : Nat) (tok : String) : String :=
  if k = 0 then "-" else "|".intercalate ((List.range k).map (shiftTag tok))

def scopedOwners : List String := ["iov", "iovclone", "arena", "aslice", "enc", "dec", "reader", "chunker"]

/-- which (owner, how) pairs `scoped_panic` accepts (the harness has the same table) -/
def scopedOk (owner how : String) : Bool :=
  scopedOwners.contains owner &&
    (how = "backfill" || how = "pop" || how = "plain" || how = "keep_plain" || how = "thread"
      || ((how = "read" || how = "keep_read") && owner ≠ "iovclone" && owner ≠ "aslice")
      || (how = "judge" && owner = "reader"))

/-- splits the words of a `rep` body at the `;` separators -/
def splitOps (ws : List String) : List (List String) :=
  let rec go (ws : List String) (cur : List String) (acc : List (List String)) : List (List String) :=
    match ws with
    | [] => (cur.reverse :: acc).reverse
    | w :: rest => if w = ";" then go rest [] (cur.reverse :: acc) else go rest (w :: cur) acc
  (go ws [] []).filter (fun o => !o.isEmpty)

def le32 (n : Nat) : List UInt8 :=
  [n % 256, n / 256 % 256, n / 65536 % 256, n / 16777216 % 256].map UInt8.ofNat

/-- `<n>` or `<n>r` (the run is laid out in reverse order) -/
def parseStep (s : String) : Option (Nat × Bool) :=
  let cs := s.toList
  if cs.getLast? = some 'r' then (String.ofList cs.dropLast).toNat?.map (·, true)
  else s.toNat?.map (·, false)

/-- item j of a run of k pairs: its tag and the byte its value repeats -/
def runPair (k tag0 step : Nat) (rev : Bool) (j : Nat) : Nat × UInt8 :=
  let idx := if rev then k - 1 - j else j
  (tag0 + idx * step, UInt8.ofNat (0x41 + idx % 26))

/-- the item list of `msgrun`: k pairs `tag:kind:payload`, tags tag0, tag0+step, … (reversed for `<step>r`),
every value `len` copies of one ASCII letter -/
def msgItems (k tag0 step : Nat) (rev : Bool) (kind : String) (len : Nat) : String :=
  if k = 0 then "-"
  else ",".intercalate ((List.range k).map fun j =>
    let (tag, b) := runPair k tag0 step rev j
    toString tag ++ ":" ++ kind ++ ":" ++ (if len = 0 then "-" else toHex (List.replicate len b)))

/-- the wire form `viewrun` hands to `view`: k pairs in the order given (ascending unless `<step>r`) -/
def viewWire (k tag0 step : Nat) (rev : Bool) (len : Nat) : List UInt8 :=
  let idxs := List.range k
  le32 k
    ++ ((List.range (k - 1)).flatMap fun i => le32 ((i + 1) * len))
    ++ (idxs.flatMap fun j => le32 (runPair k tag0 step rev j).1)
    ++ (idxs.flatMap fun j => List.replicate len (runPair k tag0 step rev j).2)

/-- the wrapper's own macro ops, expanded into the wrapped vocabulary -/
def macroOp (ws : List String) : List String :=
  match ws with
  | ["msgrun", ctor, vt, k, tag0, step, kind, len] =>
    match k.toNat?, tag0.toNat?, parseStep step, len.toNat? with
    | some k, some t0, some (st, rev), some len => ["msg", ctor, vt, msgItems k t0 st rev kind len]
    | _, _, _, _ => ws
  | ["viewrun", k, tag0, step, len, lookups] =>
    match k.toNat?, tag0.toNat?, parseStep step, len.toNat? with
    | some k, some t0, some (st, rev), some len => ["view", toHex (viewWire k t0 st rev len), lookups]
    | _, _, _, _ => ws
  | ["extendrun", v, k, tok] =>
    match k.toNat? with
    | some k => ["extend", v, runTokens k tok]
    | none => ws
  | ["newrun", k, tok] =>
    match k.toNat? with
    | some k => ["new_from_slices", runTokens k tok]
    | none => ws
  | _ => ws.map expandWord

def isScoped (ws : List String) : Option Bool :=
  match ws with
  | ["scoped_panic", owner, how, n] => some (scopedOk owner how && n.toNat?.isSome)
  | "scoped_panic" :: _ => some false
  | _ => none

/-- one op of the wrapped vocabulary (after macro expansion), or `scoped_panic` -/
def step1 (f : Family) (st : f.σ) (ws0 : List String) : f.σ × List String :=
  -- `must <op …>`: the harness reports a panic of this op as a violation (the op is valid by
  -- construction of the case); for the model it is the op itself
  let ws := match ws0 with
    | "must" :: rest => rest
    | _ => ws0
  match isScoped ws with
  | some true => (st, ["P caught"])
  | some false => (st, ["bad-op"])
  | none => f.step st (macroOp ws)

/-- the ops of one `rep` iteration, in order; stops at the first `bad-op` / `panic` -/
def runOps (f : Family) (i k : Nat) : List (List String) → f.σ → List String → f.σ × List String × Bool
  | [], st, acc => (st, acc, false)
  | op :: rest, st, acc =>
    let (st', outs) := step1 f st (op.map (fun w => substWord w i k))
    if outs.contains "bad-op" then (st', ["bad-op"], true)
    else if outs.contains "panic" then (st', ["panic"], true)
    else runOps f i k rest st' (acc ++ outs)

def repLoop (f : Family) (k : Nat) (ops : List (List String)) : Nat → Nat → f.σ → List String → f.σ × List String
  | 0, _, st, last => (st, last)
  | n + 1, i, st, _ =>
    let (st', outs, stop) := runOps f i k ops st []
    if stop then (st', outs) else repLoop f k ops n (i + 1) st' outs

/-- `*<k>` factor of a `+`-part / script event, with the token it repeats -/
def repFactor (p : String) : Option (String × Nat) :=
  match p.splitOn "*" with
  | [t, k] => k.toNat?.map (fun k => (t, k))
  | _ => none

/-- Ops the list-based models cannot replay in reasonable time switch the case to `quiet` BY RULE
(the harness applies the same rule), so that a shrunk or hand-written replay can never make the
model run for hours: an `Interrupted` burst of 30000 or more in a `script`; 20000 or more slices /
iterations in `extendrun` / `newrun` / `rep`; 400 or more pairs in `msgrun` / `viewrun`; a multi-byte token repeated 30000 times or more in a
`+` word; a run token of 8 MiB or more. -/
def autoQuiet (ws : List String) : Bool :=
  let bigRun (w : String) : Bool :=
    w.startsWith "~" &&
      (match (w.drop 1).toString.splitOn "x" with
       | [_, n] => (match n.toNat? with | some n => decide (n ≥ 8388608) | none => false)
       | _ => false)
  let bigPart (w : String) : Bool :=
    w.contains '+' && (w.splitOn "+").any (fun p =>
      match repFactor p with
      | some (t, k) => decide (t.length > 2 ∧ k ≥ 30000)
      | none => false)
  (match ws with
   | ["script", sc] => (sc.splitOn ",").any (fun e =>
       match repFactor e with
       | some (t, k) => t.startsWith "x" && decide (k ≥ 30000)
       | none => false)
   | ["extendrun", _, k, _] => (match k.toNat? with | some k => decide (k ≥ 20000) | none => false)
   | ["newrun", k, _] => (match k.toNat? with | some k => decide (k ≥ 20000) | none => false)
   | "rep" :: k :: _ => (match k.toNat? with | some k => decide (k ≥ 20000) | none => false)
   -- (the TLV list models are cubic in the pair count: 256 pairs take seconds, 1024 minutes)
   | "msgrun" :: _ :: _ :: k :: _ => (match k.toNat? with | some k => decide (k ≥ 400) | none => false)
   | "viewrun" :: k :: _ => (match k.toNat? with | some k => decide (k ≥ 400) | none => false)
   | _ => false)
  || ws.any bigRun || ws.any bigPart

def step (f : Family) (s : f.σ × Flags) (ws : List String) : (f.σ × Flags) × List String :=
  let (st, fl) := s
  if fl.quiet then (s, [])
  else if autoQuiet ws then ((st, { fl with quiet := true }), ["quiet"])
  else
    match ws with
    | ["terse"] => ((st, { fl with terse := true }), ["ok"])
    | ["quiet"] => ((st, { fl with quiet := true }), ["quiet"])
    | "rep" :: k :: body =>
      match k.toNat?, splitOps body with
      | some k, op :: ops =>
        if k = 0 then (s, ["bad-op"])
        else
          let (st', outs) := repLoop f k (op :: ops) k 0 st []
          ((st', fl), if fl.terse then outs.map terseLine else outs)
      | _, _ => (s, ["bad-op"])
    | _ =>
      let (st', outs) := step1 f st ws
      ((st', fl), if fl.terse then outs.map terseLine else outs)

/-- the wrapped family -/
def wrap (f : Family) : Family :=
  { σ := f.σ × Flags, init := (f.init, {}), step := step f }

end Woodpile.Driver.ScaleFam

/-
Model drivers for the families `hcobs_enc` and `hcobs_dec` (C01, C02, C07 and the
abstract half of C09): replay the harness' op lines on `Hcobs.Enc` / `Hcobs.Dec`
over the abstract `Pipe`.

Op vocabulary (one case may hold several runs; `params` starts a fresh run):

  params prod | params <maxInit> <maxSub>      -> `params ok`
  enc b|c|a|r <hex>        (hcobs_enc)  feed one piece (borrow / copy / anchored / encode_read)
  dec b|c|a|r <hex>        (hcobs_dec)
  drain_slices <k> | drain_bytes <k> | drain_read <k>
  seen <ndrained> <rstable>   printed by the harness AFTER it executed the previous op:
                              how many bytes that op drained and how many bytes the real
                              consumer exposes now (`stable_prefix`)
  finish
  zenc b|c <n> [fe]        (hcobs_enc)  right after `params`: ONE call on a piece of `n` zero bytes,
                           then finish; ends the run (`fe`: the last byte of the full first chunk
                           is FE instead; `n ≤ zCheckMax`, always replayed on the actual bytes)
  zdec b|c <n> [<cut>]     (hcobs_dec)  right after `params`: the encoding of `n` zero bytes, its
                           first byte (first `cut` bytes) in one call, all the rest in a second
                           call, then finish

`zenc` / `zdec` take `n` up to more than 2^32 (a single piece / slice of >= 4 GiB is where a
length narrowed to 32 bits shows), so they are not replayed on a `List UInt8` of `n` bytes:
the observation is the *summary* of the encoding (`Zeros.Summary`: size, chunks, last chunk,
FNV-1a of the header bytes) computed by arithmetic, `Zeros.zeroSummary`.  That this is the
summary of what `Enc` produces (and that `Dec` turns the encoding back into `n` zeros) for
EVERY `n` is `Zeros.zenc_output` / `Zeros.zdec_output` / `Zeros.summarize_encode_zeros`
(`Woodpile/Proofs/HcobsZeros*.lean`); for `n ≤ zCheckMax` the driver also runs the state
machines on the actual bytes and compares (`spec=1`).

`enc`, `dec` and the drains produce their observation when the `seen` line
arrives: slice boundaries are structural (Layer B), so the number of bytes a
`consume(k)` removes and the size of the real stable prefix cannot be predicted
on the `Pipe`; the model is told both numbers, consumes exactly `ndrained`
bytes, prints *which* bytes those are, and prints `min rstable (its own stable
length)`, so the streams differ iff the real code exposed or drained something
the model does not consider stable (or different bytes).  A `seen` line that
is not expected (stale, from a replayed transcript) is ignored.

Panics: the driver runs the panic-aware state machines of `Model/HcobsP.lean`
(`Enc.feedAllP`, `Enc.finishP`, `Dec.callP`); a model `panic` outcome prints `panic` (what
the harness prints when the real call panics) and ends the run.  `Props/C07P.lean` proves
the outcome unreachable and `xP = ok x`.

A decoder run CONTINUES after `dec` reported an error: `Decoder::decode` leaves the object
in `InitialState` over the same iovec (`Dec.callP`), so the following `dec` / drain /
`finish` ops act on that decoder.  The `spec` cross-checks then concern the input fed since
the last error and the output produced since then.

`spec=1` in the `finish` / `err` observations is a model-internal cross-check the
harness prints as a constant: the incremental machine's bytes (resp. verdict)
equal `Spec.encode` (resp. `Spec.decode`) of the concatenated input.
-/
import Woodpile.Driver.Util
import Woodpile.Model.Hcobs
import Woodpile.Model.HcobsP
import Woodpile.Model.HcobsZeros
import Woodpile.Gen.Consts

namespace Woodpile.Driver.HcobsFam
open Woodpile.Driver Woodpile.Pipe Woodpile.Hcobs

inductive Phase where
  | idle      -- no `params` yet
  | live
  | done      -- finished, or the decoder reported an error
  deriving DecidableEq

structure St where
  isEnc : Bool
  phase : Phase := .idle
  p : Params := ⟨1, 1, 253⟩
  es : EncState := ⟨1, 0, false, 0, 1⟩
  ds : DecState := .initial
  pipe : Pipe := Pipe.empty
  /-- a `seen` line is owed -/
  await : Bool := false
  /-- text in front of the owed observation (`ok` / `err …` for the decoder) -/
  head : String := ""
  /-- the run is over once the owed observation is printed (decoder error) -/
  dieAfter : Bool := false
  /-- everything fed so far in this run (for the comparison with `Spec`) -/
  input : List UInt8 := []
  /-- no `enc` / `dec` / drain since `params` -/
  fresh : Bool := true
  /-- decoder: bytes output (drained + buffered) when the last failed call returned -/
  outBase : Nat := 0

def prodParams : Params := ⟨Woodpile.Gen.maxInit, Woodpile.Gen.maxSub, Woodpile.Gen.radix⟩

/-- `hcobs::verif::make_params`: the limits the test-only constructors accept. -/
def customParams (a b : Nat) : Option Params :=
  let r := Woodpile.Gen.radix
  if 1 ≤ a ∧ a < r ∧ 1 ≤ b ∧ b < r * r then some ⟨a, b, r⟩ else none

def parseMethod : String → Option Method
  | "b" => some .borrow
  | "c" => some .copy
  | "a" => some .borrow   -- anchored = borrow + push_anchor; same pipe ops
  | "r" => some .borrow   -- encode_read / decode_read = read_n + anchored
  | "S" => some .borrow   -- `ZeroCopySink::append_borrow for Encoder` = `encode`   (encoder only)
  | "T" => some .copy     -- `ZeroCopySink::append_copy for Encoder` = `encode_copy` (encoder only)
  | _ => none

def runEmits (pipe : Pipe) (es : List Emit) : Pipe := Pipe.run pipe (es.map (·.op))

def fmtErr : DecErr → String
  | .invalidInitialSizeHeader b => "InvalidInitialSizeHeader " ++ toString b.toNat
  | .invalidHeaderByte second b => "InvalidHeaderByte " ++ (if second then "1 " else "0 ") ++ toString b.toNat
  | .invalidSubsequentSizeHeader n => "InvalidSubsequentSizeHeader " ++ toString n
  | .cutShort => "CutShort"
  | .missingImplicitTerminator => "MissingImplicitTerminator"

def b01 (b : Bool) : String := if b then "1" else "0"

def startRun (s : St) (p : Params) : St × List String :=
  if s.isEnc then
    let (es, e0) := Enc.init p Pipe.empty.nextId
    ({ isEnc := true, phase := .live, p := p, es := es, pipe := runEmits Pipe.empty e0 }, ["params ok"])
  else
    ({ isEnc := false, phase := .live, p := p }, ["params ok"])

/-- The observation owed for the previous op, once the harness said how many
bytes it drained and how many the real consumer exposes. -/
def onSeen (s : St) (n rs : Nat) : St × List String :=
  let st := s.pipe.stable
  let (pipe', cnt) := s.pipe.consume n
  let drained := st.take cnt
  let line := s.head ++ "size=" ++ toString pipe'.size ++ " drained=" ++ toHex drained
    ++ " stable=" ++ toString (min rs pipe'.stable.length) ++ " pending=" ++ b01 pipe'.pending
  ({ s with pipe := pipe', await := false, head := "", dieAfter := false,
            phase := if s.dieAfter then .done else s.phase }, [line])

/-- Up to this size `zenc` / `zdec` also run the state machines on the actual zero bytes. -/
def zCheckMax : Nat := 300000

def fmtSummary (sm : Zeros.Summary) : String :=
  "size=" ++ toString sm.size ++ " chunks=" ++ toString sm.chunks ++ " last=" ++ toString sm.last
    ++ " hhash=" ++ toString sm.hhash.toNat

/-- The piece of `zenc <m> <n> fe`: `n` zeros, except that the last byte of the full first chunk
(index `maxInit - 1`) is FE when there is one. -/
def zerosFe (p : Params) (n : Nat) (fe : Bool) : List UInt8 :=
  if fe && p.maxInit ≤ n then
    Zeros.zeros (p.maxInit - 1) ++ [FE] ++ Zeros.zeros (n - p.maxInit)
  else Zeros.zeros n

/-- `zenc` on a fresh encoder run (`s.es`, `s.pipe` as `startRun` left them).  With `fe` the
chunking (hence the summary) is that of `n` zeros: an FE followed by a zero or by nothing is not a
stuff sequence. -/
def zencCheck (s : St) (m : Method) (n : Nat) (fe : Bool := false) : Bool :=
  let d := zerosFe s.p n fe
  let (es', nid', emits) := Enc.feedAll s.p s.es s.pipe.nextId m d
  let pipe1 := runEmits s.pipe emits
  let pipe' := runEmits pipe1 (Enc.finish s.p es')
  decide (nid' = pipe1.nextId) && !pipe'.pending
    && decide (pipe'.bytes = Spec.encode s.p d)
    && decide (Zeros.summarize s.p pipe'.bytes = Zeros.zeroSummary s.p n)

/-- `zdec` on a fresh decoder run; the first call gets the first `cut` bytes of the wire. -/
def zdecCheck (s : St) (m : Method) (n : Nat) (cut : Nat := 1) : Bool :=
  let wire := Spec.encode s.p (Zeros.zeros n)
  decide (Zeros.summarize s.p wire = Zeros.zeroSummary s.p n) &&
  match Dec.feedAll s.p m .initial (wire.take cut) with
  | .error _ => false
  | .ok (ds1, e1) =>
    match Dec.feedAll s.p m ds1 (wire.drop cut) with
    | .error _ => false
    | .ok (ds2, e2) =>
      match Dec.finish ds2 with
      | .error _ => false
      | .ok () => decide ((runEmits (runEmits Pipe.empty e1) e2).bytes = Zeros.zeros n)

/-- `zdec <m> <n> [<cut>]`: the answer does not depend on where the wire is cut (the decoder is
split independent, `C01.dec_impl_refines_spec`); for `n ≤ zCheckMax` the state machines are
run with exactly that cut (`spec=`). -/
def zdecStep (s : St) (m n cut : String) : St × List String :=
  if !s.isEnc ∧ s.phase = .live ∧ s.fresh ∧ (m = "b" ∨ m = "c") then
    match parseMethod m, n.toNat?, cut.toNat? with
    | some m, some n, some cut =>
      if cut = 0 then (s, ["bad-op"]) else
      let agree := if n ≤ zCheckMax then zdecCheck s m n cut else true
      ({ s with phase := .done },
        ["zdec " ++ fmtSummary (Zeros.zeroSummary s.p n) ++ " verdict=ok out=" ++ toString n
          ++ " zeros=1 spec=" ++ b01 agree])
    | _, _, _ => (s, ["bad-op"])
  else (s, ["bad-op"])

def step (s : St) (ws : List String) : St × List String :=
  match ws with
  | ["seen", n, rs] =>
    if s.await then
      match n.toNat?, rs.toNat? with
      | some n, some rs => onSeen s n rs
      | _, _ => (s, ["bad-op"])
    else (s, [])
  | _ =>
  if s.await then ({ s with await := false, head := "", phase := .done }, ["missing-seen"]) else
  match ws with
  -- `hcobs::find_stuff_sequence` called directly (track apigaps); no state
  | ["find", hex] =>
    match parseHex hex with
    | some d => (s, ["find=" ++ (match findStuff d with | some i => toString i | none => "none")])
    | none => (s, ["bad-op"])
  | ["params", "prod"] => startRun s prodParams
  | ["params", a, b] =>
    match a.toNat?, b.toNat? with
    | some a, some b =>
      match customParams a b with
      | some p => startRun s p
      | none => (s, ["bad-op"])
    | _, _ => (s, ["bad-op"])
  | ["enc", m, hex] =>
    if s.isEnc ∧ s.phase = .live then
      match parseMethod m, parseHex hex with
      | some m, some d =>
        match Enc.feedAllP s.p s.es s.pipe.nextId m s.pipe d with
        | .panic _ _ => ({ s with phase := .done }, ["panic"])
        | .ok (es', nid', emits) =>
          let pipe' := runEmits s.pipe emits
          if nid' = pipe'.nextId then ({ s with es := es', pipe := pipe', await := true, input := s.input ++ d, fresh := false }, [])
          else ({ s with phase := .done }, ["model-desync"])
      | _, _ => (s, ["bad-op"])
    else (s, ["bad-op"])
  | ["dec", m, hex] =>
    if !s.isEnc ∧ s.phase = .live ∧ m ≠ "S" ∧ m ≠ "T" then
      match parseMethod m, parseHex hex with
      | some m, some d =>
        match Dec.callP s.p m s.ds d with
        | .panic _ _ => ({ s with phase := .done }, ["panic"])
        | .ok ⟨ds', emits, none⟩ =>
          ({ s with ds := ds', pipe := runEmits s.pipe emits, await := true, head := "ok ", input := s.input ++ d, fresh := false }, [])
        | .ok ⟨ds', emits, some e⟩ =>
          -- the batch definition must reject what the state machine rejected
          let agree := (Spec.decode s.p (s.input ++ d)).isNone
          let pipe' := runEmits s.pipe emits
          -- the object stays usable: `ds'` is `InitialState`, the output so far stays
          ({ s with ds := ds', pipe := pipe', await := true,
                    head := "err " ++ fmtErr e ++ " spec=" ++ b01 agree ++ " ",
                    input := [], fresh := false,
                    outBase := pipe'.consumed.length + pipe'.bytes.length }, [])
      | _, _ => (s, ["bad-op"])
    else (s, ["bad-op"])
  | ["zenc", m, n, "fe"] =>
    -- always replayed on the actual bytes (hence the size limit)
    if s.isEnc ∧ s.phase = .live ∧ s.fresh ∧ (m = "b" ∨ m = "c") then
      match parseMethod m, n.toNat? with
      | some m, some n =>
        if n > zCheckMax then (s, ["bad-op"]) else
        ({ s with phase := .done },
          ["zenc " ++ fmtSummary (Zeros.zeroSummary s.p n) ++ " pending=0 spec=" ++ b01 (zencCheck s m n true)])
      | _, _ => (s, ["bad-op"])
    else (s, ["bad-op"])
  | ["zenc", m, n] =>
    if s.isEnc ∧ s.phase = .live ∧ s.fresh ∧ (m = "b" ∨ m = "c") then
      match parseMethod m, n.toNat? with
      | some m, some n =>
        let agree := if n ≤ zCheckMax then zencCheck s m n else true
        ({ s with phase := .done },
          ["zenc " ++ fmtSummary (Zeros.zeroSummary s.p n) ++ " pending=0 spec=" ++ b01 agree])
      | _, _ => (s, ["bad-op"])
    else (s, ["bad-op"])
  | ["zdec", m, n] => zdecStep s m n "1"
  | ["zdec", m, n, cut] => zdecStep s m n cut
  | [op, k] =>
    if (op = "drain_slices" ∨ op = "drain_bytes" ∨ op = "drain_read") ∧ s.phase = .live then
      match k.toNat? with
      | some _ => ({ s with await := true, fresh := false }, [])
      | none => (s, ["bad-op"])
    else (s, ["bad-op"])
  | ["finish"] =>
    if s.phase = .live then
      if s.isEnc then
        match Enc.finishP s.p s.es s.pipe with
        | .panic _ _ => ({ s with phase := .done }, ["panic"])
        | .ok femits =>
        let pipe' := runEmits s.pipe femits
        -- incremental machine vs. batch definition of the format
        let agree := decide (pipe'.consumed ++ pipe'.bytes = Spec.encode s.p s.input) && !pipe'.pending
        ({ s with pipe := pipe', phase := .done },
          ["finish size=" ++ toString pipe'.size ++ " pending=" ++ b01 pipe'.pending
            ++ " spec=" ++ b01 agree ++ " rest=" ++ toHex pipe'.stable])
      else
        let spec := Spec.decode s.p s.input
        let (verdict, agree) := match Dec.finish s.ds with
          | .ok () => ("ok", decide (spec = some ((s.pipe.consumed ++ s.pipe.bytes).drop s.outBase)))
          | .error e => ("err " ++ fmtErr e, spec.isNone)
        ({ s with phase := .done },
          ["finish " ++ verdict ++ " spec=" ++ b01 agree ++ " size=" ++ toString s.pipe.size
            ++ " rest=" ++ toHex s.pipe.stable])
    else (s, ["bad-op"])
  | _ => (s, ["bad-op"])

def encFamily : Family := { σ := St, init := { isEnc := true }, step := step }
def decFamily : Family := { σ := St, init := { isEnc := false }, step := step }

end Woodpile.Driver.HcobsFam

import Woodpile.Driver.Util
import Woodpile.Driver.ReadN
import Woodpile.Driver.Stream

open Woodpile.Driver

def families : List (String × Family) := [
  ("readn", ReadNFam.family),
  ("chunker", StreamFam.chunkerFamily),
  ("reader", StreamFam.readerFamily)
]

def main (args : List String) : IO UInt32 := do
  match args with
  | [name] =>
    match families.lookup name with
    | some f => runFamily f; return 0
    | none => IO.eprintln ("unknown family " ++ name); return 2
  | _ => IO.eprintln "usage: wpmodel <family>  (line protocol on stdin)"; return 2

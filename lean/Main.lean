import Woodpile.Driver.Util
import Woodpile.Driver.ReadN
import Woodpile.Driver.VTime
import Woodpile.Driver.Nfs

open Woodpile.Driver

def families : List (String × Family) := [
  ("vtime", VTimeFam.family),
  ("nfs", NfsFam.family),
  ("readn", ReadNFam.family)
]

def main (args : List String) : IO UInt32 := do
  match args with
  | [name] =>
    match families.lookup name with
    | some f => runFamily f; return 0
    | none => IO.eprintln ("unknown family " ++ name); return 2
  | _ => IO.eprintln "usage: wpmodel <family>  (line protocol on stdin)"; return 2

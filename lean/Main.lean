import Woodpile.Driver.Util
import Woodpile.Driver.Stream
import Woodpile.Driver.Nfs
import Woodpile.Driver.VTime
import Woodpile.Driver.Abt
import Woodpile.Driver.SortedDeque
import Woodpile.Driver.SlidingDeque
import Woodpile.Driver.ReadN
import Woodpile.Driver.Iovec
import Woodpile.Driver.CodecW
import Woodpile.Driver.RoughTlv
import Woodpile.Driver.Hcobs
import Woodpile.Driver.StreamWorld
import Woodpile.Driver.Scale

open Woodpile.Driver

-- one `++ [...]` line per family, so that parallel branches merge cleanly
def families : List (String × Family) :=
  [("readn", ReadNFam.family)]
  ++ [("iovec", IovecFam.family)]
  ++ [("codecw", CodecWFam.family)]
  ++ [("tlv", RoughTlvFam.family)]
  ++ [("tlvview", RoughTlvFam.viewFamily)]
  ++ [("hcobs_enc", HcobsFam.encFamily)]
  ++ [("hcobs_dec", HcobsFam.decFamily)]
  ++ [("sdeque", SlidingDequeFam.family)]
  ++ [("sorted", SortedDequeFam.family)]
  ++ [("abt", AbtFam.family)]
  ++ [("vtime", VTimeFam.family)]
  ++ [("nfs", NfsFam.family)]
  ++ [("chunker", StreamFam.chunkerFamily)]
  ++ [("reader", StreamFam.readerFamily)]
  ++ [("chunkerw", StreamWorldFam.chunkerwFamily)]
  ++ [("readerw", StreamWorldFam.readerwFamily)]
  ++ [("scale_iovec", ScaleFam.wrap IovecFam.family)]
  ++ [("scale_codec", ScaleFam.wrap CodecWFam.family)]
  ++ [("scale_chunker", ScaleFam.wrap StreamFam.chunkerFamily)]
  ++ [("scale_reader", ScaleFam.wrap StreamFam.readerFamily)]
  ++ [("scale_readn", ScaleFam.wrap ReadNFam.family)]
  ++ [("scale_tlv", ScaleFam.wrap RoughTlvFam.family)]
  ++ [("scale_tlvview", ScaleFam.wrap RoughTlvFam.viewFamily)]

def main (args : List String) : IO UInt32 := do
  match args with
  | [name] =>
    match families.lookup name with
    | some f => runFamily f; return 0
    | none => IO.eprintln ("unknown family " ++ name); return 2
  | _ => IO.eprintln "usage: wpmodel <family>  (line protocol on stdin)"; return 2

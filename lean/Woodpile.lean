-- Root of the `Woodpile` library: models, proofs, property theorems.
import Woodpile.Gen.Consts
import Woodpile.Model.Arena
import Woodpile.Model.ReadN
import Woodpile.Proofs.HcobsSpec
import Woodpile.Props.C02
import Woodpile.Props.C07
import Woodpile.Model.IovecOps
import Woodpile.Proofs.IovecOwn
import Woodpile.Props.C05
import Woodpile.Props.C10
import Woodpile.Proofs.IovecFrame
import Woodpile.Props.C20
import Woodpile.Proofs.IovecArena
import Woodpile.Proofs.IovecHeap
import Woodpile.Proofs.IovecFootprint
import Woodpile.Proofs.IovecOpsCheck
import Woodpile.Proofs.IovecPriv

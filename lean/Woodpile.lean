-- Root of the `Woodpile` library: models, proofs, property theorems.
import Woodpile.Gen.Consts
import Woodpile.Model.Arena
import Woodpile.Model.ReadN
import Woodpile.Proofs.HcobsSpec
import Woodpile.Props.C02
import Woodpile.Props.C07
import Woodpile.Proofs.IovecInv
import Woodpile.Proofs.IovecAbs
import Woodpile.Props.C03
import Woodpile.Props.C04

-- Root of the `Woodpile` library: models, proofs, property theorems.
import Woodpile.Gen.Consts
import Woodpile.Model.Arena
import Woodpile.Model.ReadN
import Woodpile.Model.SlidingDeque
import Woodpile.Proofs.SlidingDeque
import Woodpile.Props.C15
import Woodpile.Model.SortedDeque
import Woodpile.Proofs.SortedDeque
import Woodpile.Proofs.SortedDequeOps
import Woodpile.Proofs.SortedDequeConv
import Woodpile.Props.C16

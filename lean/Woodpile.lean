-- Root of the `Woodpile` library: models, proofs, property theorems.
import Woodpile.Gen.Consts
import Woodpile.Model.Arena
import Woodpile.Model.ReadN
import Woodpile.Model.Stream
import Woodpile.Proofs.StreamBytes
import Woodpile.Proofs.Stream
import Woodpile.Props.C08
import Woodpile.Proofs.StreamReader
import Woodpile.Props.C06

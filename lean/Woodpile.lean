-- Root of the `Woodpile` library: models, proofs, property theorems.
import Woodpile.Gen.Consts
import Woodpile.Model.Arena
import Woodpile.Model.ReadN
import Woodpile.Model.RoughTlv
import Woodpile.Proofs.RoughTlv
import Woodpile.Proofs.RoughTlvEnc
import Woodpile.Proofs.RoughTlvRt
import Woodpile.Props.C11
import Woodpile.Props.C12

-- Root of the `Woodpile` library: models, proofs, property theorems.
import Woodpile.Gen.Consts
import Woodpile.Model.Arena
import Woodpile.Model.ReadN
import Woodpile.Model.Raffle
import Woodpile.Model.VouchedTime
import Woodpile.Proofs.Raffle
import Woodpile.Proofs.VouchedTime
import Woodpile.Props.C14
import Woodpile.Model.NfsVoucher
import Woodpile.Proofs.NfsVoucher
import Woodpile.Props.C19

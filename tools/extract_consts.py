#!/usr/bin/env python3
"""Translator (constants only): Rust sources under /repo -> lean/Woodpile/Gen/Consts.lean.

Run on every check.  Every constant the Lean models are parametric in is
re-read from the current working tree of /repo, its defining expression is
evaluated with a tiny integer-expression evaluator (no `eval`), and the value
is written into a generated Lean module.  The proofs do not mention the
literal values: they go through side-condition lemmas (`Woodpile/Props/*`:
`consts_ok` style `by decide` obligations), so a changed constant either still
satisfies the side conditions (and all theorems still hold for the new value)
or breaks a named obligation.

If a constant cannot be found the extractor exits non-zero and names it; the
check driver reports that as a broken tie (VIOLATION ... no-failing-input-found
unless the oracle finds an input).
"""
import ast
import json
import os
import re
import sys

REPO = os.environ.get("WOODPILE_REPO", "/repo")


def read(rel):
    with open(os.path.join(REPO, rel), "r", encoding="utf-8") as f:
        return f.read()


def strip_comments(src):
    src = re.sub(r"/\*.*?\*/", "", src, flags=re.S)
    src = re.sub(r"//[^\n]*", "", src)
    return src


class Eval(ast.NodeVisitor):
    def __init__(self, env):
        self.env = env

    def visit_Expression(self, n):
        return self.visit(n.body)

    def visit_Constant(self, n):
        if isinstance(n.value, int):
            return n.value
        raise ValueError("non-int literal")

    def visit_Name(self, n):
        if n.id in self.env:
            return self.env[n.id]
        raise ValueError("unknown name " + n.id)

    def visit_BinOp(self, n):
        a, b = self.visit(n.left), self.visit(n.right)
        if isinstance(n.op, ast.Add):
            return a + b
        if isinstance(n.op, ast.Sub):
            return a - b
        if isinstance(n.op, ast.Mult):
            return a * b
        if isinstance(n.op, ast.FloorDiv):
            return a // b
        if isinstance(n.op, ast.LShift):
            return a << b
        if isinstance(n.op, ast.RShift):
            return a >> b
        raise ValueError("unsupported operator")

    def generic_visit(self, n):
        raise ValueError("unsupported syntax " + type(n).__name__)


def ev(expr, env):
    e = expr.strip()
    e = re.sub(r"\bas\s+(usize|u64|u32|i128|i64|u8)\b", "", e)
    e = re.sub(r"(?<=[0-9a-fA-F_])(usize|u64|u32|u8|i128|i64)\b", "", e)
    e = re.sub(r"(?<=\d)_(?=\d)", "", e)
    e = e.replace("/", "//")
    tree = ast.parse(e, mode="eval")
    return Eval(env).visit(tree)


def const_expr(src, name):
    m = re.search(r"\bconst\s+" + re.escape(name) + r"\s*:\s*[^=]+=\s*(.*?);", src, flags=re.S)
    if not m:
        raise KeyError(name)
    return m.group(1)


def main(out_path):
    out = {}
    # ---- hcobs
    hc = strip_comments(read("hcobs/src/lib.rs"))
    env = {}
    env["RADIX"] = ev(const_expr(hc, "RADIX"), env)
    out["radix"] = env["RADIX"]
    m = re.search(r"const\s+STUFF_SEQUENCE\s*:\s*\[u8;\s*2\]\s*=\s*\[(.*?)\]\s*;", hc, flags=re.S)
    if not m:
        raise KeyError("STUFF_SEQUENCE")
    st = [ev(x, env) for x in m.group(1).split(",") if x.strip()]
    out["stuff0"], out["stuff1"] = st[0], st[1]
    m = re.search(r"const\s+PROD_PARAMS\s*:\s*Parameters\s*=\s*Parameters\s*\{(.*?)\}\s*;", hc, flags=re.S)
    if not m:
        raise KeyError("PROD_PARAMS")
    body = m.group(1)

    def field(nm):
        mm = re.search(nm + r"\s*:\s*unsafe\s*\{\s*NonZeroUsize::new_unchecked\((.*?)\)\s*\}\s*,", body, flags=re.S)
        if not mm:
            mm = re.search(nm + r"\s*:\s*NonZeroUsize::new\((.*?)\)\.unwrap\(\)\s*,", body, flags=re.S)
        if not mm:
            raise KeyError("PROD_PARAMS." + nm)
        return ev(mm.group(1), env)

    out["maxInit"] = field("max_initial_size")
    out["maxSub"] = field("max_subsequent_size")
    sr = strip_comments(read("hcobs/src/stream_reader.rs"))
    out["defaultBlockSize"] = ev(const_expr(sr, "DEFAULT_BLOCK_SIZE"), env)
    m = re.search(r"let\s+io_block_size\s*=\s*io_block_size\.max\((\d+)\)", sr)
    out["minBlock"] = int(m.group(1)) if m else 0

    # ---- owning_iovec
    im = strip_comments(read("owning_iovec/src/implementation.rs"))
    out["smallCopy"] = ev(const_expr(im, "SMALL_COPY"), {})
    out["maxOppCopy"] = ev(const_expr(im, "MAX_OPPORTUNISTIC_COPY"), {})
    ar = strip_comments(read("owning_iovec/src/byte_arena/mod.rs"))
    m = re.search(r"const\s+BUMP_REGION_SIZE_SEQUENCE\s*:\s*\[usize;\s*\d+\]\s*=\s*\[(.*?)\]\s*;", ar, flags=re.S)
    if not m:
        raise KeyError("BUMP_REGION_SIZE_SEQUENCE")
    out["bumpSeq"] = [ev(x, {}) for x in m.group(1).split(",") if x.strip()]
    out["bumpFactor"] = ev(const_expr(ar, "BUMP_REGION_SIZE_FACTOR"), {})

    # ---- vouched_time
    vt = strip_comments(read("vouched_time/src/lib.rs"))
    out["maxForwardMs"] = ev(const_expr(vt, "MAX_FORWARD_DISCREPANCY_MS"), {})
    out["maxBackwardMs"] = ev(const_expr(vt, "MAX_BACKWARD_DISCREPANCY_MS"), {})
    m = re.search(r'CheckingParameters::parse_or_die\(\s*"CHECK-([0-9a-fA-F]{16})-([0-9a-fA-F]{16})"', vt)
    if not m:
        raise KeyError("BASE_TIME_CHECK")
    out["checkUnoffset"], out["checkUnscale"] = int(m.group(1), 16), int(m.group(2), 16)
    vouch_re = r'VouchingParameters::parse_or_die\(\s*"VOUCH-([0-9a-fA-F]{16})-([0-9a-fA-F]{16})-([0-9a-fA-F]{16})-([0-9a-fA-F]{16})"'
    for key, rel in (("abt", "vouched_time/src/atomic_base_time.rs"), ("nfs", "vouched_time/src/nfs_voucher.rs")):
        s = strip_comments(read(rel).split("#[cfg(test)]")[0] if key == "abt" else read(rel).split("#[cfg(not(miri))]")[0])
        m = re.search(vouch_re, s)
        if not m:
            raise KeyError("VOUCH_PARAMS in " + rel)
        vals = [int(g, 16) for g in m.groups()]
        out[key + "VouchOffset"], out[key + "VouchScale"], out[key + "VouchUnoffset"], out[key + "VouchUnscale"] = vals
    nf = strip_comments(read("vouched_time/src/nfs_voucher.rs"))
    out["defaultLeewayMs"] = ev(const_expr(nf, "DEFAULT_LEEWAY_MS").replace("crate::", ""),
                                {"MAX_FORWARD_DISCREPANCY_MS": out["maxForwardMs"]})

    lines = [
        "-- GENERATED by tools/extract_consts.py from the Rust sources under /repo.  Do not edit.",
        "namespace Woodpile.Gen",
        "",
    ]
    for k, v in out.items():
        if isinstance(v, list):
            lines.append("def %s : List Nat := [%s]" % (k, ", ".join(str(x) for x in v)))
        else:
            lines.append("def %s : Nat := %d" % (k, v))
    lines += ["", "end Woodpile.Gen", ""]
    text = "\n".join(lines)
    old = None
    if os.path.exists(out_path):
        with open(out_path) as f:
            old = f.read()
    if old != text:
        os.makedirs(os.path.dirname(out_path), exist_ok=True)
        with open(out_path, "w") as f:
            f.write(text)
    json.dump(out, sys.stdout)
    sys.stdout.write("\n")


if __name__ == "__main__":
    here = os.path.dirname(os.path.abspath(__file__))
    dst = sys.argv[1] if len(sys.argv) > 1 else os.path.join(here, "..", "lean", "Woodpile", "Gen", "Consts.lean")
    try:
        main(dst)
    except KeyError as e:
        sys.stderr.write("extract_consts: cannot find constant %s\n" % e)
        sys.exit(2)
    except (ValueError, SyntaxError) as e:
        sys.stderr.write("extract_consts: cannot evaluate: %s\n" % e)
        sys.exit(2)

#!/usr/bin/env python3
"""Translator (constants only): Rust sources under /repo -> lean/Woodpile/Gen/Consts.lean.

Run on every check.  Every constant the Lean models are parametric in is
re-read from the current working tree of /repo, its defining expression is
evaluated with a tiny integer-expression evaluator (no `eval`), and the value
is written into a generated Lean module.  The proofs do not mention the
literal values: they go through side-condition lemmas (`Woodpile/Props/*`:
`consts_ok` style `by decide` obligations), so a changed constant either still
satisfies the side conditions (and all theorems still hold for the new value)
or breaks a named obligation.

If a constant cannot be found the extractor exits non-zero and names it; the
check driver reports that as a broken tie (VIOLATION ... no-failing-input-found
unless the oracle finds an input).
"""
import ast
import glob
import json
import os
import re
import subprocess
import sys

REPO = os.environ.get("WOODPILE_REPO", "/repo")


def read(rel):
    with open(os.path.join(REPO, rel), "r", encoding="utf-8") as f:
        return f.read()


def strip_comments(src):
    src = re.sub(r"/\*.*?\*/", "", src, flags=re.S)
    src = re.sub(r"//[^\n]*", "", src)
    return src


class Eval(ast.NodeVisitor):
    def __init__(self, env):
        self.env = env

    def visit_Expression(self, n):
        return self.visit(n.body)

    def visit_Constant(self, n):
        if isinstance(n.value, int):
            return n.value
        raise ValueError("non-int literal")

    def visit_Name(self, n):
        if n.id in self.env:
            return self.env[n.id]
        raise ValueError("unknown name " + n.id)

    def visit_BinOp(self, n):
        a, b = self.visit(n.left), self.visit(n.right)
        if isinstance(n.op, ast.Add):
            return a + b
        if isinstance(n.op, ast.Sub):
            return a - b
        if isinstance(n.op, ast.Mult):
            return a * b
        if isinstance(n.op, ast.FloorDiv):
            return a // b
        if isinstance(n.op, ast.LShift):
            return a << b
        if isinstance(n.op, ast.RShift):
            return a >> b
        raise ValueError("unsupported operator")

    def generic_visit(self, n):
        raise ValueError("unsupported syntax " + type(n).__name__)


def ev(expr, env):
    e = expr.strip()
    e = re.sub(r"\bas\s+(usize|u64|u32|i128|i64|u8)\b", "", e)
    e = re.sub(r"(?<=[0-9a-fA-F_])(usize|u64|u32|u8|i128|i64)\b", "", e)
    e = re.sub(r"(?<=\d)_(?=\d)", "", e)
    e = e.replace("/", "//")
    tree = ast.parse(e, mode="eval")
    return Eval(env).visit(tree)


def const_expr(src, name):
    m = re.search(r"\bconst\s+" + re.escape(name) + r"\s*:\s*[^=]+=\s*(.*?);", src, flags=re.S)
    if not m:
        raise KeyError(name)
    return m.group(1)


def registry_crates(names):
    """Source directories of the registry crates `names` exactly as /repo/vouched_time/Cargo.toml resolves
    them: asked of cargo itself (`cargo metadata --offline`, which reads Cargo.lock and the local registry /
    vendor directory, no network); fallback: version from Cargo.lock + the registry/vendor source trees."""
    found = {}
    feats = {}
    try:
        # --locked: cargo must never (re)write a lock file inside the repository under test
        p = subprocess.run(["cargo", "metadata", "--offline", "--locked", "--format-version", "1", "--manifest-path",
                            os.path.join(REPO, "vouched_time", "Cargo.toml")],
                           stdout=subprocess.PIPE, stderr=subprocess.DEVNULL, timeout=120,
                           env=dict(os.environ, CARGO_NET_OFFLINE="true"))
        if p.returncode == 0:
            meta = json.loads(p.stdout.decode())
            ids = {}
            for pk in meta.get("packages", []):
                if pk["name"] in names:
                    found[pk["name"]] = (pk["version"], os.path.dirname(pk["manifest_path"]))
                    ids[pk["id"]] = pk["name"]
            for node in (meta.get("resolve") or {}).get("nodes", []):
                if node["id"] in ids:
                    feats[ids[node["id"]]] = node.get("features", [])
    except (OSError, ValueError, subprocess.TimeoutExpired):
        pass
    missing = [n for n in names if n not in found]
    if missing:
        here = os.path.dirname(os.path.abspath(__file__))
        lock = ""
        for cand in (os.path.join(REPO, "Cargo.lock"), os.path.join(here, "..", "harness", "Cargo.lock")):
            if os.path.exists(cand):  # a scratch worktree has no lock file; the harness builds with its own copy
                with open(cand, "r", encoding="utf-8") as f:
                    lock = f.read()
                break
        home = os.environ.get("CARGO_HOME", os.path.expanduser("~/.cargo"))
        for n in missing:
            m = re.search(r'name = "%s"\nversion = "([^"]+)"' % re.escape(n), lock)
            if not m:
                raise KeyError("crate %s in Cargo.lock" % n)
            cands = glob.glob(os.path.join(home, "registry", "src", "*", "%s-%s" % (n, m.group(1))))
            cands += glob.glob(os.path.join(REPO, "vendor", n)) + glob.glob(os.path.join(REPO, "vendor", "%s-%s" % (n, m.group(1))))
            if not cands:
                raise KeyError("source of crate %s %s (not available offline)" % (n, m.group(1)))
            found[n] = (m.group(1), cands[0])
    return found, feats


def named_u64(name):
    """raffle::constparse::named_u64: the first 8 bytes of the name, little endian."""
    b = name.encode("ascii")
    if len(b) < 8:
        raise ValueError("named_u64 needs 8 bytes: %r" % name)
    return sum(b[i] << (8 * i) for i in range(8))


def raffle_named(src, const, out, key):
    """`pub const <const>: u64 = named_u64("........");` -> the name's bytes and the value."""
    expr = const_expr(src, const)
    m = re.fullmatch(r'\s*named_u64\(\s*"([ -~]{8,})"\s*\)\s*', expr)
    if m:
        out[key + "Name"] = list(m.group(1).encode("ascii")[:8])
        out[key] = named_u64(m.group(1))
    else:
        # a plain integer expression: keep the value, no name (the name tie in Props/C14 then fails, by design)
        out[key + "Name"] = []
        out[key] = ev(expr, {}) % (1 << 64)


def main(out_path):
    out = {}
    # ---- hcobs
    hc = strip_comments(read("hcobs/src/lib.rs"))
    env = {}
    env["RADIX"] = ev(const_expr(hc, "RADIX"), env)
    out["radix"] = env["RADIX"]
    m = re.search(r"const\s+STUFF_SEQUENCE\s*:\s*\[u8;\s*2\]\s*=\s*\[(.*?)\]\s*;", hc, flags=re.S)
    if not m:
        raise KeyError("STUFF_SEQUENCE")
    st = [ev(x, env) for x in m.group(1).split(",") if x.strip()]
    out["stuff0"], out["stuff1"] = st[0], st[1]
    m = re.search(r"const\s+PROD_PARAMS\s*:\s*Parameters\s*=\s*Parameters\s*\{(.*?)\}\s*;", hc, flags=re.S)
    if not m:
        raise KeyError("PROD_PARAMS")
    body = m.group(1)

    def field(nm):
        mm = re.search(nm + r"\s*:\s*unsafe\s*\{\s*NonZeroUsize::new_unchecked\((.*?)\)\s*\}\s*,", body, flags=re.S)
        if not mm:
            mm = re.search(nm + r"\s*:\s*NonZeroUsize::new\((.*?)\)\.unwrap\(\)\s*,", body, flags=re.S)
        if not mm:
            raise KeyError("PROD_PARAMS." + nm)
        return ev(mm.group(1), env)

    out["maxInit"] = field("max_initial_size")
    out["maxSub"] = field("max_subsequent_size")
    sr = strip_comments(read("hcobs/src/stream_reader.rs"))
    out["defaultBlockSize"] = ev(const_expr(sr, "DEFAULT_BLOCK_SIZE"), env)
    m = re.search(r"let\s+io_block_size\s*=\s*io_block_size\.max\((\d+)\)", sr)
    out["minBlock"] = int(m.group(1)) if m else 0

    # ---- owning_iovec
    im = strip_comments(read("owning_iovec/src/implementation.rs"))
    out["smallCopy"] = ev(const_expr(im, "SMALL_COPY"), {})
    out["maxOppCopy"] = ev(const_expr(im, "MAX_OPPORTUNISTIC_COPY"), {})
    ar = strip_comments(read("owning_iovec/src/byte_arena/mod.rs"))
    m = re.search(r"const\s+BUMP_REGION_SIZE_SEQUENCE\s*:\s*\[usize;\s*\d+\]\s*=\s*\[(.*?)\]\s*;", ar, flags=re.S)
    if not m:
        raise KeyError("BUMP_REGION_SIZE_SEQUENCE")
    out["bumpSeq"] = [ev(x, {}) for x in m.group(1).split(",") if x.strip()]
    out["bumpFactor"] = ev(const_expr(ar, "BUMP_REGION_SIZE_FACTOR"), {})

    # ---- vouched_time
    vt = strip_comments(read("vouched_time/src/lib.rs"))
    out["maxForwardMs"] = ev(const_expr(vt, "MAX_FORWARD_DISCREPANCY_MS"), {})
    out["maxBackwardMs"] = ev(const_expr(vt, "MAX_BACKWARD_DISCREPANCY_MS"), {})
    m = re.search(r'CheckingParameters::parse_or_die\(\s*"CHECK-([0-9a-fA-F]{16})-([0-9a-fA-F]{16})"', vt)
    if not m:
        raise KeyError("BASE_TIME_CHECK")
    out["checkUnoffset"], out["checkUnscale"] = int(m.group(1), 16), int(m.group(2), 16)
    vouch_re = r'VouchingParameters::parse_or_die\(\s*"VOUCH-([0-9a-fA-F]{16})-([0-9a-fA-F]{16})-([0-9a-fA-F]{16})-([0-9a-fA-F]{16})"'
    for key, rel in (("abt", "vouched_time/src/atomic_base_time.rs"), ("nfs", "vouched_time/src/nfs_voucher.rs")):
        s = strip_comments(read(rel).split("#[cfg(test)]")[0] if key == "abt" else read(rel).split("#[cfg(not(miri))]")[0])
        m = re.search(vouch_re, s)
        if not m:
            raise KeyError("VOUCH_PARAMS in " + rel)
        vals = [int(g, 16) for g in m.groups()]
        out[key + "VouchOffset"], out[key + "VouchScale"], out[key + "VouchUnoffset"], out[key + "VouchUnscale"] = vals
    nf = strip_comments(read("vouched_time/src/nfs_voucher.rs"))
    out["defaultLeewayMs"] = ev(const_expr(nf, "DEFAULT_LEEWAY_MS").replace("crate::", ""),
                                {"MAX_FORWARD_DISCREPANCY_MS": out["maxForwardMs"]})

    # ---- the raffle and time crates vouched_time resolves to (registry sources, read offline)
    crates, feats = registry_crates(["raffle", "time"])

    def crate_src(name, rel):
        with open(os.path.join(crates[name][1], rel), "r", encoding="utf-8") as f:
            return strip_comments(f.read())

    chk = crate_src("raffle", "src/check.rs")
    vch = crate_src("raffle", "src/vouch.rs")
    raffle_named(chk, "WANTED_SUM", out, "raffleWantedSum")
    raffle_named(chk, "CHECKING_TAG", out, "raffleCheckingTag")
    raffle_named(vch, "VOUCHING_TAG", out, "raffleVouchingTag")
    # the arithmetic itself, as a fingerprint of shape: the model (Woodpile.Raffle.check / vouchRaw) is this expression
    flat = re.sub(r"\s+", "", chk)
    out["raffleCheckShape"] = int(
        "voucher.wrapping_add(unoffset).wrapping_mul(unscale^CHECKING_TAG)" in flat
        and "unvouched_value.wrapping_add(expected)==WANTED_SUM" in flat)
    out["raffleVouchShape"] = int("value.wrapping_add(offset).wrapping_mul(scale^VOUCHING_TAG)" in re.sub(r"\s+", "", vch)
                                  or ".wrapping_add(offset).wrapping_mul(scale^VOUCHING_TAG)" in re.sub(r"\s+", "", vch))
    # time: the calendar range behind PrimitiveDateTime::MIN / MAX (years, without the large-dates feature)
    dt = crate_src("time", "src/date.rs")
    large = "large-dates" in feats.get("time", [])

    def year_const(name):
        m = re.search(r"const\s+" + name + r"\s*:\s*i32\s*=\s*if\s+cfg!\(feature\s*=\s*\"large-dates\"\)\s*\{\s*(-?[\d_]+)\s*\}\s*else\s*\{\s*(-?[\d_]+)\s*\}",
                      dt)
        if not m:
            raise KeyError("time::date::" + name)
        return int((m.group(1) if large else m.group(2)).replace("_", ""))

    ymin, ymax = year_const("MIN_YEAR"), year_const("MAX_YEAR")
    if ymin > 0 or ymax < 0:
        raise ValueError("unexpected year range %d..%d" % (ymin, ymax))
    out["timeMinYearNeg"] = -ymin
    out["timeMaxYear"] = ymax

    lines = [
        "-- GENERATED by tools/extract_consts.py from the Rust sources under /repo.  Do not edit.",
        "namespace Woodpile.Gen",
        "",
    ]
    for k, v in out.items():
        if isinstance(v, list):
            lines.append("def %s : List Nat := [%s]" % (k, ", ".join(str(x) for x in v)))
        else:
            lines.append("def %s : Nat := %d" % (k, v))
    lines += ["", "end Woodpile.Gen", ""]
    text = "\n".join(lines)
    old = None
    if os.path.exists(out_path):
        with open(out_path) as f:
            old = f.read()
    if old != text:
        os.makedirs(os.path.dirname(out_path), exist_ok=True)
        with open(out_path, "w") as f:
            f.write(text)
    json.dump(out, sys.stdout)
    sys.stdout.write("\n")


if __name__ == "__main__":
    here = os.path.dirname(os.path.abspath(__file__))
    dst = sys.argv[1] if len(sys.argv) > 1 else os.path.join(here, "..", "lean", "Woodpile", "Gen", "Consts.lean")
    try:
        main(dst)
    except KeyError as e:
        sys.stderr.write("extract_consts: cannot find constant %s\n" % e)
        sys.exit(2)
    except (ValueError, SyntaxError) as e:
        sys.stderr.write("extract_consts: cannot evaluate: %s\n" % e)
        sys.exit(2)

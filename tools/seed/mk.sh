#!/bin/bash
# usage: [SEED_TEMPLATE=path] mk.sh C17 1  -> creates worktree and prompt file, prints prompt path
pid=$1; n=$2
wt=/tmp/seedwt/$pid-$n; out=/tmp/seedout/$pid-$n
tpl=${SEED_TEMPLATE:-/tmp/seed/template.md}
mkdir -p /tmp/seedwt /tmp/seedout
git -C /repo worktree add -q --detach $wt 2>/dev/null
python3 - "$pid" "$wt" "$out" "$tpl" "$n" <<'PY'
import json,sys
pid,wt,out,tpl,n=sys.argv[1:6]
prop=None
for l in open('/verif/properties.jsonl'):
    p=json.loads(l)
    if p['id']==pid: prop=p
text="%s - %s\n\n%s\n\nQuantified over: %s\n\nAnchored in: %s" % (prop['id'],prop['title'],prop['statement'],prop['quantifier']['text'],", ".join(prop['anchors']['files']))
s=open(tpl).read().replace('__WT__',wt).replace('__OUT__',out).replace('__PID__',pid).replace('__PROP__',text)
path='/tmp/seed/prompt-%s-%s.md'%(pid,n)
open(path,'w').write(s)
print(path)
PY

#!/bin/bash
# usage: after.sh <logfile-to-wait-for-BATCH-DONE> <seed specs...>
w=$1; shift
while ! grep -q BATCH-DONE "$w" 2>/dev/null; do sleep 10; done
exec /verif/tools/seed/confirm_new.sh "$@"

#!/bin/bash
# usage: mk3.sh C17 3 "<flavour text>"  -> worktree /tmp/seedwt/C17-3, prompt /tmp/seed/prompt-C17-3.md (round-3 template
# with the summaries of the stored seeds of that property as "already used")
pid=$1; n=$2; fl=$3
d=$(dirname "$0")
mkdir -p /tmp/seed /tmp/seedwt /tmp/seedout
wt=/tmp/seedwt/$pid-$n; out=/tmp/seedout/$pid-$n
git -C /repo worktree add -q --detach $wt 2>/dev/null
python3 - "$pid" "$wt" "$out" "$d/${SEED_TPL:-template_r3.md}" "$n" "$fl" <<'PY'
import json,sys,glob
pid,wt,out,tpl,n,fl=sys.argv[1:7]
prop=None
for l in open('/verif/properties.jsonl'):
    p=json.loads(l)
    if p['id']==pid: prop=p
text="%s - %s\n\n%s\n\nQuantified over: %s\n\nAnchored in: %s" % (prop['id'],prop['title'],prop['statement'],prop['quantifier']['text'],", ".join(prop['anchors']['files']))
used=[]
for m in sorted(glob.glob('/verif/seeded/*/meta.json')):
    j=json.load(open(m))
    if j.get('property')==pid:
        used.append(" * "+j['summary'][:400])
s=open(tpl).read().replace('__WT__',wt).replace('__OUT__',out).replace('__PID__',pid).replace('__PROP__',text).replace('__FLAVOUR__',fl).replace('__USED__',"\n".join(used) or " (none)")
path='/tmp/seed/prompt-%s-%s.md'%(pid,n)
open(path,'w').write(s)
print(path)
PY

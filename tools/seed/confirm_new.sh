#!/bin/bash
# usage: confirm_new.sh C05-3:C05,C10 C06-3:C06,C08 ...   (sequential; candidates in /tmp/seedout/<name>)
cd /verif
for s in "$@"; do n=${s%%:*}; c=${s##*:}
  if [ -f /tmp/seedout/$n/meta.json ]; then
    echo "== $n"; python3 tools/seed_confirm.py /tmp/seedout/$n $n --checks $c 2>&1 | grep -E '"confirmed"|verdict|Error|assert'
    git -C /repo worktree remove --force /tmp/seedwt/$n 2>/dev/null
  else echo "== $n (not ready)"; fi
done
echo BATCH-DONE

#!/usr/bin/env python3
"""Machine-integer hazard inventory (part of the model-to-code tie).

The Lean models compute over unbounded naturals / integers.  That is sound only
because every place where the Rust code narrows, wraps, saturates, clamps,
multiplies, shifts or divides machine integers has been looked at and is
mirrored (or shown irrelevant) in the model.  This tool re-extracts those
sites from /repo's *current* non-test source on every check and compares them
with the audited baseline (tools/int_hazards_baseline.json): a new, changed or
vanished site means the arithmetic abstraction of the model is no longer
justified for that file, and the properties anchored there are reported as no
longer shown (`tie:int-hazards ...`), exactly like a failed side condition.

  tools/int_hazards.py                 print the current inventory as JSON
  tools/int_hazards.py --update        rewrite the baseline (after auditing!)
  tools/int_hazards.py --diff f1 f2..  print differences for the given files
"""
import json
import os
import re
import sys

REPO = os.environ.get("WOODPILE_REPO", "/repo")
HERE = os.path.dirname(os.path.abspath(__file__))
BASELINE = os.path.join(HERE, "int_hazards_baseline.json")
CRATES = ["hcobs", "owning_iovec", "rough_tlv", "sliding_deque", "vouched_time"]

HAZARD = re.compile(
    r"\bas\s+(?:u8|u16|u32|u64|u128|usize|i8|i16|i32|i64|i128|isize)\b"
    r"|\b(?:wrapping|saturating|overflowing|checked|unchecked)_\w+"
    r"|\b(?:div_euclid|rem_euclid|div_ceil|abs_diff|pow|leading_zeros|trailing_zeros)\b"
    r"|\s<<\s|\s>>\s"
    r"|\s\*\s|\s/\s|\s%\s"
    r"|\*=|/=|%=|<<=|>>="
    r"|\.min\(|\.max\(|\.clamp\("
    r"|\bNonZero\w*::new|\btry_from\b|\btry_into\b|\bfrom_le_bytes\b|\bto_le_bytes\b"
    r"|\bu(?:8|16|32|64|size)::MAX\b|\bi(?:32|64|128)::MAX\b"
)


def strip_comments_and_strings(src):
    out, i, n = [], 0, len(src)
    while i < n:
        if src.startswith("//", i):
            while i < n and src[i] != "\n":
                i += 1
        elif src.startswith("/*", i):
            j = src.find("*/", i + 2)
            j = n if j < 0 else j + 2
            out.append("\n" * src.count("\n", i, j))
            i = j
        elif src[i] == '"':
            j = i + 1
            while j < n and src[j] != '"':
                j += 2 if src[j] == "\\" else 1
            out.append('""')
            i = j + 1
        else:
            out.append(src[i])
            i += 1
    return "".join(out)


def non_test_code(src):
    """Drops `#[test]` functions, `#[cfg(test)]` items and everything cfg-gated by the verification hooks."""
    lines = src.split("\n")
    out, i = [], 0
    while i < len(lines):
        s = lines[i].strip()
        if s.startswith("#[test]") or s.startswith("#[cfg(test)]") or s.startswith("#[cfg(woodpile_verif)]") \
                or s.startswith("#[cfg(all(test") or s.startswith("#[cfg(not(miri))]"):
            # skip the attributed item: following attribute lines, then one item (to the end of its brace block or `;`)
            i += 1
            while i < len(lines) and lines[i].strip().startswith("#["):
                i += 1
            depth, seen = 0, False
            while i < len(lines):
                l = lines[i]
                depth += l.count("{") - l.count("}")
                if "{" in l:
                    seen = True
                i += 1
                if (seen and depth <= 0) or (not seen and l.rstrip().endswith(";")):
                    break
            continue
        out.append(lines[i])
        i += 1
    return "\n".join(out)


KEEP = set("""as let mut if else return match in for while loop fn pub const static unsafe true false self Self
crate super mod use impl where ref move break continue dyn struct enum trait type
u8 u16 u32 u64 u128 usize i8 i16 i32 i64 i128 isize bool char str""".split())
_IDENT = re.compile(r"(?<![.\w:])([a-z_][a-z0-9_]*)\b(?!\s*(?:\(|::|!))")


def normalise(line):
    """A site is recorded up to renaming of plain local identifiers (lower-case names that are not
    keywords/primitive types, not a field or method (preceded by `.`), not a path segment or a call):
    the inventory is about the arithmetic performed, not about what the operands are called, so a
    rename of a local does not break the tie while any change to an operation, cast, constant, field
    or callee does."""
    line = re.sub(r"\s+", " ", line.strip())
    return _IDENT.sub(lambda m: m.group(1) if m.group(1) in KEEP else "_", line)


def inventory():
    inv = {}
    for crate in CRATES:
        base = os.path.join(REPO, crate, "src")
        for d, _, files in os.walk(base):
            for f in sorted(files):
                if not f.endswith(".rs") or f == "verif_shim.rs":
                    continue
                path = os.path.join(d, f)
                rel = os.path.relpath(path, REPO)
                with open(path, encoding="utf-8") as fh:
                    src = non_test_code(strip_comments_and_strings(fh.read()))
                sites = []
                for line in src.split("\n"):
                    if HAZARD.search(line):
                        sites.append(normalise(line))
                inv[rel] = sorted(sites)
    return inv


def diff(files=None):
    """Returns a list of human-readable differences between the current tree and the baseline."""
    cur = inventory()
    try:
        base = json.load(open(BASELINE))
    except OSError:
        return ["baseline missing: " + BASELINE]
    out = []
    for rel in sorted(set(cur) | set(base)):
        if files is not None and rel not in files:
            continue
        a, b = list(base.get(rel, [])), list(cur.get(rel, []))
        for x in list(a):
            if x in b:
                a.remove(x)
                b.remove(x)
        for x in a:
            out.append("%s: site vanished or changed: %s" % (rel, x))
        for x in b:
            out.append("%s: new or changed site: %s" % (rel, x))
    return out


if __name__ == "__main__":
    if "--update" in sys.argv:
        json.dump(inventory(), open(BASELINE, "w"), indent=1, sort_keys=True)
        print("baseline written: %d files, %d sites" % (len(inventory()), sum(len(v) for v in inventory().values())))
    elif "--diff" in sys.argv:
        fs = sys.argv[sys.argv.index("--diff") + 1:] or None
        for l in diff(fs):
            print(l)
    else:
        json.dump(inventory(), sys.stdout, indent=1, sort_keys=True)

// Observation O-abt2 (outside C13/C18/C19 as stated: C19 quantifies over sequential histories).
//
// vouched_time::nfs_voucher can deadlock when `get_base_time` / `scan_base_time` (one thread) races
// `add_trusted_path` (another thread):
//   scan_for_base_time_impl holds `TRUSTED_PATHS.read()` across its loop and calls
//   update_base_time, which takes `TRUSTED_PATHS.read()` AGAIN (nfs_voucher.rs:262);
//   if add_trusted_path's `TRUSTED_PATHS.write()` (nfs_voucher.rs:87) queues in between, std's
//   futex RwLock refuses new readers while a writer waits -> the inner read() waits for the writer,
//   the writer waits for the outer read guard: both threads block for ever
//   (std docs, RwLock::read: "might deadlock if the lock is already held by the current thread").
//
// Run:  cd tools/repro/nfs_rwlock_deadlock && cargo build --release --offline && NS=1 NA=1 ./target/release/dl
// Seen (rustc 1.95, 16 cores): "DEADLOCK: no progress for 3 s after 51 scans, 3 add_trusted_path calls";
// NS=2 NA=0 and NS=0 NA=2 run for ever without stalling (millions of calls in 10 s).
use std::sync::atomic::{AtomicU64, Ordering};
use std::sync::Arc;
use vouched_time::nfs_voucher::{add_trusted_path, get_base_time};

fn main() {
    let dir = std::path::PathBuf::from(format!("/dev/shm/abt2-dl-{}", std::process::id()));
    std::fs::create_dir_all(&dir).unwrap();
    let a = dir.join("a");
    let b = dir.join("b");
    add_trusted_path(a.clone()).expect("add a");
    let scans = Arc::new(AtomicU64::new(0));
    let adds = Arc::new(AtomicU64::new(0));
    let ns: usize = std::env::var("NS").ok().and_then(|x| x.parse().ok()).unwrap_or(2);
    let na: usize = std::env::var("NA").ok().and_then(|x| x.parse().ok()).unwrap_or(2);
    for _ in 0..ns {
        let scans = scans.clone();
        std::thread::spawn(move || loop {
            // far in the future: the base time always looks stale, so every call scans
            let now = time::OffsetDateTime::now_utc() + time::Duration::days(1);
            let _ = get_base_time(now);
            scans.fetch_add(1, Ordering::Relaxed);
        });
    }
    for _ in 0..na {
        let adds = adds.clone();
        let b = b.clone();
        std::thread::spawn(move || loop {
            add_trusted_path(b.clone()).expect("add b");
            adds.fetch_add(1, Ordering::Relaxed);
        });
    }
    let mut last = (0u64, 0u64);
    let mut stuck = 0;
    for sec in 0..20 {
        std::thread::sleep(std::time::Duration::from_millis(500));
        let cur = (scans.load(Ordering::Relaxed), adds.load(Ordering::Relaxed));
        if cur == last {
            stuck += 1;
            if stuck >= 6 {
                println!("DEADLOCK: no progress for 3 s after {} scans, {} add_trusted_path calls (t = {} half-seconds)", cur.0, cur.1, sec);
                let _ = std::fs::remove_dir_all(&dir);
                std::process::exit(1);
            }
        } else {
            stuck = 0;
        }
        last = cur;
    }
    println!("no deadlock in 10 s: {} scans, {} adds", last.0, last.1);
    let _ = std::fs::remove_dir_all(&dir);
}

#!/usr/bin/env python3
"""State / effect / trait-impl inventory (part of the model-to-code tie, next to int_hazards.py).

The Lean models are closed worlds: every function is a pure function of its arguments and of the
object it is called on, no call can block except where the model says so, dropping an object does
what the ownership model says whatever the thread is doing, and the only operations an object
offers are the ones the model has.  Those are ASSUMPTIONS about the Rust code that the
correspondence run cannot establish by sampling (a hidden `static`/`thread_local!` cache, a
process-wide lock, a `std::thread::panicking()` test in a destructor, a hand-written `clone_from`
or `Iterator::nth` override only matter on histories no generator thinks of).  This tool
re-extracts, on every check, every line of the non-test source of the anchored files that

  * declares or touches ambient state: `static` items, `thread_local!`, `lazy_static!`, `OnceLock`/
    `OnceCell`/`LazyLock`, `Mutex`/`RwLock`/`Condvar`/atomics/`Cell`/`RefCell`/`UnsafeCell`, `.lock()`,
    `.try_lock()`;
  * depends on or alters unwinding / destruction: `panicking()`, `catch_unwind`, `resume_unwind`,
    `mem::forget`, `ManuallyDrop`, `mem::replace|swap|take`, `set_hook`/`take_hook`;
  * leaves safe Rust: `unsafe`, `transmute`, raw-pointer constructors and accessors;
  * reaches the environment: `std::env`, `std::process`, `thread::spawn|sleep|park`, clocks;
  * can panic: `assert!`/`debug_assert!`/`panic!`/`unreachable!`/`.unwrap()`/`.expect(` (recorded up to
    renaming of local identifiers, like the integer sites);
  * is conditionally compiled (`#[cfg(...)]` other than test / the verification guard);
  * opens an `impl` block or a `#[derive(...)]` list, or declares a method INSIDE a trait impl
    (`impl Clone for X { fn clone_from … }`, `impl Iterator for X { fn nth … }`),

and compares the multiset with the audited baseline (tools/src_inventory_baseline.json).  A new,
changed or vanished site is reported like a failed side condition (`tie:src-inventory …`): the
closed-world assumptions of the model are no longer justified for that file.

  tools/src_inventory.py            print the current inventory
  tools/src_inventory.py --update   rewrite the baseline (after auditing!)
  tools/src_inventory.py --diff f…  print differences for the given files
"""
import json
import os
import re
import sys

HERE = os.path.dirname(os.path.abspath(__file__))
sys.path.insert(0, HERE)
import int_hazards as ih  # comment/test stripping, crate list, REPO

BASELINE = os.path.join(HERE, "src_inventory_baseline.json")

SITE = re.compile(
    r"(?<!')\bstatic\b(?!\s*\[)|thread_local!|lazy_static!|\b(?:OnceLock|OnceCell|LazyLock|LazyCell)\b|\bLazy::"
    r"|\b(?:Mutex|RwLock|Condvar|Barrier|Atomic[A-Z]\w*|Cell|RefCell|UnsafeCell)\b"
    r"|\.lock\(\)|\.try_lock\(\)|\.get_mut\(\)\.unwrap"
    r"|\bpanicking\(|\bcatch_unwind\b|\bresume_unwind\b|\bmem::forget\b|\bforget\(|\bManuallyDrop\b"
    r"|\bmem::(?:replace|swap|take)\b|\bset_hook\b|\btake_hook\b"
    r"|\bunsafe\b|\btransmute\b|\bfrom_raw(?:_parts(?:_mut)?)?\b|\binto_raw\b|\bas_ptr\(|\bas_mut_ptr\(|\bptr::|\bNonNull\b"
    r"|\bstd::env\b|\benv::var|\bstd::process\b|\bthread::(?:spawn|sleep|park|yield_now)\b|\bInstant::now\b|\bSystemTime::now\b|\bnow_utc\b"
)
# panic sites: the panic-aware models (Model/HcobsP, StreamP, the `Option`-valued iovec model, ...) have one
# `panic` outcome per assertion / unwrap of the code; a new or changed one is a new way to fail
PANIC = re.compile(r"\b(?:debug_)?assert(?:_eq|_ne)?!|\bpanic!|\bunreachable!|\bunimplemented!|\btodo!|\.unwrap\(\)|\.expect\(|\bunwrap_unchecked\b")
CFG = re.compile(r"#\[cfg\((?!test\b|all\(test|woodpile_verif|not\(woodpile_verif)")
IMPL = re.compile(r"^\s*(?:unsafe\s+)?impl\b")
DERIVE = re.compile(r"#\[derive\(")
FN = re.compile(r"^\s*(?:pub(?:\([^)]*\))?\s+)?(?:const\s+)?(?:unsafe\s+)?(?:extern\s+\"[^\"]*\"\s+)?fn\s+([A-Za-z_0-9]+)")


def norm(line):
    return re.sub(r"\s+", " ", line.strip())


def sites_of(src):
    out = []
    lines = src.split("\n")
    depth = 0
    impl_stack = []  # (header, depth at which the block opened)
    pending_impl = None
    for line in lines:
        if IMPL.search(line) and depth == (impl_stack[-1][1] + 1 if impl_stack else 0) or (IMPL.search(line) and not impl_stack):
            header = norm(line.split("{")[0])
            out.append("impl: " + header)
            pending_impl = header
        if DERIVE.search(line):
            out.append("derive: " + norm(line))
        if CFG.search(line):
            out.append("cfg: " + norm(line))
        m = FN.search(line)
        if m and impl_stack and " for " in impl_stack[-1][0] and depth == impl_stack[-1][1] + 1:
            out.append("trait-fn: %s :: fn %s" % (impl_stack[-1][0], m.group(1)))
        if SITE.search(line) and not IMPL.search(line):
            out.append("site: " + norm(line))
        if PANIC.search(line):
            out.append("panic-site: " + ih.normalise(line))
        for ch in line:
            if ch == "{":
                if pending_impl is not None:
                    impl_stack.append((pending_impl, depth))
                    pending_impl = None
                depth += 1
            elif ch == "}":
                depth -= 1
                if impl_stack and depth == impl_stack[-1][1]:
                    impl_stack.pop()
        if pending_impl is not None and line.rstrip().endswith(";"):
            pending_impl = None
    return sorted(out)


def inventory():
    inv = {}
    for crate in ih.CRATES:
        base = os.path.join(ih.REPO, crate, "src")
        for d, _, files in os.walk(base):
            for f in sorted(files):
                if not f.endswith(".rs") or f == "verif_shim.rs":
                    continue
                path = os.path.join(d, f)
                rel = os.path.relpath(path, ih.REPO)
                with open(path, encoding="utf-8") as fh:
                    src = ih.non_test_code(ih.strip_comments_and_strings(fh.read()))
                inv[rel] = sites_of(src)
    return inv


def diff(files=None):
    cur = inventory()
    try:
        base = json.load(open(BASELINE))
    except OSError:
        return ["baseline missing: " + BASELINE]
    out = []
    for rel in sorted(set(cur) | set(base)):
        if files is not None and rel not in files:
            continue
        a, b = list(base.get(rel, [])), list(cur.get(rel, []))
        for x in list(a):
            if x in b:
                a.remove(x)
                b.remove(x)
        for x in a:
            out.append("%s: vanished or changed: %s" % (rel, x))
        for x in b:
            out.append("%s: new or changed: %s" % (rel, x))
    return out


if __name__ == "__main__":
    if "--update" in sys.argv:
        inv = inventory()
        json.dump(inv, open(BASELINE, "w"), indent=1, sort_keys=True)
        print("baseline written: %d files, %d sites" % (len(inv), sum(len(v) for v in inv.values())))
    elif "--diff" in sys.argv:
        fs = sys.argv[sys.argv.index("--diff") + 1:] or None
        for l in diff(fs):
            print(l)
    else:
        json.dump(inventory(), sys.stdout, indent=1, sort_keys=True)

#!/bin/bash
# usage: mk_track.sh <track> [common|strengthen_common]  -> creates worktree /tmp/wt/<track> on branch track-<track> and
# writes /tmp/prompts/full-<track>.md = <common> + tools/track_prompts/<track>.md
t=$1; base=${2:-common}
d=$(dirname "$0")
mkdir -p /tmp/wt /tmp/prompts
git -C /verif worktree add -q -b track-$t /tmp/wt/$t 2>/dev/null || git -C /verif worktree add -q /tmp/wt/$t track-$t
sed -e "s#__WT__#/tmp/wt/$t#g; s#__BRANCH__#track-$t#g; s#__TRACK__#$t#g" $d/$base.md > /tmp/prompts/full-$t.md
cat $d/$t.md >> /tmp/prompts/full-$t.md
echo /tmp/prompts/full-$t.md

#!/usr/bin/env python3
"""Resolve the standard conflicts of merging a track branch into main (run in /verif during a conflicted merge)."""
import subprocess,sys,re,os
br=sys.argv[1]
def show(ref,path):
    return subprocess.run(['git','show','%s:%s'%(ref,path)],stdout=subprocess.PIPE).stdout.decode()
base=subprocess.run(['git','merge-base','HEAD',br],stdout=subprocess.PIPE).stdout.decode().strip()
# specs.py: ours + whatever the branch appended after the common prefix
b=show(base,'tools/specs.py'); t=show(br,'tools/specs.py'); o=show('HEAD','tools/specs.py')
i=0
while i<min(len(b),len(t)) and b[i]==t[i]: i+=1
# back up to line start
while i>0 and t[i-1]!='\n': i-=1
new=t[i:]
open('tools/specs.py','w').write(o.rstrip('\n')+'\n\n'+new.lstrip('\n'))
# main.rs: ours + new mod lines + new family pushes
o=show('HEAD','harness/src/main.rs'); t=show(br,'harness/src/main.rs'); b=show(base,'harness/src/main.rs')
mods=[l for l in t.split('\n') if l.startswith('mod ') and l not in o.split('\n')]
fams=re.findall(r'Box::new\((fam_\w+::\w+)\)',t)
ofams=re.findall(r'Box::new\((fam_\w+::\w+)\)',o)
newf=[f for f in fams if f not in ofams]
for m in mods:
    o=o.replace('mod util;\n', m+'\nmod util;\n',1)
for f in newf:
    o=o.replace('    v\n}\n','    v.push(Box::new(%s));\n    v\n}\n'%f,1)
open('harness/src/main.rs','w').write(o)
# Main.lean
o=show('HEAD','lean/Main.lean'); t=show(br,'lean/Main.lean')
imps=[l for l in t.split('\n') if l.startswith('import ') and l not in o.split('\n')]
entries=re.findall(r'\("(\w+)",\s*([\w.]+)\)',t)
oentries=re.findall(r'\("(\w+)",\s*([\w.]+)\)',o)
newe=[e for e in entries if e not in oentries]
for im in imps:
    o=o.replace('\nopen Woodpile.Driver\n', '\n'+im+'\nopen Woodpile.Driver\n',1) if False else o.replace('import Woodpile.Driver.Util\n','import Woodpile.Driver.Util\n'+im+'\n',1)
last=[l for l in o.split('\n') if l.startswith('  ++ [(')][-1]
add=''.join('\n  ++ [("%s", %s)]'%e for e in newe)
o=o.replace(last,last+add,1)
open('lean/Main.lean','w').write(o)
print('mods',mods,'fams',newf,'imports',imps,'entries',newe)

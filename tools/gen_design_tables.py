#!/usr/bin/env python3
"""Regenerates the generated block of DESIGN.md (between the GENERATED markers):
per-property inventory from tools/specs.py and the seeded-change table from seeded/*/meta.json."""
import json, os, re, sys
sys.path.insert(0, os.path.dirname(os.path.abspath(__file__)))
from specs import SPECS
ROOT = os.path.dirname(os.path.dirname(os.path.abspath(__file__)))
out = []
out.append("### 11.1 Per-property inventory (from tools/specs.py)\n")
out.append("| id | pinned theorems | Lean modules | correspondence families (quick / thorough cases) | oracle tags |")
out.append("|---|---|---|---|---|")
for pid in sorted(SPECS):
    s = SPECS[pid]
    fams = ", ".join("%s (%s / %s)" % (f["name"], f["quick"], f["thorough"]) for f in s["families"])
    out.append("| %s | %d%s | %s | %s | %s |" % (
        pid, len(s["theorems"]), "" if s["theorems"] else " (not claimed yet)",
        ", ".join(m.replace("Woodpile.", "") for m in s["lean_modules"]) or "-", fams, ", ".join(s.get("vtags", [pid]))))
out.append("")
out.append("### 11.2 Seeded changes (written by fresh sub-agents that saw only the property text) and what catches them\n")
out.append("| seed | breaks | what it needs to manifest | verdicts of our checks on the changed tree |")
out.append("|---|---|---|---|")
sd = os.path.join(ROOT, "seeded")
for name in sorted(os.listdir(sd)) if os.path.isdir(sd) else []:
    mp = os.path.join(sd, name, "meta.json")
    if not os.path.exists(mp):
        continue
    m = json.load(open(mp))
    checks = m.get("confirmation", {}).get("checks", {})
    def short(v):
        v = v.replace("/verif/work/scratch-out/", "")
        if v.startswith("VIOLATION"):
            return "VIOLATION" + (" (no-failing-input-found)" if "no-failing-input-found" in v else " (concrete replay)")
        return v.strip().split(" tier=")[0]
    verd = "; ".join("%s: %s" % (c, short(r["verdict"])) for c, r in checks.items())
    needs = m.get("needs", "").replace("|", "/").replace("\n", " ")
    if len(needs) > 330:
        needs = needs[:327] + "..."
    summ = m.get("summary", "").replace("|", "/").replace("\n", " ")
    if len(summ) > 260:
        summ = summ[:257] + "..."
    out.append("| %s | %s: %s | %s | %s |" % (name, m.get("property"), summ, needs, verd))
block = "\n".join(out) + "\n"
p = os.path.join(ROOT, "DESIGN.md")
s = open(p).read()
a, b = "<!-- GENERATED:BEGIN -->", "<!-- GENERATED:END -->"
if a in s and b in s:
    s = s[:s.index(a) + len(a)] + "\n" + block + s[s.index(b):]
    open(p, "w").write(s)
    print("DESIGN.md tables regenerated")
else:
    print(block)

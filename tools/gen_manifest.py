#!/usr/bin/env python3
"""Regenerates MANIFEST.json from tools/specs.py (+ tools/not_applicable.json if present)."""
import json, os, sys
sys.path.insert(0, os.path.dirname(os.path.abspath(__file__)))
from specs import SPECS
ROOT = os.path.dirname(os.path.dirname(os.path.abspath(__file__)))

ALL = ["C%02d" % i for i in range(1, 21)]
na_path = os.path.join(ROOT, "tools", "not_applicable.json")
na = json.load(open(na_path)) if os.path.exists(na_path) else {}
hooks_path = os.path.join(ROOT, "tools", "hooks.json")
hooks = json.load(open(hooks_path)) if os.path.exists(hooks_path) else {}

checks = []
for pid in ALL:
    if pid not in SPECS or not SPECS[pid]["theorems"]:
        continue  # a check without a pinned theorem is not a proof-level claim: not listed until the proofs land
    s = SPECS[pid]
    checks.append(dict(
        property_id=pid,
        quick_cmd="./check %s --tier quick" % pid,
        thorough_cmd="./check %s --tier thorough" % pid,
        evidence_file="evidence/%s.json" % pid,
        replay_cmd_template="./check %s --replay {path}" % pid,
        engine="lean4+wp_harness",
        level_claimed=dict(category="proof", text=s["level_text"], design_ref=s.get("design_ref", "DESIGN.md section 5")),
        level_note=s["level_note"],
        technique=s["technique"],
    ))

manifest = dict(
    version=1,
    setup_cmd="./setup.sh",
    hooks=dict(
        guard="woodpile_verif",
        enable="RUSTFLAGS='--cfg woodpile_verif' (set in harness/.cargo/config.toml; the harness crate path-depends on /repo's crates)",
        baseline_off_cmd="cd /repo && cargo test --workspace --no-fail-fast --offline",
        source_commits=hooks.get("source_commits", []),
        add_only=True,
    ),
    engines=[
        dict(name="lean4+wp_harness", path="lean/ harness/ check tools/",
             serves_properties=[c["property_id"] for c in checks],
             kind_free_text="Lean 4 theorems over hand-written executable models (lean/Woodpile), tied to /repo by a constants translator "
                            "(tools/extract_consts.py) and a model-vs-implementation correspondence run (harness/ wp_harness vs lean wpmodel) "
                            "with a direct property oracle; driver: ./check"),
    ],
    checks=checks,
    notes="See DESIGN.md. Properties not yet claimed are listed under not_applicable with the reason 'not built yet' until their check lands.",
    not_applicable=[dict(property_id=p, reason=na.get(p, "check not built yet in this round (planned: see DESIGN.md section 10); not a claim that the technique cannot apply"))
                    for p in ALL if p not in SPECS or not SPECS[p]["theorems"]],
)
with open(os.path.join(ROOT, "MANIFEST.json"), "w") as f:
    json.dump(manifest, f, indent=1)
    f.write("\n")
print("MANIFEST.json: %d checks, %d not claimed" % (len(checks), len(manifest["not_applicable"])))

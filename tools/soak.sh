#!/bin/bash
# Soak: every claimed check, quick tier over several seeds, then thorough once.
# Usage: tools/soak.sh [seeds...]   (run from a checkout of /verif; builds first)
cd "$(dirname "$0")/.."
./setup.sh >/dev/null 2>&1 || { echo "setup failed"; exit 2; }
props=$(python3 -c "
import json;print(' '.join(c['property_id'] for c in json.load(open('MANIFEST.json'))['checks']))")
seeds="${@:-1 2 3 4 5}"
fail=0
for s in $seeds; do
  for p in $props; do
    out=$(VERIF_SEED=$s ./check $p --tier quick 2>/dev/null | tail -1)
    case "$out" in OK*) ;; *) echo "seed=$s $p: $out"; fail=1;; esac
  done
  echo "seed $s done"
done
for p in $props; do
  out=$(VERIF_SEED=7 ./check $p --tier thorough 2>/dev/null | tail -1)
  echo "thorough $p: $out"
  case "$out" in OK*) ;; *) fail=1;; esac
done
echo "soak finished fail=$fail"
exit $fail

"""Check driver library (see ../check and DESIGN.md section 7)."""
import argparse
import concurrent.futures
import fcntl
import hashlib
import json
import os
import re
import resource
import subprocess
import sys
import time

ROOT = os.path.dirname(os.path.dirname(os.path.abspath(__file__)))
LEAN = os.path.join(ROOT, "lean")
HARNESS = os.path.join(ROOT, "harness")
WORK = os.path.join(ROOT, "work")
REPO = os.path.abspath(os.environ.get("WOODPILE_REPO", "/repo"))
if REPO == "/repo":
    TARGET = os.path.join(HARNESS, "target")
    CARGO_EXTRA = []
else:
    # Scratch copy of the repository (for trying out changes without touching /repo):
    # override the path dependencies and keep a separate target directory.
    TARGET = os.path.join(WORK, "target-" + hashlib.blake2b(REPO.encode(), digest_size=4).hexdigest())
    CARGO_EXTRA = ["--config", "paths=[%s]" % ",".join('"%s/%s"' % (REPO, c) for c in
                   ("hcobs", "owning_iovec", "rough_tlv", "sliding_deque", "vouched_time"))]
HBIN = os.path.join(TARGET, "release", "wp_harness")
# second build of the same harness WITHOUT debug assertions / overflow checks (cargo profile `noassert`):
# code under `#[cfg(not(debug_assertions))]` exists only there (families marked "noassert" run on both)
HBIN_NA = os.path.join(TARGET, "noassert", "wp_harness")
MBIN = os.path.join(LEAN, ".lake", "build", "bin", "wpmodel")
STD_AXIOMS = {"propext", "Classical.choice", "Quot.sound"}
FORBIDDEN = re.compile(r"\b(sorry|admit|native_decide|bv_decide|implemented_by|unsafe)\b|^\s*axiom\s|maxHeartbeats\s+0")
NCPU = os.cpu_count() or 4

sys.path.insert(0, os.path.dirname(os.path.abspath(__file__)))
from specs import SPECS  # noqa: E402
NOASSERT_FAMILIES = {f["name"] for sp in SPECS.values() for f in sp["families"] if f.get("noassert")}


def env_offline():
    e = dict(os.environ)
    e["CARGO_NET_OFFLINE"] = "true"
    e["CARGO_TARGET_DIR"] = TARGET
    e["WOODPILE_REPO"] = REPO
    e.setdefault("WP_NFS_ROOT", os.path.join(WORK, "nfs-scratch"))  # scratch files of the nfs family live under /verif/work
    return e


def run(cmd, cwd=None, timeout=None, stdin=None, stdout=subprocess.PIPE):
    p = subprocess.run(cmd, cwd=cwd, stdin=stdin, stdout=stdout, stderr=subprocess.STDOUT,
                       env=env_offline(), timeout=timeout)
    out = p.stdout.decode("utf-8", "replace") if p.stdout is not None else ""
    return p.returncode, out


class Lock:
    def __enter__(self):
        os.makedirs(WORK, exist_ok=True)
        self.f = open(os.path.join(WORK, ".lock"), "w")
        fcntl.flock(self.f, fcntl.LOCK_EX)
        return self

    def __exit__(self, *a):
        fcntl.flock(self.f, fcntl.LOCK_UN)
        self.f.close()


# --------------------------------------------------------------------------- proof side

def strip_lean_comments(text):
    out = []
    i, depth, n = 0, 0, len(text)
    while i < n:
        if text.startswith("/-", i):
            depth += 1
            i += 2
        elif depth and text.startswith("-/", i):
            depth -= 1
            i += 2
        elif depth:
            if text[i] == "\n":
                out.append("\n")
            i += 1
        elif text.startswith("--", i):
            while i < n and text[i] != "\n":
                i += 1
        elif text[i] == '"':
            j = i + 1
            while j < n and text[j] != '"':
                j += 2 if text[j] == "\\" else 1
            out.append('""')
            i = j + 1
        else:
            out.append(text[i])
            i += 1
    return "".join(out)


def lean_import_closure(modules):
    """Files under lean/ reachable from the given modules through `import Woodpile.*`."""
    seen, todo = {}, list(modules)
    while todo:
        m = todo.pop()
        if m in seen:
            continue
        path = os.path.join(LEAN, *m.split(".")) + ".lean"
        if not os.path.exists(path):
            seen[m] = None
            continue
        seen[m] = path
        with open(path) as f:
            for line in f:
                mm = re.match(r"\s*import\s+(Woodpile[\w.]*)", line)
                if mm:
                    todo.append(mm.group(1))
    return {m: p for m, p in seen.items() if p}


def scan_forbidden(modules):
    hits = []
    for m, path in sorted(lean_import_closure(modules).items()):
        with open(path) as f:
            text = strip_lean_comments(f.read())
        for ln, line in enumerate(text.split("\n"), 1):
            if FORBIDDEN.search(line):
                hits.append("%s:%d: %s" % (os.path.relpath(path, ROOT), ln, line.strip()))
    return hits


def declared_theorems(module):
    """Names of theorems declared in a Props module (namespace-qualified)."""
    path = os.path.join(LEAN, *module.split(".")) + ".lean"
    names, ns = [], []
    with open(path) as f:
        text = strip_lean_comments(f.read())
    for line in text.split("\n"):
        mm = re.match(r"\s*namespace\s+([\w.]+)", line)
        if mm:
            ns.append(mm.group(1))
            continue
        mm = re.match(r"\s*end\s+([\w.]+)", line)
        if mm and ns and ns[-1] == mm.group(1):
            ns.pop()
            continue
        mm = re.match(r"\s*(?:@\[[^\]]*\]\s*)?(?:private\s+|protected\s+)?theorem\s+([\w.']+)", line)
        if mm:
            names.append(".".join(ns + [mm.group(1)]))
    return names


def audit_axioms(pid, spec):
    """`#print axioms` for every pinned theorem; returns (per-theorem axiom sets, raw output, ok)."""
    adir = os.path.join(LEAN, ".lake", "audit")
    os.makedirs(adir, exist_ok=True)
    path = os.path.join(adir, pid + ".lean")
    with open(path, "w") as f:
        for m in spec["lean_modules"]:
            f.write("import %s\n" % m)
        for t in spec["theorems"]:
            f.write("#print axioms %s\n" % t)
    rc, out = run(["lake", "env", "lean", path], cwd=LEAN, timeout=600)
    res = {}
    for t in spec["theorems"]:
        mm = re.search(r"'%s' depends on axioms: \[([^\]]*)\]" % re.escape(t), out)
        if mm:
            res[t] = set(x.strip() for x in mm.group(1).replace("\n", " ").split(",") if x.strip())
        elif re.search(r"'%s' does not depend on any axioms" % re.escape(t), out):
            res[t] = set()
        else:
            res[t] = None  # missing / failed
    return res, out, rc == 0


def anchor_files(pid):
    """The source files a property is anchored in (properties.jsonl), plus files its spec adds."""
    files = []
    with open(os.path.join(ROOT, "properties.jsonl")) as f:
        for line in f:
            p = json.loads(line)
            if p["id"] == pid:
                files = list(p["anchors"]["files"])
    return sorted(set(files + SPECS[pid].get("extra_anchor_files", [])))


def proof_side(pid, spec, tier, log):
    """Returns dict(obligations=[...], failed=[(name, why)], model_ok=bool)."""
    obligations = list(spec["theorems"])
    failed = []
    rc, out = run([sys.executable, os.path.join(ROOT, "tools", "extract_consts.py")], cwd=ROOT)
    log("extract_consts rc=%d" % rc)
    if rc != 0:
        failed.append(("tie:extract_consts", out.strip()[-400:]))
    # machine-integer hazard inventory of the files the property is anchored in (tools/int_hazards.py)
    try:
        import int_hazards
        files = anchor_files(pid)
        for d in int_hazards.diff(files):
            failed.append(("tie:int-hazards", d))
        obligations.append("tie:int-hazards(%d anchored files)" % len(files))
    except Exception as e:  # noqa: BLE001
        failed.append(("tie:int-hazards", "inventory failed: %r" % (e,)))
    # state / effect / trait-impl inventory: the closed-world assumptions of the models (tools/src_inventory.py)
    try:
        import src_inventory
        files = anchor_files(pid)
        for d in src_inventory.diff(files):
            failed.append(("tie:src-inventory", d))
        obligations.append("tie:src-inventory(%d anchored files)" % len(files))
    except Exception as e:  # noqa: BLE001
        failed.append(("tie:src-inventory", "inventory failed: %r" % (e,)))
    if tier == "thorough":
        # from-scratch rebuild of everything this property depends on
        run(["rm", "-rf", os.path.join(LEAN, ".lake", "build")])
    rc_m, out_m = run(["lake", "build", "wpmodel"], cwd=LEAN, timeout=3600)
    log("lake build wpmodel rc=%d" % rc_m)
    model_ok = rc_m == 0 and os.path.exists(MBIN)
    if not model_ok:
        failed.append(("model:wpmodel", out_m.strip()[-1500:]))
    rc_p, out_p = run(["lake", "build"] + spec["lean_modules"], cwd=LEAN, timeout=3600)
    log("lake build %s rc=%d" % (" ".join(spec["lean_modules"]), rc_p))
    if rc_p != 0:
        # which theorems are affected?  Everything in the module(s) that failed; name the errors.
        errs = re.findall(r"error: ([^\n]*\n?[^\n]*)", out_p)
        failed.append(("proof:" + ",".join(spec["lean_modules"]), (" | ".join(e.strip() for e in errs[:6]) or out_p[-1500:])))
    else:
        axioms, raw, ok = audit_axioms(pid, spec)
        for t in spec["theorems"]:
            ax = axioms.get(t)
            if ax is None:
                failed.append(("theorem-missing:" + t, "not found by #print axioms"))
            elif not ax <= STD_AXIOMS:
                failed.append(("axioms:" + t, "depends on " + ", ".join(sorted(ax - STD_AXIOMS))))
        # the set of theorems in the Props modules must equal the pinned list
        declared = []
        for m in spec["lean_modules"]:
            if ".Props." in m:
                declared += declared_theorems(m)
        missing = sorted(set(spec["theorems"]) - set(declared))
        extra = sorted(set(declared) - set(spec["theorems"]))
        for t in missing:
            if not any(f[0].endswith(t) for f in failed):
                # theorems pinned from Proofs modules are fine; only Props ones must be declared there
                if ".Props." in t:
                    failed.append(("theorem-dropped:" + t, "pinned theorem no longer declared in its Props module"))
        for t in extra:
            failed.append(("theorem-unpinned:" + t, "declared in Props but not pinned in tools/specs.py"))
        if tier == "thorough":
            for m in spec["lean_modules"]:
                rc_c, out_c = run(["lake", "env", "leanchecker", m], cwd=LEAN, timeout=3600)
                log("leanchecker %s rc=%d" % (m, rc_c))
                if rc_c != 0:
                    failed.append(("leanchecker:" + m, out_c[-800:]))
    hits = scan_forbidden(spec["lean_modules"] + ["Main"])
    for h in hits:
        failed.append(("forbidden-token", h))
    return dict(obligations=obligations, failed=failed, model_ok=model_ok)


# --------------------------------------------------------------------------- implementation side

def build_harness(log, noassert=False):
    rc, out = run(["cargo", "build", "--release", "--offline"] + CARGO_EXTRA, cwd=HARNESS, timeout=3600)
    log("cargo build rc=%d" % rc)
    ok = rc == 0 and os.path.exists(HBIN)
    if ok and noassert:
        rc2, out2 = run(["cargo", "build", "--profile", "noassert", "--offline"] + CARGO_EXTRA, cwd=HARNESS, timeout=3600)
        log("cargo build --profile noassert rc=%d" % rc2)
        if rc2 != 0 or not os.path.exists(HBIN_NA):
            return False, out2
    return ok, out


def _unlimit_stack():
    try:
        resource.setrlimit(resource.RLIMIT_STACK, (resource.RLIM_INFINITY, resource.RLIM_INFINITY))
    except (ValueError, OSError):
        try:
            soft, hard = resource.getrlimit(resource.RLIMIT_STACK)
            resource.setrlimit(resource.RLIMIT_STACK, (hard, hard))
        except (ValueError, OSError):
            pass


def run_impl(family, args, out_path, timeout=None, hbin=None):
    with open(out_path, "wb") as f:
        p = subprocess.run([hbin or HBIN, family] + args, stdout=f, stderr=subprocess.PIPE, env=env_offline(),
                           preexec_fn=_unlimit_stack, timeout=timeout)
    return p.returncode, p.stderr.decode("utf-8", "replace")


def run_model(family, in_path, out_path, timeout=None):
    with open(in_path, "rb") as fi, open(out_path, "wb") as fo:
        p = subprocess.run([MBIN, family], stdin=fi, stdout=fo, stderr=subprocess.PIPE,
                           preexec_fn=_unlimit_stack, timeout=timeout)
    return p.returncode, p.stderr.decode("utf-8", "replace")


def iter_cases(path, want_ops):
    """Yields (idx, ops, obs, viols) per case; trailing '#' lines are collected in iter_cases.meta."""
    cur = None
    with open(path, "r", errors="replace") as f:
        for line in f:
            line = line.rstrip("\n")
            if line.startswith("C "):
                if cur is not None:
                    yield cur
                cur = (line[2:].strip(), [], [], [])
            elif cur is None:
                continue
            elif line.startswith("I "):
                if want_ops:
                    cur[1].append(line[2:])
            elif line.startswith("O "):
                cur[2].append(line[2:])
            elif line.startswith("V "):
                cur[3].append(line[2:])
    if cur is not None:
        yield cur


def read_meta(path):
    meta, stats = {}, {}
    with open(path, "rb") as f:
        try:
            f.seek(-65536, os.SEEK_END)
        except OSError:
            f.seek(0)
        tail = f.read().decode("utf-8", "replace")
    for line in tail.split("\n"):
        if line.startswith("# stat "):
            _, _, k, v = line.split(" ", 3)
            stats[k] = stats.get(k, 0) + int(v)
        elif line.startswith("# "):
            parts = line.split()
            if len(parts) == 3 and parts[2].isdigit():
                meta[parts[1]] = int(parts[2])
    return meta, stats


def _filter_obs(obs, prefixes):
    if not prefixes:
        return obs
    return [o for o in obs if o.startswith("panic") or o == "bad-op" or any(o.startswith(p + " ") for p in prefixes)]


def compare(impl_path, model_path, vprefixes, max_keep=5, obs_prefixes=None):
    """Returns dict(cases, mismatches=[...], violations=[...], hashes=set, samples=[...])."""
    res = dict(cases=0, ops=0, mismatches=[], violations=[], hashes=set(), samples=[], nontrivial=0)
    mi = iter_cases(model_path, False) if model_path else None
    for idx, ops, obs, viols in iter_cases(impl_path, True):
        res["cases"] += 1
        res["ops"] += len(ops)
        h = hashlib.blake2b("\n".join(ops).encode(), digest_size=8).digest()
        if ops and h not in res["hashes"]:
            res["hashes"].add(h)
            if any(o != "bad-op" for o in obs):
                res["nontrivial"] += 1
        if len(res["samples"]) < 3 and ops:
            res["samples"].append(dict(case=idx, ops=[o[:200] for o in ops[:8]], obs=[o[:200] for o in obs[:8]]))
        mine = [v for v in viols if any(v.startswith(p + " ") or v == p for p in vprefixes)]
        if mine and len(res["violations"]) < max_keep:
            res["violations"].append(dict(case=idx, ops=ops, impl_obs=obs, violations=mine))
        elif mine:
            res["violations"].append(dict(case=idx, violations=mine[:1]))
        if mi is not None:
            try:
                midx, _, mobs, _ = next(mi)
            except StopIteration:
                midx, mobs = None, None
            if midx != idx or mobs is None or _filter_obs(mobs, obs_prefixes) != _filter_obs(obs, obs_prefixes):
                if len(res["mismatches"]) < max_keep:
                    res["mismatches"].append(dict(case=idx, ops=ops, impl_obs=obs, model_obs=mobs))
                else:
                    res["mismatches"].append(dict(case=idx))
    return res


def run_case_both(family, ops, tag):
    """Runs one op list on implementation and model; returns (impl_obs, model_obs, viols)."""
    os.makedirs(WORK, exist_ok=True)
    rp = os.path.join(WORK, "replay.%s.%d.in" % (tag, os.getpid()))
    with open(rp, "w") as f:
        f.write("C 0\n")
        for o in ops:
            f.write("I " + o + "\n")
    ip, mp = rp + ".impl", rp + ".model"
    try:
        run_impl(family, ["--replay", rp], ip, timeout=600)
    except subprocess.TimeoutExpired:
        pass  # what it flushed before is still read below
    impl = list(iter_cases(ip, False)) if os.path.exists(ip) else []
    iobs, viols = (impl[0][2], impl[0][3]) if impl else ([], [])
    if not viols and os.path.exists(HBIN_NA) and family in NOASSERT_FAMILIES:
        # the case may need the build without debug assertions (families marked "noassert")
        ip2 = ip + ".na"
        try:
            run_impl(family, ["--replay", rp], ip2, timeout=600, hbin=HBIN_NA)
        except subprocess.TimeoutExpired:
            pass
        impl2 = list(iter_cases(ip2, False)) if os.path.exists(ip2) else []
        if impl2 and impl2[0][3]:
            iobs, viols = impl2[0][2], impl2[0][3]
            os.replace(ip2, ip)
        elif os.path.exists(ip2):
            os.remove(ip2)
    mobs = None
    if os.path.exists(MBIN):
        try:
            run_model(family, ip, mp, timeout=600)
            mod = list(iter_cases(mp, False))
            mobs = mod[0][2] if mod else []
        except subprocess.TimeoutExpired:
            mobs = ["model timed out"]  # a replay must never take the whole check down
    for p in (rp, ip, mp):
        try:
            os.remove(p)
        except OSError:
            pass
    return iobs, mobs, viols


def shrink(family, ops, pred, budget=150):
    """Greedy delta debugging on the op list; pred(ops) -> bool (still failing)."""
    ops = list(ops)
    n = 2
    trials = 0
    while len(ops) >= 2 and trials < budget:
        chunk = max(1, len(ops) // n)
        reduced = False
        i = 0
        while i < len(ops) and trials < budget:
            cand = ops[:i] + ops[i + chunk:]
            trials += 1
            if cand and pred(cand):
                ops = cand
                reduced = True
            else:
                i += chunk
        if not reduced:
            if chunk == 1:
                break
            n = min(len(ops), n * 2)
    return ops


# --------------------------------------------------------------------------- known findings

def load_known(pid):
    path = os.path.join(ROOT, "known_findings.txt")
    known = []
    if os.path.exists(path):
        with open(path) as f:
            for line in f:
                line = line.strip()
                mm = re.match(r"known:\s*property=(\S+)\s+match=(.*)$", line)
                if mm and mm.group(1) == pid:
                    known.append(mm.group(2).strip())
    return known


# --------------------------------------------------------------------------- main

def _do_job(job):
    """One harness run + model run + comparison (top level: runs in a worker process)."""
    fam, tag, args, wdir, model_ok, vprefixes = job
    ip = os.path.join(wdir, "%s.%s.impl" % (fam["name"], tag))
    mp = os.path.join(wdir, "%s.%s.model" % (fam["name"], tag))
    try:
        rc, err = run_impl(fam["name"], args, ip, timeout=fam.get("timeout", 7200),
                           hbin=HBIN_NA if str(tag).startswith("na-") else None)
    except subprocess.TimeoutExpired:
        return (fam, tag), None, "harness timed out"
    crash = None
    if rc != 0:
        # the harness died (abort, stack overflow, watchdog exit): keep what it flushed - a `V` line
        # printed before the crash is a concrete finding - and report the crash as a run error too
        crash = "harness rc=%d %s" % (rc, err[-300:])
        if not os.path.exists(ip) or os.path.getsize(ip) == 0:
            return (fam, tag), None, crash
    mpath = None
    if model_ok:
        try:
            rc, err = run_model(fam.get("model", fam["name"]), ip, mp, timeout=fam.get("timeout", 7200))
        except subprocess.TimeoutExpired:
            return (fam, tag), None, "wpmodel timed out"
        if rc != 0:
            return (fam, tag), None, "wpmodel rc=%d %s" % (rc, err[-300:])
        mpath = mp
    res = compare(ip, mpath, vprefixes, obs_prefixes=fam.get("obs_prefixes"))
    meta, stats = read_meta(ip)
    res["meta"], res["stats"] = meta, stats
    for p in (ip, mp):
        try:
            os.remove(p)
        except OSError:
            pass
    return (fam, tag), res, crash


def family_runs(spec, tier, seed):
    runs = []
    for fam in spec["families"]:
        total = fam[tier]
        shards = fam.get("shards", {}).get(tier, 1 if total <= 4000 else min(NCPU, 16))
        per = (total + shards - 1) // shards
        for s in range(shards):
            args = ["--seed", str(seed * 1000 + s), "--cases", str(per)]
            if tier == "thorough":
                args.append("--thorough")
            args += ["--shard", str(s), str(shards)]
            args += fam.get("extra_args", [])
            runs.append((fam, s, args))
    return runs


def main(argv):
    # A run against a scratch copy of the repository regenerates Gen/Consts.lean and may rebuild
    # wpmodel from it; it must not overlap with any other run that shares this lean/ directory.
    # Runs against /repo may overlap with each other (shared lock), a scratch run excludes everything.
    os.makedirs(WORK, exist_ok=True)
    with open(os.path.join(WORK, ".repo-lock"), "w") as lf:
        fcntl.flock(lf, fcntl.LOCK_SH if REPO == "/repo" else fcntl.LOCK_EX)
        try:
            return _main(argv)
        finally:
            if REPO != "/repo":
                # leave the generated constants of /repo behind, not those of the scratch copy
                e = dict(os.environ)
                e["WOODPILE_REPO"] = "/repo"
                subprocess.run([sys.executable, os.path.join(ROOT, "tools", "extract_consts.py")], cwd=ROOT, env=e,
                               stdout=subprocess.DEVNULL, stderr=subprocess.DEVNULL)
            fcntl.flock(lf, fcntl.LOCK_UN)


def _main(argv):
    ap = argparse.ArgumentParser()
    ap.add_argument("pid")
    ap.add_argument("--tier", default=os.environ.get("VERIF_TIER", "quick"), choices=["quick", "thorough"])
    ap.add_argument("--replay")
    a = ap.parse_args(argv)
    pid, tier = a.pid, a.tier
    if pid not in SPECS:
        print("unknown property " + pid)
        return 2
    spec = SPECS[pid]
    seed = int(os.environ.get("VERIF_SEED", "0") or 0)
    t0 = time.time()
    logs = []

    def log(s):
        logs.append("[%6.1fs] %s" % (time.time() - t0, s))
        sys.stderr.write(logs[-1] + "\n")

    # runs against a scratch copy of the repository must not overwrite the committed evidence
    out_root = ROOT if REPO == "/repo" else os.path.join(WORK, "scratch-out")
    os.makedirs(os.path.join(out_root, "evidence"), exist_ok=True)
    os.makedirs(os.path.join(out_root, "replays"), exist_ok=True)
    wdir = os.path.join(WORK, pid)
    os.makedirs(wdir, exist_ok=True)

    with Lock():
        ps = proof_side(pid, spec, tier, log)
        hok, hout = build_harness(log, noassert=any(f.get("noassert") for f in spec["families"]))

    if a.replay:
        return do_replay(pid, spec, a.replay, hok, ps)

    vprefixes = spec.get("vtags", [pid])
    totals = dict(cases=0, ops=0, nontrivial=0, hashes=set(), samples=[], stats={}, enumerated=0, panics=0)
    mismatches, violations, run_errors = [], [], []

    if hok:
        jobs = []
        # corpus first
        for fam in spec["families"]:
            cdir = os.path.join(ROOT, "corpus", fam["name"])
            if os.path.isdir(cdir):
                for fn in sorted(os.listdir(cdir)):
                    if fn.endswith(".case"):
                        jobs.append((fam, "corpus-" + fn, ["--replay", os.path.join(cdir, fn)]))
        for fam, s, args in family_runs(spec, tier, seed):
            jobs.append((fam, "s%d" % s, args))
            if fam.get("noassert"):
                # the same shard again on the build without debug assertions (other seed, same model)
                args2 = list(args)
                args2[1] = str(int(args2[1]) + 250)
                jobs.append((fam, "na-s%d" % s, args2))

        jobs = [(fam, tag, args, wdir, ps["model_ok"], vprefixes) for fam, tag, args in jobs]
        with concurrent.futures.ProcessPoolExecutor(max_workers=NCPU) as ex:
            for (fam, tag), res, err in ex.map(_do_job, jobs):
                if err:
                    run_errors.append("%s/%s: %s" % (fam["name"], tag, err))
                if res is None:
                    continue
                totals["cases"] += res["cases"]
                totals["ops"] += res["ops"]
                totals["hashes"] |= res["hashes"]
                totals["nontrivial"] += res["nontrivial"]
                totals["enumerated"] += res["meta"].get("enumerated", 0)
                totals["panics"] += res["meta"].get("panics", 0)
                if len(totals["samples"]) < 4:
                    totals["samples"] += res["samples"][:2]
                for k, v in res["stats"].items():
                    key = fam["name"] + "." + k
                    totals["stats"][key] = totals["stats"].get(key, 0) + v
                for m in res["mismatches"]:
                    m["family"] = fam["name"]
                    mismatches.append(m)
                for v in res["violations"]:
                    v["family"] = fam["name"]
                    violations.append(v)
        log("ran %d cases, %d ops; %d mismatches, %d oracle violations, %d run errors"
            % (totals["cases"], totals["ops"], len(mismatches), len(violations), len(run_errors)))
    else:
        run_errors.append("harness build failed: " + hout[-1500:])

    # ---- verdict
    known = load_known(pid)
    known_hits, new_viol = [], []
    for v in violations:
        descs = v["violations"]
        if known and all(any(k in d for k in known) for d in descs):
            known_hits.append(v)
        else:
            new_viol.append(v)
    for k in sorted(set(d for v in known_hits for d in v["violations"]))[:10]:
        print("KNOWN-FINDING: property=%s %s" % (pid, k))

    proof_failed = ps["failed"]
    broken = bool(proof_failed or mismatches or run_errors)
    verdict_violation = bool(new_viol) or broken
    replay_path = None
    no_input = False
    if verdict_violation:
        replay = dict(property=pid, tier=tier, seed=seed)
        concrete = None
        if new_viol:
            concrete = next((v for v in new_viol if "ops" in v), None)
        if concrete is None and hok and (mismatches or proof_failed):
            # search for a concrete failing input: shrink the disagreeing case, then a larger oracle run
            concrete = search_failing_input(pid, spec, mismatches, seed, tier, vprefixes, log, known)
        if concrete is not None:
            fam = concrete["family"]
            ops = concrete["ops"]

            def still(c):
                _, _, vs = run_case_both(fam, c, pid)
                return any(any(x.startswith(p) for p in vprefixes) for x in vs)
            if len(ops) > 1:
                ops = shrink(fam, ops, still)
            iobs, mobs, vs = run_case_both(fam, ops, pid)
            replay.update(kind="oracle", family=fam, case_ops=ops, impl_obs=iobs, model_obs=mobs,
                          violations=[x for x in vs if any(x.startswith(p) for p in vprefixes)],
                          note="the direct oracle saw the property fail on the real code for this case")
        else:
            no_input = True
            replay.update(kind="broken-tie", failed_obligations=[dict(name=n, why=w) for n, w in proof_failed],
                          run_errors=run_errors)
            if mismatches:
                m = next((x for x in mismatches if "ops" in x), None)
                if m:
                    fam = m["family"]

                    opx = next((f.get("obs_prefixes") for f in spec["families"] if f["name"] == fam), None)

                    def differs(c):
                        i, mo, _ = run_case_both(fam, c, pid)
                        if "bad-op" in i or (mo and "bad-op" in mo):
                            return False  # the candidate is not a well-formed case (dangling handle after deletion)
                        return mo is None or _filter_obs(i, opx) != _filter_obs(mo, opx)
                    ops = shrink(fam, m["ops"], differs) if len(m["ops"]) > 1 else m["ops"]
                    iobs, mobs, _ = run_case_both(fam, ops, pid)
                    replay.update(correspondence=dict(family=fam, stream="wpmodel %s vs wp_harness %s" % (fam, fam),
                                                      case_ops=ops, impl_obs=iobs, model_obs=mobs,
                                                      total_mismatching_cases=len(mismatches)))
            replay["note"] = ("no input violating the property itself was found; the listed theorem / side condition / "
                              "correspondence stream no longer checks, so the property is no longer shown to hold")
        replay_path = os.path.join("replays", "%s-%s-%d.json" % (pid, tier, seed))
        if out_root != ROOT:
            replay_path = os.path.join(out_root, replay_path)
        with open(os.path.join(ROOT, replay_path), "w") as f:
            json.dump(replay, f, indent=1)

    # ---- evidence
    n_obl = len(ps["obligations"])
    failed_names = set()
    for n, _ in proof_failed:
        failed_names.add(n)
    if any(n.startswith(("proof:", "model:", "tie:extract", "forbidden")) for n in failed_names):
        discharged = 0
    elif "tie:int-hazards" in failed_names or "tie:src-inventory" in failed_names:
        discharged = n_obl - len(failed_names & {"tie:int-hazards", "tie:src-inventory"}) \
            - len([n for n in failed_names if n.split(":", 1)[-1] in ps["obligations"]])
    else:
        discharged = n_obl - len([n for n in failed_names if n.split(":", 1)[-1] in ps["obligations"]])
    ev = dict(
        property_id=pid, tier=tier, seed=seed, level="proof",
        coverage=dict(
            obligations=n_obl, discharged=discharged,
            obligation_names=ps["obligations"],
            failed_obligations=[dict(name=n, why=w[:300]) for n, w in proof_failed],
            checker_cmd="cd lean && lake build %s wpmodel && lake env lean .lake/audit/%s.lean  (#print axioms per theorem%s)"
                        % (" ".join(spec["lean_modules"]), pid, "; from clean + leanchecker" if tier == "thorough" else ""),
            trusted_base=spec.get("trusted_base", []) + [
                "Lean 4 kernel; axioms allowed: propext, Classical.choice, Quot.sound (checked by #print axioms on every pinned theorem)",
                "tools/extract_consts.py (constants translator) and the wp_harness/wpmodel correspondence (differential testing; sees only what the generators reach)",
            ],
            evaluations=totals["cases"],
            distinct_nontrivial=totals["nontrivial"],
            rule=spec.get("rule", "cases are op sequences generated from one SplitMix64 state (plus enumerated and corpus cases); "
                                  "distinct = distinct op lists; non-trivial = at least one op the executor accepted"),
            samples=totals["samples"][:4] or [dict(note="no case ran")],
            traces_validated_against_impl=totals["cases"] - len(mismatches) if ps["model_ok"] and hok else 0,
            ops=totals["ops"], enumerated_cases=totals["enumerated"], impl_panics=totals["panics"],
            correspondence_mismatches=len(mismatches), oracle_violations=len(violations),
            known_findings_matched=len(known_hits),
            input_distribution=totals["stats"],
            exhaustive=False,
        ),
        assumptions=spec.get("assumptions", []),
        wall_s=round(time.time() - t0, 2),
        violations=len(new_viol) + (1 if broken and not new_viol else 0),
    )
    with open(os.path.join(out_root, "evidence", pid + ".json"), "w") as f:
        json.dump(ev, f, indent=1)

    if verdict_violation:
        print("VIOLATION property=%s replay=%s%s" % (pid, replay_path, " no-failing-input-found" if no_input else ""))
        return 1
    print("OK property=%s tier=%s obligations=%d/%d cases=%d wall=%.1fs" % (pid, tier, discharged, n_obl, totals["cases"], time.time() - t0))
    return 0


def search_failing_input(pid, spec, mismatches, seed, tier, vprefixes, log, known):
    """The tie broke; look for an input on which the *property* fails on the real code."""
    # 1. the disagreeing cases themselves
    for m in mismatches:
        if "ops" not in m:
            continue
        _, _, vs = run_case_both(m["family"], m["ops"], pid)
        if any(any(x.startswith(p) for p in vprefixes) for x in vs):
            return dict(family=m["family"], ops=m["ops"])
    # 2. a larger oracle-only run with fresh seeds
    wdir = os.path.join(WORK, pid)
    jobs = []
    for fam in spec["families"]:
        n = fam.get("search", fam["thorough"])
        shards = min(NCPU, 16)
        per = max(1, n // shards)
        for s in range(shards):
            jobs.append((fam, s, ["--seed", str(seed * 1000 + 500 + s), "--cases", str(per), "--thorough", "--shard", str(s), str(shards)]
                         + fam.get("extra_args", [])))

    def do(job):
        fam, s, args = job
        ip = os.path.join(wdir, "%s.search%d.impl" % (fam["name"], s))
        try:
            rc, _ = run_impl(fam["name"], args, ip, timeout=1800)
        except subprocess.TimeoutExpired:
            return None
        found = None
        for idx, ops, obs, viols in iter_cases(ip, True):
            mine = [v for v in viols if any(v.startswith(p) for p in vprefixes)]
            if mine and not (known and all(any(k in d for k in known) for d in mine)):
                found = dict(family=fam["name"], ops=ops)
                break
        try:
            os.remove(ip)
        except OSError:
            pass
        return found

    with concurrent.futures.ThreadPoolExecutor(max_workers=NCPU) as ex:
        for f in ex.map(do, jobs):
            if f:
                log("search: found a failing input in family " + f["family"])
                return f
    log("search: no failing input found")
    return None


def do_replay(pid, spec, path, hok, ps):
    with open(path) as f:
        rp = json.load(f)
    vprefixes = spec.get("vtags", [pid])
    target = rp if "case_ops" in rp else rp.get("correspondence")
    if rp.get("failed_obligations"):
        print("replay: obligations recorded as failing: " + ", ".join(x["name"] for x in rp["failed_obligations"]))
        print("replay: now failing: " + (", ".join(n for n, _ in ps["failed"]) or "none"))
    if not target or not hok:
        bad = bool(ps["failed"])
        if bad:
            print("VIOLATION property=%s replay=%s no-failing-input-found" % (pid, path))
        return 1 if bad else 0
    fam = target["family"]
    iobs, mobs, vs = run_case_both(fam, target["case_ops"], pid)
    print("impl : " + json.dumps(iobs))
    print("model: " + json.dumps(mobs))
    mine = [x for x in vs if any(x.startswith(p) for p in vprefixes)]
    for v in mine:
        print("oracle: " + v)
    if mine:
        print("VIOLATION property=%s replay=%s" % (pid, path))
        return 1
    if mobs is not None and iobs != mobs:
        print("VIOLATION property=%s replay=%s no-failing-input-found" % (pid, path))
        return 1
    print("replay: does not reproduce on the current tree")
    return 0

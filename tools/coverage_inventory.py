#!/usr/bin/env python3
"""tools/coverage_inventory.py: for every non-test `fn` in /repo's crates, report whether its name
appears (a) in the Lean models/proofs (cited in a comment or as a definition) and (b) in the harness
(called on the real code).  Heuristic (name-based), printed as a table; used to steer what to model next."""
import os, re, sys, json
REPO = os.environ.get("WOODPILE_REPO", "/repo")
ROOT = os.path.dirname(os.path.dirname(os.path.abspath(__file__)))
def strip_tests(src):
    # drop everything from the first `#[cfg(test)]` (test modules are at the end of each file)
    i = src.find("#[cfg(test)]")
    return src if i < 0 else src[:i]
def camel(n):
    parts = n.split("_")
    return parts[0] + "".join(p.capitalize() for p in parts[1:])
lean = ""
for d, _, fs in os.walk(os.path.join(ROOT, "lean", "Woodpile")):
    for f in fs:
        if f.endswith(".lean"): lean += open(os.path.join(d, f)).read()
harn = ""
for d, _, fs in os.walk(os.path.join(ROOT, "harness", "src")):
    for f in fs:
        if f.endswith(".rs"): harn += open(os.path.join(d, f)).read()
rows = []
for crate in ["hcobs", "owning_iovec", "rough_tlv", "sliding_deque", "vouched_time"]:
    for d, _, fs in os.walk(os.path.join(REPO, crate, "src")):
        for f in sorted(fs):
            if not f.endswith(".rs") or f == "verif_shim.rs": continue
            p = os.path.join(d, f)
            src = strip_tests(open(p).read())
            for m in re.finditer(r"^\s*(pub(?:\([a-z]+\))?\s+)?(?:const\s+)?(?:unsafe\s+)?fn\s+([a-zA-Z_0-9]+)", src, re.M):
                name = m.group(2)
                if name.startswith("verif_"): continue
                pub = bool(m.group(1))
                inl = bool(re.search(r"\b%s\b" % re.escape(name), lean)) or bool(re.search(r"\b%s\b" % re.escape(camel(name)), lean))
                inh = bool(re.search(r"[.:]%s\s*(::<[^>]*>)?\(" % re.escape(name), harn))
                rows.append((os.path.relpath(p, REPO), name, pub, inl, inh))
miss = [r for r in rows if not r[3] or not r[4]]
print("functions: %d; in lean: %d; called by harness: %d" % (len(rows), sum(r[3] for r in rows), sum(r[4] for r in rows)))
for r in rows:
    if "--all" in sys.argv or not (r[3] and r[4]):
        print("%-45s %-32s %s lean=%s harness=%s" % (r[0], r[1], "pub" if r[2] else "   ", "Y" if r[3] else "-", "Y" if r[4] else "-"))

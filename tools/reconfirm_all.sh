#!/bin/bash
# Re-runs the confirmation + our checks for every stored seed (sequentially; scratch dirs are shared).
# usage: tools/reconfirm_all.sh [seed names...]   (default: all)
cd "$(dirname "$0")/.."
names=${@:-$(ls seeded)}
for n in $names; do
  cs=$(python3 -c "
import json;m=json.load(open('seeded/$n/meta.json'));print(','.join(m.get('confirmation',{}).get('checks',{}).keys()) or '$n'.split('-')[0])")
  echo "== $n ($cs)"
  python3 tools/seed_confirm.py seeded/$n $n --checks $cs 2>&1 | grep -E '"confirmed"|verdict|Error'
done
echo BATCH-DONE

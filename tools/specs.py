"""Per-property check specifications (read by tools/checklib.py and tools/gen_manifest.py).

`theorems` is the pinned list: the check fails if a pinned theorem disappears,
if a Props module declares a theorem that is not pinned, or if `#print axioms`
of any of them leaves {propext, Classical.choice, Quot.sound}.
"""

TB_STD = [
    "std / smallvec / time crates are modelled, not verified",
]

SPECS = {}

SPECS["C17"] = dict(
    title="Arena reads return exactly what the reader delivered, under any I/O faults",
    lean_modules=["Woodpile.Props.C17"],
    theorems=[
        "Woodpile.Props.C17.count0_no_read",
        "Woodpile.Props.C17.calls_le_attempts",
        "Woodpile.Props.C17.read_n_spec",
        "Woodpile.Props.C17.read_n_releases_unread",
    ],
    families=[dict(name="readn", quick=3000, thorough=400000)],
    technique="Lean 4 proof (induction over the retry loop, all reader scripts) + model/implementation correspondence",
    design_ref="DESIGN.md section 5, C17",
    level_text=("Kernel-checked theorems about a Lean model of ByteArena::read_n/read_n_impl (Woodpile.ReadN) for every reader "
                "script, count, attempt limit and arena state: call bound, request sizes, stop conditions, delivered-prefix, "
                "ok/err verdict, count=0, release of the unread tail. The model is tied to /repo by running the real read_n "
                "(scripted Read impl) and the compiled model on the same enumerated + random op sequences and diffing "
                "results, request sizes and arena.remaining(); a direct oracle re-checks the property on the real calls."),
    level_note=("Trusted: Lean kernel + 3 standard axioms; the correspondence harness and its generators; readers that "
                "return more than the buffer length are outside the model (Read's contract). Encoder/Decoder-level "
                "encode_read/decode_read are covered through the hcobs families."),
    trusted_base=["Rust std::io::Read contract (a reader never reports more bytes than the buffer holds)"],
    assumptions=["64-bit usize; allocation failure (OOM abort) not modelled"],
)


# ---------------------------------------------------------------------------------------------
# OwningIovec family (Layer B structural model, Woodpile.Iovec): C03, C04, C05, C10, C20
_IOV_NOTE = ("Trusted: Lean kernel + 3 standard axioms; the correspondence harness (wp_harness iovec vs wpmodel iovec) and its "
             "generators; symbolic addresses (chunk ordinal + offset) stand for raw pointers - that Arc/Box/raw-pointer code "
             "implements them is checked by the H1 live-chunk registry comparison on sampled histories, not proved; "
             "std Vec/VecDeque/Arc, smallvec modelled; 64-bit usize; allocation failure not modelled.")
_IOV_FAM = dict(name="iovec", quick=1500, thorough=48000)

def _iov(pid, title, theorems, modules, vtags, obs, text, partial=""):
    fam = dict(_IOV_FAM)
    fam["obs_prefixes"] = obs
    SPECS[pid] = dict(
        title=title, lean_modules=modules, theorems=theorems, families=[fam], vtags=vtags,
        technique="Lean 4 proof over a structural model of OwningIovec (invariants by induction over operation histories) + model/implementation correspondence with live-chunk registry hook",
        design_ref="DESIGN.md section 5, " + pid,
        level_text=text, level_note=_IOV_NOTE + partial,
        trusted_base=["hook H1 (ByteArena::verif_live_chunks) reports the allocator's live chunks faithfully"],
        assumptions=["single-threaded histories", "caller buffers outlive the iovec (the borrow checker's job)"],
    )

_iov("C03", "OwningIovec is a faithful FIFO byte pipe",
     ["Woodpile.Props.C03.op_refines", "Woodpile.Props.C03.reachable_refines", "Woodpile.Props.C03.fifo",
      "Woodpile.Props.C03.size_eq", "Woodpile.Props.C03.consume_reports", "Woodpile.Props.C03.consume_exact",
      "Woodpile.Props.C03.no_empty_slice", "Woodpile.Props.C03.no_panic_valid", "Woodpile.Props.C03.bad_token_panics"],
     ["Woodpile.Props.C03"], ["C03"], ["A", "R"],
     "Kernel-checked refinement of the structural OwningIovec model (Woodpile.Iovec) to the abstract byte pipe (Woodpile.Pipe) for every "
     "history of one iovec over push / push_copy / push_borrowed / extend / register_patch / backfill_or_panic (arbitrary tokens) / clear / "
     "arena flush+reserve / consume / pop_front / advance_slices / Read, any policy and tuning constants: per-op refinement under an "
     "inductive invariant (A.2 items 1-4, 6, 7), lifted to histories; FIFO ledger equation (consumed ++ stable ++ hidden cells = everything "
     "appended since the last clear with filled placeholders in place), total_size bookkeeping, exact consumer return values, no empty slice, "
     "and an exact characterisation of panics (pop on an empty stable prefix; stale / foreign / wrong-size backfill token). "
     "Correspondence of the model with the real crate over enumerated + random histories of the full producer/consumer API; shadow-buffer oracle.",
     " C03/C04 theorems cover single-iovec histories; clone / take / arena swap / foreign anchored slices are exercised by the "
     "correspondence run and the per-object shadow oracle only (the multi-object frame theorem is C20's).")
_iov("C04", "Pending backpatches are never observable; filled ones unblock everything",
     ["Woodpile.Props.C04.stable_prefix_has_no_hole", "Woodpile.Props.C04.stable_is_prefix_before_first_hole",
      "Woodpile.Props.C04.observed_bytes_immutable", "Woodpile.Props.C04.stable_slices_never_overwritten",
      "Woodpile.Props.C04.ok_iff_no_pending",
      "Woodpile.Props.C04.all_filled_unblocks"],
     ["Woodpile.Props.C04"], ["C04"], ["A", "R"],
     "Kernel-checked theorems on the structural model, for every history of one iovec (same vocabulary as C03): the stable prefix - from which "
     "every consumer-side view is computed - consists of byte cells only and is a prefix of the bytes before the first pending placeholder; "
     "a byte cell of the pipe (in particular every consumed or visible byte) never changes value or position until clear; "
     "has_pending_backrefs (iovs / flatten / stable_consumer Ok) is false exactly when no hole cell is left; with nothing pending the stable "
     "prefix is the whole content and consumed ++ visible equals everything appended with the backfilled values, for fills in any order. "
     "Correspondence + shadow-buffer oracle with placeholders.",
     " C03/C04 theorems cover single-iovec histories; clone / take / arena swap / foreign anchored slices are exercised by the "
     "correspondence run and the per-object shadow oracle only (the multi-object frame theorem is C20's).")
_iov("C05", "Every slice handed out points into live memory", [], [], ["C05"], ["A", "S", "T", "L", "R"],
     "Kernel-checked ownership invariant on the structural model (every exposed owned slice is guarded by an anchor holding its chunk; "
     "derived liveness); correspondence of slice placement and live-chunk set with the real allocator through hook H1; containment oracle.",
     " PARTIAL BY NATURE: memory safety of the compiled unsafe code is sampled (registry + debug poisoning), not proved.")
_iov("C10", "Arena memory is reclaimed: no leak after drop, bounded footprint in streaming", [], [], ["C10"], ["L"],
     "Kernel-checked: dropping every object leaves no holder (derived liveness); correspondence of the live-chunk set after every operation; "
     "leak oracle on the process-wide counters at the end of every history.",
     " PARTIAL BY NATURE: leaks below the model (Arc/Box internals) are only visible to the counters.")
_iov("C20", "A cloned or taken OwningIovec is an independent snapshot", [], [], ["C20"], ["A", "R"],
     "Kernel-checked frame theorems on the multi-object world model; correspondence over histories with clone/take and interleaved suffixes on both sides; "
     "per-object shadow oracle checked on every object after every operation.")

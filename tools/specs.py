"""Per-property check specifications (read by tools/checklib.py and tools/gen_manifest.py).

`theorems` is the pinned list: the check fails if a pinned theorem disappears,
if a Props module declares a theorem that is not pinned, or if `#print axioms`
of any of them leaves {propext, Classical.choice, Quot.sound}.
"""

TB_STD = [
    "std / smallvec / time crates are modelled, not verified",
]

SPECS = {}

SPECS["C17"] = dict(
    title="Arena reads return exactly what the reader delivered, under any I/O faults",
    lean_modules=["Woodpile.Props.C17"],
    theorems=[
        "Woodpile.Props.C17.count0_no_read",
        "Woodpile.Props.C17.calls_le_attempts",
        "Woodpile.Props.C17.read_n_spec",
        "Woodpile.Props.C17.read_n_releases_unread",
    ],
    families=[dict(name="readn", quick=3000, thorough=400000)],
    technique="Lean 4 proof (induction over the retry loop, all reader scripts) + model/implementation correspondence",
    design_ref="DESIGN.md section 5, C17",
    level_text=("Kernel-checked theorems about a Lean model of ByteArena::read_n/read_n_impl (Woodpile.ReadN) for every reader "
                "script, count, attempt limit and arena state: call bound, request sizes, stop conditions, delivered-prefix, "
                "ok/err verdict, count=0, release of the unread tail. The model is tied to /repo by running the real read_n "
                "(scripted Read impl) and the compiled model on the same enumerated + random op sequences and diffing "
                "results, request sizes and arena.remaining(); a direct oracle re-checks the property on the real calls."),
    level_note=("Trusted: Lean kernel + 3 standard axioms; the correspondence harness and its generators; readers that "
                "return more than the buffer length are outside the model (Read's contract). Encoder/Decoder-level "
                "encode_read/decode_read are covered through the hcobs families."),
    trusted_base=["Rust std::io::Read contract (a reader never reports more bytes than the buffer holds)"],
    assumptions=["64-bit usize; allocation failure (OOM abort) not modelled"],
)

SPECS["C14"] = dict(
    title="VouchedTime exists only inside the allowed window around a vouched base time",
    lean_modules=["Woodpile.Props.C14"],
    theorems=[
        "Woodpile.Props.C14.window_consts",
        "Woodpile.Props.C14.check_vouch",
        "Woodpile.Props.C14.check_injective",
        "Woodpile.Props.C14.voucher_unique",
        "Woodpile.Props.C14.new_ok_iff",
        "Woodpile.Props.C14.new_ok_iff_fits",
        "Woodpile.Props.C14.no_panic",
        "Woodpile.Props.C14.reports_local_time",
        "Woodpile.Props.C14.now_same_rule",
        "Woodpile.Props.C14.wrap_counterexample",
        "Woodpile.Props.C14.trunc_counterexample",
    ],
    families=[dict(name="vtime", quick=3000, thorough=400000)],
    technique=("Lean 4 proof (integer/UInt64 arithmetic over all local times x 2^64 base times x 2^64 vouchers; ring identities "
               "of the raffle voucher in Z/2^64 for the extracted parameters) + model/implementation correspondence"),
    design_ref="DESIGN.md section 5, C14",
    level_text=("Kernel-checked theorems about a Lean model of raffle's check/vouch (exact wrapping u64 arithmetic) and of "
                "VouchedTime::check_vouched_time/check/new/check_or_die/get_local_time/now (i128 as Int, div_euclid, the <0 and "
                ">u64::MAX guards, the signed window): new succeeds iff the voucher checks, the local time is not before the epoch "
                "and floor(local/1ms) - base is in [-59900, 2990], for every representable local time (and every one whose "
                "millisecond count fits a u64), all 2^64 base times and all vouchers; no panic site is reachable; a constructed "
                "value reports its construction time; now() is new() on the clock reading. The voucher check is characterised "
                "completely (check x v iff v = the crate's own voucher of x) for the parameter strings re-extracted from /repo on "
                "every run; the literal window constants are re-checked against the extracted ones. The old wrapping / truncating "
                "formulas (findings F4, F5) are proved to violate the rule. The model is tied to /repo by running the real "
                "VouchedTime and raffle code and the compiled model on the same enumerated + random triples (both window edges "
                "+-1 ms, epoch +-1 ns/ms, calendar MIN/MAX, base times at 0, 2^63, 2^64-1-k and wrapped around 2^64, own / "
                "foreign / corrupted vouchers, now() with provider answers on both sides of both edges) and diffing verdicts and "
                "error classes; a direct oracle evaluates the property's rule in i128 on the real results."),
    level_note=("Trusted: Lean kernel + 3 standard axioms; the correspondence harness and its generators; the time crate's "
                "PrimitiveDateTime <-> unix_timestamp_nanos conversion (the model starts from the nanosecond count; MIN/MAX are "
                "compared with the real crate's on every run); the clock reading inside now() is an input of the model (reported "
                "by the harness's provider closure)."),
    trusted_base=["time crate: PrimitiveDateTime::assume_utc().unix_timestamp_nanos() is the nanosecond count of the date-time",
                  "raffle crate is re-modelled from its source (check.rs, vouch.rs) and compared numerically on every run"],
    assumptions=["time crate built without the large-dates feature (years -9999..=9999; checked by the `limits` op)"],
)

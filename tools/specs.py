"""Per-property check specifications (read by tools/checklib.py and tools/gen_manifest.py).

`theorems` is the pinned list: the check fails if a pinned theorem disappears,
if a Props module declares a theorem that is not pinned, or if `#print axioms`
of any of them leaves {propext, Classical.choice, Quot.sound}.
"""

TB_STD = [
    "std / smallvec / time crates are modelled, not verified",
]

SPECS = {}

SPECS["C17"] = dict(
    title="Arena reads return exactly what the reader delivered, under any I/O faults",
    lean_modules=["Woodpile.Props.C17"],
    theorems=[
        "Woodpile.Props.C17.count0_no_read",
        "Woodpile.Props.C17.calls_le_attempts",
        "Woodpile.Props.C17.read_n_spec",
        "Woodpile.Props.C17.read_n_releases_unread",
    ],
    families=[dict(name="readn", quick=3000, thorough=400000)],
    technique="Lean 4 proof (induction over the retry loop, all reader scripts) + model/implementation correspondence",
    design_ref="DESIGN.md section 5, C17",
    level_text=("Kernel-checked theorems about a Lean model of ByteArena::read_n/read_n_impl (Woodpile.ReadN) for every reader "
                "script, count, attempt limit and arena state: call bound, request sizes, stop conditions, delivered-prefix, "
                "ok/err verdict, count=0, release of the unread tail. The model is tied to /repo by running the real read_n "
                "(scripted Read impl) and the compiled model on the same enumerated + random op sequences and diffing "
                "results, request sizes and arena.remaining(); a direct oracle re-checks the property on the real calls."),
    level_note=("Trusted: Lean kernel + 3 standard axioms; the correspondence harness and its generators; readers that "
                "return more than the buffer length are outside the model (Read's contract). Encoder/Decoder-level "
                "encode_read/decode_read are covered through the hcobs families."),
    trusted_base=["Rust std::io::Read contract (a reader never reports more bytes than the buffer holds)"],
    assumptions=["64-bit usize; allocation failure (OOM abort) not modelled"],
)

# ---- HCOBS (C01 / C02 / C07): families hcobs_enc / hcobs_dec (harness/src/fam_hcobs.rs, lean/Woodpile/Driver/Hcobs.lean).
# `lean_modules` / `theorems` are filled in when the proof tracks land.
_HCOBS_TB = ["OwningIovec is modelled by the abstract Pipe (Woodpile.Pipe); slice boundaries are not part of these properties",
             "reference codec in harness/src/fam_hcobs/refcodec.rs (written from the format description, literal constants 252 / 64008 / 253)"]
_HCOBS_ASSUME = ["64-bit usize; allocation failure (OOM abort) not modelled",
                 "arena reads (anchored input) use a well-behaved in-memory reader; faulty readers are C17's subject"]
_HCOBS_NOTE = ("Trusted: Lean kernel + 3 standard axioms; the correspondence harness and its generators (enumerated small cases with "
               "tiny limits through hook H2, random cases incl. production limits through the public API); the abstract Pipe as the "
               "specification of OwningIovec (C03/C04 tie it to the real iovec).")

SPECS["C01"] = dict(
    title="HCOBS round trip: decoding an encoded message returns the original bytes",
    lean_modules=[],
    theorems=[],
    families=[dict(name="hcobs_enc", quick=8000, thorough=200000, search=40000), dict(name="hcobs_dec", quick=8000, thorough=200000, search=40000)],
    vtags=["C01"],
    technique="Lean 4 proof (batch spec round trip; incremental encoder/decoder refine the spec for every segmentation) + model/implementation correspondence",
    design_ref="DESIGN.md section 5, C01; appendix A.1",
    level_text=("Kernel-checked theorems about the Lean models of the HCOBS encoder/decoder state machines (Woodpile.Hcobs.Enc/Dec over "
                "the abstract Pipe) and the batch format definition (Woodpile.Hcobs.Spec), for all byte strings, all segmentations, all "
                "input methods and all limits satisfying Params.Valid. The models are tied to /repo by running the real Encoder/Decoder "
                "(production limits through the public API, tiny limits through hook H2) and the compiled models on the same enumerated + "
                "random op sequences (pieces, methods b/c/a/r, drains by slices/bytes/Read) and diffing sizes, drained bytes, exposed "
                "prefix and final bytes after every call; a direct oracle feeds every encoder output back through the real Decoder "
                "(one call, and a random segmentation with mixed methods and drains) and compares with the input."),
    level_note=_HCOBS_NOTE,
    trusted_base=_HCOBS_TB,
    assumptions=_HCOBS_ASSUME,
)

SPECS["C02"] = dict(
    title="HCOBS output never contains the stuff sequence, is split-independent, bounded",
    lean_modules=[],
    theorems=[],
    families=[dict(name="hcobs_enc", quick=8000, thorough=200000, search=40000)],
    vtags=["C02"],
    technique="Lean 4 proof (no FE FD in Spec.encode, implementation = spec for every segmentation, exact length formula) + model/implementation correspondence",
    design_ref="DESIGN.md section 5, C02; appendix A.1",
    level_text=("Kernel-checked theorems on the Lean HCOBS models: the encoded bytes contain no FE FD, equal Spec.encode of the "
                "concatenated input for every segmentation / method choice / drain schedule, and have length len + 1 + 2*(full chunks). "
                "Tied to /repo by the hcobs_enc correspondence run; the direct oracle scans drained ++ final bytes of the real encoder "
                "for FE FD, re-encodes the concatenation in one call and compares, and checks the literal bound "
                "len + 1 + 2*ceil(len/64008) for the production limits."),
    level_note=_HCOBS_NOTE,
    trusted_base=_HCOBS_TB,
    assumptions=_HCOBS_ASSUME,
)

SPECS["C07"] = dict(
    title="HCOBS wire format: canonical encoder, decoder accepts exactly the format",
    lean_modules=[],
    theorems=[],
    families=[dict(name="hcobs_enc", quick=8000, thorough=200000, search=40000), dict(name="hcobs_dec", quick=8000, thorough=200000, search=40000)],
    vtags=["C07"],
    technique="Lean 4 proof (encoder = canonical encoding, decoder accepts iff well-formed, literal wire constants) + model/implementation correspondence",
    design_ref="DESIGN.md section 5, C07; appendix A.1",
    level_text=("Kernel-checked theorems on the Lean HCOBS models: Spec.encode produces the canonical chunk sequence, Spec.decode "
                "accepts exactly the well-formed chunk sequences ending on a short chunk, the incremental state machines equal the "
                "batch definitions for every segmentation, the decoder model is total, and the extracted constants are 252 / 64008 / 253 / FE FD. "
                "Tied to /repo by the hcobs_enc and hcobs_dec correspondence runs (valid encodings from the real encoder, truncation at "
                "every position, out-of-radix bytes in every header position, over-long lengths, garbage; verdict, error variant and payload, "
                "bytes); the direct oracle compares the real encoder and decoder with a reference codec written from the format "
                "description with literal production constants, re-decodes every input in one call, and reports panics."),
    level_note=_HCOBS_NOTE,
    trusted_base=_HCOBS_TB,
    assumptions=_HCOBS_ASSUME,
)

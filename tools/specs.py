"""Per-property check specifications (read by tools/checklib.py and tools/gen_manifest.py).

`theorems` is the pinned list: the check fails if a pinned theorem disappears,
if a Props module declares a theorem that is not pinned, or if `#print axioms`
of any of them leaves {propext, Classical.choice, Quot.sound}.
"""

TB_STD = [
    "std / smallvec / time crates are modelled, not verified",
]

SPECS = {}

SPECS["C17"] = dict(
    title="Arena reads return exactly what the reader delivered, under any I/O faults",
    lean_modules=["Woodpile.Props.C17"],
    theorems=[
        "Woodpile.Props.C17.count0_no_read",
        "Woodpile.Props.C17.calls_le_attempts",
        "Woodpile.Props.C17.read_n_spec",
        "Woodpile.Props.C17.read_n_releases_unread",
    ],
    families=[dict(name="readn", quick=3000, thorough=400000),
              # Encoder/Decoder-level encode_read / decode_read / read_n with scripted faulty readers, structural model
              dict(name="codecw", quick=160, thorough=4000, search=800, shards=dict(quick=8, thorough=16), obs_prefixes=["A", "S", "G", "R"])],
    technique="Lean 4 proof (induction over the retry loop, all reader scripts) + model/implementation correspondence",
    design_ref="DESIGN.md section 5, C17",
    level_text=("Kernel-checked theorems about a Lean model of ByteArena::read_n/read_n_impl (Woodpile.ReadN) for every reader "
                "script, count, attempt limit and arena state: call bound, request sizes, stop conditions, delivered-prefix, "
                "ok/err verdict, count=0, release of the unread tail. The model is tied to /repo by running the real read_n "
                "(scripted Read impl) and the compiled model on the same enumerated + random op sequences and diffing "
                "results, request sizes and arena.remaining(); a direct oracle re-checks the property on the real calls."),
    level_note=("Trusted: Lean kernel + 3 standard axioms; the correspondence harness and its generators; readers that "
                "return more than the buffer length are outside the model (Read's contract). Encoder/Decoder-level "
                "encode_read/decode_read/read_n run in the codecw family (scripted faulty readers; the codec models drive the structural "
                "iovec model; oracle: reader discipline as for read_n, and drained ++ final output = one-call encoding of payloads plus "
                "the bytes actually delivered); the theorem side for that composition is read_n_spec + the HCOBS refinement theorems (C01)."),
    trusted_base=["Rust std::io::Read contract (a reader never reports more bytes than the buffer holds)"],
    assumptions=["64-bit usize; allocation failure (OOM abort) not modelled"],
)


# ---------------------------------------------------------------------------------------------
# OwningIovec family (Layer B structural model, Woodpile.Iovec): C03, C04, C05, C10, C20
_IOV_NOTE = ("Trusted: Lean kernel + 3 standard axioms; the correspondence harness (wp_harness iovec vs wpmodel iovec) and its "
             "generators; symbolic addresses (chunk ordinal + offset) stand for raw pointers - that Arc/Box/raw-pointer code "
             "implements them is checked by the H1 live-chunk registry comparison on sampled histories, not proved; "
             "std Vec/VecDeque/Arc, smallvec modelled; 64-bit usize; allocation failure not modelled.")
_IOV_FAM = dict(name="iovec", quick=1500, thorough=48000)

_CODECW_FAM = dict(name="codecw", quick=160, thorough=4000, search=800, shards=dict(quick=8, thorough=16))

def _iov(pid, title, theorems, modules, vtags, obs, text, partial="", codecw=False):
    fam = dict(_IOV_FAM)
    fam["obs_prefixes"] = obs
    extra = []
    if pid == "C10":
        # leak oracle (harness main.rs: live-chunk counters back to their value before the case) over
        # StreamReader / StreamChunker / codec histories; their observation streams belong to C06/C08/C01
        extra = [dict(name="reader", quick=500, thorough=20000, search=2000, obs_prefixes=["~none~"]),
                 dict(name="hcobs_enc", quick=800, thorough=20000, search=2000, obs_prefixes=["~none~"]),
                 dict(name="hcobs_dec", quick=500, thorough=10000, search=2000, obs_prefixes=["~none~"])]
    SPECS[pid] = dict(
        title=title, lean_modules=modules, theorems=theorems,
        families=[fam] + ([dict(_CODECW_FAM, obs_prefixes=obs + ["G"])] if codecw else []) + extra, vtags=vtags,
        technique="Lean 4 proof over a structural model of OwningIovec (invariants by induction over operation histories) + model/implementation correspondence with live-chunk registry hook",
        design_ref="DESIGN.md section 5, " + pid,
        level_text=text, level_note=_IOV_NOTE + partial,
        trusted_base=["hook H1 (ByteArena::verif_live_chunks) reports the allocator's live chunks faithfully"],
        assumptions=["single-threaded histories", "caller buffers outlive the iovec (the borrow checker's job)"],
    )

_iov("C03", "OwningIovec is a faithful FIFO byte pipe",
     ["Woodpile.Props.C03.op_refines", "Woodpile.Props.C03.reachable_refines", "Woodpile.Props.C03.fifo",
      "Woodpile.Props.C03.size_eq", "Woodpile.Props.C03.consume_reports", "Woodpile.Props.C03.consume_exact",
      "Woodpile.Props.C03.no_empty_slice", "Woodpile.Props.C03.no_panic_valid", "Woodpile.Props.C03.bad_token_panics"],
     ["Woodpile.Props.C03"], ["C03"], ["A", "R"],
     "Kernel-checked refinement of the structural OwningIovec model (Woodpile.Iovec) to the abstract byte pipe (Woodpile.Pipe) for every "
     "history of one iovec over push / push_copy / push_borrowed / extend / register_patch / backfill_or_panic (arbitrary tokens) / clear / "
     "arena flush+reserve / consume / pop_front / advance_slices / Read, any policy and tuning constants: per-op refinement under an "
     "inductive invariant (A.2 items 1-4, 6, 7), lifted to histories; FIFO ledger equation (consumed ++ stable ++ hidden cells = everything "
     "appended since the last clear with filled placeholders in place), total_size bookkeeping, exact consumer return values, no empty slice, "
     "and an exact characterisation of panics (pop on an empty stable prefix; stale / foreign / wrong-size backfill token). "
     "Correspondence of the model with the real crate over enumerated + random histories of the full producer/consumer API; shadow-buffer oracle.",
     " C03/C04 theorems cover single-iovec histories; clone / take / arena swap / foreign anchored slices are exercised by the "
     "correspondence run and the per-object shadow oracle only (the multi-object frame theorem is C20's).")
_iov("C04", "Pending backpatches are never observable; filled ones unblock everything",
     ["Woodpile.Props.C04.stable_prefix_has_no_hole", "Woodpile.Props.C04.stable_is_prefix_before_first_hole",
      "Woodpile.Props.C04.observed_bytes_immutable", "Woodpile.Props.C04.stable_slices_never_overwritten",
      "Woodpile.Props.C04.ok_iff_no_pending",
      "Woodpile.Props.C04.all_filled_unblocks"],
     ["Woodpile.Props.C04"], ["C04"], ["A", "R"],
     "Kernel-checked theorems on the structural model, for every history of one iovec (same vocabulary as C03): the stable prefix - from which "
     "every consumer-side view is computed - consists of byte cells only and is a prefix of the bytes before the first pending placeholder; "
     "a byte cell of the pipe (in particular every consumed or visible byte) never changes value or position until clear; "
     "has_pending_backrefs (iovs / flatten / stable_consumer Ok) is false exactly when no hole cell is left; with nothing pending the stable "
     "prefix is the whole content and consumed ++ visible equals everything appended with the backfilled values, for fills in any order. "
     "Correspondence + shadow-buffer oracle with placeholders.",
     " C03/C04 theorems cover single-iovec histories; clone / take / arena swap / foreign anchored slices are exercised by the "
     "correspondence run and the per-object shadow oracle only (the multi-object frame theorem is C20's).")
SPECS["C12"] = dict(
    title="MessageView is total on untrusted bytes and its accessors agree",
    lean_modules=["Woodpile.Props.C12"],
    theorems=[
        "Woodpile.Props.C12.new_no_panic",
        "Woodpile.Props.C12.new_accepts_iff",
        "Woodpile.Props.C12.accessors_agree",
        "Woodpile.Props.C12.no_panic",
        "Woodpile.Props.C12.values_tile",
        "Woodpile.Props.C12.oob_none",
        "Woodpile.Props.C12.std_search_ok",
        "Woodpile.Props.C12.find_sound",
        # track misc2 (claim-audit, C12 table)
        "Woodpile.Props.C12.find_tag_sound",
        "Woodpile.Props.C12.empty_message",
        "Woodpile.Props.C12.empty_message_trailing_bytes",
    ],
    families=[dict(name="tlvview", quick=3000, thorough=1500000)],
    technique="Lean 4 proof (all byte strings; checked slicing so that panic-freedom is a theorem) + model/implementation correspondence",
    design_ref="DESIGN.md section 5, C12",
    level_text=("Kernel-checked theorems about a Lean model of rough_tlv's MessageView (Woodpile.RoughTlv: View.new and every "
                "accessor, with every slice expression checked so that a panic is an observable `none`) for every byte string. "
                "The model is tied to /repo by running the real MessageView::new and all accessors "
                "(len/is_empty/tags/tags_match_exactly/iter/get/get_value/find_tag/find on indices 0..N+1, 2^32, usize::MAX and on "
                "present/absent tags) and the compiled model on the same inputs - every byte string of length <= 8 over "
                "{00,01,02,FF}, every string of <= 5 words over {0,1,2,3,4,FFFFFFFF} with 0..3 trailing bytes, and structured random "
                "headers (truncation at every length, N near the buffer size and near 2^32, equal/decreasing offsets and tags, "
                "offsets beyond the payload, trailing bytes, duplicate tags) - and diffing all results; a direct oracle re-checks the "
                "property on the real accessors against an acceptance predicate written from the property text."),
    level_note=("Trusted: Lean kernel + 3 standard axioms; the correspondence harness and its generators; core::slice::binary_search "
                "is modelled as Rust 1.95 implements it (last match among equal tags) and the theorems hold for any search that returns "
                "a matching index. For N = 0 trailing bytes after the count word are accepted and belong to no value (the tiling "
                "statement is about N >= 1)."),
    trusted_base=["Rust std slice::binary_search / slice indexing semantics (modelled, not verified)"],
    assumptions=["64-bit usize (8 * N cannot overflow for N < 2^32)"],
)

SPECS["C11"] = dict(
    title="Rough TLV round trip and layout: encode then view yields the same pairs",
    lean_modules=["Woodpile.Props.C11", "Woodpile.Props.C11S"],
    theorems=[
        "Woodpile.Props.C11S.sink_agnostic",
        "Woodpile.Props.C11.sort_is_stable",
        "Woodpile.Props.C11.accepted_entries",
        "Woodpile.Props.C11.encode_layout",
        "Woodpile.Props.C11.len_eq",
        "Woodpile.Props.C11.nested_lawful",
        "Woodpile.Props.C11.view_accepts",
        "Woodpile.Props.C11.view_roundtrip",
        "Woodpile.Props.C11.view_find",
        "Woodpile.Props.C11.reject_iff",
        "Woodpile.Props.C11.sorted_reject_iff",
        # track misc2 (claim-audit gap 12): the sink-call level
        "Woodpile.Props.C11.encode_pieces_flat",
        "Woodpile.Props.C11.encode_calls_layout",
        "Woodpile.Props.C11.calls_len_eq",
        "Woodpile.Props.C11.nested_lawful_every_depth",
        "Woodpile.Props.C11.dval_lawful",
        "Woodpile.Props.C11.view_find_tag",
        "Woodpile.Props.C11.reject_error_kind",
        "Woodpile.Props.C11S.sink_agnostic_any_pieces",
        "Woodpile.Props.C11S.sink_agnostic_driver",
    ],
    families=[dict(name="tlv", quick=3000, thorough=300000)],
    technique="Lean 4 proof (all pair lists, generic lawful value type, saturating usize/u32 arithmetic) + model/implementation correspondence",
    design_ref="DESIGN.md section 5, C11",
    level_text=("Kernel-checked theorems about a Lean model of rough_tlv's MessageWrapper (three constructors, compute_len with its "
                "saturating usize arithmetic, encode with its saturating u32 accumulation and asserts) and MessageView, for every "
                "list of pairs and every lawful value type (nested messages are an instance; accepted messages are proved lawful "
                "values). The model is tied to /repo by running the real constructors (value types Cow<[u8]>, Cow<str>, &[u8] and a "
                "harness enum with borrowed/owned bytes, nested messages up to depth 3 and values that only report a length, used "
                "for the 2^31 decision logic), to_rough_tlv into an OwningIovec and into an hcobs::Encoder sink, and MessageView on "
                "the result, against the compiled model on the same enumerated + random op sequences; a direct oracle compares the "
                "emitted bytes with an independently written reference layout, the emitted length with rough_tlv_len(), the view's "
                "iter/get/get_value/find/tags with the stably sorted pairs, the accept/reject decision with u128 arithmetic, and the "
                "HCOBS-sink output (decoded by the real Decoder) with the same reference."),
    level_note=("Trusted: Lean kernel + 3 standard axioms; the correspondence harness and its generators; std's sort_by_key is "
                "modelled as 'the' stable sort (unique result). Sizes near 2^31 are proved and exercised only through values that "
                "report a length (constructors only, never encoded); a pair count above i32::MAX is proved only (it would need a "
                "2^31-element slice; the count limit is implied by the total-size limit anyway). The HCOBS sink is checked by the "
                "harness oracle only (sink-agnosticism is a C02/C01 matter)."),
    trusted_base=["Rust std sort_by_key (stable) and slice::binary_search (modelled, not verified)"],
    assumptions=["64-bit usize"],
)

# ---- HCOBS (C01 / C02 / C07): families hcobs_enc / hcobs_dec (harness/src/fam_hcobs.rs, lean/Woodpile/Driver/Hcobs.lean).
# `lean_modules` / `theorems` are filled in when the proof tracks land.
_HCOBS_TB = ["OwningIovec is modelled by the abstract Pipe (Woodpile.Pipe); slice boundaries are not part of these properties",
             "reference codec in harness/src/fam_hcobs/refcodec.rs (written from the format description, literal constants 252 / 64008 / 253)"]
_HCOBS_ASSUME = ["64-bit usize; allocation failure (OOM abort) not modelled",
                 "arena reads (anchored input) use a well-behaved in-memory reader; faulty readers are C17's subject"]
_HCOBS_NOTE = ("Trusted: Lean kernel + 3 standard axioms; the correspondence harness and its generators (enumerated small cases with "
               "tiny limits through hook H2, random cases incl. production limits through the public API); the abstract Pipe as the "
               "specification of OwningIovec (C03/C04 tie it to the real iovec).")

SPECS["C01"] = dict(
    title="HCOBS round trip: decoding an encoded message returns the original bytes",
    lean_modules=["Woodpile.Props.C01", "Woodpile.Props.C01W", "Woodpile.Proofs.HcobsZerosImpl"],
    theorems=[
        "Woodpile.Props.C01.enc_impl_refines_spec",
        "Woodpile.Props.C01.enc_split_independent",
        "Woodpile.Props.C01.dec_impl_refines_spec",
        "Woodpile.Props.C01.dec_error_split_independent",
        "Woodpile.Props.C01.dec_error_classified",
        "Woodpile.Props.C01.dec_total",
        "Woodpile.Props.C01.dec_feed_reachable",
        "Woodpile.Props.C01.enc_inv_between_calls",
        "Woodpile.Props.C01.enc_asserts_unreachable",
        "Woodpile.Props.C01.enc_finish_asserts_unreachable",
        "Woodpile.Props.C01.enc_feed_reachable",
        "Woodpile.Props.C01.enc_refines_spec_drained",
        "Woodpile.Props.C01.dec_refines_spec_drained",
        "Woodpile.Props.C01.roundtrip_given_spec",
        "Woodpile.Props.C01.roundtrip",
        "Woodpile.Props.C01W.encWorld_no_panic_partial",
        "Woodpile.Props.C01W.encWorld_is_ops_partial",
        "Woodpile.Props.C01W.encWorld_abs_between_calls_partial",
        "Woodpile.Props.C01W.encWorld_abs_partial",
        "Woodpile.Props.C01W.enc_world_output_partial",
        "Woodpile.Props.C01W.world_roundtrip_partial",
        "Woodpile.Props.C01W.dec_world_output_partial",
        "Woodpile.Props.C01W.world_roundtrip_both_partial",
        "Woodpile.Hcobs.Zeros.encode_zeros",
        "Woodpile.Hcobs.Zeros.summarize_encode_zeros",
        "Woodpile.Hcobs.Zeros.zenc_output",
        "Woodpile.Hcobs.Zeros.zdec_output",
    ],
    families=[dict(name="hcobs_enc", quick=8000, thorough=200000, search=40000), dict(name="hcobs_dec", quick=8000, thorough=200000, search=40000)],
    vtags=["C01"],
    technique="Lean 4 proof (batch spec round trip; incremental encoder/decoder refine the spec for every segmentation) + model/implementation correspondence",
    design_ref="DESIGN.md section 5, C01; appendix A.1",
    level_text=("Kernel-checked theorems about the Lean models of the HCOBS encoder/decoder state machines (Woodpile.Hcobs.Enc/Dec over "
                "the abstract Pipe) and the batch format definition (Woodpile.Hcobs.Spec), for all byte strings, all segmentations, all "
                "input methods and all limits satisfying Params.Valid. The models are tied to /repo by running the real Encoder/Decoder "
                "(production limits through the public API, tiny limits through hook H2) and the compiled models on the same enumerated + "
                "random op sequences (pieces, methods b/c/a/r, drains by slices/bytes/Read) and diffing sizes, drained bytes, exposed "
                "prefix and final bytes after every call; a direct oracle feeds every encoder output back through the real Decoder "
                "(one call, and a random segmentation with mixed methods and drains) and compares with the input. "
                "Machine-integer range: the ops zenc / zdec run ONE encode / decode call on a piece of n zero bytes, n up to 2^32 + 100 in the "
                "thorough tier (lazily mapped zero buffer, outputs inspected slice by slice, every call under a 120 s watchdog; 3 MiB in the quick "
                "tier); the model replays them through the closed form of Spec.encode on zeros (Zeros.zeroSummary: size, chunks, last chunk, "
                "FNV-1a of the header bytes), proved equal to the summary of Spec.encode p (replicate n 0) for every n."),
    level_note=_HCOBS_NOTE,
    trusted_base=_HCOBS_TB,
    assumptions=_HCOBS_ASSUME,
)
SPECS["C01"]["level_text"] += (" Composition (Props/C01W, track enccomp): the same encoder/decoder state machines issuing the structural OwningIovec model's calls (Model/EncWorld, what family codecw runs against the real Encoder/Decoder) never panic, keep the iovec's abstraction equal to the abstract Pipe run of the same emits up to the renaming of placeholder ids, and drained ++ flatten = Spec.encode / the decoded data for every segmentation, borrow/copy method choice and drain schedule; `_partial` = the anchored input method is outside the proved iovec vocabulary.")

SPECS["C02"] = dict(
    title="HCOBS output never contains the stuff sequence, is split-independent, bounded",
    lean_modules=["Woodpile.Props.C02", "Woodpile.Props.C01", "Woodpile.Props.C02W"],
    theorems=[
        "Woodpile.Props.C02.prod_params_valid",
        "Woodpile.Props.C02.stuff_consts",
        "Woodpile.Props.C02.no_stuff",
        "Woodpile.Props.C02.no_stuff_infix",
        "Woodpile.Props.C02.no_stuff_at",
        "Woodpile.Props.C02.no_stuff_across_slices",
        "Woodpile.Props.C02.length_eq",
        "Woodpile.Props.C02.length_bound",
        "Woodpile.Props.C02.length_bound_prod",
        "Woodpile.Props.C01.enc_impl_refines_spec",
        "Woodpile.Props.C01.enc_split_independent",
        "Woodpile.Props.C01.dec_impl_refines_spec",
        "Woodpile.Props.C01.dec_error_split_independent",
        "Woodpile.Props.C01.dec_error_classified",
        "Woodpile.Props.C01.dec_total",
        "Woodpile.Props.C01.dec_feed_reachable",
        "Woodpile.Props.C01.enc_inv_between_calls",
        "Woodpile.Props.C01.enc_asserts_unreachable",
        "Woodpile.Props.C01.enc_finish_asserts_unreachable",
        "Woodpile.Props.C01.enc_feed_reachable",
        "Woodpile.Props.C01.enc_refines_spec_drained",
        "Woodpile.Props.C01.dec_refines_spec_drained",
        "Woodpile.Props.C01.roundtrip_given_spec",
        "Woodpile.Props.C01.roundtrip",
        "Woodpile.Props.C02W.enc_world_no_stuff_partial",
        "Woodpile.Props.C02W.enc_world_split_independent_partial",
        "Woodpile.Props.C02W.enc_world_length_bound_prod_partial",
    ],
    families=[dict(name="hcobs_enc", quick=8000, thorough=200000, search=40000)],
    vtags=["C02"],
    technique="Lean 4 proof (no FE FD in Spec.encode, implementation = spec for every segmentation, exact length formula) + model/implementation correspondence",
    design_ref="DESIGN.md section 5, C02; appendix A.1",
    level_text=("Kernel-checked theorems on the Lean HCOBS models: the encoded bytes contain no FE FD, equal Spec.encode of the "
                "concatenated input for every segmentation / method choice / drain schedule, and have length len + 1 + 2*(full chunks). "
                "Tied to /repo by the hcobs_enc correspondence run; the direct oracle scans drained ++ final bytes of the real encoder "
                "for FE FD, re-encodes the concatenation in one call and compares, and checks the literal bound "
                "len + 1 + 2*ceil(len/64008) for the production limits."),
    level_note=_HCOBS_NOTE,
    trusted_base=_HCOBS_TB,
    assumptions=_HCOBS_ASSUME,
)
SPECS["C02"]["level_text"] += (' Props/C02W restates no-stuff, split independence and the production length bound on the structural iovec model driven by the encoder (drained ++ bytes of all slices), `_partial` = borrow/copy methods only.')

SPECS["C07"] = dict(
    title="HCOBS wire format: canonical encoder, decoder accepts exactly the format",
    lean_modules=["Woodpile.Props.C07", "Woodpile.Props.C01", "Woodpile.Proofs.HcobsZerosImpl"],
    theorems=[
        "Woodpile.Props.C07.wire_consts",
        "Woodpile.Props.C07.wire_consts_model",
        "Woodpile.Props.C07.prod_params_valid",
        "Woodpile.Props.C07.encode_wellformed",
        "Woodpile.Props.C07.wellformed_iff_encode",
        "Woodpile.Props.C07.wf_unique",
        "Woodpile.Props.C07.decode_iff",
        "Woodpile.Props.C07.decode_total",
        "Woodpile.Props.C07.wellformed_decodes",
        "Woodpile.Props.C07.fuel_irrelevant",
        "Woodpile.Props.C07.tiny_valid",
        "Woodpile.Props.C01.enc_impl_refines_spec",
        "Woodpile.Props.C01.enc_split_independent",
        "Woodpile.Props.C01.dec_impl_refines_spec",
        "Woodpile.Props.C01.dec_error_split_independent",
        "Woodpile.Props.C01.dec_error_classified",
        "Woodpile.Props.C01.dec_total",
        "Woodpile.Props.C01.dec_feed_reachable",
        "Woodpile.Props.C01.enc_inv_between_calls",
        "Woodpile.Props.C01.enc_asserts_unreachable",
        "Woodpile.Props.C01.enc_finish_asserts_unreachable",
        "Woodpile.Props.C01.enc_feed_reachable",
        "Woodpile.Props.C01.enc_refines_spec_drained",
        "Woodpile.Props.C01.dec_refines_spec_drained",
        "Woodpile.Props.C01.roundtrip_given_spec",
        "Woodpile.Props.C01.roundtrip",
        "Woodpile.Hcobs.Zeros.encode_zeros",
        "Woodpile.Hcobs.Zeros.summarize_encode_zeros",
        "Woodpile.Hcobs.Zeros.zenc_output",
        "Woodpile.Hcobs.Zeros.zdec_output",
    ],
    families=[dict(name="hcobs_enc", quick=8000, thorough=200000, search=40000), dict(name="hcobs_dec", quick=8000, thorough=200000, search=40000)],
    vtags=["C07"],
    technique="Lean 4 proof (encoder = canonical encoding, decoder accepts iff well-formed, literal wire constants) + model/implementation correspondence",
    design_ref="DESIGN.md section 5, C07; appendix A.1",
    level_text=("Kernel-checked theorems on the Lean HCOBS models: Spec.encode produces the canonical chunk sequence, Spec.decode "
                "accepts exactly the well-formed chunk sequences ending on a short chunk, the incremental state machines equal the "
                "batch definitions for every segmentation, the decoder model is total, and the extracted constants are 252 / 64008 / 253 / FE FD. "
                "Tied to /repo by the hcobs_enc and hcobs_dec correspondence runs (valid encodings from the real encoder, truncation at "
                "every position, out-of-radix bytes in every header position, over-long lengths, garbage; verdict, error variant and payload, "
                "bytes); the direct oracle compares the real encoder and decoder with a reference codec written from the format "
                "description with literal production constants, re-decodes every input in one call, and reports panics. "
                "Machine-integer range: zenc / zdec (one call on n zero bytes, n up to 2^32 + 100 in the thorough tier, 3 MiB in the quick tier): "
                "every header of the real output is checked at its analytic offset against literal radix-253 digits, the decoder must return "
                "exactly n zero bytes from one >= 4 GiB slice reached mid-chunk, and a call that does not return within 120 s is reported; the "
                "model side is the closed form Zeros.zeroSummary, proved equal to the summary of Spec.encode p (replicate n 0) for every n."),
    level_note=_HCOBS_NOTE,
    trusted_base=_HCOBS_TB,
    assumptions=_HCOBS_ASSUME,
)

SPECS["C15"] = dict(
    title="SlidingDeque behaves like a double-ended queue with a contiguous view",
    lean_modules=["Woodpile.Props.C15"],
    theorems=[
        "Woodpile.Props.C15.inv_iff",
        "Woodpile.Props.C15.checkRep_iff_inv",
        "Woodpile.Props.C15.rep_inv_init",
        "Woodpile.Props.C15.refines_list",
        "Woodpile.Props.C15.rep_inv",
        "Woodpile.Props.C15.no_panic",
        "Woodpile.Props.C15.run_refines_list",
        "Woodpile.Props.C15.run_from_new",
        "Woodpile.Props.C15.run_snoc",
        "Woodpile.Props.C15.zdeque_step_is_length_image",
        "Woodpile.Props.C15.zdeque_run_is_length_image",
        "Woodpile.Props.C15.zdeque_run_spec",
        # track misc2 (claim-audit, C15 table): the checked Deref slice the drivers print
        "Woodpile.Props.C15.deref_is_view",
        "Woodpile.Props.C15.run_deref_refines_list",
        # session 3: "after every operation" with the prefix explicit
        "Woodpile.Props.C15.runRef_take",
        "Woodpile.Props.C15.after_every_operation",
    ],
    families=[dict(name="sdeque", quick=3000, thorough=200000)],
    technique="Lean 4 proof (representation invariant = check_rep, per-operation refinement of a List deque, induction over "
              "operation sequences) + model/implementation correspondence on Vec- and SmallVec-backed deques",
    design_ref="DESIGN.md section 5, C15",
    level_text=("Kernel-checked theorems about a Lean model of sliding_deque::SlidingDeque (Woodpile.SlidingDeque: every public "
                "method incl. maybe_slide/slide and every check_rep evaluation, panics = none) for every element type and every "
                "operation sequence: each operation returns what a reference List deque returns and leaves the same view "
                "(refines_list), the invariant consumed <= len/2 and (empty -> consumed = 0) is exactly check_rep and is preserved "
                "(rep_inv), hence no check_rep or bounds check fails (no_panic), lifted to all operation lists from new()/From "
                "(run_refines_list). The model is tied to /repo by running the real SlidingVec<u32> and SlidingSmallVec<[u32;4]> "
                "and the compiled model on all op sequences up to length 6 (7 thorough) over an 11-symbol alphabet plus random "
                "sequences up to 200 ops and diffing return values, slice views and lengths; a direct oracle compares both real "
                "deques with std VecDeque and checks the space bound on the real representation. Lengths and consumed prefixes "
                "near 2^63 / 2^64 are reached with zero-sized items: SlidingDeque<Vec<()>> and a deque over a length-publishing "
                "Vec<()> wrapper, from each of 9 edge lengths (0, 1, 2, 2^32, 2^63-1, 2^63, 2^63+1, usize::MAX-1, usize::MAX) x all "
                "sequences of 3 (4 thorough) symbols of a 14-symbol alphabet (advance by each edge count, pop_front, pop_back, "
                "push, slide, clear) plus random walks aimed at 'exactly half consumed'; the driver replays them on the "
                "length-only model ZDeque, proved to be the image of the list model under length (zdeque_step_is_length_image, "
                "zdeque_run_spec), diffing returned counts, len() and the backing length; the oracle is u128 reference "
                "arithmetic plus the space bound read off the wrapper."),
    level_note=("Trusted: Lean kernel + 3 standard axioms; the correspondence harness and its generators; Vec/SmallVec behind "
                "PushTruncateContainer (push/pop/truncate/slice) are modelled as a List. The space bound is not observable through "
                "the public API proper: the harness is built with debug assertions on, so a violation is a check_rep panic "
                "(reported as an oracle violation), and it is additionally read off the derived Debug output when that has the "
                "expected shape."),
    trusted_base=["std Vec / smallvec SmallVec implement push, pop, truncate and slices as a sequence (PushTruncateContainer)"],
    assumptions=["64-bit usize (lengths and advance counts are unbounded naturals in the model)",
                 "slide() is modelled as compiled with debug assertions; the release-build early return yields the same state",
                 "push_back onto a backing Vec<()> that already holds usize::MAX units is outside the property (std specifies a "
                 "capacity-overflow panic); the zero-sized-item run does not execute it"],
)

SPECS["C16"] = dict(
    title="SortedDeque behaves like an ordered map with append-only insertion",
    lean_modules=["Woodpile.Props.C16"],
    theorems=[
        "Woodpile.Props.C16.refines_ordered_map",
        "Woodpile.Props.C16.run_refines_ordered_map",
        # session 3: "after every operation" with the prefix explicit
        "Woodpile.Props.C16.runRef_take",
        "Woodpile.Props.C16.after_every_operation",
        "Woodpile.Props.C16.run_refines_from_container",
        "Woodpile.Props.C16.no_panic_valid",
        "Woodpile.Props.C16.ends_live",
        "Woodpile.Props.C16.push_panics_iff",
        "Woodpile.Props.C16.erased_push_noop",
        "Woodpile.Props.C16.reference_sorted",
        "Woodpile.Props.C16.present_key_found",
        "Woodpile.Props.C16.removed_key_not_found",
        "Woodpile.Props.C16.first_last_extreme",
        "Woodpile.Props.C16.pair_convention_lawful",
        "Woodpile.Props.C16.whole_item_lawful_of_distinct_keys",
        "Woodpile.Props.C16.whole_item_needs_distinct_keys",
        "Woodpile.Props.C16.pair_run_refines",
        # track misc2 (claim-audit gap 17): persistence of removals, sortedness from any state, whole-item run level
        "Woodpile.Props.C16.reference_sorted_from",
        "Woodpile.Props.C16.reachable_sorted",
        "Woodpile.Props.C16.present_key_found_impl",
        "Woodpile.Props.C16.gone_stays_gone",
        "Woodpile.Props.C16.removed_or_popped_vanishes",
        "Woodpile.Props.C16.gone_stays_gone_increasing",
        "Woodpile.Props.C16.gone_stays_gone_impl",
        "Woodpile.Props.C16.whole_run_refines",
        "Woodpile.Props.C16.whole_run_refines_of_keyed_values",
    ],
    families=[dict(name="sorted", quick=4000, thorough=200000)],
    technique="Lean 4 proof (ghost-list representation invariant, correctness of the modelled std binary search on sorted "
              "lists, per-operation refinement of a sorted association list, induction over operation sequences) + "
              "model/implementation correspondence for both item conventions on Vec- and SmallVec-backed deques",
    design_ref="DESIGN.md section 5, C16",
    level_text=("Kernel-checked theorems about a Lean model of sliding_deque::SortedDeque (Woodpile.SortedDeque, layered on the "
                "C15 SlidingDeque model; both check_reps, the push assertion, cleanup_front/back, and slice::binary_search_by "
                "written out as core 1.95 implements it and proved correct on sorted lists), generic in a comparator record whose "
                "laws are explicit hypotheses: for every valid operation sequence the results equal those of a reference ordered "
                "map (sorted list of present items), the run panics iff a push is not strictly greater than the last item, erased "
                "pushes are no-ops, both ends stay live; the reference is sorted, finds present keys, never finds removed ones, and "
                "first/last are min/max. The (Key, Option<Value>) convention satisfies the laws; whole-item ordering does when keys "
                "in play are distinct, and a proved counter-example shows the law is necessary (observation O2). The model is tied "
                "to /repo by running the real SortedDeque (pairs and a whole-item type, Vec and SmallVec<[_;4]>) and the compiled "
                "model on all sequences up to length 5 (6 thorough) over a 13-symbol/4-key alphabet plus random histories up to "
                "200 ops, diffing results, iteration, first/last/is_empty and probe lookups after every op; a direct oracle compares "
                "with std BTreeMap and checks that exactly the order-violating pushes panic. A 'large' generator profile (2 fixed "
                "cases per convention in quick, 12 in thorough, plus about 1 in 500-1000 random cases) takes one deque through "
                "small fill, middle tombstones, clear, refill with 400-3000 keys, removal of 55-95% of the inner keys in random "
                "order, then probes/pops/pushes, observing result, first/last/is_empty after every op and a count+FNV-1a digest "
                "of the iteration at intervals."),
    level_note=("Trusted: Lean kernel + 3 standard axioms; the correspondence harness and its generators. std's "
                "binary_search_by is re-modelled from its source (core 1.95), not verified against the compiled std; the "
                "theorems only need it to be a correct search on sorted slices. For whole-item ordering the theorem covers "
                "histories whose live pushes have distinct keys (a fixed key -> item assignment); the harness stays in that "
                "regime and silences the oracle outside it."),
    trusted_base=["std slice::binary_search_by behaves as its core 1.95 source (re-modelled in Woodpile.SortedDeque.binarySearchBy)",
                  "std Vec / smallvec SmallVec implement push, pop, truncate and slices as a sequence (PushTruncateContainer)"],
    assumptions=["64-bit usize (cleanup_front's usize::MAX default is 2^64-1 in the model; lengths are unbounded naturals)",
                 "SortedDeque::new(container, marker) is given a strictly sorted container with live ends (it is not checked by the code)"],
)


# ---------------------------------------------------------------------------------------------
# C09: abstract half on Pipe (Props/C09.lean, track himpl) + structural half through the codecw family
SPECS["C09"] = dict(
    title="Streaming codecs: drained output is a prefix of the result; lag is bounded",
    lean_modules=["Woodpile.Props.C09", "Woodpile.Props.C09W"],
    theorems=[
        "Woodpile.Props.C09.drain_commutes",
        "Woodpile.Props.C09.drain_commutes_step",
        "Woodpile.Props.C09.drain_prefix",
        "Woodpile.Props.C09.drain_complete",
        "Woodpile.Props.C09.enc_one_pending",
        "Woodpile.Props.C09.enc_lag_pipe",
        "Woodpile.Props.C09.dec_appends_only",
        "Woodpile.Props.C09.dec_lag_zero",
        "Woodpile.Props.C09W.enc_lag_struct_partial",
        "Woodpile.Props.C09W.enc_lag_le_partial",
        "Woodpile.Props.C09W.enc_lag_le_prod_partial",
        "Woodpile.Props.C09W.alloc_cap_le_prod",
        "Woodpile.Props.C09W.dec_lag_zero_world_partial",
    ],
    families=[dict(name="hcobs_enc", quick=3000, thorough=100000, search=20000),
              dict(name="hcobs_dec", quick=2000, thorough=60000, search=20000),
              dict(name="codecw", quick=160, thorough=4000, search=800, shards=dict(quick=8, thorough=16), obs_prefixes=["A", "S", "G", "R"])],
    vtags=["C09"],
    technique="Lean 4 proof (drains commute with producer ops on the abstract pipe; one pending placeholder; lag formula) + model/implementation correspondence incl. the structural model driven by the codec",
    design_ref="DESIGN.md section 5, C09",
    level_text=("Kernel-checked theorems on the abstract Pipe and the HCOBS state machines: consuming at any moments commutes with the producer, "
                "drained ++ stable is always a prefix of the final output, drained ++ finish is complete, the encoder keeps exactly one pending "
                "placeholder between calls with lag = header + current chunk <= 2 + maxChunk bytes at the Pipe level, the decoder emits no placeholder "
                "(lag 0). The structural lag (whole slices hidden behind the pending header: at most one arena chunk more) is tied to /repo by the codecw "
                "family: the codec models drive the structural iovec model and slice placement, lag and stable bytes are diffed against the real "
                "Encoder/Decoder after every call and drain; direct oracles check prefix/completeness (hashing every snapshot) and the constant bound "
                "1 MiB + 64008 + 2 on the real encoder, 0 on the real decoder."),
    level_note=("Trusted: Lean kernel + 3 standard axioms; correspondence harness; the structural part of the lag bound (a hidden slice never "
                "exceeds one arena chunk) is checked by correspondence and oracle, its theorem lives with the Layer B proofs (C03-C05)."),
    trusted_base=["abstract Pipe as specification of OwningIovec (tied by C03/C04)"],
    assumptions=["64-bit usize"],
)
SPECS["C09"]["level_text"] += (' Props/C09W (track enccomp): structural lag of the encoder-driven iovec model between calls = offset of the pending header in its (owned, single-chunk) slice + header + current chunk, exactly; the constant bound 2^20+64008+2 is proved given the arena in-capacity invariant (hypothesis; ArenaInv of track iovinv) and findHintSize <= 2^20 for requests < 2^20 (proved from the extracted tuning); decoder lag 0 on the iovec; `_partial` = borrow/copy methods only.')

# ---- track abt: AtomicBaseTime (C13, C18) -----------------------------------------------------------
_ABT_TRUST = ("Partial by nature: the theorems are about two memory-model MACHINES (sequentially consistent interleaving; a "
              "release/acquire view machine with per-location message lists and per-thread views) running hand-written thread "
              "programs; that the view machine renders the Rust/C++20 memory model for this access pattern, and that one atomic "
              "access = one step, are trusted. The programs are tied to /repo by hook H3: every access of the real "
              "snapshot/update/try_update/get_base_time_unlocked (location, kind, ORDERING, value stored, retry rule, lock "
              "operations) is compared with the model's trace for every control path (trace validation), whole executions "
              "(schedules x reads-from from the harness's own RA simulator) are replayed step by step on the Lean machines, and a "
              "bounded exhaustive schedule x reads-from search on the real functions looks for a failing execution (used only to "
              "find inputs, never as proof). Sequence-counter wrap-around after 2^64 updates is excluded (seq is a Nat).")

SPECS["C13"] = dict(
    title="AtomicBaseTime snapshots are never torn and never go backwards, on any schedule",
    lean_modules=["Woodpile.Props.C13", "Woodpile.Props.C13R"],
    theorems=[
        "Woodpile.Props.C13R.epoch_pair_checks",
        "Woodpile.Props.C13R.ra_no_panic_real",
        "Woodpile.Props.C13R.ra_returned_pairs_check_real",
        "Woodpile.Props.C13.sc_invariant",
        "Woodpile.Props.C13.sc_hist_is_accepted_updates",
        "Woodpile.Props.C13.sc_snapshot_not_torn",
        "Woodpile.Props.C13.sc_snapshot_in_history",
        "Woodpile.Props.C13.sc_no_panic",
        "Woodpile.Props.C13.sc_history_valid",
        "Woodpile.Props.C13.sc_recent",
        "Woodpile.Props.C13.sc_per_thread_monotone",
        "Woodpile.Props.C13.sc_published_monotone",
        "Woodpile.Props.C13.sc_stale_update_ignored",
        "Woodpile.Props.C13.ra_invariant",
        "Woodpile.Props.C13.ra_hist_is_accepted_updates",
        "Woodpile.Props.C13.ra_snapshot_not_torn",
        "Woodpile.Props.C13.ra_snapshot_in_history",
        "Woodpile.Props.C13.ra_no_panic",
        "Woodpile.Props.C13.ra_history_valid",
        "Woodpile.Props.C13.ra_start_records_view",
        "Woodpile.Props.C13.ra_recent",
        "Woodpile.Props.C13.ra_per_thread_monotone",
        "Woodpile.Props.C13.ra_published_monotone",
        "Woodpile.Props.C13.ra_stale_update_ignored",
    ],
    families=[dict(name="abt", quick=1500, thorough=60000)],
    vtags=["C13"],
    technique="Lean 4 proof (inductive invariant over all schedules / reads-from choices of an SC machine and a release/acquire "
              "view machine, any number of threads and operations) + H3 trace validation of the real functions + bounded RA exploration oracle",
    design_ref="DESIGN.md section 5 C13, section 3.5 (H3), appendix A.3",
    level_text=("Kernel-checked theorems about Lean small-step models of AtomicBaseTime::{snapshot, update, try_update, advance_once} "
                "(one atomic access or lock operation per step, with the code's locations and orderings) on a sequentially consistent "
                "machine and on a release/acquire view machine, for every schedule, every reads-from choice, any number of threads and "
                "operations: inductive invariant, snapshots never torn / always a published pair or the epoch pair / never panic / at "
                "least as recent as every update that happened-before the snapshot began, per-thread monotone, stale updates ignored."),
    level_note=_ABT_TRUST,
    trusted_base=["the release/acquire view machine as a rendering of the Rust memory model for the orderings used (DESIGN.md section 8)",
                  "hook H3 (verif_shim) reports every access of atomic_base_time.rs faithfully; std::sync::Mutex provides mutual exclusion and release/acquire transfer"],
    assumptions=["sequence counter does not wrap (fewer than 2^64 accepted updates)", "64-bit usize"],
)

SPECS["C18"] = dict(
    title="AtomicBaseTime readers and try_update never wait for a writer",
    lean_modules=["Woodpile.Props.C18"],
    theorems=[
        "Woodpile.Props.C18.snapshot_no_lock",
        "Woodpile.Props.C18.sc_only_update_lock_blocks",
        "Woodpile.Props.C18.sc_try_update_nonblocking",
        "Woodpile.Props.C18.try_update_bounded",
        "Woodpile.Props.C18.sc_solo_snapshot_terminates",
        "Woodpile.Props.C18.sc_retry_only_on_publish",
        "Woodpile.Props.C18.ra_only_update_lock_blocks",
        "Woodpile.Props.C18.ra_try_update_nonblocking",
        "Woodpile.Props.C18.ra_solo_snapshot_terminates",
        "Woodpile.Props.C18.ra_retry_only_on_publish",
        "Woodpile.Props.C18.unlocked_inherits",
    ],
    families=[dict(name="abt", quick=1500, thorough=60000)],
    vtags=["C18"],
    technique="Lean 4 proof (termination measure for a reader run alone from any reachable state of the SC / release-acquire "
              "machines with writers frozen anywhere) + H3 trace validation + suspension-point enumeration on the real functions",
    design_ref="DESIGN.md section 5 C18, section 3.5 (H3), appendix A.3",
    level_text=("Kernel-checked theorems about the same models as C13: the snapshot program contains no lock operation and no store; "
                "from any reachable state, with every other thread frozen anywhere (including a writer holding the lock forever), a "
                "reader run alone finishes within a bound on its own steps; a retry implies a newer sequence message; try_update "
                "returns false in one step when the lock is held; get_base_time_unlocked is snapshot."),
    level_note=_ABT_TRUST + " Boundedness is in the model's steps (atomic operations of the thread itself); OS scheduling fairness is outside any model.",
    trusted_base=["the release/acquire view machine as a rendering of the Rust memory model for the orderings used (DESIGN.md section 8)",
                  "hook H3 (verif_shim) reports every access of atomic_base_time.rs faithfully"],
    assumptions=["sequence counter does not wrap (fewer than 2^64 accepted updates)", "64-bit usize"],
)

_iov("C05", "Every slice handed out points into live memory",
     ["Woodpile.Props.C05.slice_guarded",
      "Woodpile.Props.C05.detached_anchored",
      "Woodpile.Props.C05.cache_holds_chunk",
      "Woodpile.Props.C05.reachable_has_caps",
      "Woodpile.Props.C05.exposed_live",
      "Woodpile.Props.C05.below_bump",
      "Woodpile.Props.C05.no_overlap",
      "Woodpile.Props.C05.released_only_when_unreachable"],
     ["Woodpile.Props.C05"], ["C05"], ["A", "S", "T", "L", "R"],
     "Kernel-checked invariants of the structural multi-object model over ALL histories of the iovec op vocabulary (World.step, cross-checked "
     "against the driver at compile time): (G) every owned slice is guarded by an anchor at or after the one that counts it, (A) detached slices "
     "carry their chunk's anchor, (C) caches hold their chunk, (B) one cache per chunk, every slice of every object below the bump pointer and inside "
     "the chunk's allocation-time capacity, fresh allocations above everything readable (no_overlap); exposed_live / released_only_when_unreachable. "
     "Correspondence of slice placement and live-chunk set with the real allocator through hook H1; containment oracle incl. scripted "
     "anchored-slice ownership scenarios.",
     " PARTIAL BY NATURE: memory safety of the compiled unsafe code is sampled (registry + debug poisoning), not proved. The anchored codec "
     "input is modelled as the composite push(slice); push_anchor(anchor); the raw unsafe components() route is the caller's obligation.", codecw=True)
_iov("C10", "Arena memory is reclaimed: no leak after drop, bounded footprint in streaming",
     ["Woodpile.Props.C10.live_iff_held",
      "Woodpile.Props.C10.drop_all_releases",
      "Woodpile.Props.C10.dropAll_releases",
      "Woodpile.Props.C10.consumed_anchors_released",
      "Woodpile.Props.C10.front_anchor_counts",
      "Woodpile.Props.C10.findHintSize_le",
      "Woodpile.Props.C10.streaming_footprint",
      "Woodpile.Props.C10.streaming_footprint_prod"],
     ["Woodpile.Props.C10"], ["C10"], ["L"],
     "Kernel-checked: dropping every object leaves no holder (derived liveness); anchors are released from the front as soon as their slices are "
     "consumed; streaming footprint: for one iovec fed by push_copy/register_patch/backfill (<= P bytes per push, one pending placeholder, <= B bytes "
     "behind it) and drained after every call, the live chunks are covered by at most 2B/m0+2 chunks of capacity <= S (production: 33 x 1 MiB for the "
     "HCOBS encoder; findHintSize_le for the extracted tuning constants). Correspondence of the live-chunk set after every operation; leak oracle on "
     "the process-wide counters at the end of every history.",
     " PARTIAL BY NATURE: leaks below the model (Arc/Box internals) are only visible to the counters. The footprint constant is not tight "
     "(every chunk is charged the minimum capacity); foreign AnchoredSlices / borrowed pushes are excluded from the streaming pattern.", codecw=True)
_iov("C20", "A cloned or taken OwningIovec is an independent snapshot",
     ["Woodpile.Props.C20.clone_copies",
      "Woodpile.Props.C20.take_moves_all",
      "Woodpile.Props.C20.take_keeps_backfill",
      "Woodpile.Props.C20.frame_struct",
      "Woodpile.Props.C20.frame_valid",
      "Woodpile.Props.C20.frame_heap",
      "Woodpile.Props.C20.clone_independent_nonfill",
      "Woodpile.Props.C20.pending_private",
      "Woodpile.Props.C20.creach_has_history",
      "Woodpile.Props.C20.clone_independent"],
     ["Woodpile.Props.C20"], ["C20"], ["A", "R"],
     "Kernel-checked on the multi-object world model: clone_copies, take_moves_all (+ tokens still backfill the taken value), frame_struct / "
     "frame_valid for every op, frame_heap (every heap write lands above every existing slice of its chunk, or in a pending range of the backfilled "
     "iovec), pending_private, clone_independent for every op. Correspondence over histories with clone/take and interleaved suffixes "
     "on both sides; per-object shadow oracle checked on every object after every operation.",
     " clone_independent is proved at full strength (incl. backfill) for histories that clone only iovecs with no placeholder pending "
     "(pending_private: no other object's slice covers a pending placeholder range; the premise is shown necessary by a model counter-example).")

SPECS["C14"] = dict(
    title="VouchedTime exists only inside the allowed window around a vouched base time",
    lean_modules=["Woodpile.Props.C14"],
    theorems=[
        "Woodpile.Props.C14.window_consts",
        "Woodpile.Props.C14.check_vouch",
        "Woodpile.Props.C14.check_injective",
        "Woodpile.Props.C14.voucher_unique",
        "Woodpile.Props.C14.new_ok_iff",
        "Woodpile.Props.C14.new_ok_iff_fits",
        "Woodpile.Props.C14.no_panic",
        "Woodpile.Props.C14.reports_local_time",
        "Woodpile.Props.C14.now_same_rule",
        "Woodpile.Props.C14.wrap_counterexample",
        "Woodpile.Props.C14.trunc_counterexample",
        # track misc2 (claim-audit gap 20): raffle tags and the calendar range re-extracted from the resolved crates
        "Woodpile.Props.C14.raffle_consts",
        "Woodpile.Props.C14.raffle_names",
        "Woodpile.Props.C14.local_range_consts",
    ],
    families=[dict(name="vtime", quick=3000, thorough=400000)],
    technique=("Lean 4 proof (integer/UInt64 arithmetic over all local times x 2^64 base times x 2^64 vouchers; ring identities "
               "of the raffle voucher in Z/2^64 for the extracted parameters) + model/implementation correspondence"),
    design_ref="DESIGN.md section 5, C14",
    level_text=("Kernel-checked theorems about a Lean model of raffle's check/vouch (exact wrapping u64 arithmetic) and of "
                "VouchedTime::check_vouched_time/check/new/check_or_die/get_local_time/now (i128 as Int, div_euclid, the <0 and "
                ">u64::MAX guards, the signed window): new succeeds iff the voucher checks, the local time is not before the epoch "
                "and floor(local/1ms) - base is in [-59900, 2990], for every representable local time (and every one whose "
                "millisecond count fits a u64), all 2^64 base times and all vouchers; no panic site is reachable; a constructed "
                "value reports its construction time; now() is new() on the clock reading. The voucher check is characterised "
                "completely (check x v iff v = the crate's own voucher of x) for the parameter strings re-extracted from /repo on "
                "every run; the literal window constants are re-checked against the extracted ones. The old wrapping / truncating "
                "formulas (findings F4, F5) are proved to violate the rule. The model is tied to /repo by running the real "
                "VouchedTime and raffle code and the compiled model on the same enumerated + random triples (both window edges "
                "+-1 ms, epoch +-1 ns/ms, calendar MIN/MAX, base times at 0, 2^63, 2^64-1-k and wrapped around 2^64, own / "
                "foreign / corrupted vouchers, now() with provider answers on both sides of both edges) and diffing verdicts and "
                "error classes; a direct oracle evaluates the property's rule in i128 on the real results."),
    level_note=("Trusted: Lean kernel + 3 standard axioms; the correspondence harness and its generators; the time crate's "
                "PrimitiveDateTime <-> unix_timestamp_nanos conversion (the model starts from the nanosecond count; MIN/MAX are "
                "compared with the real crate's on every run); the clock reading inside now() is an input of the model (reported "
                "by the harness's provider closure)."),
    trusted_base=["time crate: PrimitiveDateTime::assume_utc().unix_timestamp_nanos() is the nanosecond count of the date-time",
                  "raffle crate is re-modelled from its source (check.rs, vouch.rs) and compared numerically on every run"],
    assumptions=["time crate built without the large-dates feature (years -9999..=9999; checked by the `limits` op)"],
)

SPECS["C19"] = dict(
    title="The NFS base time only moves forward, and only on evidence from trusted devices",
    lean_modules=["Woodpile.Props.C19"],
    theorems=[
        "Woodpile.Props.C19.base_monotone",
        "Woodpile.Props.C19.changes_only_to_trusted_ctime",
        "Woodpile.Props.C19.trust_changes_only_by_add",
        "Woodpile.Props.C19.untrusted_reports_none_and_noop",
        "Woodpile.Props.C19.returned_pairs_check",
        "Woodpile.Props.C19.no_panic",
    ],
    # every case is a forked process working on real files, some wait out a refresh threshold (1-2 s):
    # few cases, spread over many shards
    families=[dict(name="nfs", quick=64, thorough=3000, search=800, shards=dict(quick=8, thorough=16))],
    technique=("Lean 4 proof (invariant + induction over all call histories, OS answers as universally quantified inputs) "
               "+ model/implementation correspondence on real files of two devices, one forked process per history"),
    design_ref="DESIGN.md section 5, C19",
    level_text=("Kernel-checked theorems about a Lean model of vouched_time::nfs_voucher (Woodpile.NfsVoucher: TRUSTED_PATHS as a "
                "device-sorted map, the base-time cell under AtomicBaseTime's sequential specification, update_base_time, "
                "add_trusted_path, observe_file_time, maybe_observe_file_time, scan_base_time / scan_for_base_time_impl, "
                "get_base_time, get_base_time_unlocked, should_refresh_base_time) over ALL histories (List Call) in which every "
                "operating-system answer - open failures, the device id and change-time stat reports (any i64, negative included), "
                "the clock, the 100 ms rate limiter - is a universally quantified input: the base time never decreases between any "
                "two points of a history; whenever the cell changes it holds exactly the change-time (ms) and voucher of a file "
                "presented to that call on a device trusted before the call or registered by it; the trusted set changes only "
                "through add_trusted_path; observing a file on an untrusted device returns None and leaves the state untouched; "
                "every returned (base, voucher) pair passes BASE_TIME_CHECK (VouchedTime::check never answers 'bad voucher'); no "
                "assertion / expect in the module, the cell or raffle::vouch is reachable. The model is tied to /repo by running "
                "the real module in a freshly forked process per history on real files on / (ext4) and /dev/shm (tmpfs) plus "
                "read-only files on a third device: older and freshly touched change-times, before/after trust is established, "
                "registered paths removed or moved to another device, explicit now values at leeway and leeway+1 ms, the unclocked "
                "policy both rate-limited and after really waiting past the 1000 ms / 1993 ms thresholds; the harness reports the "
                "OS answers (device, ctime) it observed to the compiled model and the two observation streams (results and the "
                "base time after every call) are diffed; a direct oracle with its own shadow of the trusted devices checks "
                "monotonicity, justification of every change, untrusted no-ops and the voucher check on the real results."),
    level_note=("PARTIAL BY NATURE: the file system is an input of the model. That stat reports the device and change-time the "
                "kernel holds, that File::set_times bumps ctime, and that a file descriptor's device does not change between the "
                "two metadata() calls of add_trusted_path are trusted, as is the harness's reading of the same values after the "
                "call. The cell is the *sequential* specification of AtomicBaseTime (single-threaded histories; try_update's "
                "WouldBlock/poison arms cannot occur); concurrency is C13/C18. The thread-local rate limiter is an input bit; "
                "cases where the harness cannot determine it from timing are abandoned on both sides (reported as "
                "'ambiguous'), never guessed. Negative change-times saturate the base time at 2^64-1 (observation O3): the model "
                "follows the code and the theorems hold for them, but no real file has one."),
    trusted_base=["OS: stat(2) device ids and change-times; tmpfs/ext4 ctime update on chmod / utimensat",
                  "fork(2) isolates the process-global module state per history",
                  "AtomicBaseTime behaves as its sequential specification in single-threaded use (C13 covers the concurrent cell)"],
    assumptions=["two distinct devices are available (`/` and /dev/shm) and writable",
                 "single-threaded histories"],
)

SPECS["C08"] = dict(
    title="StreamChunker tiles the input stream exactly, sentinels never hidden in data",
    lean_modules=["Woodpile.Props.C08"],
    theorems=[
        "Woodpile.Props.C08.clamp_in_code",
        "Woodpile.Props.C08.pumps_succeed_and_tile",
        "Woodpile.Props.C08.tiles_of_run",
        "Woodpile.Props.C08.eof_only_at_end",
        "Woodpile.Props.C08.tiling",
        "Woodpile.Props.C08.eof_reached",
        "Woodpile.Props.C08.offsets_are_ends",
        "Woodpile.Props.C08.sentinel_is_occurrence",
        "Woodpile.Props.C08.data_nonempty_stuff_free",
        "Woodpile.Props.C08.no_straddle",
        "Woodpile.Props.C08.chunks_regroup_to_segments",
        "Woodpile.Props.C08.attempts_irrelevant",
        "Woodpile.Props.C08.arena_irrelevant",
    ],
    families=[dict(name="chunker", quick=3000, thorough=64000)],
    technique="Lean 4 proof (invariant over pump calls on top of the read_n model; all streams, well-behaved read schedules, "
              "block sizes and arena states) + model/implementation correspondence + reference splitter oracle",
    design_ref="DESIGN.md section 5, C08 (finding F1, observation O1)",
    level_text=("Kernel-checked theorems about a Lean model of StreamChunker::pump (Woodpile.Stream.pump: Read::chain of the "
                "carry-over with the reader, read_n with unbounded attempts, the refill loop, the sentinel / split-position arms) "
                "for every stream, every well-behaved read script (short reads of any size >= 1, Interrupted retries, EOF only at "
                "the real end), every per-call block size including 0 and 1, every arena state and every clamp >= 2 (the code's "
                "clamp is re-extracted and checked): every call returns a chunk, emitted ++ buf ++ unread = stream, offsets are "
                "end positions, Eof only at the end and sticky, Eof reached, Data chunks non-empty and FE FD-free, no straddle, "
                "every Sentinel is an occurrence and regrouping the chunks yields exactly the left-to-right FE FD split of the "
                "stream. The old clamp (1) is shown to break it (F1 witness). The model is tied to /repo by running the real "
                "pump and the compiled model on the same enumerated (all streams over {FE,FD,01,61} up to length 5/6 x block "
                "sizes 0-4 x read sizes) and random cases and diffing chunks, offsets, request sizes and reader positions; a "
                "shadow-state oracle with a reference splitter re-checks the property on the real chunks."),
    level_note=("Trusted: Lean kernel + 3 standard axioms; the correspondence harness and its generators; std's Read::chain is "
                "modelled (carry handed over by the first read). Hard I/O errors and premature zero-byte reads are exercised for "
                "correspondence only (outside the property's quantifier, observation O1)."),
    trusted_base=["std::io::Read::chain semantics (first reader until it returns 0, then the second)"],
    assumptions=["64-bit usize; scripts shorter than usize::MAX answers; stream offsets below 2^64"],
)

SPECS["C06"] = dict(
    title="StreamReader returns exactly the valid delimited records of any byte stream",
    lean_modules=["Woodpile.Props.C06", "Woodpile.Props.C06U", "Woodpile.Props.C01"],
    theorems=[
        "Woodpile.Props.C06U.hdec_prod",
        "Woodpile.Props.C06U.prod_valid",
        "Woodpile.Props.C06U.split_indep_prod",
        "Woodpile.Props.C06U.decodePieces_is_spec",
        "Woodpile.Props.C06U.reader_keepgoing",
        "Woodpile.Props.C06U.reader_std_judge",
        "Woodpile.Props.C01.enc_impl_refines_spec",
        "Woodpile.Props.C01.enc_split_independent",
        "Woodpile.Props.C01.dec_impl_refines_spec",
        "Woodpile.Props.C01.dec_error_split_independent",
        "Woodpile.Props.C01.dec_error_classified",
        "Woodpile.Props.C01.dec_total",
        "Woodpile.Props.C01.dec_feed_reachable",
        "Woodpile.Props.C01.enc_inv_between_calls",
        "Woodpile.Props.C01.enc_asserts_unreachable",
        "Woodpile.Props.C01.enc_finish_asserts_unreachable",
        "Woodpile.Props.C01.enc_feed_reachable",
        "Woodpile.Props.C01.enc_refines_spec_drained",
        "Woodpile.Props.C01.dec_refines_spec_drained",
        "Woodpile.Props.C01.roundtrip_given_spec",
        "Woodpile.Props.C01.roundtrip",
        "Woodpile.Props.C06.recordsAll_eq",
        "Woodpile.Props.C06.recordsStd_eq",
        "Woodpile.Props.C06.expectedSeq_spelled_out",
        "Woodpile.Props.C06.splitIndep_of_spec",
        "Woodpile.Props.C06.decodePieces_eq_spec",
        "Woodpile.Props.C06.reader_keepgoing",
        "Woodpile.Props.C06.reader_std_judge",
        "Woodpile.Props.C06.reader_total",
        "Woodpile.Props.C06.reader_schedule_independent",
        "Woodpile.Props.C06.reader_generic_judge",
        "Woodpile.Props.C06.std_judges_ok",
        "Woodpile.Props.C06.last_sentinel_offset_correct",
        "Woodpile.Props.C06.clamp_in_code",
        "Woodpile.Props.C06.resync_segment",
        "Woodpile.Props.C06.resync",
    ],
    families=[dict(name="reader", quick=3000, thorough=48000)],
    technique="Lean 4 proof (per-chunk invariant of next_record_bytes over the C08 chunker model and the incremental decoder "
              "model; all streams, well-behaved read schedules, block sizes, judge parameters) + model/implementation "
              "correspondence + reference splitter/decoder oracle",
    design_ref="DESIGN.md section 5, C06 (finding F1, observation O1)",
    level_text=("Kernel-checked theorems about a Lean model of StreamReader::next_record_bytes (Woodpile.Stream.next: retry loop, "
                "SkipSentinel/DecodeRecord/SkipRecord states, judge consultation after every chunk, decode_anchored through the "
                "incremental decoder model Dec with production parameters, all five assertions as panics) on top of the C08 chunker "
                "model, for every stream, every well-behaved read script, every io_block_size, arena state and clamp >= 2: with the "
                "always-KeepGoing judge successive calls return exactly [(decoded, range) | non-empty FE FD-free segments of the "
                "stream that Dec accepts] in order and then None forever; with chunk_judge(max, limit) the same filtered by decoded "
                "size <= max and cut at the first segment start >= limit; never an error or a panic; results independent of "
                "schedule/block size/arena; a delimiter-free valid piece between two delimiters is returned with its exact range "
                "whatever bytes surround it (resync). The theorems assume split-independence of the incremental decoder "
                "(SplitIndep prod), which follows from the C01/C07 refinement theorem Dec = Spec.decode (splitIndep_of_spec); under "
                "it the per-segment decoder is Spec.decode (decodePieces_eq_spec). The model is tied to /repo by running the real "
                "StreamReader and the compiled model on the same enumerated (all streams over {FE,FD,00,01,61} up to length 5 x "
                "block sizes x read sizes; the crate's test vectors x limits; scripted judges) and random cases (valid records, torn "
                "writes, corruption, garbage, delimiter runs, block-aligned delimiters, EINTR, hard errors) and diffing records, "
                "ranges, last_sentinel_offset and reader positions; an independent Rust reference splitter + reference HCOBS decoder "
                "oracle re-checks the property on the real results."),
    level_note=("Trusted: Lean kernel + 3 standard axioms; the correspondence harness and its generators; the SplitIndep hypothesis "
                "until the coordinator discharges it from the decoder refinement theorem. Arbitrary FnMut judges are modelled "
                "(history-dependent), exercised by correspondence (scripted verdict lists) and covered by reader_generic_judge "
                "(never panics, output before the first None is a sub-list of the KeepGoing output) under the side condition "
                "JudgeOK; a judge answering SkipRecord on an empty range makes the real code panic "
                "(assert_eq!(range.is_empty(), state == SkipSentinel)), reproduced by model and harness alike (reported as an "
                "observation). last_sentinel_offset is a theorem for judges that never Stop (last_sentinel_offset_correct), and is compared by correspondence and checked by the oracle in all cases."),
    trusted_base=["std::io::Read::chain semantics", "SplitIndep prod (discharged by the C01/C07 decoder refinement theorem)"],
    assumptions=["64-bit usize; limit_offset None = u64::MAX is modelled as 'never'; streams shorter than 2^64 bytes"],
)

# ---- track glue: the three Layer-B vocabularies connected (Props/C05G), C09's in-capacity hypothesis discharged (Props/C09G)
SPECS["C05"]["lean_modules"] += ["Woodpile.Props.C05G"]
SPECS["C05"]["theorems"] += [
    "Woodpile.Props.C05G.op_is_wstep",
    "Woodpile.Props.C05G.push_is_wrun",
    "Woodpile.Props.C05G.xop_is_wstep",
    "Woodpile.Props.C05G.op_run_worldInv",
    "Woodpile.Props.C05G.op_run_arenaInv",
    "Woodpile.Props.C05G.xop_run_arenaInv",
    "Woodpile.Props.C05G.enc_run_arenaInv",
    "Woodpile.Props.C05G.good_exposed_live",
    "Woodpile.Props.C05G.good_below_bump",
]
SPECS["C05"]["level_text"] += (' Props/C05G (track glue): the step vocabulary has three more ops (lend, pushAt, pushBorrowedAt: push of a SUB-slice '
    'of a known caller buffer; same model functions) so that every step of the single-iovec vocabulary of C03/C04 (Op) and of the codec-over-iovec '
    'vocabulary (XOp) IS a run of one or two steps of this vocabulary on the same world (op_is_wstep, xop_is_wstep); WorldInv and ArenaInv therefore '
    'hold in every state reachable by Op / XOp histories and in every state of an HCOBS encoder run (op_run_worldInv, op_run_arenaInv, '
    'xop_run_arenaInv, enc_run_arenaInv), and exposed_live / below_bump are restated from the two invariants.')
SPECS["C09"]["lean_modules"] += ["Woodpile.Props.C09G"]
SPECS["C09"]["theorems"] += [
    "Woodpile.Props.C09G.enc_slices_in_cap_partial",
    "Woodpile.Props.C09G.enc_lag_le_partial",
    "Woodpile.Props.C09G.enc_lag_le_prod_partial",
]
SPECS["C09"]["level_text"] += (' Props/C09G (track glue): the in-capacity hypothesis of C09W.enc_lag_le_partial is DISCHARGED: every step of an encoder '
    'run preserves WorldInv/ArenaInv, every request of the encoder is <= max(maxInit,maxSub) <= 64008 < 2^20 so (extracted production tuning) every chunk '
    'its arena allocates has capacity <= 2^20, and ArenaInv puts every owned slice inside its chunk: lag < 2^20 + 64008 + 2 for every run on the structural '
    'model, any policy constants, any calls, any drain schedule (enc_lag_le_prod_partial; `_partial` = borrow/copy input methods only).')
SPECS["C10"]["lean_modules"] += ["Woodpile.Props.C10G"]
SPECS["C10"]["theorems"] += [
    "Woodpile.Props.C10G.streaming_caps_ghost",
    "Woodpile.Props.C10G.streaming_footprint_ghost",
    "Woodpile.Props.C10G.streaming_footprint_ghost_prod",
]
SPECS["C10"]["level_text"] += (' Props/C10G (track glue): the capacities of streaming_footprint are tied to the allocation-time capacity ghost of '
    'GReach (C05): along the streaming pattern the ghost itself is <= S on every live chunk and is the recorded capacity of the current cache '
    '(streaming_footprint_ghost).')
SPECS["C05"]["theorems"] += [
    "Woodpile.Props.C05G.op_run_is_wrun",
    "Woodpile.Props.C05G.enc_prefix_is_wrun",
    "Woodpile.Props.C05G.enc_run_is_wrun",
]
SPECS["C05"]["level_text"] += (' Run level: a whole Op history (whose backfill tokens are its own) and a whole HCOBS encoder run (no side condition) is '
    'ONE history of this vocabulary on the world whose handle table carries the tokens (op_run_is_wrun, enc_prefix_is_wrun, enc_run_is_wrun), so those '
    'worlds are Reachable exactly as C05 / C10 / C20 quantify.')

# ---- track abt2 (claim-audit gaps 7, 10, 18): statement-strength additions for C13 / C18 / C19 ----
SPECS["C13"]["theorems"] += [
    "Woodpile.Props.C13.sc_fresh_update_accepted",
    "Woodpile.Props.C13.sc_accepted_update_completes",
    "Woodpile.Props.C13.sc_update_completed",
    "Woodpile.Props.C13.sc_update_ignored_covered",
    "Woodpile.Props.C13.sc_bookkeeping_exact",
    "Woodpile.Props.C13.sc_calls_sound",
    "Woodpile.Props.C13.sc_real_time_order",
    "Woodpile.Props.C13.sc_completed_update_visible",
    "Woodpile.Props.C13.ra_fresh_update_accepted",
    "Woodpile.Props.C13.ra_accepted_update_completes",
    "Woodpile.Props.C13.ra_update_completed",
    "Woodpile.Props.C13.ra_update_ignored_covered",
    "Woodpile.Props.C13.ra_view_monotone",
    "Woodpile.Props.C13.ra_view_monotone_run",
    "Woodpile.Props.C13.ra_sync_transfers_view",
    "Woodpile.Props.C13.ra_bookkeeping_exact",
    "Woodpile.Props.C13.ra_calls_sound",
    "Woodpile.Props.C13.ra_return_view_kept",
    "Woodpile.Props.C13.ra_program_order",
    "Woodpile.Props.C13.ra_update_then_snapshot",
    "Woodpile.Props.C13.ra_own_update_visible",
    "Woodpile.Props.C13.ra_sync_order",
    "Woodpile.Props.C13.ra_synced_update_visible",
    "Woodpile.Props.C13.call_arguments_fixed",
    "Woodpile.Props.C13.sc_only_holder_publishes",
    "Woodpile.Props.C13.ra_only_holder_publishes",
    "Woodpile.Props.C13.valid_update_returns",
]
SPECS["C18"]["theorems"] += [
    "Woodpile.Props.C18.sc_retry_only_on_publish_during",
    "Woodpile.Props.C18.ra_retry_only_on_publish_during",
    "Woodpile.Props.C18.ra_solo_snapshot_terminates_uniform",
    "Woodpile.Props.C18.ra_solo_is_run",
    "Woodpile.Props.C18.ra_latest_admissible",
    "Woodpile.Props.C18.unlocked_is_abt_snapshot",
    "Woodpile.Props.C18.ra_solo_latest_terminates",
]
SPECS["C19"]["theorems"] += [
    "Woodpile.Props.C19.chkNat_is_chkReal",
    "Woodpile.Props.C19.init_cells_agree",
    "Woodpile.Props.C19.seq_update_refines",
    "Woodpile.Props.C19.seq_snapshot_refines",
    "Woodpile.Props.C19.try_update_differs_only_when_poisoned",
]
SPECS["C13"]["level_text"] += (' Track abt2: the history is tied to CALLS. State form: an accepted call\'s pair is in hist at an index covered by '
    'its own view of sequence (sc/ra_update_completed), an ignored call has seen a strictly newer published pair (…_ignored_covered), a fresh valid '
    'argument is not ignored and then completes in four always-enabled steps (…_fresh_update_accepted, …_accepted_update_completes). Call form: '
    'SC/RA.GReachable run the same step function next to pure bookkeeping (step counter, operation in progress, one CallRec per completed call with '
    'the caller\'s view of sequence at start/return); the bookkeeping is exact (…_bookkeeping_exact); every completed call satisfies Mach.RecOK '
    '(…_calls_sound); END TO END: an update(b,v) that returned, or a try_update(b,v)=true, whose return view is included in a snapshot\'s start view '
    '(U.vRet <= S.vStart: happens-before) makes that snapshot return base >= b (ra_update_then_snapshot); the inclusion holds for calls of one thread in '
    'program order (ra_program_order, ra_own_update_visible) and for a call of a thread that synchronised with the updater after the update returned (ra_sync_order, ra_synced_update_visible), views only grow and sync transfers them (ra_view_monotone(_run), ra_sync_transfers_view); '
    'on SC "before" is real time: U\'s last step precedes S\'s start label (sc_real_time_order, sc_completed_update_visible).')
SPECS["C18"]["level_text"] += (' Track abt2: ONE uniform termination statement on the view machine (ra_solo_snapshot_terminates_uniform: for every '
    'adversarial but admissible reads-from strategy the solo reader returns within soloMeasure own steps; admissible strategies exist, '
    'ra_latest_admissible, and reading the latest message gives the SC bound 6, ra_solo_latest_terminates; RA.solo is a machine run, ra_solo_is_run); a retry implies a newer sequence message that is beyond the snapshot\'s start '
    '(start <= sq < new: …_retry_only_on_publish_during, both machines); unlocked_is_abt_snapshot is about the NFS model\'s own getBaseTimeUnlocked: '
    'from any reachable SC state (writer frozen holding the lock, mutex poisoned or not) four loads, nothing shared changes, same pair.')
SPECS["C19"]["level_text"] += (' Track abt2: the cell of the model is no longer an independent definition: cellUpdate / cellSnapshot / '
    'getBaseTimeUnlocked ARE the AtomicBaseTime programs of C13/C18 (update, try_update, snapshot) run alone on the SC machine at the real voucher check '
    'from a state whose writer mutex is free and unpoisoned (seq_update_refines, seq_snapshot_refines, init_cells_agree, chkNat_is_chkReal); try_update '
    'differs from update only on a poisoned mutex (try_update_differs_only_when_poisoned), which no_panic keeps unreachable. nfs_voucher.rs has NO '
    'module-wide mutex: the C19 theorems cover sequential histories only; for concurrent callers only C13/C18 on the cell carry over.')
# C19's cell is, by C19.seq_update_refines / seq_snapshot_refines, the AtomicBaseTime programs of C13/C18 run alone; those programs
# are tied to vouched_time/src/atomic_base_time.rs (a C19 anchor: "monotonic filter in the atomic cell") by the H3 trace validation
# of family `abt`, so the C19 check runs that family too (a changed stale test in advance_once - e.g. `update.0 + 1 < current` -
# moves the NFS base time backwards by 1 ms only for a file exactly 1 ms older than the base, which the real-file family `nfs`
# almost never presents; found as a missed mutation by track abt2).
SPECS["C19"]["families"] += [dict(name="abt", quick=600, thorough=20000)]

# ---------------------------------------------------------------------------------------------
# track misc2 (claim-audit gaps 12, 17, 20 and the C11/C12/C14/C15/C16 tables)
SPECS["C11"]["level_text"] += (
    " Sink-call level (track misc2): Wrapper.encodePieces is MessageWrapper::encode as the SEQUENCE OF ZeroCopySink CALLS it makes "
    "(append_copy of every header word; per value append_borrow for Cow::Borrowed, append_copy for Cow::Owned / &[u8] / &str, the nested "
    "call sequence for a message; a value whose to_rough_tlv panics makes encode panic). Proved: the calls concatenate to the byte-level "
    "encoding of the other theorems (encode_pieces_flat), their exact shape for every accepted list (encode_calls_layout), their total = "
    "rough_tlv_len (calls_len_eq); C11S.sink_agnostic is now about those calls: the HCOBS encoder model fed with exactly them by exactly "
    "those methods ends holding Spec.encode prod (layout), nothing pending, and the batch and incremental decoders (any segmentation, any "
    "method) give the layout back, which MessageView accepts. The lawfulness hypothesis of the byte-level theorems is discharged for "
    "nested messages of every depth (nested_lawful_every_depth, a depth-indexed value type) and for every value the tlv family's state "
    "machine can build (dval_lawful: that state machine, TlvSt.msg, lives in the model and is what the driver executes; its `panic` "
    "answer to `enc` is proved dead). The error variant of every rejection is characterised (reject_error_kind), find_tag on emitted "
    "bytes is sound and complete (view_find_tag). Correspondence: the harness wraps both real sinks in a pass-through recorder; `calls` "
    "lines (method + length of every call, in order) and, for the hcobs::Encoder sink, the `wire` bytes after finish are compared with "
    "the model's encodePieces and Enc.output prod of them; the oracle checks at the sink interface that the bytes handed over call by "
    "call are the reference layout and total rough_tlv_len, that borrowed slices lie inside caller-owned buffers, and that the HCOBS "
    "sink's output equals the one-call HCOBS encoding of the layout and contains no stuff sequence.")
SPECS["C11"]["level_note"] += (
    " The mapping from the harness's Rust value types to sink methods (Cow::Borrowed -> append_borrow, &[u8] -> append_copy, ...) is in "
    "the driver's parser (methodOf) and is tied by the `calls` lines. A refactor that changes the call pattern without changing the "
    "bytes (e.g. copying a borrowed Cow) breaks this tie and is reported as a model disagreement without a failing input.")
SPECS["C12"]["level_text"] += (
    " Track misc2: find_tag is sound and complete for any acceptable search and find = get_value(find_tag) (find_tag_sound); the "
    "N = 0 case that the tiling clause has to exclude is stated on its own (empty_message: nothing is iterated, indexed or found; "
    "empty_message_trailing_bytes: such a message with trailing bytes is accepted). The enumerated cases include pair counts 255, 256, "
    "257 (300 in thorough): well-formed, last offset one past the payload, one byte cut off.")
SPECS["C14"]["level_text"] += (
    " Track misc2: WANTED_SUM / CHECKING_TAG / VOUCHING_TAG are re-read on every run from the raffle crate vouched_time resolves to "
    "(`cargo metadata --offline --locked`, fallback Cargo.lock + registry source tree): the ASCII names inside named_u64(\"...\") and "
    "the values; raffle_consts ties the model's literals to both (namedU64 of the extracted names = extracted value = model literal) "
    "and records that check / vouch are textually the transcribed expressions; raffle_names pins the names. The calendar bounds "
    "minLocalNs / maxLocalNs are tied to MIN_YEAR / MAX_YEAR re-read from the resolved time crate (local_range_consts, days-from-civil).")
SPECS["C14"]["trusted_base"] = [t for t in SPECS["C14"]["trusted_base"] if not t.startswith("raffle crate")] + [
    "raffle crate: check.rs / vouch.rs are re-modelled; constants, names and the textual shape of the two expressions are re-extracted "
    "from the resolved crate source on every run, the arithmetic is compared numerically by the vtime family"]
SPECS["C15"]["level_text"] += (
    " Track misc2: the checked Deref slice the drivers print (&container[consumed..], a panic if out of range) is proved to be the "
    "total `view` of the other theorems under the invariant (deref_is_view), and equal to the reference deque's contents after every "
    "operation sequence (run_deref_refines_list).")
SPECS["C16"]["level_text"] += (
    " Track misc2, run level: the reference stays strictly sorted, and every iteration result is ascending, from ANY sorted start "
    "(reference_sorted_from) and from every state of the real deque's model under the invariant (reachable_sorted). Gone stays gone: "
    "once any operation makes a present item vanish (remove, either pop, clear), then in every later state of every continuation that "
    "does not push its key again the key is not found, not iterated and in no result (gone_stays_gone; removed_or_popped_vanishes "
    "shows remove and the pops are such operations); for histories whose live pushes increase globally - the property's 'increasing "
    "keys' - no side condition is needed and the reference never hits the specified panic (gone_stays_gone_increasing); the same on "
    "the model of the real code (gone_stays_gone_impl: find = None, iter free of the key, no result carries it). Whole-item ordering: "
    "every history passing the decidable check wholeKeysDistinct is refined (whole_run_refines), and histories whose pushed value is a "
    "function of the key - the family's value = 10*key+1 regime - pass it (whole_run_refines_of_keyed_values).")
SPECS["C11"]["level_note"] = SPECS["C11"]["level_note"].replace(
    "The HCOBS sink is checked by the harness oracle only (sink-agnosticism is a C02/C01 matter).",
    "The HCOBS sink is checked by the oracle, by correspondence (`wire` lines against the encoder model run on the model's calls) and by "
    "C11S.sink_agnostic (composition with the C01/C02 refinement theorems).")

# ---- track hc3: statement-strength gaps of the HCOBS codec / stream-reader theorems (claim audit, TOP GAPS 9, 16, 19)
# gap 9: "never panics" is an OUTCOME of the executable model (Model/HcobsP, Model/StreamP; the drivers run these), proved unreachable
_HC3_DEC = [
    "Woodpile.Props.C07P.dec_once_never_panics",
    "Woodpile.Props.C07P.dec_call_never_panics",
    "Woodpile.Props.C07P.dec_object_call_never_panics",
    "Woodpile.Props.C07P.dec_session_never_panics",
    "Woodpile.Props.C07P.dec_calls_reachable",
    "Woodpile.Props.C07P.dec_after_error_is_fresh",
    "Woodpile.Props.C07P.dec_calls_split",
    "Woodpile.Props.C07P.dec_finish_after_error",
    "Woodpile.Props.C07P.dec_failed_call_appends",
    "Woodpile.Props.C07P.output_of_session",
    "Woodpile.Props.C07P.dec_first_error_classified",
    "Woodpile.Props.C07P.dec_output_until_error",
    "Woodpile.Props.C07P.dec_failed_output_split_independent",
]
_HC3_ENC = [
    "Woodpile.Props.C07P.enc_once_never_panics",
    "Woodpile.Props.C07P.enc_call_never_panics",
    "Woodpile.Props.C07P.enc_call_dreachable",
    "Woodpile.Props.C07P.enc_finish_never_panics",
    "Woodpile.Props.C07P.enc_run_never_panics",
]
_HC3_SEG = [
    "Woodpile.Props.C08S.segments_sound",
    "Woodpile.Props.C08S.segments_complete",
    "Woodpile.Props.C08S.segments_tile",
    "Woodpile.Props.C08S.segments_unique",
]
_HC3_PANIC_TEXT = (' Never panics (track hc3, Props/C07P): Model/HcobsP re-states consume_once / encode_header / write / copy / '
    'write_partial_stuff_sequence / terminate / the encode_* loops and the four decoder state functions / InChunk::update / the decode_* loops '
    'with a `panic file line` OUTCOME at every assert!, assert_eq!, unwrap(), slice index or range, and overflow-checked usize / u32 operation '
    '(64-bit usize, NonZeroU32 remaining, `as u32` / `as u8` truncations), plus backfill_or_panic finding the placeholder; the model driver runs '
    'these functions (a model panic prints `panic`, as the harness does for a real one). Kernel-checked: for every reachable state (incl. any '
    'consumer drains in between), every input, every segmentation and method choice and every Params.Valid, xP = ok (x): the panic outcome is '
    'unreachable and what runs is exactly the panic-free model the other theorems are about (enc_once/call/finish/run_never_panics, '
    'dec_once/call/session_never_panics). Decoder object after an error (gap 19): Decoder::decode swaps Default::default() into self.state and '
    'returns early on Err, so the object stays usable in InitialState over the same iovec (output pushed before the error stays, incl. the stuff '
    'sequence BeforeChunk::decode pushes before validating the header byte); Dec.call / calls / session model exactly that, model driver and '
    'harness continue a decoder run after an error, and dec_after_error_is_fresh / dec_calls_split / dec_finish_after_error (CutShort) / '
    'output_of_session (the convention "first Err is the verdict" of Dec.output is derived from the session) are proved; the harness oracle judges '
    'the input fed since the last error against a reference decoder and a fresh real decoder.')
for _pid in ("C01", "C07"):
    SPECS[_pid]["lean_modules"] += ["Woodpile.Props.C07P"]
    SPECS[_pid]["theorems"] += _HC3_DEC + _HC3_ENC
    SPECS[_pid]["level_text"] += _HC3_PANIC_TEXT
SPECS["C02"]["lean_modules"] += ["Woodpile.Props.C07P"]
SPECS["C02"]["theorems"] += _HC3_DEC + _HC3_ENC

# gap 16 + the reader's share of gap 9 (C06); segments characterised (C06, C08)
SPECS["C06"]["lean_modules"] += ["Woodpile.Props.C07P", "Woodpile.Props.C08S"]
SPECS["C06"]["theorems"] += _HC3_DEC + _HC3_ENC + _HC3_SEG + [
    "Woodpile.Props.C06U.reader_never_trips_decoder",
    "Woodpile.Props.C06U.reader_feeds_reachable_states",
    "Woodpile.Props.C06U.reader_keepgoing_blocks",
    "Woodpile.Props.C06U.reader_std_judge_blocks",
    "Woodpile.Props.C06U.blocks_constant",
    "Woodpile.Props.C06U.resync_std",
    "Woodpile.Props.C06U.resync_keepgoing",
    "Woodpile.Props.C06U.placed_shapes",
]
SPECS["C06"]["level_text"] += (' Track hc3 (Props/C06U, C08S, C07P): (1) "without panicking" includes the embedded decoder: the model driver runs nextP = '
    'next_record_bytes over the panic-aware decoder of Model/HcobsP (every assert / unwrap / index / checked arithmetic of decoder.rs is a panic outcome '
    'that makes the call return panic); reader_never_trips_decoder proves nextP = next from every reader state, because every decoder state the reader '
    'feeds is DecProof.Reachable (reader_feeds_reachable_states). (2) io_block_size is an argument of next_record_bytes and may change between calls: '
    'reader_keepgoing_blocks / reader_std_judge_blocks give the same result lists for one block size PER CALL. (3) segments is characterised without '
    'reference to the scan: sound (exact range, FE FD-free, delimited by stuff sequences or stream start/end), complete, tiling, and unique (any '
    'decomposition of the stream into FE FD-free pieces joined by FE FD is segments: the pieces are maximal). (4) Resynchronisation is stated with the '
    'encoder: wherever Spec.encode prod d sits (a FE FD . FE FD b / . FE FD b / a FE FD . / alone; a, b arbitrary), with |d| <= max and start before the '
    'limit, one of the first |segments| calls returns exactly (d, start .. start+|encoding|), for the standard judge (resync_std) and the always-KeepGoing '
    'judge (resync_keepgoing), any read schedule, any block size per call. One judge per run remains (a judge that changes between calls is exercised by '
    'correspondence only).')
# target 4: SplitIndep prod is discharged (C06U.split_indep_prod), not trusted
SPECS["C06"]["level_note"] = SPECS["C06"]["level_note"].replace(
    "the SplitIndep hypothesis until the coordinator discharges it from the decoder refinement theorem.",
    "the SplitIndep hypothesis of Props/C06 is discharged unconditionally by C06U.split_indep_prod (from C01.dec_impl_refines_spec); "
    "the headline theorems are the unconditional ones of Props/C06U.")
SPECS["C06"]["trusted_base"] = ["std::io::Read::chain semantics"]

SPECS["C08"]["lean_modules"] += ["Woodpile.Props.C08S"]
SPECS["C08"]["theorems"] += _HC3_SEG
SPECS["C08"]["level_text"] += (' Track hc3 (Props/C08S): the specification function segments, to which the chunks regroup, is itself characterised: every segment '
    'is an FE FD-free piece at exactly its range delimited by stuff sequences or the stream start/end (segments_sound), every such piece is a segment '
    '(segments_complete), the segments joined by FE FD are the stream with consecutive ranges (segments_tile), and the decomposition is unique, i.e. the '
    'pieces are maximal (segments_unique).')

# ---- track anch: the codecs' ANCHORED input method in the proved single-iovec vocabulary; the `_partial` restriction
# ---- ("borrow/copy input methods only") of Props/C01W, C02W, C09W lifted by Props/C01G, C02G, C09H
SPECS["C01"]["lean_modules"] += ["Woodpile.Props.C01G"]
SPECS["C01"]["theorems"] += [
    "Woodpile.Props.C01G.run_extends",
    "Woodpile.Props.C01G.read_piece",
    "Woodpile.Props.C01G.encWorld_no_panic",
    "Woodpile.Props.C01G.encWorld_is_ops",
    "Woodpile.Props.C01G.encWorld_abs_between_calls",
    "Woodpile.Props.C01G.encWorld_abs",
    "Woodpile.Props.C01G.enc_world_output",
    "Woodpile.Props.C01G.world_roundtrip",
    "Woodpile.Props.C01G.dec_world_output",
    "Woodpile.Props.C01G.world_roundtrip_both",
]
SPECS["C01"]["level_text"] += (' Props/C01G (track anch) LIFTS the `_partial` restriction of Props/C01W: the call vocabulary EncWorld.ACall adds '
    'encode_read / decode_read with an arbitrary scripted reader (= read_n into the codec\'s OWN arena, then encode_anchored / decode_anchored: '
    'OwningIovec::push of sub-slices of the returned chunk slice — copied when small, borrowed and possibly merged otherwise — then push_anchor; '
    'Model/EncWorld.encodeRead / decodeRead, the functions Driver/CodecW replays for the op words `feed a` and `feed_read`), and every C01W theorem is '
    'restated over it without the suffix (run_extends: the old vocabulary is embedded). Anchored input from a FOREIGN arena is, for the iovec\'s content, '
    'the borrow method (memory that outlives the iovec) and is covered as such. At the state-machine level the anchored method IS the borrow method '
    '(encode_anchored calls self.encode(slice)), which is why Hcobs.Method has two constructors and Driver/Hcobs.parseMethod maps a / r to borrow. '
    'Underneath, the single-iovec invariant IovInv (Proofs/IovecInv) now says owned slices are pairwise disjoint (not allocation-ordered) and '
    'allows zero-count anchors; Proofs/IovecAnch has the held-arena-slice lemmas (read_n, push of held memory, push_anchor).')
SPECS["C02"]["lean_modules"] += ["Woodpile.Props.C02G"]
SPECS["C02"]["theorems"] += [
    "Woodpile.Props.C02G.enc_world_no_stuff",
    "Woodpile.Props.C02G.enc_world_split_independent",
    "Woodpile.Props.C02G.enc_world_length_bound_prod",
]
SPECS["C02"]["level_text"] += (' Props/C02G (track anch) lifts the `_partial` restriction of Props/C02W: no-stuff, split/method/drain independence and the '
    'production length bound on the structural iovec for ALL input methods (borrow, copy, anchored reads with any reader behaviour; vocabulary '
    'EncWorld.ACall, see C01).')
SPECS["C09"]["lean_modules"] += ["Woodpile.Props.C09H"]
SPECS["C09"]["theorems"] += [
    "Woodpile.Props.C09H.enc_lag_struct",
    "Woodpile.Props.C09H.enc_lag_le_partial",
    "Woodpile.Props.C09H.dec_lag_zero_world",
    "Woodpile.Props.C09H.enc_drained_stable_prefix",
    "Woodpile.Props.C09H.enc_drained_complete",
    "Woodpile.Props.C09H.enc_slices_in_cap",
    "Woodpile.Props.C09H.enc_lag_le",
    "Woodpile.Props.C09H.enc_lag_le_prod",
]
SPECS["C09"]["level_text"] += (' Props/C09H (track anch) lifts the method restriction of Props/C09W: the exact structural lag of the encoder-driven iovec '
    '(enc_lag_struct) and decoder lag 0 (dec_lag_zero_world) hold for ALL input methods (EncWorld.ACall: borrow, copy, anchored reads). '
    'C09H.enc_lag_le_partial keeps the in-capacity fact as a hypothesis (as C09W, hence the name); C09H.enc_lag_le / enc_lag_le_prod DISCHARGE it for all input '
    'methods by a direct capacity invariant along the run (Proofs/EncWorldCap): lag < S + max(maxInit,maxSub) where S is the largest chunk the arena tuning '
    'allocates for requests up to B and every anchored read asks for at most B bytes; production tuning, reads < 2^20 bytes: lag < 2^20 + 64008 + 2 '
    '(with anchored reads of 2^20 bytes or more the arena chunk, hence the constant, grows with the largest count requested - the property\'s "one arena chunk"). The PREFIX clause on the structural iovec '
    '(enc_drained_stable_prefix): between the calls of any run, drained ++ bytes of the first n slices, n = Iov.stableCount (what the driver prints through), '
    'is a prefix of Spec.encode of the whole input whatever calls follow; enc_drained_complete: nothing is lost at the end.')
SPECS["C17"]["lean_modules"] += ["Woodpile.Props.C17W"]
SPECS["C17"]["theorems"] += [
    "Woodpile.Props.C17W.codec_read_n",
    "Woodpile.Props.C17W.encode_read_spec",
    "Woodpile.Props.C17W.encode_read_failed_bump",
    "Woodpile.Props.C17W.read_is_feed_of_delivered",
    "Woodpile.Props.C17W.dec_read_is_feed_of_delivered",
]
SPECS["C17"]["level_text"] += (' Props/C17W (track anch): the codec-level clauses. Encoder/Decoder read_n, encode_read and decode_read are Model functions now '
    '(Model/EncWorld: readOwn, encodeRead, decodeRead - the ones Driver/CodecW replays for `feed a` / `feed_read`): the codec\'s read_n is ReadN.readNCore on the '
    'iovec\'s own arena with ReadN.readN\'s arena effect (so read_n_spec / read_n_releases_unread apply verbatim), returns a slice of at most count bytes holding '
    'exactly the bytes read, and leaves the iovec\'s slices and bytes untouched (codec_read_n); between the calls of any encoder run encode_read never panics, a '
    'failed read changes nothing but the arena, whose bump pointer is back where ensure_capacity left it, and a successful one leaves the state encode of exactly '
    'those bytes leaves (encode_read_spec, encode_read_failed_bump); in any run an encode_read / decode_read can be replaced by encode / decode of the delivered '
    'bytes (by nothing when it failed) without changing output or verdict (read_is_feed_of_delivered, dec_read_is_feed_of_delivered).')
SPECS["C03"]["lean_modules"] += ["Woodpile.Props.C03G"]
SPECS["C03"]["theorems"] += [
    "Woodpile.Props.C03G.aop_refines",
    "Woodpile.Props.C03G.read_push_no_panic",
    "Woodpile.Props.C03G.read_push_appends",
    "Woodpile.Props.C03G.reachable_refines",
    "Woodpile.Props.C03G.reachable_facts",
]
SPECS["C03"]["level_text"] += (' Props/C03G (track anch): the vocabulary extended with ANCHORED pushes. AOp = Op + the composite readPush (read_n into the iovec\'s own '
    'arena with a scripted, possibly faulty reader; OwningIovec::push of the sub-slices of the returned slice selected by a cut list, in order - copied or borrowed '
    'arena memory, merged when adjacent -; push_anchor): it never panics, preserves the structural invariant and refines append of exactly the selected pieces of '
    'the bytes read; every AOp history from the initial world refines the abstract pipe (reachable_refines), sizes / non-empty slices / hole-free stable prefix '
    'included (reachable_facts). For this the invariant IovInv was weakened: owned slices pairwise disjoint (not allocation-ordered), zero-count anchors allowed. '
    'Scope: own-arena anchored slices pushed as one composite; interleaving with register_patch/backfill is the encoder\'s pattern (Props/C01G); foreign '
    'AnchoredSlices, clone/take/arena swap remain C20\'s multi-object vocabulary.')

# ---- track wabs: C03 / C04 / C20 over the FULL multi-object vocabulary (Woodpile.Iovec.WOp, what Driver/Iovec replays) ----
SPECS["C03"]["lean_modules"] += ["Woodpile.Props.C03W"]
SPECS["C03"]["theorems"] += [
    "Woodpile.Props.C03W.ghost_run_is_world_run",
    "Woodpile.Props.C03W.wop_refines",
    "Woodpile.Props.C03W.reachable_inv_w",
    "Woodpile.Props.C03W.other_handles_unchanged",
    "Woodpile.Props.C03W.named_handle_refines",
    "Woodpile.Props.C03W.reachable_refines_w",
    "Woodpile.Props.C03W.fifo_w",
    "Woodpile.Props.C03W.size_eq_w",
    "Woodpile.Props.C03W.consume_reports_w",
    "Woodpile.Props.C03W.no_empty_slice_w",
    "Woodpile.Props.C03W.ok_run_decidable",
]
SPECS["C03"]["level_text"] += (' Props/C03W (track wabs): the FIFO-pipe theorems for EVERY iovec handle of EVERY WOp history (the 38-constructor multi-object vocabulary '
    'World.step / World.run that Driver/Iovec replays: several iovecs, take, clone, detached arenas with swap / take / flush / read_n, detached anchored slices with '
    's_split / s_skip / s_clone / push_aslice, new_from_slices / new_from_arena, extend, drops). GW = World + per-handle ghost (consumed log, register counter), '
    'GW.run IS World.run on the world component (ghost_run_is_world_run); absW g i = the abstraction abs of C03 on handle i; the reference PW is one abstract Pipe per '
    'handle evolved from the op and its returned value only: pushes append, register registers, backfill fills, consumer calls consume the reported count, clear clears, '
    'take MOVES the whole pipe to the fresh handle and leaves Pipe.empty, clone COPIES the pipe holes included, new* create, drop forgets, every other call is the identity. '
    'The invariant is W.IovInv (Proofs/IovecXInv, IovecXAbs, IovecXAnch: the single-iovec development re-proved): slice disjointness - false here, a cloned anchored slice '
    'can be pushed twice into one iovec - is replaced by what backfill needs (no other slice of the iovec covers a pending placeholder range); it holds for every live iovec of '
    'EVERY reachable world with no side condition (reachable_inv_w; no_empty_slice_w). wop_refines: one step keeps Rel (every live handle\'s absW = the reference pipe, handle '
    'count, tokens) and its returned value satisfies specOk; reachable_refines_w / fifo_w / size_eq_w: lifted to every history from World.init, per handle, with the per-handle '
    'ledger (moved by take, copied by clone); consume_reports_w: every consuming call reports exactly what it removed; named_handle_refines / other_handles_unchanged: the named '
    'handle changes by the corresponding pipe operation, every other iovec keeps value, invariant and abstraction (a backfill through X included when no slice of the other iovec '
    'covers a pending placeholder range of X). Side condition of the Rel / run-level statements: FillPrivate at every step (OkRun; decided by running the model, World.okRunB / '
    'ok_run_decidable): a backfill through X finds no other iovec referencing X\'s pending placeholder memory - it can only fail between an iovec and a clone of it taken while '
    'the placeholder was pending (Props/C20W), where the real iovecs DO deviate from independent pipes once both sides have filled; what a clone with pending holes means is '
    'spelled out in the file header.')
SPECS["C04"]["lean_modules"] += ["Woodpile.Props.C04W"]
SPECS["C04"]["theorems"] += [
    "Woodpile.Props.C04W.stable_prefix_has_no_hole_w",
    "Woodpile.Props.C04W.ok_iff_no_pending_w",
    "Woodpile.Props.C04W.reachable_allInv",
    "Woodpile.Props.C04W.all_filled_unblocks_w",
    "Woodpile.Props.C04W.observed_bytes_immutable_w",
    "Woodpile.Props.C04W.observed_bytes_immutable_handle",
    "Woodpile.Props.C04W.observed_bytes_immutable_unshared",
    "Woodpile.Props.C04W.slices_never_overwritten_w",
]
SPECS["C04"]["level_text"] += (' Props/C04W (track wabs): the same clauses for every handle of every WOp history (vocabulary as Props/C03W). '
    'stable_prefix_has_no_hole_w / ok_iff_no_pending_w: per live handle of every reachable world (reachable_allInv), no side condition; all_filled_unblocks_w: once handle i has '
    'nothing pending, consumed ++ visible is its whole ledger; observed_bytes_immutable_w: along ANY history in which handle i is not reset (clear i, take i, drop i) - operations on and '
    'clears of other handles, arena swaps, read_n by other objects, other iovecs\' copies and backfills included - every byte of ghost i ++ visible i (indeed every byte cell of i\'s pipe) '
    'keeps its position and value (side condition FillPrivate, as C03W); observed_bytes_immutable_handle: the same with the side condition for handle i only (no backfill through another iovec lands in memory i references - whatever other handles do to each other), and i stays live; observed_bytes_immutable_unshared: the same from a per-OBJECT premise (i references no pending placeholder memory of another iovec at the start - e.g. it is empty - and is never cloned while it has a placeholder pending; Props/C20W.unshared_preserved), nothing assumed about the rest of the world; slices_never_overwritten_w: no op but backfill changes a byte any slice of any iovec reads (no side condition).')
SPECS["C20"]["lean_modules"] += ["Woodpile.Props.C20W"]
SPECS["C20"]["theorems"] += [
    "Woodpile.Props.C20W.reachable_base",
    "Woodpile.Props.C20W.no_share_preserved",
    "Woodpile.Props.C20W.no_share_along_run",
    "Woodpile.Props.C20W.this_clone_shares_nothing",
    "Woodpile.Props.C20W.no_share_moves_with_take",
    "Woodpile.Props.C20W.no_share_inherited_by_clone",
    "Woodpile.Props.C20W.fill_private_of_clean_clones",
    "Woodpile.Props.C20W.unshared_preserved",
    "Woodpile.Props.C20W.unshared_when_empty",
    "Woodpile.Props.C20W.private_gives_no_share",
    "Woodpile.Props.C20W.independent_step_w",
    "Woodpile.Props.C20W.clone_independent_w",
]
SPECS["C20"]["level_text"] += (' Props/C20W (track wabs): the PER-CLONE premise. NoShare w X Y (no slice of iovec Y covers a pending placeholder range of iovec X) is preserved by every '
    'step of every history for every pair of existing handles (no_share_preserved, no_share_along_run; no premise on how other clones were taken: reachable_base - sane backref '
    'bookkeeping, no detached anchored slice over any pending range - holds in every reachable world); THIS clone, taken with nothing pending, has NoShare with its original both ways '
    '(this_clone_shares_nothing); clone_independent_w: after such a clone, along any later history (more clones, pending or not, included) every operation on either side - backfill '
    'included - leaves the other side\'s model value and the bytes of all its slices unchanged. The global theorems (CReach) are kept; private_gives_no_share relates them.')
# ---- track apigaps: the remaining public API of owning_iovec (Model/IovecApi.lean, op words of fam_iovec/api.rs)
SPECS["C03"]["lean_modules"] += ["Woodpile.Props.C03A"]
SPECS["C03"]["theorems"] += [
    "Woodpile.Props.C03A.new_from_slices_abs",
    "Woodpile.Props.C03A.from_iter_abs",
    "Woodpile.Props.C03A.new_from_slices_arena_abs",
    "Woodpile.Props.C03A.from_iter_then_run",
    "Woodpile.Props.C03A.front_is_first_stable",
    "Woodpile.Props.C03A.iter_is_stable_prefix",
    "Woodpile.Props.C03A.flatten_into_appends",
    "Woodpile.Props.C03A.stable_views_complete",
    "Woodpile.Props.C03A.read_takes_stable_prefix",
    "Woodpile.Props.C03A.sink_refines",
    "Woodpile.Props.C03A.stable_consumer_calls",
]
SPECS["C03"]["level_text"] += (' Props/C03A (track apigaps): the public entry points outside that vocabulary are modelled one by one in '
    'Model/IovecApi.lean and exercised by the iovec family (op words from_iter, from_iter_ref, new_from_slices_arena, front, iter, flatten_into, '
    'stable, try_stable, sc_consume/sc_advance/sc_read/sc_pop, sink_copy/sink_borrow through dyn / &mut T, is_last, a_clone, s_default, bref_default, '
    'new_default, c_reserve): FromIterator (both impls) and new_from_slices with an arena build an iovec that satisfies the invariant and abstracts to '
    'the pipe holding the concatenation (every C03/C04 theorem continues from it: from_iter_then_run); front / IntoIterator / iovs / flatten / '
    'flatten_into(dst) / StableIovec::{iovs, flatten, flatten_into} return the stable bytes in order with dst kept in front; Read as the crate writes it '
    '(front + advance_slices) is readInto; ZeroCopySink is push_copy / push; consumer calls through a StableIovec or the Err side of stable_consumer '
    'are the plain consumer calls. The harness oracle checks every new accessor against stable_prefix() and the shadow buffer.')
SPECS["C04"]["lean_modules"] += ["Woodpile.Props.C04A"]
SPECS["C04"]["theorems"] += [
    "Woodpile.Props.C04A.accessors_ok_iff_no_pending",
    "Woodpile.Props.C04A.front_and_iter_before_first_hole",
    "Woodpile.Props.C04A.read_stops_before_placeholder",
]
SPECS["C04"]["level_text"] += (' Props/C04A (track apigaps): iovs / flatten / flatten_into(dst) / stable_consumer / StableIovec::try_from now have model '
    'functions (Model/IovecApi.lean: a Result<T,T> is (isOk, payload)) that the driver prints and the correspondence run compares: all four are Ok '
    'exactly when the pipe has no hole, and Ok or Err the payload is the stable prefix (byte cells at the front of the pipe, dst kept in front); '
    'front / iteration hand out stable slices only; Read as the crate writes it (front + advance_slices) stops before the first placeholder.')
SPECS["C05"]["lean_modules"] += ["Woodpile.Props.C05A"]
SPECS["C05"]["theorems"] += [
    "Woodpile.Props.C05A.from_iter_is_wstep",
    "Woodpile.Props.C05A.sink_is_wstep",
    "Woodpile.Props.C05A.defaults_are_wsteps",
    "Woodpile.Props.C05A.stable_consumer_is_wstep",
    "Woodpile.Props.C05A.new_from_slices_arena_is_wrun",
    "Woodpile.Props.C05A.accessors_return_stable_slices",
    "Woodpile.Props.C05A.accessors_exposed_live",
]
SPECS["C05"]["level_text"] += (' Model identity (audit gap 6): the Lean driver of the iovec family no longer wires the model functions a second time - '
    'it parses every op line into WOp values and computes the next world with World.step / World.run, the very function these theorems quantify over '
    '(Driver/Iovec.lean: parseWOp, stepWOp; World.step = none is classified as bad-op / caught wrong-size backfill panic / panic). Props/C05A (track apigaps): '
    'the op words added for the rest of the public API (from_iter, ZeroCopySink, ByteArena::clone, Backref::default, consumer calls through a StableIovec) '
    'are executed as the WOp steps they are proved equal to, and front / iteration / iovs / StableIovec::iovs hand out slices of the stable prefix only, so '
    'exposed_live covers them.')
# rough_tlv: MessageView::inner / into_inner, Tag conversions and ordering (Model/RoughTlvApi.lean)
SPECS["C12"]["lean_modules"] += ["Woodpile.Props.C12A"]
SPECS["C12"]["theorems"] += [
    "Woodpile.Props.C12A.inner_is_input",
    "Woodpile.Props.C12A.tag_value_of_u32",
    "Woodpile.Props.C12A.tag_of_value",
    "Woodpile.Props.C12A.tag_order_is_value_order",
]
SPECS["C12"]["level_text"] += (" Props/C12A (track apigaps): inner()/into_inner() return the bytes the view was built from (printed and compared on every "
    "view); Tag as the crate stores it (4 bytes): u32 <-> Tag <-> [u8;4] round trips, Ord/PartialOrd = order of the little-endian values (op `tag a b` "
    "of the tlvview family: every From/Into impl, new, new_from_u32, value, cmp, partial_cmp, <, == on pairs whose byte order and value order differ).")
# vouched_time: VouchedTime::new_or_die / now_or_die (Model/VouchedTimeApi.lean)
SPECS["C14"]["lean_modules"] += ["Woodpile.Props.C14A"]
SPECS["C14"]["theorems"] += [
    "Woodpile.Props.C14A.new_or_die_cases",
    "Woodpile.Props.C14A.new_or_die_rule",
    "Woodpile.Props.C14A.now_or_die_same_rule",
]
SPECS["C14"]["level_text"] += (" Props/C14A (track apigaps): the _or_die constructors (ops new_or_die / now_or_die of the vtime family) return a value "
    "exactly inside the same window and die everywhere else; never a VouchedTime outside the rule.")
# hcobs::find_stuff_sequence called directly (op `find` of hcobs_enc)
SPECS["C02"]["lean_modules"] += ["Woodpile.Props.C02A"]
SPECS["C02"]["theorems"] += ["Woodpile.Props.C02A.find_stuff_sequence_spec"]
SPECS["C02"]["level_text"] += (" Props/C02A (track apigaps): the public hcobs::find_stuff_sequence is exercised on its own (op `find`: FE/FD runs, a pair at every "
    "position incl. the last two bytes) against Spec.findStuff, characterised exactly (first occurrence / none). The production Encoder is also fed through its "
    "ZeroCopySink impl behind `dyn` (methods S / T of hcobs_enc, model = the borrow / copy methods).")

# ---- track c10enc (claim-audit gaps 2, 4, 11): C10 / C05 on the real codec call sequences, drop histories ----
SPECS["C10"]["lean_modules"] += ["Woodpile.Props.C10H"]
SPECS["C10"]["theorems"] += [
    "Woodpile.Props.C10H.enc_streaming_footprint",
    "Woodpile.Props.C10H.enc_streaming_footprint_prod",
    "Woodpile.Props.C10H.full_drain_is_quiescent",
    "Woodpile.Props.C10H.dec_streaming_footprint",
    "Woodpile.Props.C10H.enc_streaming_liveBytes_partial",
    "Woodpile.Props.C10H.enc_streaming_liveBytes_prod_partial",
    "Woodpile.Props.C10H.dec_streaming_liveBytes_partial",
    "Woodpile.Props.C10H.enc_streaming_footprint_small_partial",
    "Woodpile.Props.C10H.enc_streaming_liveBytes_small_partial",
    "Woodpile.Props.C10H.enc_streaming_liveBytes_small_prod_partial",
    "Woodpile.Props.C10H.drop_history_releases",
    "Woodpile.Props.C10H.drop_perm_releases",
    "Woodpile.Props.C10H.handles_spec",
    "Woodpile.Props.C10H.drop_step_live_subset",
    "Woodpile.Props.C10H.enc_drop_releases",
    "Woodpile.Props.C10H.dec_drop_releases",
]
SPECS["C10"]["level_text"] += (' Props/C10H (track c10enc): the footprint on the REAL codec call sequences (EncWorld.encPrefixA / decRunA: Encoder::new resp. '
    'Decoder::new followed by ANY calls - encode / encode_copy of a piece, encode_read with any scripted reader, consume / advance_slices of any amount; '
    'any policy, tuning, parameters). The codec\'s world holds one iovec and nothing else, so the live chunks are the cache\'s chunk and the anchor deque\'s; '
    'ENCODER (enc_streaming_footprint, all input methods): at every quiescent point (stableCount = some 0: nothing consumable, what a full drain leaves - '
    'full_drain_is_quiescent) the anchor deque has at most 3*(cur+mid)+2 anchors, cur+mid < the HCOBS chunk limit, hence at most 3*max(maxInit,maxSub) live '
    'chunks (production 192024) however much was streamed. The constant is NOT small and cannot be for anchored input: pinned `example`s stream 1-byte short '
    'reads of encode_read(count = chunk size) and pin one arena chunk per byte of the open HCOBS chunk. For BORROWED/COPIED input the potential argument of '
    'C10.streaming_footprint goes through on the real run (Proofs/EncPotential; enc_streaming_footprint_small_partial): at most 2*cur/m0+2 anchors, '
    '2*max(maxInit,maxSub)/m0+3 live chunks at every quiescent point - production 34 chunks and (enc_streaming_liveBytes_small_prod_partial) 34 MiB. DECODER (dec_streaming_footprint, all input methods): '
    'nothing is ever pending; after consume(k >= #slices) no slice and no anchor is left, only the cache\'s chunk can be live. Live BYTES (liveBytes = sum of the '
    'GReach capacity ghost over the live chunks): enc_/dec_streaming_liveBytes_partial - `_partial` = borrowed/copied input only: there the codec\'s world is a '
    'WOp history whose ghost is <= S on every chunk ever allocated (TuningBounds; production S = 2^20), so liveBytes <= #live * S (<= 3*max*S at encoder '
    'quiescent points, <= S after the decoder\'s full drain); the anchored route (push of sub-slices, then ONE push_anchor) is not a WOp history, so no GReach '
    'ghost exists for it. DROP HISTORIES (drop_history_releases, drop_perm_releases, handles_spec, drop_step_live_subset): from any world, for every list of '
    'handles enumerating the live objects (iovecs, clones, taken iovecs, detached arenas, detached anchored slices) exactly once - every permutation of '
    'World.handles - the corresponding drop operations (drop / dropArena / sDrop, one World.step each) all succeed and end with no object, no live chunk, '
    'liveBytes = 0, the live set only shrinking on the way; Encoder / Decoder / StreamReader are not world objects of their own: dropping one is dropping its '
    'iovec (enc_drop_releases, dec_drop_releases after any run, all input methods).')
SPECS["C05"]["lean_modules"] += ["Woodpile.Props.C05H"]
SPECS["C05"]["theorems"] += [
    "Woodpile.Props.C05H.dec_run_arenaInv",
    "Woodpile.Props.C05H.dec_run_is_wrun",
    "Woodpile.Props.C05H.dec_exposed_live",
    "Woodpile.Props.C05H.dec_below_bump",
    "Woodpile.Props.C05H.dec_run_prefix_world",
    "Woodpile.Props.C05H.enc_anchored_shape",
    "Woodpile.Props.C05H.dec_anchored_shape",
]
SPECS["C05"]["level_text"] += (' Props/C05H (track c10enc): DECODER runs (decode / decode_copy, any drain schedule, whatever the verdict) preserve every world '
    'predicate closed under one emit / one lent buffer / one drain (Proofs/DecGlue), so WorldInv and ArenaInv hold at every call boundary '
    '(dec_run_arenaInv, dec_run_prefix_world) and the decoder\'s world is literally a WOp history (dec_run_is_wrun: Reachable), with exposed_live / below_bump '
    'restated for it. For ALL input methods (anchored encode_read / decode_read included) enc_/dec_anchored_shape give the shape of the codec\'s world (one '
    'iovec, no detached object, anchor counts sum to the number of slices, exactly one / no placeholder pending); the GUARD half of WorldInv and ArenaInv along '
    'anchored calls are NOT proved (the file header states the invariant that is missing), WorldInv.headPos is FALSE along decoder runs with anchored input '
    '(pinned example: decode_read of header-only bytes leaves a zero-count anchor on an empty deque until the next consume), and StreamChunker / StreamReader '
    'have no World-level model yet (what is needed is stated at the end of Props/C05H).')

# ---- track apileft: the last public corners of owning_iovec (values from Default) + stale scope texts of C03/C04
SPECS["C05"]["lean_modules"] += ["Woodpile.Props.C05B"]
SPECS["C05"]["theorems"] += [
    "Woodpile.Props.C05B.s_default_is_wstep",
    "Woodpile.Props.C05B.arena_default_is_wstep",
    "Woodpile.Props.C05B.push_anchor_default_effect",
    "Woodpile.Props.C05B.push_anchor_default_frame",
    "Woodpile.Props.C05B.push_anchor_default_inv",
    "Woodpile.Props.C05B.push_anchor_default_exposed_live",
    "Woodpile.Props.C05B.xreach_inv_partial",
    "Woodpile.Props.C05B.slice_guarded_x_partial",
    "Woodpile.Props.C05B.exposed_live_x_partial",
    "Woodpile.Props.C05B.below_bump_released_x_partial",
]
SPECS["C05"]["level_text"] += (' Props/C05B (track apileft): values safe code obtains only through Default. AnchoredSlice::default() IS the WOp step '
    'read_n(count = 0) on any live iovec\'s arena / detached arena (s_default_is_wstep), ByteArena::default()/new() the step newArena. '
    'OwningIovec::push_anchor(Default::default()) - reachable by type inference although Anchor is not re-exported; op word push_anchor_default v<i> <n>, n = '
    'calls of increment_count() before the push - is NOT a WOp history (it leaves a chunk-less zero-count anchor, a separator that decides which anchor '
    'counts the next borrowed slice and whether the next copy is merged; the scripted histories of harness/src/fam_iovec/api2.rs compare exactly these effects, '
    'through the live-chunk line and the slice count, with and without the anchor): push_anchor_default_effect (count irrelevant, never panics), _frame (no '
    'slice, byte, cache, other object or member of the derived live set changes), _inv (ArenaInv kept; every IovOk clause but HeadPos kept; WorldInv kept iff the '
    'anchor deque was non-empty), _exposed_live (C05\'s conclusion right after the call, whatever the deque held). Histories: XReach = WOp steps + '
    'AnchoredSlice::default() anywhere + push_anchor of a chunk-less anchor on iovecs with a non-empty anchor deque; *_x_partial restate slice_guarded / '
    'exposed_live / below_bump / released_only_when_unreachable for them. `_partial`: push_anchor(Default::default()) onto an EMPTY deque leaves the proved '
    'invariant (HeadPos) until the next consume; those histories are covered by correspondence + oracle only.')
# C03 / C04: the scope sentence of the original blocks predates Props/C03W, C04W (every handle of every WOp history)
for _pid in ("C03", "C04"):
    SPECS[_pid]["level_note"] = SPECS[_pid]["level_note"].replace(
        " C03/C04 theorems cover single-iovec histories; clone / take / arena swap / foreign anchored slices are exercised by the "
        "correspondence run and the per-object shadow oracle only (the multi-object frame theorem is C20's).",
        " Props/C03.lean / C04.lean themselves cover the histories of one iovec over the Op vocabulary; the same clauses for every handle of every "
        "multi-object WOp history (clone / take / arena hand-off and swap / foreign and detached anchored slices / drops / new_from_slices / read_n) are "
        "Props/C03W, C04W (side condition FillPrivate, decided by World.okRunB), the anchored composite is Props/C03G, and public-API spellings that are "
        "not WOp constructors are reduced to WOp histories in Props/C03A, C04A, C05A, C05B.")
    SPECS[_pid]["level_text"] = SPECS[_pid]["level_text"].replace(
        "for every history of one iovec over push /", "for every history of one iovec (Props/C03W: of every handle of every multi-object WOp history) over push /").replace(
        "for every history of one iovec (same vocabulary as C03):", "for every history of one iovec (same vocabulary as C03; Props/C04W: every handle of every multi-object WOp history):")
# ---- track apileft (helper abt): AtomicBaseTime::{sequence, new, default} (track item 1) ----
SPECS["C13"]["lean_modules"] += ["Woodpile.Props.C13Q"]
SPECS["C13"]["theorems"] += [
    "Woodpile.Props.C13Q.sequence_no_lock_no_store",
    "Woodpile.Props.C13Q.sc_sequence_one_step",
    "Woodpile.Props.C13Q.ra_sequence_one_step",
    "Woodpile.Props.C13Q.ra_sequence_enabled",
    "Woodpile.Props.C13Q.sc_sequence_at_load",
    "Woodpile.Props.C13Q.sc_start_records_count",
    "Woodpile.Props.C13Q.sc_sequence_counts",
    "Woodpile.Props.C13Q.ra_sequence_at_load",
    "Woodpile.Props.C13Q.ra_sequence_counts",
    "Woodpile.Props.C13Q.ra_sequence_monotone",
    "Woodpile.Props.C13Q.sc_sequence_monotone",
    "Woodpile.Props.C13Q.ra_sequence_after_sync",
    "Woodpile.Props.C13Q.new_is_init",
]
SPECS["C13"]["level_text"] += (' Track apileft (Props/C13Q): the model has a fourth program, AtomicBaseTime::sequence() (qSeq -> retSeq: ONE relaxed load of the '
    'counter, Op.sequence / Res.seqv), so every theorem above that quantifies over reachable states / schedules / completed calls (Mach.RecOK) also covers '
    'executions in which threads call sequence(). sequence() performs exactly one access, no lock operation, no store, and ends in one own step that is enabled '
    'from any state (sequence_no_lock_no_store, sc_/ra_sequence_one_step, ra_sequence_enabled); SC: it returns exactly hist.length - 1 = the number of accepted '
    'updates published when its load executed, between the counts at its start and return (sc_sequence_at_load, sc_sequence_counts); release/acquire: it returns '
    'the timestamp n of a sequence message it was allowed to read: vStart <= n = vRet < hist.length, hist[n] the n-th accepted update, and the relaxed load '
    'advances only the view of sequence (ra_sequence_at_load, ra_sequence_counts); per thread successive results never decrease and a sequence() after the '
    'thread\'s own snapshot / accepted update is at least the sequence number that call observed / published (ra_sequence_monotone; SC: any threads in real-time '
    'order, sc_sequence_monotone; across threads after a sync, ra_sequence_after_sync). new() = Default::default() = SC.init / RA.init: counter 0, epoch pair in both '
    'slots, hist = [epoch pair], mutex free and clean, solo snapshot = epoch pair, solo sequence = 0 (new_is_init); the harness builds every second object through '
    'Default::default(), op new_default compares both constructors (words, mutex, sequence(), snapshot()) with init, and trace / execution / explore ops drive '
    'the real sequence() through H3 (ordering included).')
SPECS["C18"]["level_text"] += (' Track apileft: the model\'s fourth program, AtomicBaseTime::sequence() (one relaxed load of the counter), is covered by the '
    'machine-level statements above (…_only_update_lock_blocks quantify over every program counter); its own no-lock / no-store / one-own-step theorems are pinned '
    'under C13 (Props/C13Q: sequence_no_lock_no_store, sc_/ra_sequence_one_step, ra_sequence_enabled), and the abt family\'s oracle reports a lock operation or a '
    'store by the real sequence() as a C18 violation.')

# ---- track apileft: Clone / Default of StreamChunker and StreamReader (families chunker, reader)
_CLONE_TXT = (' Clone / Default (track apileft; harness/src/fam_stream_clone.rs): both types derive Clone (the chunker clone shares the arena chunk behind '
    'its carry-over buffer - AnchoredSlice::clone, the WOp sClone, whose bytes no later non-backfill step of anyone changes: C20.step-level independence - '
    'and copies the offset; the reader clone also clones its OwningIovec). The Lean models are functions of the chunker / reader VALUE, so a clone is the identity '
    'there; ops clone_swap keep|drop (continue on the clone, the original dropped at once or at the end of the case), fork (the clone runs in lockstep on its own '
    'copy of the scripted reader and must answer every call like the original) and check_default (Default::default() / new() on an empty stream) establish on the '
    'real code that a clone IS such a value; spliced into ~30% of the random cases in front of the bulk call.')
SPECS["C06"]["level_text"] += _CLONE_TXT
SPECS["C08"]["level_text"] += _CLONE_TXT
# ---- track apileft, helper decw: decoder prefix clause on the structural iovec, `Read` drains in the call vocabulary (audit gaps 8/15
# leftovers), the structural decoder after an error (gap 19 leftovers)
SPECS["C09"]["lean_modules"] += ["Woodpile.Props.C09D"]
SPECS["C09"]["theorems"] += [
    "Woodpile.Props.C09D.dec_lag_zero_between_calls",
    "Woodpile.Props.C09D.dec_drained_stable_prefix",
    "Woodpile.Props.C09D.dec_drained_complete",
    "Woodpile.Props.C09D.dec_run_extends",
    "Woodpile.Props.C09D.run_extends_r",
    "Woodpile.Props.C09D.enc_world_output_r",
    "Woodpile.Props.C09D.enc_drained_stable_prefix_r",
    "Woodpile.Props.C09D.enc_drained_complete_r",
    "Woodpile.Props.C09D.enc_lag_struct_r",
    "Woodpile.Props.C09D.enc_slices_in_cap_r",
    "Woodpile.Props.C09D.enc_lag_le_r",
    "Woodpile.Props.C09D.enc_lag_le_prod_r",
]
SPECS["C09"]["level_text"] += (' Props/C09D (track apileft): the DECODER half of the prefix clause on the structural iovec, stated on a between-calls '
    'function (EncWorld.decSessB: Decoder::new, any calls, continuing after a call returned Err; state = world, decoder state, drained bytes, errors so far): '
    'at every call boundary nothing is pending and stable_prefix() (first n slices, n = Iov.stableCount) is everything buffered (dec_lag_zero_between_calls), '
    'drained ++ stable is a prefix of what the decoder has output at any later point whatever calls follow, and of the decoded data whenever the whole wire '
    'input decodes (dec_drained_stable_prefix); dec_drained_complete: the input decodes to d iff no call failed, finish accepts and drained ++ flatten = d; '
    'dec_run_extends: the older whole-run function decRunA (stops at the first error) is this object read up to its first error. The call vocabulary '
    'EncWorld.BCall adds `rd k` = consumer().read(&mut buf[..k]) (impl Read for ConsumingIovec = World.readInto, op word drain_read of family codecw) to '
    'ACall; the `_r` theorems restate enc_world_output, enc_drained_stable_prefix, enc_drained_complete, enc_lag_struct, enc_slices_in_cap, enc_lag_le and '
    'enc_lag_le_prod of Props/C01G / C09H over it (run_extends_r: the old vocabulary embedded).')
SPECS["C07"]["lean_modules"] += ["Woodpile.Props.C07W"]
SPECS["C07"]["theorems"] += [
    "Woodpile.Props.C07W.dec_world_session_never_panics",
    "Woodpile.Props.C07W.dec_world_session_append",
    "Woodpile.Props.C07W.dec_world_after_error_is_fresh",
    "Woodpile.Props.C07W.dec_world_finish_after_error",
    "Woodpile.Props.C07W.dec_world_session",
    "Woodpile.Props.C07W.dec_world_resync",
]
# the structural decoder object is tied to /repo by family codecw (decoder sessions: messages separated by errors, all input methods and drains);
# compared here at the level C07 needs: bytes, sizes, verdicts
SPECS["C07"]["families"] = SPECS["C07"]["families"] + [dict(_CODECW_FAM, obs_prefixes=["A", "R"])]
SPECS["C07"]["level_text"] += (' Props/C07W (track apileft): the STRUCTURAL decoder (Model/EncWorld on the structural iovec model; what family codecw runs '
    'against the real Decoder) after an error. Decoder::decode leaves InitialState over the same iovec on Err (EncWorld.decResume; decode_anchored pushes its '
    'anchor whatever the verdict); model driver and harness now continue after `R err`. For the full call vocabulary (borrow / copy / decode_read with any '
    'scripted reader; consume, advance_slices, Read drains) the run never panics and agrees with the pipe-level object Dec.calls of Props/C07P '
    '(dec_world_session_never_panics: same states, same errors, bytes = the emits of all calls, failed ones included; IovInv, nothing pending at every call '
    'boundary); after a call returned Err the state is InitialState, the iovec holds exactly what was emitted up to the rejected byte, and the rest of the run '
    'IS the run of a fresh decoder on that world (dec_world_after_error_is_fresh); finish right after an error reports CutShort '
    '(dec_world_finish_after_error); from any point where the decoder is in InitialState, the following calls decode a complete message d iff none fails, '
    'finish accepts and the output is what the iovec held followed by d (dec_world_session), in particular a valid encoding fed after an error decodes to '
    'its payload appended after the pre-error bytes (dec_world_resync = the harness oracle of the decoder-session cases of family codecw).')
SPECS["C05"]["lean_modules"] += ["Woodpile.Props.C05D"]
SPECS["C05"]["theorems"] += [
    "Woodpile.Props.C05D.dec_session_arenaInv",
    "Woodpile.Props.C05D.dec_session_is_wrun",
    "Woodpile.Props.C05D.dec_session_exposed_live",
]
SPECS["C05"]["level_text"] += (' Props/C05D (track apileft): WorldInv / ArenaInv / exposed_live at every call boundary of a decoder SESSION - across calls '
    'that returned Err (the decoder lives on, Props/C07W) and across drains through impl Read for ConsumingIovec - for borrowed / copied input (the guard half '
    'along anchored calls stays unproved, as in C05H); the session world is a WOp history (dec_session_is_wrun).')
# ---------------------------------------------------------------------------------------------
# track apileft-prefill (audit gap 15): Encoder::new_from_iovec / Decoder::new_from_iovec on a PRE-FILLED iovec
SPECS["C01"]["lean_modules"] += ["Woodpile.Props.C01P"]
SPECS["C01"]["theorems"] += [
    "Woodpile.Props.C01P.fresh_is_prefilled",
    "Woodpile.Props.C01P.noPending_is_prefilled",
    "Woodpile.Props.C01P.prefilled_output",
    "Woodpile.Props.C01P.prefilled_output_cells",
    "Woodpile.Props.C01P.prefilled_abs_between_calls",
    "Woodpile.Props.C01P.prefilled_post_fill",
    "Woodpile.Props.C01P.prefilled_roundtrip",
    "Woodpile.Props.C01P.dec_prefilled_output_cells",
    "Woodpile.Props.C01P.dec_prefilled_output",
    "Woodpile.Props.C01P.prefilled_roundtrip_both",
    "Woodpile.Props.C01P.prescript_sim",
]
SPECS["C01"]["families"] += [dict(name="codecw", quick=64, thorough=1600, search=400, shards=dict(quick=8, thorough=16), obs_prefixes=["A", "R"])]
SPECS["C01"]["level_text"] += (' Props/C01P (track apileft, audit gap 15): the composition theorems started from ANY world and iovec instead of World.fresh, i.e. '
    'Encoder::new_from_iovec / Decoder::new_from_iovec on a PRE-FILLED OwningIovec (EncWorld.encRunFrom / decRunFrom; encRunA / decRunA are the instance World.fresh: '
    'fresh_is_prefilled). Nothing pending at the hand-over - hypotheses IovInv and hasPending = false only, any bytes in any slice structure, partly consumed: '
    'prefilled_output (drained ++ flatten = what the iovec held ++ Spec.encode p input; nothing pending), dec_prefilled_output (... ++ decoded data, verdict = Spec.decode\'s), '
    'prefilled_roundtrip(_both). Caller placeholders still pending at the hand-over (hypothesis SimV: the iovec represents a pipe with the caller\'s tokens, which prescript_sim '
    'proves of every iovec built from OwningIovec::new() by push / push_borrowed / push_copy / register_patch / backfill_or_panic / consume / advance_slices, the script vocabulary '
    'EncWorld.PreOp of the driver ops enc_from2 / dec_from2): prefilled_output_cells / dec_prefilled_output_cells - the abstract cells are the cells the iovec stood for '
    '(the caller\'s placeholders untouched) followed by the bytes of Spec.encode p input (the decoded data). The codec exposes only the read side of its iovec (consumer()), so a '
    'caller placeholder pending at the hand-over can be filled only after finish / take_iovec: op post_fill, theorem prefilled_post_fill (the token the caller kept is still a pending backref of the iovec finish hands back, same key and geometry, and backfilling it fills exactly its cells). Proof route (Proofs/EncWorldPre, DecWorldPre): the encoder\'s '
    'placeholder ids are shifted past the caller\'s (applyStep_shift), the real pipe is kept equal to the virtual fresh-start pipe of Proofs/HcobsEnc behind the prefix (Lifted), '
    'and the per-op refinement lemmas are reused as they are. Family codecw: ops enc_from2 / dec_from2 <script> / post_fill, 32 enumerated prefill shapes x encoder/decoder plus '
    'random scripts, direct oracle prefill ++ reference encoding / decoding on the real crates.')

SPECS["C09"]["lean_modules"] += ["Woodpile.Props.C09P"]
SPECS["C09"]["theorems"] += [
    "Woodpile.Props.C09P.enc_lag_struct",
    "Woodpile.Props.C09P.enc_lag_le",
    "Woodpile.Props.C09P.enc_lag_le_prod",
    "Woodpile.Props.C09P.fresh_capW",
    "Woodpile.Props.C09P.enc_drained_stable_prefix",
    "Woodpile.Props.C09P.enc_drained_complete",
    "Woodpile.Props.C09P.enc_hidden_behind_caller",
    "Woodpile.Props.C09P.dec_lag_zero",
    "Woodpile.Props.C09P.dec_lag_unchanged",
]
SPECS["C09"]["level_text"] += (' Props/C09P (track apileft, audit gap 15): the structural lag / prefix / completeness theorems of Props/C09H from ANY pre-filled iovec '
    '(new_from_iovec). Nothing pending at the hand-over (IovInv, hasPending = false): enc_lag_struct (exact lag; the slice holding the pending header may be a merge with the '
    'caller\'s last copied slice, whose bytes then wait with it), enc_lag_le / enc_lag_le_prod (lag < S + max(maxInit,maxSub), 2^20 + 64008 + 2 in production, given that the iovec '
    'handed over is in-capacity - CapW, preserved by every caller call with requests <= B, trivially true of a fresh iovec: fresh_capW), enc_drained_stable_prefix (drained ++ '
    'stable prefix is a prefix of what the iovec held ++ Spec.encode of the WHOLE input), enc_drained_complete, dec_lag_zero. A caller placeholder pending at the hand-over: the lag '
    'is unbounded BY DESIGN (C04) - enc_hidden_behind_caller: at every moment drained ++ stable prefix is a prefix of the bytes in front of the caller\'s first pending placeholder, '
    'whatever the encoder appends; the decoder registers and fills nothing (dec_lag_unchanged). The harness suspends the constant-bound oracle while a caller placeholder is pending and '
    'checks instead that nothing at or behind it is consumable.')

SPECS["C02"]["lean_modules"] += ["Woodpile.Props.C02P"]
SPECS["C02"]["theorems"] += [
    "Woodpile.Props.C02P.prefilled_no_stuff",
    "Woodpile.Props.C02P.prefilled_split_independent",
    "Woodpile.Props.C02P.prefilled_length_bound_prod",
]
SPECS["C02"]["level_text"] += (' Props/C02P (track apileft, audit gap 15): for Encoder::new_from_iovec on a PRE-FILLED iovec (any IovInv iovec with nothing pending; see C01 / Props/C01P), '
    'what the encoder ADDS behind the prefill - (drained ++ flatten) minus the bytes the iovec held - has no stuff sequence, is independent of segmentation / methods / drains AND of what '
    'the iovec held or how it was structured, and obeys the production length bound.')
# ---- track traits: standard-trait methods over several object instances; behaviour during unwinding ----
SPECS["C15"]["lean_modules"] += ["Woodpile.Props.C15T"]
SPECS["C15"]["theorems"] += [
    "Woodpile.Props.C15T.clone_from_is_assign",
    "Woodpile.Props.C15T.clone_from_forgets_destination",
    "Woodpile.Props.C15T.clone_is_copy",
    "Woodpile.Props.C15T.default_is_new",
    "Woodpile.Props.C15T.clone_from_run_refines_list",
    "Woodpile.Props.C15T.multi_step_refines",
    "Woodpile.Props.C15T.multi_run_refines",
]
SPECS["C15"]["level_text"] += (
    " Track traits (Props/C15T, Model/DequeTraits): the standard-trait methods. clone_from_is_assign: Clone::clone_from leaves the "
    "destination EQUAL to the source whatever state it was in (consumed prefix, spilled store, even a state violating the invariant); "
    "clone copies the representation, Default is new(). multi_run_refines: histories over a current deque and any number of further "
    "objects (handle ops store = clone, load, swap, clone_from onto either side, take = mem::take, new, default) interleaved with the "
    "single-object ops never panic and every object behaves like its own reference List deque. The sdeque family drives them on the "
    "real Vec- and SmallVec-backed deques (ops dnew ddefault dstore dload dswap dclone_from dclone_into dtake ddebug): 12 source states "
    "x 12 destination states (fresh, cleared, popped without slide, exactly half consumed, just slid, spilled, emptied, ...) x 4 methods "
    "enumerated, handle ops in a third of the random cases; oracle: after every handle op EVERY object shows its own reference VecDeque "
    "and keeps the space bound; Deref / DerefMut / iter / get / len / first / last agree, Debug does not panic. Every op is also called "
    "from a destructor while the thread unwinds from a caught panic (`unwinding <op>`, harness/src/unwind.rs; all 3-symbol sequences "
    "enumerated, a quarter of the random cases), with the same model, observations and oracle.")
SPECS["C16"]["lean_modules"] += ["Woodpile.Props.C16T"]
SPECS["C16"]["theorems"] += [
    "Woodpile.Props.C16T.clone_from_is_assign",
    "Woodpile.Props.C16T.clone_from_forgets_destination",
    "Woodpile.Props.C16T.clone_is_copy",
    "Woodpile.Props.C16T.clone_from_run_refines",
    "Woodpile.Props.C16T.multi_step_refines",
    "Woodpile.Props.C16T.multi_run_refines",
]
SPECS["C16"]["level_text"] += (
    " Track traits (Props/C16T, Model/DequeTraits): clone_from_is_assign (the destination's tombstones and consumed-but-unslid prefix "
    "do not survive Clone::clone_from), clone copies the representation; multi_run_refines: valid histories over several objects "
    "(clone, clone_from onto either side, mem::take, mem::swap, Default) interleaved with the single-object ops panic iff the reference "
    "does and every object's present items are those of its own reference ordered map. The sorted family drives them for both "
    "conventions on Vec- and SmallVec-backed deques (12 source x 12 destination states x 4 methods enumerated; handle ops in a third of "
    "the random cases; oracle: every object against its own BTreeMap after every handle op), and calls every non-panicking op from a "
    "destructor while the thread unwinds (`unwinding <op>`).")
_UNWIND_TEXT = (" Track traits (harness/src/unwind.rs, Driver/Unwind.lean): nothing in the property depends on std::thread::panicking(), so the "
                "families also make their calls from a destructor WHILE THE THREAD UNWINDS from a deliberate caught panic (`unwinding <op>`: same "
                "model, observations and oracle as the plain op; refused on both sides for an op that is specified to panic on the current state) "
                "and build whole histories inside a scope that panics, so that the unwinder drops every object (`scoped_panic …`: observations as "
                "usual, then the process-wide live chunk / byte counters must be back at their values before the op).")
for _p in ("C03", "C04", "C05", "C06", "C08", "C10", "C14", "C17", "C19", "C20"):
    SPECS[_p]["level_text"] += _UNWIND_TEXT
SPECS["C13"]["level_text"] += (
    " Track traits: PLAIN SEQUENTIAL calls on a real object without the stepping backend (`seq snapshot | update | try_update`, model = solo runs "
    "of thread 0 on the SC machine; oracle: a snapshot returns the pair of the most recent update that returned normally and was not older than its "
    "predecessor), each also made from a destructor while the thread unwinds from an unrelated caught panic (`unwinding seq …`, every placement "
    "over an 8-call history enumerated; only calls that cannot panic are wrapped): a completed update is never lost whether or not the thread was "
    "panicking when it was made.")
SPECS["C20"]["level_text"] += (
    " Clone::clone_from (track traits): `clone_from v<d> v<s>`, `s_clone_from`, `a_clone_from` call dst.clone_from(&src) on two live objects in "
    "every destination state (empty, consumed, pending placeholder, spilled chunk, cleared) - model = the WOp history clone(src), drop(dst); oracle: "
    "the destination then holds exactly the source's unconsumed bytes; an overwritten anchored slice names the source's bytes and keeps its chunk "
    "alive on its own (C05); `dbg` formats every live object with Debug.")
# ---------------------------------------------------------------------------------------------
# track gen3: structured-sweep generators (HCOBS piece boundaries, every chunk length / header value, single-defect sweeps of
# the "all neighbours ordered" scans of rough_tlv) and iterator-protocol scripts on every public iterator
_GEN3_ITER_LAWS = [
    "Woodpile.IterScript.nth_is_repeated_next",
    "Woodpile.IterScript.skip_is_repeated_next",
    "Woodpile.IterScript.by_ref_take_is_nexts",
    "Woodpile.IterScript.consuming_are_drain",
    "Woodpile.IterScript.hint_is_remaining",
    "Woodpile.IterScript.next_back_is_rev_next",
    "Woodpile.IterScript.nth_back_is_rev_nth",
    "Woodpile.IterScript.take_is_prefix",
    "Woodpile.IterScript.stepBy_getElem?",
    "Woodpile.IterScript.indexed_rebuilds",
]
_GEN3_ITER_TEXT = (
    " Iterator protocol (track gen3): the ops {op} drive {what} through scripts of Iterator{de} calls (next, nth k, size_hint, "
    "by_ref().take(k), skip k, take k{deops}, and as last step count / last / collect / fold / step_by(s).take(m)) on the iterator's "
    "CONCRETE type for the first two adapter levels, so that the type's own overrides of provided methods are what runs, each script "
    "under a 30 s watchdog; the direct oracle is a Vec cursor (std::vec::IntoIter over {ref}) subjected to the same script (size_hint "
    "compared as a bound unless the iterator is ExactSize); the model side is the list cursor Woodpile.IterScript.run on the model's "
    "iteration list, proved ({thm}) to answer every script as on the reference list, and proved (Proofs/IterScript) to be the "
    "next()-only semantics of the provided methods: nth = k x next then next, skip, by_ref/take = the first k answers of next, count / "
    "last / collect / fold = the drain by next, size_hint / len = the number of remaining items, next_back / nth_back = next / nth of "
    "the reversal, step_by(s) yields items 0, s, 2s, ... Enumerated: every script of <= 2 (thorough 3) non-consuming steps over a "
    "9-symbol alphabet (13 with the double-ended calls), alone and followed by each of 6 consuming steps; plus random scripts with "
    "counts at 0, 1, n-1, n, n+1, usize::MAX.")
SPECS["C12"]["lean_modules"] += ["Woodpile.Props.C12I", "Woodpile.Proofs.IterScript"]
SPECS["C12"]["theorems"] += ["Woodpile.Props.C12I.iter_script_agrees_with_indexed",
                             "Woodpile.Props.C12I.tags_script_agrees_with_indexed"] + _GEN3_ITER_LAWS
SPECS["C12"]["level_text"] += _GEN3_ITER_TEXT.format(
    op="`viewit iter|tags <hex> <script>` of family tlvview", what="MessageView::iter() (forward only) and tags().iter()", de="",
    deops=" (tags: also next_back, nth_back k, rev, len)", ref="the pairs / tags obtained through get(i), i < len()",
    thm="C12I.iter_script_agrees_with_indexed, tags_script_agrees_with_indexed") + (
    " Single-defect sweep of MessageView::new (op `viewt`: same oracle as `view` on every accessor, terse observation = the new line, "
    "count + FNV-1a digests of the tags and iter texts, get/get_value at 7 indices, find of the lookups): for N in 2..24, 63..66, "
    "127..130 (thorough: 2..66, 127..130, 255..258, 300) pairs with strictly ascending offsets and tags, exactly ONE descent at EVERY "
    "position of the offsets and of the tags (N = 256, 257 / 511..514: positions next to every multiple of 32 and the ends), equal "
    "neighbours, a last offset one past the payload, one byte cut off.")
SPECS["C15"]["lean_modules"] += ["Woodpile.Props.C15I", "Woodpile.Proofs.IterScript"]
SPECS["C15"]["theorems"] += ["Woodpile.Props.C15I.run_iter_script_refines_list"] + _GEN3_ITER_LAWS
SPECS["C15"]["level_text"] += _GEN3_ITER_TEXT.format(
    op="`iterscript <script>` of family sdeque", what="deque.iter() (the Deref slice's iterator) of both real deques", de=" / DoubleEndedIterator / ExactSizeIterator",
    deops=", next_back, nth_back k, rev, len", ref="the reference VecDeque's items", thm="C15I.run_iter_script_refines_list")
SPECS["C16"]["lean_modules"] += ["Woodpile.Props.C16I", "Woodpile.Proofs.IterScript"]
SPECS["C16"]["theorems"] += ["Woodpile.Props.C16I.iter_script_refines_ordered_map"] + _GEN3_ITER_LAWS
SPECS["C16"]["level_text"] += _GEN3_ITER_TEXT.format(
    op="`iterscript <script>` of family sorted", what="SortedDeque::iter() (forward only) of both real deques, incl. deques that are mostly tombstones", de="",
    deops="", ref="the reference BTreeMap's values", thm="C16I.iter_script_refines_ordered_map")
SPECS["C11"]["level_text"] += (
    " Single-defect sweeps (track gen3, op `msgrun <ctor> <vt> <L> <defect>`: L pairs with empty values and strictly ascending tags, "
    "built identically by harness and model driver, with ONE defect): for every L in 2..40, 63..67, 127..131, 255..258, 1023..1026 "
    "(thorough: 2..131, 191..194, 255..258, 511..514, 1023..1026, 2047..2050, 4095..4098) and EVERY position i, new_from_sorted on the list "
    "whose only descent is at i (must be rejected with witness i), plus per L the sorted list, equal neighbours, the sorting constructors "
    "on one-descent lists, and one value reporting 2^31 / 2^31 - 1 bytes at every position (a few positions for L > 131); random (L, i) "
    "up to L = 1100 (thorough 5000).")
SPECS["C11"]["families"][0]["shards"] = {"quick": 4}
SPECS["C12"]["families"][0]["shards"] = {"quick": 4}
_GEN3_HCOBS_TEXT = (
    " Structured sweeps (track gen3). Piece boundaries: 8 patterns of (last bytes of one piece | first bytes of the next: FE|FD, FE|FE FD, "
    "FE|xx, xx|FD, FE FD FE|FD, FE FE|FD, FD|FE, FE|empty|FD) x size classes of the second piece {{1, 2, 64, 256, 4096, 64008, 65535, "
    "65536, 65537}} (thorough: + 63, 65, 255, 257, 64007, 64009, 131072, 131073, 262144, 2^20, 2^20+1) x input-method pairs of b/c/a/r/S/T (2 per cell in "
    "quick, 18 of 36 per cell in thorough, alternating halves) x position of the boundary in the current chunk (piece 1 = 0 / 3 / 249..251 filler bytes + the pattern), "
    "where every piece BODY is constant filler without FE / FD (optionally one lone FD or one stuff sequence in the middle, FE / FD as "
    "last byte, a third piece FD.. of 1 / 3 / 65537 bytes), written with the compact byte-string tokens `*TTxN` (N copies of TT) joined "
    "by `+`, parsed identically by util::from_hex and Driver.parseHex. Every chunk length: zenc{zdec} on 252 + k zero bytes for every k in "
    "0..=64008 (thorough; quick: every k within 1 of a multiple of 253 or of a power of two) = every value of the two-byte size header; "
    "`zenc <m> <n> fe` is the same piece with FE as last byte of the full first chunk (same chunking, replayed by the model on the actual "
    "bytes), so a header whose first byte comes out as FD is a stuff sequence on the wire (a C02 finding, not only a C07 one)"
    "{zdec2}.")
SPECS["C02"]["level_text"] += _GEN3_HCOBS_TEXT.format(zdec="", zdec2="")
for _pid in ("C01", "C07"):
    SPECS[_pid]["level_text"] += _GEN3_HCOBS_TEXT.format(zdec=" / zdec", zdec2=(
        ", zdec with the call boundary before / between / after the two header bytes (`zdec <m> <n> <cut>`). Decoder header parsing value by "
        "value: the first-chunk header 0..=255 (production limits and (3, 5)) with its body, unsplit and split after the header byte; the "
        "two-byte header after an empty first chunk, header only, all 65536 values (thorough; quick: every value with a digit in "
        "{0, 1, 2, 251..255} or on a diagonal), unsplit and split between the two bytes; limits (2, 507): every header with high digit "
        "0..=3 with a filler body of that size"))
# the hcobs families' enumerated cases grew (track gen3 sweeps): checks that run them with few random cases (one shard by
# default) split them over 4 processes in the quick tier
for _pid in ("C09", "C10"):
    for _f in SPECS[_pid]["families"]:
        if _f["name"] in ("hcobs_enc", "hcobs_dec"):
            _f.setdefault("shards", {}).setdefault("quick", 4)

# ---- track rdrworld: C05 along the codecs' ANCHORED calls (Props/C05R) - the guard half of WorldInv and ArenaInv that Props/C05H left open
SPECS["C05"]["lean_modules"] += ["Woodpile.Props.C05R"]
SPECS["C05"]["theorems"] += [
    "Woodpile.Props.C05R.enc_anchored_arenaInv",
    "Woodpile.Props.C05R.enc_anchored_exposed_live",
    "Woodpile.Props.C05R.enc_anchored_run_exposed_live",
    "Woodpile.Props.C05R.enc_anchored_below_bump",
    "Woodpile.Props.C05R.dec_anchored_guard",
    "Woodpile.Props.C05R.dec_anchored_exposed_live",
    "Woodpile.Props.C05R.dec_anchored_below_bump",
    "Woodpile.Props.C05R.anchored_no_overlap",
    "Woodpile.Props.C05R.step_good",
]
SPECS["C05"]["level_text"] += (' Props/C05R (track rdrworld): the item C05H left open. Along EVERY encoder / decoder run with ALL input methods '
    '(encPrefixA / encRunA / decRunA: encode_read / decode_read = read_n into the codec\'s own arena, push of sub-slices of the returned slice, ONE push_anchor; '
    'any parameters, policy, tuning, reader scripts, drain schedule, verdict) the invariant HInv holds: the guard Guarded (anchors ++ zs) slices, where zs is the '
    'zero-count anchor the running call will push for the AnchoredSlice it HOLDS (empty between calls), and ArenaInv of the world in which the held slice is '
    'registered as one more detached slice (one cache per chunk, every slice - the held one included - below the bump pointer and inside the capacity). '
    'Between calls this gives slice_guarded / exposed_live / below_bump for the codec\'s world (enc_anchored_*, dec_anchored_*; for the ENCODER also the head '
    'condition, i.e. the full WorldInv of Props/C05: enc_anchored_arenaInv; for the decoder the head condition is false, see C05H, and is not needed for liveness). '
    'anchored_no_overlap: every run is a chain of micro-steps (HStep: push_copy, push of a caller-buffer range, push of a range of the held slice, register_patch, '
    'backfill, drains, lend, read_n, push_anchor) and at EVERY micro-step - also in the middle of an anchored call - step_good holds: each slice of the iovec in '
    'chunk k is guarded by an anchor of the deque or by the held slice\'s anchor, ArenaInv before and after, and the conclusion of C05.no_overlap (one fresh range '
    'at or above the end of every existing slice of its chunk, the held slice included).')
# ---- track rdrworld: world-level StreamChunker / StreamReader (Model/StreamWorld.lean): placement of every slice handed out + live set
SPECS["C05"]["families"] += [
    dict(name="chunkerw", quick=240, thorough=3200, search=2000, shards=dict(quick=2, thorough=16)),
    dict(name="readerw", quick=150, thorough=1600, search=1000, shards=dict(quick=6, thorough=16)),
]
SPECS["C05"]["lean_modules"] += ["Woodpile.Props.C05S"]
SPECS["C05"]["theorems"] += [
    "Woodpile.Props.C05S.pump_is_wrun",
    "Woodpile.Props.C05S.pump_reachable",
    "Woodpile.Props.C05S.chunk_slices_live",
    "Woodpile.Props.C05S.reader_inv",
    "Woodpile.Props.C05S.reader_inv_new",
    "Woodpile.Props.C05S.reader_inv_calls",
    "Woodpile.Props.C05S.record_slices_live",
    "Woodpile.Props.C05S.record_guarded",
    "Woodpile.Props.C05S.reader_chunks_live",
    "Woodpile.Props.C05S.pump_world_agrees",
    "Woodpile.Props.C05S.chunker_new_rel",
    "Woodpile.Props.C05S.chunker_world_agrees",
    "Woodpile.Props.C05S.data_chunk_live",
    "Woodpile.Props.C05S.reader_next_agrees",
    "Woodpile.Props.C05S.reader_world_agrees",
]
SPECS["C05"]["level_text"] += (' Props/C05S (track rdrworld): StreamChunker chunks and StreamReader records. Model/StreamWorld.lean models pump / '
    'next_record_bytes on the structural World (the arena is a detached ByteArena or the decoder iovec\'s own; StreamChunker::buf and every Chunk::Data '
    'handed out are detached AnchoredSlices; the record is the iovec self.iovec; clear per retry turn; the iovec and its arena are dropped on every path '
    'that drops the Decoder while it owns them - `?`, return Ok(None), finish() failing). pump is a run of iovec-family operations (sTake, readNArena/readNIov '
    'on the chained reader, sDrop, sSkip, sSplit - pump_is_wrun), so a chunker history stays Reachable and Props/C05 applies as stated; chunk_slices_live: every '
    'non-empty detached slice after a pump (the chunk just handed out, chunks handed out earlier and still held, the buffered tail) lies in a live chunk held by '
    'its OWN anchor, inside the capacity and below the bump pointer of any arena still allocating from that chunk. The reader\'s world is not a WOp history '
    '(decode_anchored); next_record_bytes keeps HInv for every judge / block size / reader script and any number of calls (reader_inv, reader_inv_calls), hence '
    'record_slices_live (every slice of the iovec after a call lies in a live chunk held by the iovec\'s OWN anchors, inside the capacity, below the bump '
    'pointer), record_guarded, reader_chunks_live. WHAT bytes are returned stays with C06/C08 (byte-level model); that the world-level model returns the same '
    'bytes AND places every slice where the real code does is checked by the new correspondence families chunkerw / readerw (same op vocabulary and lines as '
    'chunker / reader plus at=/R slices= placements through the H1 registry and the live set after every call; held-chunk containment + content oracle): '
    'the subject of these families. That the world-level model returns the same BYTES as the byte-level model of C06/C08 is PROVED: CHUNKER '
    '(Proofs/StreamWorldRef) pump_world_agrees / chunker_world_agrees - every history of a new chunker and its caller (pumps with any block sizes on any '
    'arena, interleaved with the caller dropping chunks; any stream / reader script; any world) returns pump by pump exactly the chunks of Stream.pumpSeq '
    '(verdicts, offsets, bytes) and leaves the reader where it leaves it; data_chunk_live: the handle of a Data chunk names a non-empty detached slice '
    'holding those bytes, live, below the bump pointer. READER (Proofs/StreamWorldRd) reader_next_agrees / reader_world_agrees - any number of '
    'next_record_bytes calls of a new reader, each with its own judge and block size, return call by call exactly what Stream.next returns (Some with the same '
    'range and the byte-level record = the FLATTENED IOVEC, None, the same I/O error) and leave the reader in the same position; proof: the iovec satisfies '
    'the single-iovec invariant IovInv and every detached slice is held w.r.t. it (Geo), decode_anchored of a chunk appends exactly the decoder\'s emits '
    '(decFeed_pushed) and leaves the chunker\'s buffered tail and its bytes alone (FrameOut), pump touches no detached slice but its own (pumpW_only).')
SPECS["C05"]["theorems"] += [
    "Woodpile.Props.C05B.push_anchor_default_hinv",
    "Woodpile.Props.C05B.dpath_exposed_live",
]
SPECS["C05"]["level_text"] += (' After track rdrworld landed: push_anchor_default_hinv (a chunk-less push_anchor preserves HInv = WorldInv without the head condition + '
    'ArenaInv on ANY anchor deque, also an empty one) and dpath_exposed_live (guard / exposed_live / below_bump after any chain of the one-iovec micro-steps of '
    'Proofs/AnchGuard.HStep and chunk-less push_anchors, from any XReach world; FULL for that vocabulary). Still without theorem: clone / take / arena hand-off '
    'after an empty-deque push_anchor.')
# ---- track scale: LARGE-MAGNITUDE / LONG-HISTORY generator profiles (harness/src/scale_*.rs).  The families wrap the
# existing executors, and `wpmodel scale_*` wraps the existing model drivers (lean/Woodpile/Driver/Scale.lean): run-length ops
# (`rep`, `extendrun`), digested observations (`terse`), harness-only cases (`quiet`, where the list model would need minutes),
# owners dropped by the unwinder of a caught panic (`scoped_panic`).  Few cases, many shards: a case moves megabytes.
_SCALE_NOTE = (" Scale profiles (families scale_*): the same executors and model drivers behind a wrapper that adds run-length ops and digested "
               "observations, aimed at regimes the ordinary generators never reach: arena chunks of the last size class (>= 1 MiB) being exhausted, "
               "rewound or replaced while clones / anchored slices / zero-count anchors still reach them; regions larger than 1 MiB with placeholders at "
               "in-slice offsets around 2^16 / 2^20 / 2^21 (2^24 harness-only); 255 ... 4097 (65537 harness-only) live slices, placeholders and anchors; "
               "histories of thousands of rounds; EINTR bursts of 255 ... 4097 (2^16 ... 2^21+1 harness-only) at a carry-over refill; block sizes 2^k-1 "
               "that leave one byte of room in the arena chunk; owners of arena memory dropped by the unwinder of a caught panic. Extra direct oracles "
               "in the wrapper: C03 readable = total_size when nothing is pending, C05 overlapping arena slices in one iovec / bytes changing under a "
               "live anchored slice (C11 / C12: the executors' own reference-layout and accessor oracles on 255 ... 65537 pairs), C01 the real decoder gives the input back from drained ++ finish(), C09 drained ++ consumable is a growing prefix and drained ++ finish() equals a one-call run, C10 counters after a "
               "caught panic, C17 request sizes. 'harness-only' cases run the real code and the oracles but are not replayed by the model.")

def _scale(pid, name, obs, quick, thorough, search, shards_q=8):
    SPECS[pid]["families"].append(dict(name=name, quick=quick, thorough=thorough, search=search,
                                       shards=dict(quick=shards_q, thorough=16), obs_prefixes=obs, timeout=3600))
    if "Scale profiles" not in SPECS[pid]["level_text"]:
        SPECS[pid]["level_text"] += _SCALE_NOTE

_scale("C03", "scale_iovec", ["A", "R", "P"], 8, 320, 640)
_scale("C04", "scale_iovec", ["A", "R", "P"], 8, 320, 640)
_scale("C05", "scale_iovec", ["A", "S", "T", "L", "R", "P"], 8, 320, 640)
_scale("C05", "scale_codec", ["A", "S", "T", "L", "R", "G"], 4, 160, 320, 4)
_scale("C09", "scale_codec", ["A", "S", "G", "R"], 4, 160, 320, 4)
_scale("C10", "scale_iovec", ["L", "P"], 8, 320, 640)
_scale("C10", "scale_codec", ["L", "G"], 4, 160, 320, 4)
_scale("C20", "scale_iovec", ["A", "R", "P"], 8, 320, 640)
_scale("C06", "scale_reader", None, 16, 320, 640)
_scale("C08", "scale_chunker", None, 16, 320, 640)
_scale("C17", "scale_chunker", None, 16, 320, 640)
_scale("C17", "scale_codec", ["A", "S", "G", "R"], 4, 160, 320, 4)
# counts of 2^16 ... 2^25 bytes (offers of 8 MiB and more), hard errors / EOF / EINTR bursts after a small delivery
_scale("C17", "scale_readn", None, 8, 160, 320, 4)
# 255 ... 65537 pairs per message / view (256-pair messages replayed by the model, larger ones harness-only)
_scale("C11", "scale_tlv", None, 6, 120, 240, 8)
_scale("C12", "scale_tlvview", None, 8, 160, 320, 4)
# > 1024 borrowed pieces through the Encoder / Decoder with no drain, megabyte streams: round trip of drained ++ finish()
_scale("C01", "scale_codec", ["A", "R"], 4, 160, 320, 4)


# C02 also quantifies over the input METHOD of each piece, and `encode_read` (with its failing reads) is
# one: the structural codec family exercises it (seed C02-5: a failed `encode_read` flushed the held-back
# FE, so a following piece starting with FD put a literal FE FD on the wire).
import copy as _copy
SPECS["C02"]["families"] += [_copy.deepcopy(f) for f in SPECS["C01"]["families"] if f["name"] in ("codecw", "scale_codec")]

# ---- track sraw: RAW pushes of a detached slice's bytes (family iovec: push_sraw / push_sraw_borrowed; harness/src/fam_iovec/sraw.rs) ----
_SRAW_NOTE = (" Track sraw: the op words push_sraw / push_sraw_borrowed v<i> s<k> (iov.push / push_borrowed of aslice.slice() with the AnchoredSlice held "
              "elsewhere: arena-resident bytes in the iovec WITHOUT their anchor - the only way to have two adjacent pieces of one chunk side by side and not "
              "merged) are a DRIVER-level model op (Driver/Iovec.lean stepSraw: the existing World.push / World.pushBorrowed on the slice (chunk c, off, len) read "
              "from w.aslices[k]; the slice handle stays live and keeps its chunk in the derived live set), NOT a WOp constructor: histories that contain push_sraw "
              "are COMPARED with the real crate (correspondence, shadow / containment / live-set oracles), not proved - the List WOp theorems (C03W / C04W / C05 / "
              "C10 / C20W, in particular C20W.reachable_base 'no detached slice over a pending range') do not quantify over them. A slice pushed raw is pinned "
              "for the rest of the case (both sides refuse ops that move or mutate it: the borrow checker's rule). Enumerated: arena hand-off histories "
              "(take_arena, read_n into the free-standing arena, raw push, swap_arena back, in both orders; one or two placeholders) with a probe that must change "
              "nothing (extend with empty items, push_anchor of a chunk-less anchor, empty pushes, a double swap through a spare arena) inserted at every point. "
              "Direct oracles added: backfill_or_panic of a pending placeholder of the very iovec with a source of the right size must not panic (C03 "
              "no_panic_valid, on the real code); bytes consumed past the first unfilled placeholder are a C03 failure as well as a C04 one.")
for _pid in ("C03", "C04", "C05", "C10", "C20"):
    SPECS[_pid]["level_note"] += _SRAW_NOTE


# C15 / C16: also on the harness build without debug assertions (profile `noassert`): code under
# `#[cfg(not(debug_assertions))]` exists only there (seed C15-5 widened the release-only fast path of
# `SlidingDeque::slide`); the space-bound oracle reads the real representation, not a debug assertion.
for _p, _n in (("C15", "sdeque"), ("C16", "sorted")):
    for _f in SPECS[_p]["families"]:
        if _f["name"] == _n:
            _f["noassert"] = True

"""Per-property check specifications (read by tools/checklib.py and tools/gen_manifest.py).

`theorems` is the pinned list: the check fails if a pinned theorem disappears,
if a Props module declares a theorem that is not pinned, or if `#print axioms`
of any of them leaves {propext, Classical.choice, Quot.sound}.
"""

TB_STD = [
    "std / smallvec / time crates are modelled, not verified",
]

SPECS = {}

SPECS["C17"] = dict(
    title="Arena reads return exactly what the reader delivered, under any I/O faults",
    lean_modules=["Woodpile.Props.C17"],
    theorems=[
        "Woodpile.Props.C17.count0_no_read",
        "Woodpile.Props.C17.calls_le_attempts",
        "Woodpile.Props.C17.read_n_spec",
        "Woodpile.Props.C17.read_n_releases_unread",
    ],
    families=[dict(name="readn", quick=3000, thorough=400000)],
    technique="Lean 4 proof (induction over the retry loop, all reader scripts) + model/implementation correspondence",
    design_ref="DESIGN.md section 5, C17",
    level_text=("Kernel-checked theorems about a Lean model of ByteArena::read_n/read_n_impl (Woodpile.ReadN) for every reader "
                "script, count, attempt limit and arena state: call bound, request sizes, stop conditions, delivered-prefix, "
                "ok/err verdict, count=0, release of the unread tail. The model is tied to /repo by running the real read_n "
                "(scripted Read impl) and the compiled model on the same enumerated + random op sequences and diffing "
                "results, request sizes and arena.remaining(); a direct oracle re-checks the property on the real calls."),
    level_note=("Trusted: Lean kernel + 3 standard axioms; the correspondence harness and its generators; readers that "
                "return more than the buffer length are outside the model (Read's contract). Encoder/Decoder-level "
                "encode_read/decode_read are covered through the hcobs families."),
    trusted_base=["Rust std::io::Read contract (a reader never reports more bytes than the buffer holds)"],
    assumptions=["64-bit usize; allocation failure (OOM abort) not modelled"],
)

"""Per-property check specifications (read by tools/checklib.py and tools/gen_manifest.py).

`theorems` is the pinned list: the check fails if a pinned theorem disappears,
if a Props module declares a theorem that is not pinned, or if `#print axioms`
of any of them leaves {propext, Classical.choice, Quot.sound}.
"""

TB_STD = [
    "std / smallvec / time crates are modelled, not verified",
]

SPECS = {}

SPECS["C17"] = dict(
    title="Arena reads return exactly what the reader delivered, under any I/O faults",
    lean_modules=["Woodpile.Props.C17"],
    theorems=[
        "Woodpile.Props.C17.count0_no_read",
        "Woodpile.Props.C17.calls_le_attempts",
        "Woodpile.Props.C17.read_n_spec",
        "Woodpile.Props.C17.read_n_releases_unread",
    ],
    families=[dict(name="readn", quick=3000, thorough=400000)],
    technique="Lean 4 proof (induction over the retry loop, all reader scripts) + model/implementation correspondence",
    design_ref="DESIGN.md section 5, C17",
    level_text=("Kernel-checked theorems about a Lean model of ByteArena::read_n/read_n_impl (Woodpile.ReadN) for every reader "
                "script, count, attempt limit and arena state: call bound, request sizes, stop conditions, delivered-prefix, "
                "ok/err verdict, count=0, release of the unread tail. The model is tied to /repo by running the real read_n "
                "(scripted Read impl) and the compiled model on the same enumerated + random op sequences and diffing "
                "results, request sizes and arena.remaining(); a direct oracle re-checks the property on the real calls."),
    level_note=("Trusted: Lean kernel + 3 standard axioms; the correspondence harness and its generators; readers that "
                "return more than the buffer length are outside the model (Read's contract). Encoder/Decoder-level "
                "encode_read/decode_read are covered through the hcobs families."),
    trusted_base=["Rust std::io::Read contract (a reader never reports more bytes than the buffer holds)"],
    assumptions=["64-bit usize; allocation failure (OOM abort) not modelled"],
)

SPECS["C14"] = dict(
    title="VouchedTime exists only inside the allowed window around a vouched base time",
    lean_modules=["Woodpile.Props.C14"],
    theorems=[
        "Woodpile.Props.C14.window_consts",
        "Woodpile.Props.C14.check_vouch",
        "Woodpile.Props.C14.check_injective",
        "Woodpile.Props.C14.voucher_unique",
        "Woodpile.Props.C14.new_ok_iff",
        "Woodpile.Props.C14.new_ok_iff_fits",
        "Woodpile.Props.C14.no_panic",
        "Woodpile.Props.C14.reports_local_time",
        "Woodpile.Props.C14.now_same_rule",
        "Woodpile.Props.C14.wrap_counterexample",
        "Woodpile.Props.C14.trunc_counterexample",
    ],
    families=[dict(name="vtime", quick=3000, thorough=400000)],
    technique=("Lean 4 proof (integer/UInt64 arithmetic over all local times x 2^64 base times x 2^64 vouchers; ring identities "
               "of the raffle voucher in Z/2^64 for the extracted parameters) + model/implementation correspondence"),
    design_ref="DESIGN.md section 5, C14",
    level_text=("Kernel-checked theorems about a Lean model of raffle's check/vouch (exact wrapping u64 arithmetic) and of "
                "VouchedTime::check_vouched_time/check/new/check_or_die/get_local_time/now (i128 as Int, div_euclid, the <0 and "
                ">u64::MAX guards, the signed window): new succeeds iff the voucher checks, the local time is not before the epoch "
                "and floor(local/1ms) - base is in [-59900, 2990], for every representable local time (and every one whose "
                "millisecond count fits a u64), all 2^64 base times and all vouchers; no panic site is reachable; a constructed "
                "value reports its construction time; now() is new() on the clock reading. The voucher check is characterised "
                "completely (check x v iff v = the crate's own voucher of x) for the parameter strings re-extracted from /repo on "
                "every run; the literal window constants are re-checked against the extracted ones. The old wrapping / truncating "
                "formulas (findings F4, F5) are proved to violate the rule. The model is tied to /repo by running the real "
                "VouchedTime and raffle code and the compiled model on the same enumerated + random triples (both window edges "
                "+-1 ms, epoch +-1 ns/ms, calendar MIN/MAX, base times at 0, 2^63, 2^64-1-k and wrapped around 2^64, own / "
                "foreign / corrupted vouchers, now() with provider answers on both sides of both edges) and diffing verdicts and "
                "error classes; a direct oracle evaluates the property's rule in i128 on the real results."),
    level_note=("Trusted: Lean kernel + 3 standard axioms; the correspondence harness and its generators; the time crate's "
                "PrimitiveDateTime <-> unix_timestamp_nanos conversion (the model starts from the nanosecond count; MIN/MAX are "
                "compared with the real crate's on every run); the clock reading inside now() is an input of the model (reported "
                "by the harness's provider closure)."),
    trusted_base=["time crate: PrimitiveDateTime::assume_utc().unix_timestamp_nanos() is the nanosecond count of the date-time",
                  "raffle crate is re-modelled from its source (check.rs, vouch.rs) and compared numerically on every run"],
    assumptions=["time crate built without the large-dates feature (years -9999..=9999; checked by the `limits` op)"],
)

SPECS["C19"] = dict(
    title="The NFS base time only moves forward, and only on evidence from trusted devices",
    lean_modules=["Woodpile.Props.C19"],
    theorems=[
        "Woodpile.Props.C19.base_monotone",
        "Woodpile.Props.C19.changes_only_to_trusted_ctime",
        "Woodpile.Props.C19.trust_changes_only_by_add",
        "Woodpile.Props.C19.untrusted_reports_none_and_noop",
        "Woodpile.Props.C19.returned_pairs_check",
        "Woodpile.Props.C19.no_panic",
    ],
    # every case is a forked process working on real files, some wait out a refresh threshold (1-2 s):
    # few cases, spread over many shards
    families=[dict(name="nfs", quick=64, thorough=3000, search=800, shards=dict(quick=8, thorough=16))],
    technique=("Lean 4 proof (invariant + induction over all call histories, OS answers as universally quantified inputs) "
               "+ model/implementation correspondence on real files of two devices, one forked process per history"),
    design_ref="DESIGN.md section 5, C19",
    level_text=("Kernel-checked theorems about a Lean model of vouched_time::nfs_voucher (Woodpile.NfsVoucher: TRUSTED_PATHS as a "
                "device-sorted map, the base-time cell under AtomicBaseTime's sequential specification, update_base_time, "
                "add_trusted_path, observe_file_time, maybe_observe_file_time, scan_base_time / scan_for_base_time_impl, "
                "get_base_time, get_base_time_unlocked, should_refresh_base_time) over ALL histories (List Call) in which every "
                "operating-system answer - open failures, the device id and change-time stat reports (any i64, negative included), "
                "the clock, the 100 ms rate limiter - is a universally quantified input: the base time never decreases between any "
                "two points of a history; whenever the cell changes it holds exactly the change-time (ms) and voucher of a file "
                "presented to that call on a device trusted before the call or registered by it; the trusted set changes only "
                "through add_trusted_path; observing a file on an untrusted device returns None and leaves the state untouched; "
                "every returned (base, voucher) pair passes BASE_TIME_CHECK (VouchedTime::check never answers 'bad voucher'); no "
                "assertion / expect in the module, the cell or raffle::vouch is reachable. The model is tied to /repo by running "
                "the real module in a freshly forked process per history on real files on / (ext4) and /dev/shm (tmpfs) plus "
                "read-only files on a third device: older and freshly touched change-times, before/after trust is established, "
                "registered paths removed or moved to another device, explicit now values at leeway and leeway+1 ms, the unclocked "
                "policy both rate-limited and after really waiting past the 1000 ms / 1993 ms thresholds; the harness reports the "
                "OS answers (device, ctime) it observed to the compiled model and the two observation streams (results and the "
                "base time after every call) are diffed; a direct oracle with its own shadow of the trusted devices checks "
                "monotonicity, justification of every change, untrusted no-ops and the voucher check on the real results."),
    level_note=("PARTIAL BY NATURE: the file system is an input of the model. That stat reports the device and change-time the "
                "kernel holds, that File::set_times bumps ctime, and that a file descriptor's device does not change between the "
                "two metadata() calls of add_trusted_path are trusted, as is the harness's reading of the same values after the "
                "call. The cell is the *sequential* specification of AtomicBaseTime (single-threaded histories; try_update's "
                "WouldBlock/poison arms cannot occur); concurrency is C13/C18. The thread-local rate limiter is an input bit; "
                "cases where the harness cannot determine it from timing are abandoned on both sides (reported as "
                "'ambiguous'), never guessed. Negative change-times saturate the base time at 2^64-1 (observation O3): the model "
                "follows the code and the theorems hold for them, but no real file has one."),
    trusted_base=["OS: stat(2) device ids and change-times; tmpfs/ext4 ctime update on chmod / utimensat",
                  "fork(2) isolates the process-global module state per history",
                  "AtomicBaseTime behaves as its sequential specification in single-threaded use (C13 covers the concurrent cell)"],
    assumptions=["two distinct devices are available (`/` and /dev/shm) and writable",
                 "single-threaded histories"],
)

"""Per-property check specifications (read by tools/checklib.py and tools/gen_manifest.py).

`theorems` is the pinned list: the check fails if a pinned theorem disappears,
if a Props module declares a theorem that is not pinned, or if `#print axioms`
of any of them leaves {propext, Classical.choice, Quot.sound}.
"""

TB_STD = [
    "std / smallvec / time crates are modelled, not verified",
]

SPECS = {}

SPECS["C17"] = dict(
    title="Arena reads return exactly what the reader delivered, under any I/O faults",
    lean_modules=["Woodpile.Props.C17"],
    theorems=[
        "Woodpile.Props.C17.count0_no_read",
        "Woodpile.Props.C17.calls_le_attempts",
        "Woodpile.Props.C17.read_n_spec",
        "Woodpile.Props.C17.read_n_releases_unread",
    ],
    families=[dict(name="readn", quick=3000, thorough=400000)],
    technique="Lean 4 proof (induction over the retry loop, all reader scripts) + model/implementation correspondence",
    design_ref="DESIGN.md section 5, C17",
    level_text=("Kernel-checked theorems about a Lean model of ByteArena::read_n/read_n_impl (Woodpile.ReadN) for every reader "
                "script, count, attempt limit and arena state: call bound, request sizes, stop conditions, delivered-prefix, "
                "ok/err verdict, count=0, release of the unread tail. The model is tied to /repo by running the real read_n "
                "(scripted Read impl) and the compiled model on the same enumerated + random op sequences and diffing "
                "results, request sizes and arena.remaining(); a direct oracle re-checks the property on the real calls."),
    level_note=("Trusted: Lean kernel + 3 standard axioms; the correspondence harness and its generators; readers that "
                "return more than the buffer length are outside the model (Read's contract). Encoder/Decoder-level "
                "encode_read/decode_read are covered through the hcobs families."),
    trusted_base=["Rust std::io::Read contract (a reader never reports more bytes than the buffer holds)"],
    assumptions=["64-bit usize; allocation failure (OOM abort) not modelled"],
)

SPECS["C15"] = dict(
    title="SlidingDeque behaves like a double-ended queue with a contiguous view",
    lean_modules=["Woodpile.Props.C15"],
    theorems=[
        "Woodpile.Props.C15.inv_iff",
        "Woodpile.Props.C15.checkRep_iff_inv",
        "Woodpile.Props.C15.rep_inv_init",
        "Woodpile.Props.C15.refines_list",
        "Woodpile.Props.C15.rep_inv",
        "Woodpile.Props.C15.no_panic",
        "Woodpile.Props.C15.run_refines_list",
        "Woodpile.Props.C15.run_from_new",
        "Woodpile.Props.C15.run_snoc",
    ],
    families=[dict(name="sdeque", quick=3000, thorough=200000)],
    technique="Lean 4 proof (representation invariant = check_rep, per-operation refinement of a List deque, induction over "
              "operation sequences) + model/implementation correspondence on Vec- and SmallVec-backed deques",
    design_ref="DESIGN.md section 5, C15",
    level_text=("Kernel-checked theorems about a Lean model of sliding_deque::SlidingDeque (Woodpile.SlidingDeque: every public "
                "method incl. maybe_slide/slide and every check_rep evaluation, panics = none) for every element type and every "
                "operation sequence: each operation returns what a reference List deque returns and leaves the same view "
                "(refines_list), the invariant consumed <= len/2 and (empty -> consumed = 0) is exactly check_rep and is preserved "
                "(rep_inv), hence no check_rep or bounds check fails (no_panic), lifted to all operation lists from new()/From "
                "(run_refines_list). The model is tied to /repo by running the real SlidingVec<u32> and SlidingSmallVec<[u32;4]> "
                "and the compiled model on all op sequences up to length 6 (7 thorough) over an 11-symbol alphabet plus random "
                "sequences up to 200 ops and diffing return values, slice views and lengths; a direct oracle compares both real "
                "deques with std VecDeque and checks the space bound on the real representation."),
    level_note=("Trusted: Lean kernel + 3 standard axioms; the correspondence harness and its generators; Vec/SmallVec behind "
                "PushTruncateContainer (push/pop/truncate/slice) are modelled as a List. The space bound is not observable through "
                "the public API proper: the harness is built with debug assertions on, so a violation is a check_rep panic "
                "(reported as an oracle violation), and it is additionally read off the derived Debug output when that has the "
                "expected shape."),
    trusted_base=["std Vec / smallvec SmallVec implement push, pop, truncate and slices as a sequence (PushTruncateContainer)"],
    assumptions=["64-bit usize (lengths and advance counts are unbounded naturals in the model)",
                 "slide() is modelled as compiled with debug assertions; the release-build early return yields the same state"],
)

"""Per-property check specifications (read by tools/checklib.py and tools/gen_manifest.py).

`theorems` is the pinned list: the check fails if a pinned theorem disappears,
if a Props module declares a theorem that is not pinned, or if `#print axioms`
of any of them leaves {propext, Classical.choice, Quot.sound}.
"""

TB_STD = [
    "std / smallvec / time crates are modelled, not verified",
]

SPECS = {}

SPECS["C17"] = dict(
    title="Arena reads return exactly what the reader delivered, under any I/O faults",
    lean_modules=["Woodpile.Props.C17"],
    theorems=[
        "Woodpile.Props.C17.count0_no_read",
        "Woodpile.Props.C17.calls_le_attempts",
        "Woodpile.Props.C17.read_n_spec",
        "Woodpile.Props.C17.read_n_releases_unread",
    ],
    families=[dict(name="readn", quick=3000, thorough=400000)],
    technique="Lean 4 proof (induction over the retry loop, all reader scripts) + model/implementation correspondence",
    design_ref="DESIGN.md section 5, C17",
    level_text=("Kernel-checked theorems about a Lean model of ByteArena::read_n/read_n_impl (Woodpile.ReadN) for every reader "
                "script, count, attempt limit and arena state: call bound, request sizes, stop conditions, delivered-prefix, "
                "ok/err verdict, count=0, release of the unread tail. The model is tied to /repo by running the real read_n "
                "(scripted Read impl) and the compiled model on the same enumerated + random op sequences and diffing "
                "results, request sizes and arena.remaining(); a direct oracle re-checks the property on the real calls."),
    level_note=("Trusted: Lean kernel + 3 standard axioms; the correspondence harness and its generators; readers that "
                "return more than the buffer length are outside the model (Read's contract). Encoder/Decoder-level "
                "encode_read/decode_read are covered through the hcobs families."),
    trusted_base=["Rust std::io::Read contract (a reader never reports more bytes than the buffer holds)"],
    assumptions=["64-bit usize; allocation failure (OOM abort) not modelled"],
)

SPECS["C15"] = dict(
    title="SlidingDeque behaves like a double-ended queue with a contiguous view",
    lean_modules=["Woodpile.Props.C15"],
    theorems=[
        "Woodpile.Props.C15.inv_iff",
        "Woodpile.Props.C15.checkRep_iff_inv",
        "Woodpile.Props.C15.rep_inv_init",
        "Woodpile.Props.C15.refines_list",
        "Woodpile.Props.C15.rep_inv",
        "Woodpile.Props.C15.no_panic",
        "Woodpile.Props.C15.run_refines_list",
        "Woodpile.Props.C15.run_from_new",
        "Woodpile.Props.C15.run_snoc",
    ],
    families=[dict(name="sdeque", quick=3000, thorough=200000)],
    technique="Lean 4 proof (representation invariant = check_rep, per-operation refinement of a List deque, induction over "
              "operation sequences) + model/implementation correspondence on Vec- and SmallVec-backed deques",
    design_ref="DESIGN.md section 5, C15",
    level_text=("Kernel-checked theorems about a Lean model of sliding_deque::SlidingDeque (Woodpile.SlidingDeque: every public "
                "method incl. maybe_slide/slide and every check_rep evaluation, panics = none) for every element type and every "
                "operation sequence: each operation returns what a reference List deque returns and leaves the same view "
                "(refines_list), the invariant consumed <= len/2 and (empty -> consumed = 0) is exactly check_rep and is preserved "
                "(rep_inv), hence no check_rep or bounds check fails (no_panic), lifted to all operation lists from new()/From "
                "(run_refines_list). The model is tied to /repo by running the real SlidingVec<u32> and SlidingSmallVec<[u32;4]> "
                "and the compiled model on all op sequences up to length 6 (7 thorough) over an 11-symbol alphabet plus random "
                "sequences up to 200 ops and diffing return values, slice views and lengths; a direct oracle compares both real "
                "deques with std VecDeque and checks the space bound on the real representation."),
    level_note=("Trusted: Lean kernel + 3 standard axioms; the correspondence harness and its generators; Vec/SmallVec behind "
                "PushTruncateContainer (push/pop/truncate/slice) are modelled as a List. The space bound is not observable through "
                "the public API proper: the harness is built with debug assertions on, so a violation is a check_rep panic "
                "(reported as an oracle violation), and it is additionally read off the derived Debug output when that has the "
                "expected shape."),
    trusted_base=["std Vec / smallvec SmallVec implement push, pop, truncate and slices as a sequence (PushTruncateContainer)"],
    assumptions=["64-bit usize (lengths and advance counts are unbounded naturals in the model)",
                 "slide() is modelled as compiled with debug assertions; the release-build early return yields the same state"],
)

SPECS["C16"] = dict(
    title="SortedDeque behaves like an ordered map with append-only insertion",
    lean_modules=["Woodpile.Props.C16"],
    theorems=[
        "Woodpile.Props.C16.refines_ordered_map",
        "Woodpile.Props.C16.run_refines_ordered_map",
        "Woodpile.Props.C16.run_refines_from_container",
        "Woodpile.Props.C16.no_panic_valid",
        "Woodpile.Props.C16.ends_live",
        "Woodpile.Props.C16.push_panics_iff",
        "Woodpile.Props.C16.erased_push_noop",
        "Woodpile.Props.C16.reference_sorted",
        "Woodpile.Props.C16.present_key_found",
        "Woodpile.Props.C16.removed_key_not_found",
        "Woodpile.Props.C16.first_last_extreme",
        "Woodpile.Props.C16.pair_convention_lawful",
        "Woodpile.Props.C16.whole_item_lawful_of_distinct_keys",
        "Woodpile.Props.C16.whole_item_needs_distinct_keys",
        "Woodpile.Props.C16.pair_run_refines",
    ],
    families=[dict(name="sorted", quick=4000, thorough=200000)],
    technique="Lean 4 proof (ghost-list representation invariant, correctness of the modelled std binary search on sorted "
              "lists, per-operation refinement of a sorted association list, induction over operation sequences) + "
              "model/implementation correspondence for both item conventions on Vec- and SmallVec-backed deques",
    design_ref="DESIGN.md section 5, C16",
    level_text=("Kernel-checked theorems about a Lean model of sliding_deque::SortedDeque (Woodpile.SortedDeque, layered on the "
                "C15 SlidingDeque model; both check_reps, the push assertion, cleanup_front/back, and slice::binary_search_by "
                "written out as core 1.95 implements it and proved correct on sorted lists), generic in a comparator record whose "
                "laws are explicit hypotheses: for every valid operation sequence the results equal those of a reference ordered "
                "map (sorted list of present items), the run panics iff a push is not strictly greater than the last item, erased "
                "pushes are no-ops, both ends stay live; the reference is sorted, finds present keys, never finds removed ones, and "
                "first/last are min/max. The (Key, Option<Value>) convention satisfies the laws; whole-item ordering does when keys "
                "in play are distinct, and a proved counter-example shows the law is necessary (observation O2). The model is tied "
                "to /repo by running the real SortedDeque (pairs and a whole-item type, Vec and SmallVec<[_;4]>) and the compiled "
                "model on all sequences up to length 5 (6 thorough) over a 13-symbol/4-key alphabet plus random histories up to "
                "200 ops, diffing results, iteration, first/last/is_empty and probe lookups after every op; a direct oracle compares "
                "with std BTreeMap and checks that exactly the order-violating pushes panic."),
    level_note=("Trusted: Lean kernel + 3 standard axioms; the correspondence harness and its generators. std's "
                "binary_search_by is re-modelled from its source (core 1.95), not verified against the compiled std; the "
                "theorems only need it to be a correct search on sorted slices. For whole-item ordering the theorem covers "
                "histories whose live pushes have distinct keys (a fixed key -> item assignment); the harness stays in that "
                "regime and silences the oracle outside it."),
    trusted_base=["std slice::binary_search_by behaves as its core 1.95 source (re-modelled in Woodpile.SortedDeque.binarySearchBy)",
                  "std Vec / smallvec SmallVec implement push, pop, truncate and slices as a sequence (PushTruncateContainer)"],
    assumptions=["64-bit usize (cleanup_front's usize::MAX default is 2^64-1 in the model; lengths are unbounded naturals)",
                 "SortedDeque::new(container, marker) is given a strictly sorted container with live ends (it is not checked by the code)"],
)

"""Per-property check specifications (read by tools/checklib.py and tools/gen_manifest.py).

`theorems` is the pinned list: the check fails if a pinned theorem disappears,
if a Props module declares a theorem that is not pinned, or if `#print axioms`
of any of them leaves {propext, Classical.choice, Quot.sound}.
"""

TB_STD = [
    "std / smallvec / time crates are modelled, not verified",
]

SPECS = {}

SPECS["C17"] = dict(
    title="Arena reads return exactly what the reader delivered, under any I/O faults",
    lean_modules=["Woodpile.Props.C17"],
    theorems=[
        "Woodpile.Props.C17.count0_no_read",
        "Woodpile.Props.C17.calls_le_attempts",
        "Woodpile.Props.C17.read_n_spec",
        "Woodpile.Props.C17.read_n_releases_unread",
    ],
    families=[dict(name="readn", quick=3000, thorough=400000)],
    technique="Lean 4 proof (induction over the retry loop, all reader scripts) + model/implementation correspondence",
    design_ref="DESIGN.md section 5, C17",
    level_text=("Kernel-checked theorems about a Lean model of ByteArena::read_n/read_n_impl (Woodpile.ReadN) for every reader "
                "script, count, attempt limit and arena state: call bound, request sizes, stop conditions, delivered-prefix, "
                "ok/err verdict, count=0, release of the unread tail. The model is tied to /repo by running the real read_n "
                "(scripted Read impl) and the compiled model on the same enumerated + random op sequences and diffing "
                "results, request sizes and arena.remaining(); a direct oracle re-checks the property on the real calls."),
    level_note=("Trusted: Lean kernel + 3 standard axioms; the correspondence harness and its generators; readers that "
                "return more than the buffer length are outside the model (Read's contract). Encoder/Decoder-level "
                "encode_read/decode_read are covered through the hcobs families."),
    trusted_base=["Rust std::io::Read contract (a reader never reports more bytes than the buffer holds)"],
    assumptions=["64-bit usize; allocation failure (OOM abort) not modelled"],
)

# ---- track abt: AtomicBaseTime (C13, C18) -----------------------------------------------------------
_ABT_TRUST = ("Partial by nature: the theorems are about two memory-model MACHINES (sequentially consistent interleaving; a "
              "release/acquire view machine with per-location message lists and per-thread views) running hand-written thread "
              "programs; that the view machine renders the Rust/C++20 memory model for this access pattern, and that one atomic "
              "access = one step, are trusted. The programs are tied to /repo by hook H3: every access of the real "
              "snapshot/update/try_update/get_base_time_unlocked (location, kind, ORDERING, value stored, retry rule, lock "
              "operations) is compared with the model's trace for every control path (trace validation), whole executions "
              "(schedules x reads-from from the harness's own RA simulator) are replayed step by step on the Lean machines, and a "
              "bounded exhaustive schedule x reads-from search on the real functions looks for a failing execution (used only to "
              "find inputs, never as proof). Sequence-counter wrap-around after 2^64 updates is excluded (seq is a Nat).")

SPECS["C13"] = dict(
    title="AtomicBaseTime snapshots are never torn and never go backwards, on any schedule",
    lean_modules=["Woodpile.Props.C13"],
    theorems=[
        "Woodpile.Props.C13.sc_invariant",
        "Woodpile.Props.C13.sc_hist_is_accepted_updates",
        "Woodpile.Props.C13.sc_snapshot_not_torn",
        "Woodpile.Props.C13.sc_snapshot_in_history",
        "Woodpile.Props.C13.sc_no_panic",
        "Woodpile.Props.C13.sc_history_valid",
        "Woodpile.Props.C13.sc_recent",
        "Woodpile.Props.C13.sc_per_thread_monotone",
        "Woodpile.Props.C13.sc_published_monotone",
        "Woodpile.Props.C13.sc_stale_update_ignored",
        "Woodpile.Props.C13.ra_invariant",
        "Woodpile.Props.C13.ra_hist_is_accepted_updates",
        "Woodpile.Props.C13.ra_snapshot_not_torn",
        "Woodpile.Props.C13.ra_snapshot_in_history",
        "Woodpile.Props.C13.ra_no_panic",
        "Woodpile.Props.C13.ra_history_valid",
        "Woodpile.Props.C13.ra_start_records_view",
        "Woodpile.Props.C13.ra_recent",
        "Woodpile.Props.C13.ra_per_thread_monotone",
        "Woodpile.Props.C13.ra_published_monotone",
        "Woodpile.Props.C13.ra_stale_update_ignored",
    ],
    families=[dict(name="abt", quick=1500, thorough=60000)],
    vtags=["C13"],
    technique="Lean 4 proof (inductive invariant over all schedules / reads-from choices of an SC machine and a release/acquire "
              "view machine, any number of threads and operations) + H3 trace validation of the real functions + bounded RA exploration oracle",
    design_ref="DESIGN.md section 5 C13, section 3.5 (H3), appendix A.3",
    level_text=("Kernel-checked theorems about Lean small-step models of AtomicBaseTime::{snapshot, update, try_update, advance_once} "
                "(one atomic access or lock operation per step, with the code's locations and orderings) on a sequentially consistent "
                "machine and on a release/acquire view machine, for every schedule, every reads-from choice, any number of threads and "
                "operations: inductive invariant, snapshots never torn / always a published pair or the epoch pair / never panic / at "
                "least as recent as every update that happened-before the snapshot began, per-thread monotone, stale updates ignored."),
    level_note=_ABT_TRUST,
    trusted_base=["the release/acquire view machine as a rendering of the Rust memory model for the orderings used (DESIGN.md section 8)",
                  "hook H3 (verif_shim) reports every access of atomic_base_time.rs faithfully; std::sync::Mutex provides mutual exclusion and release/acquire transfer"],
    assumptions=["sequence counter does not wrap (fewer than 2^64 accepted updates)", "64-bit usize"],
)

SPECS["C18"] = dict(
    title="AtomicBaseTime readers and try_update never wait for a writer",
    lean_modules=["Woodpile.Props.C18"],
    theorems=[
        "Woodpile.Props.C18.snapshot_no_lock",
        "Woodpile.Props.C18.sc_only_update_lock_blocks",
        "Woodpile.Props.C18.sc_try_update_nonblocking",
        "Woodpile.Props.C18.try_update_bounded",
        "Woodpile.Props.C18.sc_solo_snapshot_terminates",
        "Woodpile.Props.C18.sc_retry_only_on_publish",
        "Woodpile.Props.C18.ra_only_update_lock_blocks",
        "Woodpile.Props.C18.ra_try_update_nonblocking",
        "Woodpile.Props.C18.ra_solo_snapshot_terminates",
        "Woodpile.Props.C18.ra_retry_only_on_publish",
        "Woodpile.Props.C18.unlocked_inherits",
    ],
    families=[dict(name="abt", quick=1500, thorough=60000)],
    vtags=["C18"],
    technique="Lean 4 proof (termination measure for a reader run alone from any reachable state of the SC / release-acquire "
              "machines with writers frozen anywhere) + H3 trace validation + suspension-point enumeration on the real functions",
    design_ref="DESIGN.md section 5 C18, section 3.5 (H3), appendix A.3",
    level_text=("Kernel-checked theorems about the same models as C13: the snapshot program contains no lock operation and no store; "
                "from any reachable state, with every other thread frozen anywhere (including a writer holding the lock forever), a "
                "reader run alone finishes within a bound on its own steps; a retry implies a newer sequence message; try_update "
                "returns false in one step when the lock is held; get_base_time_unlocked is snapshot."),
    level_note=_ABT_TRUST + " Boundedness is in the model's steps (atomic operations of the thread itself); OS scheduling fairness is outside any model.",
    trusted_base=["the release/acquire view machine as a rendering of the Rust memory model for the orderings used (DESIGN.md section 8)",
                  "hook H3 (verif_shim) reports every access of atomic_base_time.rs faithfully"],
    assumptions=["sequence counter does not wrap (fewer than 2^64 accepted updates)", "64-bit usize"],
)
